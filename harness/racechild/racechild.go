// Package racechild runs a monitor's concurrent sub-workload in a second,
// -race-built copy of the harness binary and collects the race detector's
// reports. The registered binary is not a race build; ./check builds
// vcheck-race next to it for the properties that need it.
package racechild

import (
	"context"
	"fmt"
	"os"
	"os/exec"
	"path/filepath"
	"sort"
	"strings"
	"time"

	"verif/harness/ev"
)

// Block is one "WARNING: DATA RACE" report.
type Block struct {
	Text    string
	Lib     []string // function frames in deps.dev/...
	Harness int      // function frames in verif/harness/...
}

// Key identifies a report by its deps.dev frames with line numbers stripped
// (reports vary between runs; this is the deduplication key).
func (b Block) Key() string {
	fs := append([]string(nil), b.Lib...)
	sort.Strings(fs)
	return strings.Join(fs, " | ")
}

// Find locates the -race binary: the running binary if it is one, else
// $VERIF_BUILD/vcheck-race or $VERIF_BUILD/devNN-race.
func Find(raceEnabled bool, devName string) string {
	if raceEnabled {
		if exe, err := os.Executable(); err == nil {
			return exe
		}
	}
	b := os.Getenv("VERIF_BUILD")
	if b == "" {
		b = filepath.Join(ev.Root, "build")
	}
	cands := []string{"vcheck-race", devName + "-race"}
	if strings.HasPrefix(filepath.Base(os.Args[0]), devName) {
		cands = []string{devName + "-race", "vcheck-race"}
	}
	for _, c := range cands {
		p := filepath.Join(b, c)
		if st, err := os.Stat(p); err == nil && !st.IsDir() {
			return p
		}
	}
	return ""
}

// Result of a child run.
type Result struct {
	Ran     bool
	Output  string
	Blocks  []Block
	Skipped string // non-empty: why the child did not run
	Timeout bool
}

// Run starts bin for property prop with envKey=1 (telling the monitor to run
// only its concurrent sub-workload), GORACE halt_on_error=0 and a log path,
// and parses the race logs. A generous watchdog guards the child; its firing
// is reported as Timeout (inconclusive), never as a violation.
func Run(r *ev.Run, bin, prop, envKey string, extraEnv ...string) Result {
	if bin == "" {
		return Result{Skipped: "no -race binary ($VERIF_BUILD/vcheck-race); run through ./check"}
	}
	args := []string{r.Tier}
	if strings.HasPrefix(filepath.Base(bin), "vcheck") {
		args = []string{prop, r.Tier}
	}
	base := os.Getenv("VERIF_BUILD")
	if base == "" {
		base = filepath.Join(ev.Root, "build")
	}
	dir := filepath.Join(base, "race", fmt.Sprintf("%s-%d-%d", prop, r.Seed, os.Getpid()))
	os.RemoveAll(dir)
	if err := os.MkdirAll(dir, 0o755); err != nil {
		return Result{Skipped: "race log dir: " + err.Error()}
	}
	defer os.RemoveAll(dir)
	ctx, cancel := context.WithTimeout(context.Background(), 25*time.Minute)
	defer cancel()
	cmd := exec.CommandContext(ctx, bin, args...)
	for _, e := range os.Environ() {
		if strings.HasPrefix(e, "GORACE=") || strings.HasPrefix(e, envKey+"=") {
			continue
		}
		cmd.Env = append(cmd.Env, e)
	}
	cmd.Env = append(cmd.Env, envKey+"=1",
		"GORACE=halt_on_error=0 log_path="+filepath.Join(dir, "race"),
		fmt.Sprintf("VERIF_SEED=%d", r.Seed), "VERIF_TIER="+r.Tier)
	cmd.Env = append(cmd.Env, extraEnv...)
	out, _ := cmd.CombinedOutput()
	res := Result{Ran: true, Output: string(out)}
	if ctx.Err() != nil {
		res.Timeout = true
	}
	res.Blocks = parseLogs(dir)
	return res
}

func parseLogs(dir string) []Block {
	files, _ := filepath.Glob(filepath.Join(dir, "race.*"))
	sort.Strings(files)
	var out []Block
	for _, f := range files {
		b, err := os.ReadFile(f)
		if err != nil {
			continue
		}
		var cur *Block
		flush := func() {
			if cur != nil {
				out = append(out, *cur)
				cur = nil
			}
		}
		for _, line := range strings.Split(string(b), "\n") {
			t := strings.TrimSpace(line)
			if strings.HasPrefix(t, "WARNING: DATA RACE") {
				flush()
				cur = &Block{}
			}
			if cur == nil {
				continue
			}
			if strings.HasPrefix(t, "==================") {
				flush()
				continue
			}
			cur.Text += line + "\n"
			if strings.HasSuffix(t, ")") && !strings.HasPrefix(t, "/") {
				switch {
				case strings.HasPrefix(t, "deps.dev/"):
					fn := t
					if i := strings.LastIndex(fn, "("); i > 0 {
						fn = fn[:i]
					}
					cur.Lib = append(cur.Lib, fn)
				case strings.HasPrefix(t, "verif/harness/"):
					cur.Harness++
				}
			}
		}
		flush()
	}
	return out
}
