package c17

// A proto3 declaration parser: tokeniser plus recursive descent for exactly the
// constructs listed in errNotUnderstood's callers. There is no protoc in the
// image; the parser is validated by reproducing the embedded descriptors of the
// unchanged tree element by element. Anything outside the understood subset is
// reported as *notUnderstood, which the monitor turns into "inconclusive" and
// never into a pass.

import (
	"fmt"
	"strconv"
	"strings"
)

type notUnderstood struct {
	Line int
	What string
}

func (e *notUnderstood) Error() string {
	return fmt.Sprintf("line %d: %s", e.Line, e.What)
}

// ---- declaration tree ----

type srcFile struct {
	Syntax   string
	Package  string
	Imports  []srcImport
	Options  []srcOption
	Messages []*srcMessage
	Enums    []*srcEnum
	Services []*srcService
	Comments int
}

type srcImport struct {
	Path     string
	Modifier string // "", "public", "weak"
	Line     int
}

// srcConst is an option value.
type srcConst struct {
	Kind string // "ident", "int", "float", "string", "aggregate"
	Text string // identifier, decimal integer, float text, or the string's value
	Agg  []aggField
}

// aggField is one entry of a text-format aggregate ({ name: value ... }).
type aggField struct {
	Name   string
	Scalar *srcConst
	Msg    []aggField
	IsMsg  bool
	Line   int
}

type srcOption struct {
	Name  string // "go_package", or the extension's name without parentheses/leading dot
	Ext   bool
	Value srcConst
	Line  int
}

type srcRange struct{ Lo, Hi int64 } // inclusive; Hi == -1 means "max"

type srcMessage struct {
	Name          string
	Fields        []*srcField // declaration order, oneof members in place
	Oneofs        []*srcOneof
	Messages      []*srcMessage
	Enums         []*srcEnum
	Reserved      []srcRange
	ReservedNames []string
	Options       []srcOption
	Line          int
}

type srcOneof struct {
	Name    string
	Options []srcOption
	Line    int
}

type srcField struct {
	Name    string
	Number  int64
	Label   string // "", "optional", "repeated"
	Type    string // as written
	IsMap   bool
	MapKey  string
	MapVal  string
	Oneof   string
	Options []srcOption
	Line    int
}

type srcEnumValue struct {
	Name    string
	Number  int64
	Options []srcOption
	Line    int
}

type srcEnum struct {
	Name          string
	Values        []srcEnumValue
	Reserved      []srcRange
	ReservedNames []string
	Options       []srcOption
	Line          int
}

type srcMethod struct {
	Name         string
	In, Out      string
	ClientStream bool
	ServerStream bool
	Options      []srcOption
	Line         int
}

type srcService struct {
	Name    string
	Methods []*srcMethod
	Options []srcOption
	Line    int
}

// ---- tokeniser ----

type tokKind int

const (
	tEOF tokKind = iota
	tIdent
	tInt
	tFloat
	tString
	tSym
)

type token struct {
	kind tokKind
	text string // identifier, number text, decoded string value, or the symbol
	line int
}

func isLetter(c byte) bool {
	return c == '_' || (c >= 'a' && c <= 'z') || (c >= 'A' && c <= 'Z')
}
func isDigit(c byte) bool { return c >= '0' && c <= '9' }

func isHex(c byte) bool {
	return isDigit(c) || (c >= 'a' && c <= 'f') || (c >= 'A' && c <= 'F')
}

func tokenise(src string) ([]token, int, error) {
	var toks []token
	line := 1
	comments := 0
	i := 0
	for i < len(src) {
		c := src[i]
		switch {
		case c == '\n':
			line++
			i++
		case c == ' ' || c == '\t' || c == '\r' || c == '\f' || c == '\v':
			i++
		case c == '/' && i+1 < len(src) && src[i+1] == '/':
			for i < len(src) && src[i] != '\n' {
				i++
			}
			comments++
		case c == '/' && i+1 < len(src) && src[i+1] == '*':
			j := strings.Index(src[i+2:], "*/")
			if j < 0 {
				return nil, 0, &notUnderstood{line, "unterminated block comment"}
			}
			line += strings.Count(src[i:i+2+j+2], "\n")
			i += 2 + j + 2
			comments++
		case isLetter(c):
			j := i
			for j < len(src) && (isLetter(src[j]) || isDigit(src[j])) {
				j++
			}
			toks = append(toks, token{tIdent, src[i:j], line})
			i = j
		case isDigit(c) || (c == '.' && i+1 < len(src) && isDigit(src[i+1])):
			j := i
			isFloat := false
			if c == '0' && j+1 < len(src) && (src[j+1] == 'x' || src[j+1] == 'X') {
				j += 2
				for j < len(src) && isHex(src[j]) {
					j++
				}
			} else {
				for j < len(src) && isDigit(src[j]) {
					j++
				}
				if j < len(src) && src[j] == '.' {
					isFloat = true
					j++
					for j < len(src) && isDigit(src[j]) {
						j++
					}
				}
				if j < len(src) && (src[j] == 'e' || src[j] == 'E') {
					k := j + 1
					if k < len(src) && (src[k] == '+' || src[k] == '-') {
						k++
					}
					if k < len(src) && isDigit(src[k]) {
						isFloat = true
						j = k
						for j < len(src) && isDigit(src[j]) {
							j++
						}
					}
				}
			}
			if j < len(src) && isLetter(src[j]) {
				return nil, 0, &notUnderstood{line, "malformed number " + strconv.Quote(src[i:j+1])}
			}
			k := tInt
			if isFloat {
				k = tFloat
			}
			toks = append(toks, token{k, src[i:j], line})
			i = j
		case c == '"' || c == '\'':
			val, n, err := scanString(src[i:], line)
			if err != nil {
				return nil, 0, err
			}
			toks = append(toks, token{tString, val, line})
			i += n
		case strings.IndexByte("{}[]()<>=;,.-+:", c) >= 0:
			toks = append(toks, token{tSym, string(c), line})
			i++
		default:
			return nil, 0, &notUnderstood{line, "unexpected character " + strconv.QuoteRune(rune(c))}
		}
	}
	toks = append(toks, token{tEOF, "", line})
	return toks, comments, nil
}

// scanString decodes one quoted literal at the start of s and returns its value
// and the number of source bytes consumed.
func scanString(s string, line int) (string, int, error) {
	q := s[0]
	var b []byte
	i := 1
	for {
		if i >= len(s) || s[i] == '\n' {
			return "", 0, &notUnderstood{line, "unterminated string literal"}
		}
		c := s[i]
		if c == q {
			return string(b), i + 1, nil
		}
		if c != '\\' {
			b = append(b, c)
			i++
			continue
		}
		i++
		if i >= len(s) {
			return "", 0, &notUnderstood{line, "unterminated escape"}
		}
		e := s[i]
		i++
		switch e {
		case 'a':
			b = append(b, 7)
		case 'b':
			b = append(b, 8)
		case 'f':
			b = append(b, 12)
		case 'n':
			b = append(b, '\n')
		case 'r':
			b = append(b, '\r')
		case 't':
			b = append(b, '\t')
		case 'v':
			b = append(b, 11)
		case '\\', '\'', '"', '?':
			b = append(b, e)
		case 'x', 'X':
			j := i
			for j < len(s) && j < i+2 && isHex(s[j]) {
				j++
			}
			if j == i {
				return "", 0, &notUnderstood{line, "bad \\x escape"}
			}
			v, _ := strconv.ParseUint(s[i:j], 16, 8)
			b = append(b, byte(v))
			i = j
		case '0', '1', '2', '3', '4', '5', '6', '7':
			j := i - 1
			k := j
			for k < len(s) && k < j+3 && s[k] >= '0' && s[k] <= '7' {
				k++
			}
			v, err := strconv.ParseUint(s[j:k], 8, 16)
			if err != nil || v > 255 {
				return "", 0, &notUnderstood{line, "bad octal escape"}
			}
			b = append(b, byte(v))
			i = k
		default:
			// \u, \U and anything else: not needed for declarations; refuse
			// rather than guess.
			return "", 0, &notUnderstood{line, "string escape \\" + string(e) + " not understood"}
		}
	}
}

// ---- parser ----

type parser struct {
	toks []token
	pos  int
}

type parsePanic struct{ err *notUnderstood }

func (p *parser) fail(line int, f string, a ...any) {
	panic(parsePanic{&notUnderstood{line, fmt.Sprintf(f, a...)}})
}

func (p *parser) peek() token { return p.toks[p.pos] }
func (p *parser) peekAt(n int) token {
	if p.pos+n >= len(p.toks) {
		return p.toks[len(p.toks)-1]
	}
	return p.toks[p.pos+n]
}
func (p *parser) next() token {
	t := p.toks[p.pos]
	if t.kind != tEOF {
		p.pos++
	}
	return t
}

func (t token) isSym(s string) bool   { return t.kind == tSym && t.text == s }
func (t token) isIdent(s string) bool { return t.kind == tIdent && t.text == s }

func (t token) String() string {
	switch t.kind {
	case tEOF:
		return "end of file"
	case tString:
		return strconv.Quote(t.text)
	}
	return "'" + t.text + "'"
}

func (p *parser) expectSym(s string) token {
	t := p.next()
	if !t.isSym(s) {
		p.fail(t.line, "expected '%s', found %v", s, t)
	}
	return t
}

func (p *parser) acceptSym(s string) bool {
	if p.peek().isSym(s) {
		p.pos++
		return true
	}
	return false
}

func (p *parser) ident() token {
	t := p.next()
	if t.kind != tIdent {
		p.fail(t.line, "expected identifier, found %v", t)
	}
	return t
}

// fullIdent reads ["."] ident {"." ident}.
func (p *parser) fullIdent() string {
	var b strings.Builder
	if p.acceptSym(".") {
		b.WriteByte('.')
	}
	b.WriteString(p.ident().text)
	for p.peek().isSym(".") && p.peekAt(1).kind == tIdent {
		p.pos++
		b.WriteByte('.')
		b.WriteString(p.ident().text)
	}
	return b.String()
}

func (p *parser) stringLit() string {
	t := p.next()
	if t.kind != tString {
		p.fail(t.line, "expected string literal, found %v", t)
	}
	s := t.text
	for p.peek().kind == tString { // adjacent literals concatenate
		s += p.next().text
	}
	return s
}

// intLit reads an optionally signed integer literal (decimal, hex, octal).
func (p *parser) intLit() int64 {
	neg := false
	if p.acceptSym("-") {
		neg = true
	} else {
		p.acceptSym("+")
	}
	t := p.next()
	if t.kind != tInt {
		p.fail(t.line, "expected integer, found %v", t)
	}
	v, err := strconv.ParseUint(t.text, 0, 64)
	if err != nil || v > 1<<62 {
		p.fail(t.line, "integer %s out of range", t.text)
	}
	if neg {
		return -int64(v)
	}
	return int64(v)
}

func parseProto(src string) (f *srcFile, err error) {
	toks, comments, terr := tokenise(src)
	if terr != nil {
		return nil, terr
	}
	p := &parser{toks: toks}
	defer func() {
		if x := recover(); x != nil {
			pp, ok := x.(parsePanic)
			if !ok {
				panic(x)
			}
			f, err = nil, pp.err
		}
	}()
	f = &srcFile{Comments: comments}
	p.file(f)
	return f, nil
}

func (p *parser) file(f *srcFile) {
	if !p.peek().isIdent("syntax") {
		p.fail(p.peek().line, "file does not start with a syntax statement (proto2 default or editions are not understood)")
	}
	p.next()
	p.expectSym("=")
	line := p.peek().line
	f.Syntax = p.stringLit()
	p.expectSym(";")
	if f.Syntax != "proto3" {
		p.fail(line, "syntax %q not understood (only proto3)", f.Syntax)
	}
	seenPackage := false
	for {
		t := p.peek()
		switch {
		case t.kind == tEOF:
			return
		case t.isSym(";"):
			p.next()
		case t.isIdent("import"):
			p.next()
			im := srcImport{Line: t.line}
			if p.peek().isIdent("public") || p.peek().isIdent("weak") {
				im.Modifier = p.next().text
			}
			im.Path = p.stringLit()
			p.expectSym(";")
			f.Imports = append(f.Imports, im)
		case t.isIdent("package"):
			p.next()
			if seenPackage {
				p.fail(t.line, "second package statement")
			}
			seenPackage = true
			f.Package = p.fullIdent()
			if strings.HasPrefix(f.Package, ".") {
				p.fail(t.line, "package name starts with a dot")
			}
			p.expectSym(";")
		case t.isIdent("option"):
			f.Options = append(f.Options, p.optionStmt())
		case t.isIdent("message"):
			f.Messages = append(f.Messages, p.message())
		case t.isIdent("enum"):
			f.Enums = append(f.Enums, p.enum())
		case t.isIdent("service"):
			f.Services = append(f.Services, p.service())
		default:
			p.fail(t.line, "top-level statement starting with %v not understood", t)
		}
	}
}

// optionName reads ident or "(" fullIdent ")"; dotted sub-field paths are refused.
func (p *parser) optionName() (string, bool) {
	if p.acceptSym("(") {
		n := p.fullIdent()
		p.expectSym(")")
		if p.peek().isSym(".") {
			p.fail(p.peek().line, "option sub-field path after (%s) not understood", n)
		}
		return strings.TrimPrefix(n, "."), true
	}
	t := p.ident()
	if p.peek().isSym(".") {
		p.fail(t.line, "dotted option name %s... not understood", t.text)
	}
	return t.text, false
}

func (p *parser) optionStmt() srcOption {
	t := p.next() // "option"
	o := srcOption{Line: t.line}
	o.Name, o.Ext = p.optionName()
	p.expectSym("=")
	o.Value = p.constant()
	p.expectSym(";")
	return o
}

// bracketOptions reads "[" name "=" const {"," ...} "]" if present.
func (p *parser) bracketOptions() []srcOption {
	if !p.acceptSym("[") {
		return nil
	}
	var out []srcOption
	for {
		o := srcOption{Line: p.peek().line}
		o.Name, o.Ext = p.optionName()
		p.expectSym("=")
		o.Value = p.constant()
		out = append(out, o)
		if p.acceptSym(",") {
			continue
		}
		p.expectSym("]")
		return out
	}
}

func (p *parser) constant() srcConst {
	t := p.peek()
	switch {
	case t.isSym("{"):
		p.next()
		return srcConst{Kind: "aggregate", Agg: p.aggregate("}")}
	case t.kind == tString:
		return srcConst{Kind: "string", Text: p.stringLit()}
	case t.kind == tIdent:
		return srcConst{Kind: "ident", Text: p.fullIdent()}
	case t.isSym("-") || t.isSym("+") || t.kind == tInt || t.kind == tFloat:
		sign := ""
		if t.kind == tSym {
			p.next()
			if t.text == "-" {
				sign = "-"
			}
		}
		n := p.next()
		switch n.kind {
		case tInt:
			v, err := strconv.ParseUint(n.text, 0, 64)
			if err != nil {
				p.fail(n.line, "integer %s out of range", n.text)
			}
			return srcConst{Kind: "int", Text: sign + strconv.FormatUint(v, 10)}
		case tFloat:
			return srcConst{Kind: "float", Text: sign + n.text}
		case tIdent:
			if n.text == "inf" || n.text == "nan" {
				return srcConst{Kind: "float", Text: sign + n.text}
			}
		}
		p.fail(n.line, "expected number after sign, found %v", n)
	}
	p.fail(t.line, "option value starting with %v not understood", t)
	return srcConst{}
}

// aggregate reads text-format fields up to the closing delimiter (consumed).
func (p *parser) aggregate(closer string) []aggField {
	var out []aggField
	for {
		t := p.peek()
		if t.isSym(closer) {
			p.next()
			return out
		}
		if t.isSym("[") {
			p.fail(t.line, "extension or Any field inside an aggregate option not understood")
		}
		name := p.ident()
		f := aggField{Name: name.text, Line: name.line}
		hasColon := p.acceptSym(":")
		switch nt := p.peek(); {
		case nt.isSym("{"):
			p.next()
			f.IsMsg, f.Msg = true, p.aggregate("}")
		case nt.isSym("<"):
			p.next()
			f.IsMsg, f.Msg = true, p.aggregate(">")
		case nt.isSym("["):
			p.fail(nt.line, "list value inside an aggregate option not understood")
		default:
			if !hasColon {
				p.fail(nt.line, "expected ':' after %s in aggregate option", name.text)
			}
			c := p.constant()
			f.Scalar = &c
		}
		out = append(out, f)
		if !p.acceptSym(",") {
			p.acceptSym(";")
		}
	}
}

func (p *parser) reserved() ([]srcRange, []string) {
	t := p.next() // "reserved"
	var rs []srcRange
	var names []string
	if p.peek().kind == tString {
		for {
			names = append(names, p.stringLit())
			if !p.acceptSym(",") {
				break
			}
		}
	} else {
		for {
			lo := p.intLit()
			r := srcRange{lo, lo}
			if p.peek().isIdent("to") {
				p.next()
				if p.peek().isIdent("max") {
					p.next()
					r.Hi = -1
				} else {
					r.Hi = p.intLit()
				}
			}
			rs = append(rs, r)
			if !p.acceptSym(",") {
				break
			}
		}
	}
	if len(rs) == 0 && len(names) == 0 {
		p.fail(t.line, "empty reserved statement")
	}
	p.expectSym(";")
	return rs, names
}

func (p *parser) message() *srcMessage {
	t := p.next() // "message"
	m := &srcMessage{Line: t.line}
	m.Name = p.ident().text
	p.expectSym("{")
	for {
		t := p.peek()
		switch {
		case t.kind == tEOF:
			p.fail(t.line, "message %s not closed", m.Name)
		case t.isSym("}"):
			p.next()
			return m
		case t.isSym(";"):
			p.next()
		case t.isIdent("message") && p.peekAt(1).kind == tIdent && p.peekAt(2).isSym("{"):
			m.Messages = append(m.Messages, p.message())
		case t.isIdent("enum") && p.peekAt(1).kind == tIdent && p.peekAt(2).isSym("{"):
			m.Enums = append(m.Enums, p.enum())
		case t.isIdent("option"): // protoc, too, reads a statement starting with "option" as an option
			m.Options = append(m.Options, p.optionStmt())
		case t.isIdent("oneof") && p.peekAt(1).kind == tIdent && p.peekAt(2).isSym("{"):
			p.oneof(m)
		case t.isIdent("reserved") && (p.peekAt(1).kind == tInt || p.peekAt(1).kind == tString):
			rs, ns := p.reserved()
			m.Reserved = append(m.Reserved, rs...)
			m.ReservedNames = append(m.ReservedNames, ns...)
		case t.isIdent("extensions"), t.isIdent("extend"), t.isIdent("group"), t.isIdent("required"):
			p.fail(t.line, "'%s' in message %s not understood (not proto3)", t.text, m.Name)
		default:
			m.Fields = append(m.Fields, p.field("", true))
		}
	}
}

func (p *parser) oneof(m *srcMessage) {
	t := p.next() // "oneof"
	o := &srcOneof{Line: t.line}
	o.Name = p.ident().text
	p.expectSym("{")
	n := 0
	for {
		t := p.peek()
		switch {
		case t.kind == tEOF:
			p.fail(t.line, "oneof %s not closed", o.Name)
		case t.isSym("}"):
			p.next()
			if n == 0 {
				p.fail(t.line, "oneof %s has no fields", o.Name)
			}
			m.Oneofs = append(m.Oneofs, o)
			return
		case t.isSym(";"):
			p.next()
		case t.isIdent("option"):
			o.Options = append(o.Options, p.optionStmt())
		case t.isIdent("group"):
			p.fail(t.line, "group in oneof not understood")
		default:
			m.Fields = append(m.Fields, p.field(o.Name, false))
			n++
		}
	}
}

// typeName reads a scalar keyword or a possibly dotted, possibly absolute name.
func (p *parser) typeName() string {
	return p.fullIdent()
}

func (p *parser) field(oneof string, labelsAllowed bool) *srcField {
	t := p.peek()
	f := &srcField{Line: t.line, Oneof: oneof}
	// Like protoc, a statement starting with one of the label words has a label.
	if t.isIdent("repeated") || t.isIdent("optional") {
		if !labelsAllowed {
			p.fail(t.line, "label %s inside a oneof", t.text)
		}
		f.Label = p.next().text
	}
	if p.peek().isIdent("map") && p.peekAt(1).isSym("<") {
		if f.Label != "" {
			p.fail(t.line, "label on a map field")
		}
		if oneof != "" {
			p.fail(t.line, "map field inside a oneof")
		}
		p.next()
		p.next()
		f.IsMap = true
		f.MapKey = p.typeName()
		p.expectSym(",")
		f.MapVal = p.typeName()
		p.expectSym(">")
	} else {
		f.Type = p.typeName()
	}
	f.Name = p.ident().text
	p.expectSym("=")
	f.Number = p.intLit()
	f.Options = p.bracketOptions()
	p.expectSym(";")
	return f
}

func (p *parser) enum() *srcEnum {
	t := p.next() // "enum"
	e := &srcEnum{Line: t.line}
	e.Name = p.ident().text
	p.expectSym("{")
	for {
		t := p.peek()
		switch {
		case t.kind == tEOF:
			p.fail(t.line, "enum %s not closed", e.Name)
		case t.isSym("}"):
			p.next()
			if len(e.Values) == 0 {
				p.fail(t.line, "enum %s has no values", e.Name)
			}
			return e
		case t.isSym(";"):
			p.next()
		case t.isIdent("option"):
			e.Options = append(e.Options, p.optionStmt())
		case t.isIdent("reserved") && (p.peekAt(1).kind == tInt || p.peekAt(1).kind == tString || p.peekAt(1).isSym("-")):
			rs, ns := p.reserved()
			e.Reserved = append(e.Reserved, rs...)
			e.ReservedNames = append(e.ReservedNames, ns...)
		default:
			v := srcEnumValue{Line: t.line}
			v.Name = p.ident().text
			p.expectSym("=")
			v.Number = p.intLit()
			v.Options = p.bracketOptions()
			p.expectSym(";")
			e.Values = append(e.Values, v)
		}
	}
}

func (p *parser) service() *srcService {
	t := p.next() // "service"
	s := &srcService{Line: t.line}
	s.Name = p.ident().text
	p.expectSym("{")
	for {
		t := p.peek()
		switch {
		case t.kind == tEOF:
			p.fail(t.line, "service %s not closed", s.Name)
		case t.isSym("}"):
			p.next()
			return s
		case t.isSym(";"):
			p.next()
		case t.isIdent("option"):
			s.Options = append(s.Options, p.optionStmt())
		case t.isIdent("rpc"):
			s.Methods = append(s.Methods, p.rpc())
		default:
			p.fail(t.line, "statement starting with %v in service %s not understood", t, s.Name)
		}
	}
}

func (p *parser) rpc() *srcMethod {
	t := p.next() // "rpc"
	m := &srcMethod{Line: t.line}
	m.Name = p.ident().text
	p.expectSym("(")
	if p.peek().isIdent("stream") && (p.peekAt(1).kind == tIdent || p.peekAt(1).isSym(".")) {
		p.next()
		m.ClientStream = true
	}
	m.In = p.typeName()
	p.expectSym(")")
	if r := p.next(); !r.isIdent("returns") {
		p.fail(r.line, "expected 'returns', found %v", r)
	}
	p.expectSym("(")
	if p.peek().isIdent("stream") && (p.peekAt(1).kind == tIdent || p.peekAt(1).isSym(".")) {
		p.next()
		m.ServerStream = true
	}
	m.Out = p.typeName()
	p.expectSym(")")
	if p.acceptSym(";") {
		return m
	}
	p.expectSym("{")
	for {
		t := p.peek()
		switch {
		case t.kind == tEOF:
			p.fail(t.line, "rpc %s not closed", m.Name)
		case t.isSym("}"):
			p.next()
			return m
		case t.isSym(";"):
			p.next()
		case t.isIdent("option"):
			m.Options = append(m.Options, p.optionStmt())
		default:
			p.fail(t.line, "statement starting with %v in rpc %s not understood", t, m.Name)
		}
	}
}
