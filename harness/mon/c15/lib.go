package c15

import (
	"context"
	"encoding/xml"
	"fmt"
	"os"
	"path/filepath"

	"deps.dev/util/maven"
	"verif/harness/mon/c15/mpr"
)

// The library side. The pipeline below is kept textually parallel to
// /repo/examples/go/maven_parse_resolve/main.go (mergeParents, fetchProject,
// the ProcessDependencies call) and to resolve.APIClient.mavenRequirements,
// from which the "root's own profiles first" step is taken. The only change is
// that fetchProject reads <repo>/<g>/<a>/<v>/pom.xml instead of Maven Central.

type libPipeline struct {
	repo string
}

// fetchProject reads the Maven project specified by the ProjectKey from the
// scratch repository, and then parses it.
func (lp *libPipeline) fetchProject(pk maven.ProjectKey) (maven.Project, error) {
	g, a, v := string(pk.GroupID), string(pk.ArtifactID), string(pk.Version)
	f, err := os.Open(filepath.Join(lp.repo, g, a, v, "pom.xml"))
	if err != nil {
		return maven.Project{}, fmt.Errorf("failed to open: %v", err)
	}
	defer f.Close()
	var proj maven.Project
	if err := xml.NewDecoder(f).Decode(&proj); err != nil {
		return maven.Project{}, fmt.Errorf("failed to decode Maven project: %w", err)
	}
	return proj, nil
}

// mergeParents is the example's own function (verbatim copy regenerated from
// the tree under test at build time, package mpr) reading the scratch repository.
func (lp *libPipeline) mergeParents(current maven.ProjectKey, start int, result *maven.Project) error {
	return mpr.MergeParents(mpr.WithRepo(context.Background(), lp.repo), current, start, result)
}

// effective runs the documented pipeline on the pom file and returns the
// processed project.
func (lp *libPipeline) effective(rootPom string) (project maven.Project, stage string, err error) {
	defer func() {
		if p := recover(); p != nil {
			stage, err = "panic", fmt.Errorf("panic: %v", p)
		}
	}()
	f, err := os.Open(rootPom)
	if err != nil {
		return project, "open", err
	}
	defer f.Close()
	if err := xml.NewDecoder(f).Decode(&project); err != nil {
		return project, "decode", err
	}
	// The project's own activated profiles are merged first (mavenRequirements).
	if err := project.MergeProfiles(maven.JDKProfileActivation, maven.OSProfileActivation); err != nil {
		return project, "profiles", err
	}
	// Fetch parent POM files, and then merge recursively.
	// For profiles, activated ones are merged too.
	if err := lp.mergeParents(project.Parent.ProjectKey, 1, &project); err != nil {
		return project, "parents", err
	}
	// Processing dependencies includes the following actions.
	// First, dedupe dependencies and dependency management.
	// Second, import dependency management.
	// Finally fill in missing dependency version requirement.
	project.ProcessDependencies(func(groupID, artifactID, version maven.String) (maven.DependencyManagement, error) {
		var result maven.Project
		root := maven.ProjectKey{GroupID: groupID, ArtifactID: artifactID, Version: version}
		if err := lp.mergeParents(root, 0, &result); err != nil {
			return maven.DependencyManagement{}, err
		}
		return result.DependencyManagement, nil
	})
	return project, "", nil
}

// effectiveCached runs the same pipeline for the project stored under pk, with
// every POM (the project's own included) taken from the cache.
func (lp *libPipeline) effectiveCached(pk maven.ProjectKey, cache *mpr.Cache, alt bool) (project maven.Project, stage string, err error) {
	defer func() {
		if p := recover(); p != nil {
			stage, err = "panic", fmt.Errorf("panic: %v", p)
		}
	}()
	ctx := mpr.WithCache(mpr.WithRepo(context.Background(), lp.repo), cache)
	if project, err = mpr.Fetch(ctx, pk); err != nil {
		return project, "open", err
	}
	jdk, os := maven.JDKProfileActivation, maven.OSProfileActivation
	if alt {
		// Another machine: other profiles are active for the project's own
		// POM. Whatever this run writes must stay in its own copy.
		jdk, os = "1.8.0_292", maven.ActivationOS{Name: "windows 10", Family: "windows", Arch: "x86", Version: "10.0"}
	}
	if err := project.MergeProfiles(jdk, os); err != nil {
		return project, "profiles", err
	}
	if err := mpr.MergeParents(ctx, project.Parent.ProjectKey, 1, &project); err != nil {
		return project, "parents", err
	}
	project.ProcessDependencies(func(groupID, artifactID, version maven.String) (maven.DependencyManagement, error) {
		var result maven.Project
		root := maven.ProjectKey{GroupID: groupID, ArtifactID: artifactID, Version: version}
		if err := mpr.MergeParents(ctx, root, 0, &result); err != nil {
			return maven.DependencyManagement{}, err
		}
		return result.DependencyManagement, nil
	})
	return project, "", nil
}

// Row is one dependency in normal form: group, artifact, version, type,
// classifier, scope, optional, exclusions.
type Row struct {
	F    [7]string
	Excl [][2]string
}

func (r Row) String() string {
	s := fmt.Sprintf("%s:%s:%s type=%s classifier=%s scope=%s optional=%s", r.F[0], r.F[1], r.F[2], r.F[3], r.F[4], r.F[5], r.F[6])
	if len(r.Excl) > 0 {
		s += fmt.Sprintf(" excl=%v", r.Excl)
	}
	return s
}

func (r Row) key() string { return r.F[0] + ":" + r.F[1] + ":" + r.F[3] + ":" + r.F[4] }

// normalise: type "" is jar, optional "" is false, and for dependencies (not
// managed ones, where Maven leaves it unset as well) scope "" is compile.
func normalise(f [7]string, excl [][2]string, managed bool) Row {
	if f[3] == "" {
		f[3] = "jar"
	}
	if f[5] == "" && !managed {
		f[5] = "compile"
	}
	if f[6] == "" {
		f[6] = "false"
	}
	return Row{F: f, Excl: excl}
}

func libRows(ds []maven.Dependency, managed bool) []Row {
	out := make([]Row, 0, len(ds))
	for _, d := range ds {
		var ex [][2]string
		for _, e := range d.Exclusions {
			ex = append(ex, [2]string{string(e.GroupID), string(e.ArtifactID)})
		}
		out = append(out, normalise([7]string{string(d.GroupID), string(d.ArtifactID), string(d.Version), string(d.Type), string(d.Classifier), string(d.Scope), string(d.Optional)}, ex, managed))
	}
	return out
}
