package model

import (
	"sort"
	"strings"

	"deps.dev/util/resolve"
	"deps.dev/util/semver"
)

// Ver is a version record of a list: version string and dist-tags.
type Ver struct {
	V    string `json:"v"`
	Tags string `json:"tags,omitempty"`
}

// Order sorts the selected records sel (a subset of the list full) in the
// stated ecosystem order: ascending by the system's comparison; for NPM parsable
// before unparsable, ties by string, and the version tagged latest in full
// moved last unless it is a prerelease while full has non-prereleases.
func Order(rsys resolve.System, full []Ver, sel []Ver) []Ver {
	sys := rsys.Semver()
	p := map[string]*semver.Version{}
	for _, v := range full {
		if pv, err := sys.Parse(v.V); err == nil {
			p[v.V] = pv
		}
	}
	out := append([]Ver(nil), sel...)
	sort.SliceStable(out, func(i, j int) bool {
		a, b := p[out[i].V], p[out[j].V]
		if (a != nil) != (b != nil) {
			return a != nil
		}
		if a != nil {
			if c := a.Compare(b); c != 0 {
				return c < 0
			}
		}
		return out[i].V < out[j].V
	})
	if rsys != resolve.NPM {
		return out
	}
	allPre := true
	latest := ""
	for _, v := range full {
		if pv := p[v.V]; pv == nil || !pv.IsPrerelease() {
			allPre = false
		}
		for _, t := range strings.Split(v.Tags, ",") {
			if t == "latest" {
				latest = v.V
			}
		}
	}
	if latest == "" {
		return out
	}
	latestPre := p[latest] != nil && p[latest].IsPrerelease()
	if latestPre && !allPre {
		return out
	}
	for i, v := range out {
		if v.V == latest {
			out = append(append(out[:i:i], out[i+1:]...), v)
			break
		}
	}
	return out
}

