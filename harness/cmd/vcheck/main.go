// Command vcheck runs one property monitor against the deps.dev tree the
// harness module was built against (replace directives point at /repo).
package main

import (
	"fmt"
	"os"

	"verif/harness/ev"
)

type monitor func(r *ev.Run, replay string)

var monitors = map[string]monitor{}

func register(id string, m monitor) { monitors[id] = m }

func main() {
	if len(os.Args) < 2 {
		fmt.Fprintln(os.Stderr, "usage: vcheck <ID> [quick|thorough] [--replay file] | vcheck child <kind> ...")
		os.Exit(2)
	}
	if os.Args[1] == "child" {
		childMain(os.Args[2:])
		return
	}
	id := os.Args[1]
	m, ok := monitors[id]
	if !ok {
		fmt.Fprintln(os.Stderr, "unknown property", id)
		os.Exit(2)
	}
	if os.Getenv("VERIF_INPROC") == "" {
		supervise(id, os.Args[1:])
	}
	r := ev.New(id)
	replay := ""
	for i := 2; i < len(os.Args); i++ {
		switch a := os.Args[i]; a {
		case "quick", "thorough":
			r.Tier = a
		case "--replay":
			if i+1 < len(os.Args) {
				replay = os.Args[i+1]
				i++
			}
		}
	}
	m(r, replay)
	r.Finish()
}

// children maps a child kind to its entry (used for process-isolated work).
var children = map[string]func(args []string){}

func childMain(args []string) {
	if len(args) == 0 {
		os.Exit(2)
	}
	f, ok := children[args[0]]
	if !ok {
		fmt.Fprintln(os.Stderr, "unknown child", args[0])
		os.Exit(2)
	}
	f(args[1:])
}
