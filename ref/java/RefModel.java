// Maven 3.8.7 reference adapter for C15: effective model (dependencies and
// managed dependencies, in order) of a pom.xml, parents and imported BOMs being
// fetched from a directory laid out as <repo>/<groupId>/<artifactId>/<version>/pom.xml.
//
// stdin : one request per line:  <root pom path> TAB <repo dir>      (or "ver")
// stdout: one JSON line per request:
//   {"deps":[[g,a,v,type,classifier,scope,optional,[[eg,ea],...]],...],"mgmt":[...]}
//   {"error":"..."}  when Maven's model builder rejects the lineage.
// Absent (null) fields are written as null.
//
// Start the JVM with -Dos.name=linux -Dos.arch=amd64 -Dos.version=5.10.0-26-cloud-amd64:
// 3.8.7's OS profile activator reads the JVM's values (plexus Os), not the request's.
import org.apache.maven.model.*;
import org.apache.maven.model.building.*;
import org.apache.maven.model.resolution.*;
import java.io.*;
import java.nio.charset.StandardCharsets;
import java.nio.file.Files;
import java.util.List;
import java.util.Properties;

public class RefModel {
  static ModelSource source(File f) throws IOException {
    // A StringModelSource is not a ModelSource2: Maven then never looks for a
    // parent through <relativePath>, every parent comes from the resolver.
    return new StringModelSource(new String(Files.readAllBytes(f.toPath()), StandardCharsets.UTF_8), f.getPath());
  }

  static class Repo implements ModelResolver {
    final File base;
    Repo(File b) { base = b; }
    public ModelSource resolveModel(String g, String a, String v) throws UnresolvableModelException {
      File f = new File(base, g + "/" + a + "/" + v + "/pom.xml");
      if (!f.isFile()) throw new UnresolvableModelException("missing", g, a, v);
      try { return source(f); } catch (IOException e) { throw new UnresolvableModelException(e.toString(), g, a, v); }
    }
    public ModelSource resolveModel(Parent p) throws UnresolvableModelException { return resolveModel(p.getGroupId(), p.getArtifactId(), p.getVersion()); }
    public ModelSource resolveModel(Dependency d) throws UnresolvableModelException { return resolveModel(d.getGroupId(), d.getArtifactId(), d.getVersion()); }
    public void addRepository(Repository r) {}
    public void addRepository(Repository r, boolean replace) {}
    public ModelResolver newCopy() { return this; }
  }

  static void str(StringBuilder sb, String s) {
    if (s == null) { sb.append("null"); return; }
    sb.append('"');
    for (int i = 0; i < s.length(); i++) {
      char c = s.charAt(i);
      if (c == '"' || c == '\\') sb.append('\\').append(c);
      else if (c < 0x20) sb.append(String.format("\\u%04x", (int) c));
      else sb.append(c);
    }
    sb.append('"');
  }

  static void deps(StringBuilder sb, List<Dependency> ds) {
    sb.append('[');
    boolean first = true;
    for (Dependency d : ds) {
      if (!first) sb.append(',');
      first = false;
      sb.append('[');
      str(sb, d.getGroupId()); sb.append(',');
      str(sb, d.getArtifactId()); sb.append(',');
      str(sb, d.getVersion()); sb.append(',');
      str(sb, d.getType()); sb.append(',');
      str(sb, d.getClassifier()); sb.append(',');
      str(sb, d.getScope()); sb.append(',');
      str(sb, d.getOptional()); sb.append(",[");
      boolean f2 = true;
      for (Exclusion e : d.getExclusions()) {
        if (!f2) sb.append(',');
        f2 = false;
        sb.append('['); str(sb, e.getGroupId()); sb.append(','); str(sb, e.getArtifactId()); sb.append(']');
      }
      sb.append("]]");
    }
    sb.append(']');
  }

  public static void main(String[] args) throws Exception {
    BufferedReader br = new BufferedReader(new InputStreamReader(System.in, StandardCharsets.UTF_8));
    PrintStream out = new PrintStream(new BufferedOutputStream(System.out, 1 << 16), false, "UTF-8");
    ModelBuilder mb = new DefaultModelBuilderFactory().newInstance();
    Properties sys = new Properties();
    sys.putAll(System.getProperties());
    sys.setProperty("java.version", "11.0.8");
    String line;
    while ((line = br.readLine()) != null) {
      if (line.isEmpty()) continue;
      if (line.equals("ver")) {
        out.println("maven-model-builder 3.8.7 os=" + System.getProperty("os.name") + "/" + System.getProperty("os.arch") + "/" + System.getProperty("os.version"));
        continue;
      }
      String[] p = line.split("\t", -1);
      StringBuilder sb = new StringBuilder();
      try {
        DefaultModelBuildingRequest req = new DefaultModelBuildingRequest();
        req.setModelSource(source(new File(p[0])));
        req.setModelResolver(new Repo(new File(p[1])));
        req.setValidationLevel(ModelBuildingRequest.VALIDATION_LEVEL_MINIMAL);
        req.setProcessPlugins(false);
        req.setTwoPhaseBuilding(false);
        req.setSystemProperties(sys);
        Model m = mb.build(req).getEffectiveModel();
        sb.append("{\"deps\":");
        deps(sb, m.getDependencies());
        sb.append(",\"mgmt\":");
        if (m.getDependencyManagement() != null) deps(sb, m.getDependencyManagement().getDependencies());
        else sb.append("[]");
        sb.append('}');
      } catch (Throwable e) {
        sb.setLength(0);
        String msg = String.valueOf(e.getMessage());
        if (msg.length() > 300) msg = msg.substring(0, 300);
        sb.append("{\"error\":"); str(sb, e.getClass().getSimpleName() + ": " + msg.replace('\n', ' ')); sb.append('}');
      }
      out.println(sb);
    }
    out.flush();
  }
}
