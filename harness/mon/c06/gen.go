package c06

import (
	"deps.dev/util/semver"
	"fmt"
	"math/rand"
	"strings"

	"verif/harness/uni"
)

// Stratum of a generated npm universe.
const (
	Base      = "base"      // aliases disjoint from package names, no bundles
	Collision = "collision" // an alias may equal a real package name
	Bundle    = "bundle"    // some versions carry bundled (derived) packages
)

// Generate draws an npm universe of the base stratum (the one other monitors
// reuse).
func Generate(rng *rand.Rand) *uni.Universe { return GenerateStratum(rng, Base) }

func verString(rng *rand.Rand) string {
	s := fmt.Sprintf("%d.%d.%d", 1+rng.Intn(2), rng.Intn(3), rng.Intn(2))
	if rng.Intn(6) == 0 {
		s += "-" + uni.Pick(rng, "alpha", "beta.1", "rc")
	}
	return s
}

func rangeFor(rng *rand.Rand, tv string, hasLatest bool) string {
	base := strings.SplitN(tv, "-", 2)[0]
	parts := strings.Split(base, ".")
	switch rng.Intn(13) {
	case 0:
		return "*"
	case 1:
		return "^" + base
	case 2:
		return "~" + base
	case 3:
		return ">=" + base
	case 4:
		return parts[0] + ".x"
	case 5:
		return tv
	case 6:
		return "<" + base + " || ^" + base
	case 7:
		if hasLatest {
			return "latest"
		}
		return "*"
	case 8:
		return parts[0] + "." + parts[1]
	case 9:
		return ">=" + tv + " <" + fmt.Sprint(atoi(parts[0])+1) + ".0.0"
	case 10:
		return "~>" + parts[0] + "." + parts[1]
	case 11:
		return base + " - " + fmt.Sprint(atoi(parts[0])+1) + ".9.9"
	}
	return "<=" + base
}

func atoi(s string) int {
	n := 0
	for _, c := range s {
		if c < '0' || c > '9' {
			break
		}
		n = n*10 + int(c-'0')
	}
	return n
}

// GenerateStratum draws a universe of 5-12 packages x 1-5 versions with
// prereleases, latest tags, deprecated (Blocked) versions, requirements of
// every scope and operator kind, cycles, diamonds with incompatible ranges and
// aliases.
func GenerateStratum(rng *rand.Rand, stratum string) *uni.Universe {
	u := &uni.Universe{Sys: "NPM"}
	np := 5 + rng.Intn(8)
	var pkgs []string
	for i := 0; i < np; i++ {
		n := string(rune('a' + i))
		if i%5 == 4 {
			n = "@s/" + n
		}
		pkgs = append(pkgs, n)
	}
	if stratum == Collision && np >= 3 && rng.Intn(3) == 0 {
		// Two packages whose names differ in letter case only (the registry
		// still holds such pairs): they are different packages and different
		// directories.
		pkgs[2] = strings.ToUpper(pkgs[0])
	}
	vers := map[string][]string{}
	latestOf := map[string]bool{}
	for _, p := range pkgs {
		nv := 1 + rng.Intn(5)
		seen := map[string]bool{}
		// One package in eight is at major version zero, where ^0.y.z and
		// ^0.0.z each mean something narrower than the caret of a 1.y.z.
		zero := rng.Intn(8) == 0
		for len(vers[p]) < nv {
			s := verString(rng)
			if zero {
				s = fmt.Sprintf("0.%d.%d", rng.Intn(2), rng.Intn(4))
				if rng.Intn(8) == 0 {
					s += "-" + uni.Pick(rng, "alpha", "rc")
				}
			}
			if seen[s] {
				continue
			}
			seen[s] = true
			vers[p] = append(vers[p], s)
		}
		// Versions of equal precedence that differ in build metadata only.
		if rng.Intn(6) == 0 {
			base := vers[p][rng.Intn(len(vers[p]))]
			for _, b := range []string{"+build.1", "+build.2"} {
				if rng.Intn(3) > 0 && !seen[base+b] {
					seen[base+b] = true
					vers[p] = append(vers[p], base+b)
				}
			}
			nv = len(vers[p])
		}
		if rng.Intn(8) == 0 {
			// A version string that is not SemVer, sorting as a string among
			// the valid ones (old registry entries look like this). It can
			// satisfy no range; it must not disturb the order of the others.
			if j := uni.Pick(rng, "1.5.0.1", "1.10", "2.0.0.0", "0.9.1.2", "1.0.0.0-rc"); !seen[j] {
				seen[j] = true
				vers[p] = append(vers[p], j)
				rng.Shuffle(len(vers[p]), func(a, b int) { vers[p][a], vers[p][b] = vers[p][b], vers[p][a] })
				nv = len(vers[p])
			}
		}
		lat := -1
		if rng.Intn(3) == 0 {
			lat = rng.Intn(nv)
			latestOf[p] = true
		}
		for i, s := range vers[p] {
			v := uni.Version{Name: p, Version: s, Blocked: rng.Intn(6) == 0}
			if i == lat {
				// Mostly alone, sometimes inside a list of other dist-tags.
				v.Tags = uni.Pick(rng, "latest", "latest", "latest", "current,latest,lts", "latest,lts", "stable,latest", "canary-latest,latest", "latest-rc,next,latest")
			}
			if rng.Intn(10) == 0 {
				if v.Tags != "" {
					v.Tags += ","
				}
				v.Tags += "next"
			}
			u.Versions = append(u.Versions, v)
		}
	}
	for vi := range u.Versions {
		v := &u.Versions[vi]
		nr := rng.Intn(5)
		used := map[string]bool{}
		usedAlias := map[string]bool{}
		for i := 0; i < nr; i++ {
			q := pkgs[rng.Intn(len(pkgs))]
			if used[q] {
				continue
			}
			used[q] = true
			tv := vers[q][rng.Intn(len(vers[q]))]
			for tries := 0; tries < 8 && !isSemVer(tv); tries++ {
				tv = vers[q][rng.Intn(len(vers[q]))] // ranges are built around SemVer versions
			}
			if !isSemVer(tv) {
				continue
			}
			rq := uni.Req{Name: q, Req: rangeFor(rng, tv, latestOf[q])}
			switch rng.Intn(12) {
			case 0:
				rq.Opt = true
			case 1:
				rq.Dev = true
			case 2:
				rq.Scope = "peer"
			case 3:
				rq.Scope = "bundle"
			case 4:
				// A regular and an optional requirement on the same package: optional wins.
				v.Reqs = append(v.Reqs, uni.Req{Name: q, Req: rangeFor(rng, tv, false), Opt: true})
			case 5:
				// bundleDependencies entry next to the regular declaration.
				v.Reqs = append(v.Reqs, uni.Req{Name: q, Req: rq.Req, Scope: "bundle"})
			}
			if !rq.Opt && !rq.Dev && rq.Scope == "" && (rng.Intn(4) == 0 || stratum == Collision && rng.Intn(3) == 0) {
				var a string
				if stratum == Collision {
					// Mostly the name of a real package: directories that one
					// package's dependents rely on are then claimed by another.
					a = uni.Pick(rng, "al"+strings.TrimPrefix(q, "@s/"), pkgs[rng.Intn(len(pkgs))], pkgs[rng.Intn(len(pkgs))], "al")
				} else {
					// One alias per target package: a directory name never stands for
					// two different packages in this stratum.
					a = "al" + strings.TrimPrefix(q, "@s/")
				}
				if !usedAlias[a] && !used[a] && a != q {
					usedAlias[a] = true
					rq.KnownAs = a
				}
			}
			v.Reqs = append(v.Reqs, rq)
		}
		// An alias must not coincide with the name of another requirement of
		// the same version in the base stratum (one directory, one name).
		// (A package.json has one entry per name, in every stratum.)
		{
			for i := range v.Reqs {
				if a := v.Reqs[i].KnownAs; a != "" && used[a] {
					v.Reqs[i].KnownAs = ""
				}
			}
		}
	}
	if stratum == Bundle {
		addBundles(rng, u, pkgs, vers)
	}
	return u
}

// addBundles gives some versions bundled content: derived packages named
// parent>version>name (nested one level sometimes) holding one concrete
// version each, required by their parent with a regular exact requirement.
func addBundles(rng *rand.Rand, u *uni.Universe, pkgs []string, vers map[string][]string) {
	n := len(u.Versions)
	for vi := 0; vi < n; vi++ {
		if rng.Intn(4) != 0 {
			continue
		}
		parent := u.Versions[vi]
		prefix := parent.Name + ">" + parent.Version
		nb := 1 + rng.Intn(2)
		usedB := map[string]bool{}
		for b := 0; b < nb; b++ {
			orig := pkgs[rng.Intn(len(pkgs))]
			if usedB[orig] || orig == parent.Name {
				continue
			}
			usedB[orig] = true
			// Bundled version: usually one that exists in the registry, sometimes not.
			bv := vers[orig][rng.Intn(len(vers[orig]))]
			if rng.Intn(5) == 0 || !isSemVer(bv) {
				bv = "9.9.9"
			}
			mangled := prefix + ">" + orig
			dv := uni.Version{Name: mangled, Version: bv, DerivedFrom: orig}
			// The bundled copy has the dependencies of the original when it exists.
			if o := u.Find(orig, bv); o != nil {
				for _, q := range o.Reqs {
					if q.KnownAs == "" && q.Scope == "" && !q.Dev && !q.Opt {
						dv.Reqs = append(dv.Reqs, q)
					}
				}
			}
			u.Versions = append(u.Versions, dv)
			u.Versions[vi].Reqs = append(u.Versions[vi].Reqs, uni.Req{Name: mangled, Req: bv})
		}
	}
}

func isSemVer(s string) bool {
	_, err := semver.NPM.Parse(s)
	return err == nil
}
