package c17

// Sub-monitor 2: the committed api.proto (parsed here) against the descriptor
// embedded in the committed api.pb.go of the same package, the generated Go
// structs against that descriptor, and the grpc ServiceDesc against the
// service's rpcs.

import (
	"bytes"
	"compress/gzip"
	"context"
	"embed"
	"fmt"
	"io"
	"math"
	"os"
	"path/filepath"
	"reflect"
	"regexp"
	"strconv"
	"strings"

	v3 "deps.dev/api/v3"
	v3a "deps.dev/api/v3alpha"
	"google.golang.org/grpc"
	nameclash3 "google.golang.org/protobuf/cmd/protoc-gen-go/testdata/nameclash/test_name_clash_open3"
	testproto3 "google.golang.org/protobuf/cmd/protoc-gen-go/testdata/proto3"
	"google.golang.org/protobuf/proto"
	"google.golang.org/protobuf/reflect/protoreflect"
	"google.golang.org/protobuf/reflect/protoregistry"
	"google.golang.org/protobuf/types/descriptorpb"
)

type apiVersion struct {
	name     string // "v3", "v3alpha"
	dir      string // below the repository root
	file     protoreflect.FileDescriptor
	svcDesc  *grpc.ServiceDesc
	srvIface reflect.Type
	unimpl   any // the generated UnimplementedInsightsServer: every method answers "method X not implemented"
}

func apiVersions() []apiVersion {
	return []apiVersion{
		{"v3", "api/v3", v3.File_api_proto, &v3.Insights_ServiceDesc, reflect.TypeOf((*v3.InsightsServer)(nil)).Elem(), v3.UnimplementedInsightsServer{}},
		{"v3alpha", "api/v3alpha", v3a.File_api_proto, &v3a.Insights_ServiceDesc, reflect.TypeOf((*v3a.InsightsServer)(nil)).Elem(), v3a.UnimplementedInsightsServer{}},
	}
}

// The parser and the comparison are themselves checked, before they are used,
// against protoc's own work: three proto3 files of protobuf-go's protoc-gen-go
// test data (every scalar kind, repeated, maps, nested types, oneofs, an unused
// import) whose protoc-generated Go packages are linked in. The sources below
// are copies from google.golang.org/protobuf v1.36.6, the version go.mod pins.
//
//go:embed selftest/*.proto
var selftestFS embed.FS

// selfTest reports whether the comparison reproduces the reference descriptors
// without a single difference; if not the src monitor cannot be trusted.
func selfTest(m *mon) bool {
	ok := true
	for _, t := range []struct {
		file string
		fd   protoreflect.FileDescriptor
	}{
		{"selftest/fields.proto", testproto3.File_cmd_protoc_gen_go_testdata_proto3_fields_proto},
		{"selftest/enum.proto", testproto3.File_cmd_protoc_gen_go_testdata_proto3_enum_proto},
		{"selftest/nameclash_open3.proto", nameclash3.File_cmd_protoc_gen_go_testdata_nameclash_test_name_clash_open3_proto},
	} {
		b, err := selftestFS.ReadFile(t.file)
		if err != nil {
			m.r.Inconclusive("src: self-test: " + err.Error())
			return false
		}
		src, err := parseProto(string(b))
		if err != nil {
			m.r.Inconclusive(fmt.Sprintf("src: self-test: the parser does not understand %s: %v", t.file, err))
			ok = false
			continue
		}
		c := &srcCmp{m: m, ver: "selftest", fd: t.fd, src: src, quiet: true}
		c.file()
		m.r.Count("src:selftest_files", 1)
		if len(c.problems) > 0 {
			m.r.Inconclusive(fmt.Sprintf("src: self-test: %s is not reproduced from protoc's descriptor (%d differences, first: %s); is google.golang.org/protobuf still v1.36.6?", t.file, len(c.problems), c.problems[0]))
			ok = false
		}
	}
	return ok
}

func runSrc(m *mon) {
	if !selfTest(m) {
		return
	}
	for _, v := range apiVersions() {
		p := filepath.Join(repoDir(), v.dir, "api.proto")
		b, err := os.ReadFile(p)
		if err != nil {
			m.r.Inconclusive("src: " + err.Error())
			continue
		}
		src, err := parseProto(string(b))
		if err != nil {
			// Never a pass, never an accusation: the parser's subset is ours.
			m.r.Inconclusive(fmt.Sprintf("src: %s: not understood by the harness's proto3 parser: %v", p, err))
			continue
		}
		m.r.Count("src:files_parsed", 1)
		m.r.Count("src:comments_skipped", int64(src.Comments))
		c := &srcCmp{m: m, ver: v.name, fd: v.file, src: src}
		if gb, err := os.ReadFile(filepath.Join(repoDir(), v.dir, "api.pb.go")); err == nil {
			c.goSrc = string(gb)
		} else {
			m.r.Inconclusive("src: " + err.Error())
		}
		c.file()
		c.goBindings()
		c.serviceDesc(v)
	}
}

type srcCmp struct {
	m     *mon
	ver   string
	fd    protoreflect.FileDescriptor
	src   *srcFile
	decls map[string]string // full name -> "message" | "enum" | "package"
	goSrc string            // text of the package's api.pb.go ("" = not read)

	quiet    bool // self-test: collect, do not report
	problems []string
}

func (c *srcCmp) el(kind, path string) {
	if c.quiet {
		c.m.r.Count("src:selftest_elements", 1)
		return
	}
	c.m.elem("src", kind, c.ver+":"+path)
}

func (c *srcCmp) bad(kind, path, what, want, got string) {
	if c.quiet {
		c.problems = append(c.problems, fmt.Sprintf("%s %s: %s (source: %s; descriptor: %s)", kind, path, what, want, got))
		return
	}
	c.m.violation("C17:src:"+c.ver+":"+kind, fmt.Sprintf("%s %s: %s (api.proto: %s; api.pb.go: %s)", c.ver, path, what, want, got),
		elemCase{Monitor: "src", Version: c.ver, Path: path, Want: want, Got: got})
}

func (c *srcCmp) unclear(path, why string) {
	if c.quiet {
		c.problems = append(c.problems, path+": "+why)
		return
	}
	c.m.r.Inconclusive(fmt.Sprintf("src: %s %s: %s", c.ver, path, why))
}

// ---- declarations and name resolution ----

func (c *srcCmp) declare() {
	c.decls = map[string]string{}
	pkg := c.src.Package
	for p := pkg; p != ""; {
		c.decls[p] = "package"
		i := strings.LastIndexByte(p, '.')
		if i < 0 {
			break
		}
		p = p[:i]
	}
	var msg func(scope string, m *srcMessage)
	join := func(scope, n string) string {
		if scope == "" {
			return n
		}
		return scope + "." + n
	}
	msg = func(scope string, m *srcMessage) {
		full := join(scope, m.Name)
		c.decls[full] = "message"
		for _, n := range m.Messages {
			msg(full, n)
		}
		for _, e := range m.Enums {
			c.decls[join(full, e.Name)] = "enum"
		}
	}
	for _, m := range c.src.Messages {
		msg(pkg, m)
	}
	for _, e := range c.src.Enums {
		c.decls[join(pkg, e.Name)] = "enum"
	}
}

// resolve follows protoc's scope search for a type name written in scope.
// local=false means the name is not declared in this file.
func (c *srcCmp) resolve(scope, name string) (full, kind string, local bool) {
	if strings.HasPrefix(name, ".") {
		full = name[1:]
		k, ok := c.decls[full]
		return full, k, ok && k != "package"
	}
	first, rest := name, ""
	if i := strings.IndexByte(name, '.'); i >= 0 {
		first, rest = name[:i], name[i+1:]
	}
	for s := scope; ; {
		cand := first
		if s != "" {
			cand = s + "." + first
		}
		if k, ok := c.decls[cand]; ok {
			if rest == "" {
				if k != "package" {
					return cand, k, true
				}
			} else if k == "message" || k == "package" {
				// First part found and is an aggregate: the rest must be inside.
				f := cand + "." + rest
				if k2, ok := c.decls[f]; ok && k2 != "package" {
					return f, k2, true
				}
				if k == "message" {
					return f, "", true // protoc would reject; reported as a type mismatch
				}
			}
		}
		if s == "" {
			break
		}
		if i := strings.LastIndexByte(s, '.'); i >= 0 {
			s = s[:i]
		} else {
			s = ""
		}
	}
	return name, "", false
}

// externalOK says whether a name not declared in this file can denote the
// descriptor's type full (declared in another, imported file).
func (c *srcCmp) externalOK(scope, written string, target protoreflect.Descriptor) bool {
	full := string(target.FullName())
	if target.ParentFile() == c.fd || target.ParentFile().Path() == c.fd.Path() {
		return false
	}
	imported := false
	var visit func(f protoreflect.FileDescriptor, direct bool, depth int)
	visit = func(f protoreflect.FileDescriptor, direct bool, depth int) {
		if depth > 8 {
			return
		}
		imps := f.Imports()
		for i := 0; i < imps.Len(); i++ {
			im := imps.Get(i)
			if !direct && !im.IsPublic {
				continue
			}
			if im.Path() == target.ParentFile().Path() {
				imported = true
			}
			if im.FileDescriptor != nil && !im.IsPlaceholder() {
				visit(im.FileDescriptor, false, depth+1)
			}
		}
	}
	visit(c.fd, true, 0)
	if !imported {
		return false
	}
	if strings.HasPrefix(written, ".") {
		return written[1:] == full
	}
	for s := scope; ; {
		cand := written
		if s != "" {
			cand = s + "." + written
		}
		if cand == full {
			return true
		}
		if s == "" {
			return false
		}
		if i := strings.LastIndexByte(s, '.'); i >= 0 {
			s = s[:i]
		} else {
			s = ""
		}
	}
}

var scalarKinds = map[string]protoreflect.Kind{
	"double": protoreflect.DoubleKind, "float": protoreflect.FloatKind,
	"int32": protoreflect.Int32Kind, "int64": protoreflect.Int64Kind,
	"uint32": protoreflect.Uint32Kind, "uint64": protoreflect.Uint64Kind,
	"sint32": protoreflect.Sint32Kind, "sint64": protoreflect.Sint64Kind,
	"fixed32": protoreflect.Fixed32Kind, "fixed64": protoreflect.Fixed64Kind,
	"sfixed32": protoreflect.Sfixed32Kind, "sfixed64": protoreflect.Sfixed64Kind,
	"bool": protoreflect.BoolKind, "string": protoreflect.StringKind, "bytes": protoreflect.BytesKind,
}

// descType renders a descriptor field's own (non-map) type.
func descType(f protoreflect.FieldDescriptor) string {
	switch f.Kind() {
	case protoreflect.MessageKind:
		return "message " + string(f.Message().FullName())
	case protoreflect.GroupKind:
		return "group " + string(f.Message().FullName())
	case protoreflect.EnumKind:
		return "enum " + string(f.Enum().FullName())
	}
	return f.Kind().String()
}

// typeMatches compares a written type with a descriptor field's type.
func (c *srcCmp) typeMatches(scope, written string, f protoreflect.FieldDescriptor) (ok bool, want string) {
	if k, isScalar := scalarKinds[written]; isScalar {
		return f.Kind() == k, written
	}
	var target protoreflect.Descriptor
	switch f.Kind() {
	case protoreflect.MessageKind:
		target = f.Message()
	case protoreflect.EnumKind:
		target = f.Enum()
	default:
		return false, "named type " + written
	}
	full, kind, local := c.resolve(scope, written)
	if local {
		want = kind + " " + full
		wantKind := "message"
		if f.Kind() == protoreflect.EnumKind {
			wantKind = "enum"
		}
		return kind == wantKind && full == string(target.FullName()), want
	}
	return c.externalOK(scope, written, target), "imported type " + written
}

// ---- options ----

func constText(v srcConst) string {
	if v.Kind == "string" {
		return strconv.Quote(v.Text)
	}
	if v.Kind == "aggregate" {
		return "{...}"
	}
	return v.Text
}

// optionEquals compares a written option value with the value of a field of a
// descriptor.proto options message.
func optionEquals(fd protoreflect.FieldDescriptor, v protoreflect.Value, k srcConst) (equal, understood bool) {
	if fd.IsList() || fd.IsMap() {
		return false, false
	}
	switch fd.Kind() {
	case protoreflect.BoolKind:
		if k.Kind != "ident" || (k.Text != "true" && k.Text != "false") {
			return false, true
		}
		return v.Bool() == (k.Text == "true"), true
	case protoreflect.StringKind:
		return k.Kind == "string" && v.String() == k.Text, true
	case protoreflect.BytesKind:
		return k.Kind == "string" && string(v.Bytes()) == k.Text, true
	case protoreflect.EnumKind:
		if k.Kind != "ident" {
			return false, true
		}
		ev := fd.Enum().Values().ByName(protoreflect.Name(k.Text))
		return ev != nil && ev.Number() == v.Enum(), true
	case protoreflect.Int32Kind, protoreflect.Int64Kind, protoreflect.Sint32Kind, protoreflect.Sint64Kind, protoreflect.Sfixed32Kind, protoreflect.Sfixed64Kind:
		if k.Kind != "int" {
			return false, true
		}
		n, err := strconv.ParseInt(k.Text, 10, 64)
		return err == nil && n == v.Int(), true
	case protoreflect.Uint32Kind, protoreflect.Uint64Kind, protoreflect.Fixed32Kind, protoreflect.Fixed64Kind:
		if k.Kind != "int" {
			return false, true
		}
		n, err := strconv.ParseUint(k.Text, 10, 64)
		return err == nil && n == v.Uint(), true
	case protoreflect.FloatKind, protoreflect.DoubleKind:
		if k.Kind != "int" && k.Kind != "float" {
			return false, true
		}
		f, err := strconv.ParseFloat(k.Text, 64)
		if err != nil {
			return false, false
		}
		if fd.Kind() == protoreflect.FloatKind {
			f = float64(float32(f))
		}
		return f == v.Float() || (math.IsNaN(f) && math.IsNaN(v.Float())), true
	}
	return false, false
}

// options compares written options with an options message of descriptor.proto
// in both directions. handled names extension options the caller compares.
func (c *srcCmp) options(path string, written []srcOption, opts proto.Message, skip map[string]bool, handledExt map[string]bool) {
	var om protoreflect.Message
	if opts != nil {
		om = opts.ProtoReflect()
	}
	seen := map[string]bool{}
	for _, o := range written {
		if skip[o.Name] && !o.Ext {
			continue
		}
		opath := path + " option " + o.Name
		if o.Ext {
			if handledExt[o.Name] {
				continue
			}
			c.unclear(opath, "extension option not understood")
			continue
		}
		c.el("option", opath)
		if seen[o.Name] {
			c.unclear(opath, "option given twice")
			continue
		}
		seen[o.Name] = true
		if om == nil {
			c.unclear(opath, "no options message to compare with")
			continue
		}
		fd := om.Descriptor().Fields().ByName(protoreflect.Name(o.Name))
		if fd == nil {
			c.unclear(opath, "option unknown to this descriptor.proto")
			continue
		}
		if !om.Has(fd) {
			c.bad("option:missing-in-generated", opath, "option is not set in the generated descriptor", constText(o.Value), "<unset>")
			continue
		}
		eq, understood := optionEquals(fd, om.Get(fd), o.Value)
		if !understood {
			c.unclear(opath, "option value form not understood")
		} else if !eq {
			c.bad("option:value", opath, "option value differs", constText(o.Value), om.Get(fd).String())
		}
	}
	if om == nil || !om.IsValid() {
		return
	}
	om.Range(func(fd protoreflect.FieldDescriptor, v protoreflect.Value) bool {
		name := string(fd.Name())
		if fd.IsExtension() {
			name = string(fd.FullName())
			if handledExt[name] {
				return true
			}
			declared := false
			for _, o := range written {
				if o.Ext && o.Name == name {
					declared = true
				}
			}
			if !declared {
				c.el("option", path+" option ("+name+")")
				c.bad("option:missing-in-source", path+" option ("+name+")", "generated descriptor sets an option the source does not declare", "<absent>", v.String())
			}
			return true
		}
		if skip[name] || seen[name] {
			return true
		}
		c.el("option", path+" option "+name)
		c.bad("option:missing-in-source", path+" option "+name, "generated descriptor sets an option the source does not declare", "<absent>", v.String())
		return true
	})
	if len(om.GetUnknown()) > 0 {
		anyExt := false
		for _, o := range written {
			anyExt = anyExt || (o.Ext && !handledExt[o.Name])
		}
		if !anyExt {
			c.bad("option:unknown-in-generated", path, "generated options carry fields the source does not declare", "<absent>", fmt.Sprintf("%d unknown bytes", len(om.GetUnknown())))
		}
	}
}

// ---- the tree ----

func (c *srcCmp) file() {
	c.declare()
	s, fd := c.src, c.fd
	c.el("file", "syntax")
	if (s.Syntax == "proto3") != (fd.Syntax() == protoreflect.Proto3) {
		c.bad("syntax", "syntax", "syntax differs", s.Syntax, fd.Syntax().String())
	}
	c.el("file", "package")
	if s.Package != string(fd.Package()) {
		c.bad("package", "package", "package differs", s.Package, string(fd.Package()))
	}
	// imports, in order
	var wantImps, gotImps []string
	for _, im := range s.Imports {
		wantImps = append(wantImps, strings.TrimSpace(im.Modifier+" "+im.Path))
	}
	for i := 0; i < fd.Imports().Len(); i++ {
		im := fd.Imports().Get(i)
		mod := ""
		if im.IsPublic {
			mod = "public"
		} else if im.IsWeak {
			mod = "weak"
		}
		gotImps = append(gotImps, strings.TrimSpace(mod+" "+im.Path()))
	}
	c.sequence("import", "imports", wantImps, gotImps, func(n string) { c.el("import", "import "+n) })
	c.options("file", s.Options, fd.Options(), nil, nil)

	// top-level messages, enums, services
	var wantM, gotM []string
	for _, m := range s.Messages {
		wantM = append(wantM, m.Name)
	}
	for i := 0; i < fd.Messages().Len(); i++ {
		gotM = append(gotM, string(fd.Messages().Get(i).Name()))
	}
	c.sequence("message", "file messages", wantM, gotM, nil)
	for _, m := range s.Messages {
		if md := fd.Messages().ByName(protoreflect.Name(m.Name)); md != nil {
			c.message(s.Package, m, md)
		} else {
			c.el("message", m.Name)
		}
	}
	var wantE, gotE []string
	for _, e := range s.Enums {
		wantE = append(wantE, e.Name)
	}
	for i := 0; i < fd.Enums().Len(); i++ {
		gotE = append(gotE, string(fd.Enums().Get(i).Name()))
	}
	c.sequence("enum", "file enums", wantE, gotE, nil)
	for _, e := range s.Enums {
		if ed := fd.Enums().ByName(protoreflect.Name(e.Name)); ed != nil {
			c.enum(e, ed, e.Name)
		} else {
			c.el("enum", e.Name)
		}
	}
	var wantS, gotS []string
	for _, sv := range s.Services {
		wantS = append(wantS, sv.Name)
	}
	for i := 0; i < fd.Services().Len(); i++ {
		gotS = append(gotS, string(fd.Services().Get(i).Name()))
	}
	c.sequence("service", "file services", wantS, gotS, nil)
	for _, sv := range s.Services {
		if sd := fd.Services().ByName(protoreflect.Name(sv.Name)); sd != nil {
			c.service(sv, sd)
		} else {
			c.el("service", sv.Name)
		}
	}
	if fd.Extensions().Len() > 0 {
		c.bad("extension:missing-in-source", "file", "generated descriptor declares extensions, the parsed source cannot", "0", fmt.Sprint(fd.Extensions().Len()))
	}
}

// sequence compares two name lists: membership both ways, then order.
func (c *srcCmp) sequence(kind, path string, want, got []string, each func(string)) {
	inGot := map[string]int{}
	for _, g := range got {
		inGot[g]++
	}
	inWant := map[string]int{}
	for _, w := range want {
		inWant[w]++
		if each != nil {
			each(w)
		}
	}
	same := true
	for _, w := range want {
		if inGot[w] == 0 {
			same = false
			c.bad(kind+":missing-in-generated", path+" "+w, kind+" declared in api.proto is absent from the generated descriptor", w, "<absent>")
		} else if inWant[w] > 1 {
			same = false
			c.bad(kind+":duplicate", path+" "+w, kind+" declared more than once", w, "")
		}
	}
	for _, g := range got {
		if inWant[g] == 0 {
			same = false
			if each != nil {
				each(g)
			} else {
				c.el(kind, path+" "+g)
			}
			c.bad(kind+":missing-in-source", path+" "+g, kind+" in the generated descriptor is not declared in api.proto", "<absent>", g)
		}
	}
	if same && strings.Join(want, "\x00") != strings.Join(got, "\x00") {
		c.bad(kind+":order", path, "declaration order differs", strings.Join(want, ","), strings.Join(got, ","))
	}
}

func jsonCamel(s string) string {
	var b []byte
	up := false
	for i := 0; i < len(s); i++ {
		ch := s[i]
		switch {
		case ch == '_':
			up = true
		case up:
			if ch >= 'a' && ch <= 'z' {
				ch -= 'a' - 'A'
			}
			b = append(b, ch)
			up = false
		default:
			b = append(b, ch)
		}
	}
	return string(b)
}

func mapEntryName(field string) string {
	var b []byte
	up := true
	for i := 0; i < len(field); i++ {
		ch := field[i]
		if ch == '_' {
			up = true
			continue
		}
		if up && ch >= 'a' && ch <= 'z' {
			ch -= 'a' - 'A'
		}
		up = false
		b = append(b, ch)
	}
	return string(b) + "Entry"
}

func rangesText(rs []srcRange, exclusiveMax int64) string {
	var parts []string
	for _, r := range rs {
		hi := r.Hi
		if hi == -1 {
			hi = exclusiveMax - 1
		}
		parts = append(parts, fmt.Sprintf("%d-%d", r.Lo, hi))
	}
	return strings.Join(parts, ",")
}

func (c *srcCmp) message(scope string, s *srcMessage, md protoreflect.MessageDescriptor) {
	full := scope + "." + s.Name
	path := strings.TrimPrefix(full, c.src.Package+".")
	kind := "message"
	if scope != c.src.Package {
		kind = "nested-message"
	}
	c.el(kind, path)
	if full != string(md.FullName()) {
		c.bad("message:name", path, "full name differs", full, string(md.FullName()))
	}
	// fields
	var wantF, gotF []string
	for _, f := range s.Fields {
		wantF = append(wantF, f.Name)
	}
	for i := 0; i < md.Fields().Len(); i++ {
		gotF = append(gotF, string(md.Fields().Get(i).Name()))
	}
	c.sequence("field", path, wantF, gotF, nil)
	for _, f := range s.Fields {
		c.el("field", path+"."+f.Name)
		if fd := md.Fields().ByName(protoreflect.Name(f.Name)); fd != nil {
			c.field(full, path+"."+f.Name, f, fd)
		}
	}
	// real oneofs
	var wantO, gotO []string
	for _, o := range s.Oneofs {
		wantO = append(wantO, o.Name)
	}
	for i := 0; i < md.Oneofs().Len(); i++ {
		if od := md.Oneofs().Get(i); !od.IsSynthetic() {
			gotO = append(gotO, string(od.Name()))
		}
	}
	c.sequence("oneof", path+" oneof", wantO, gotO, func(n string) { c.el("oneof", path+"."+n) })
	for _, o := range s.Oneofs {
		if od := md.Oneofs().ByName(protoreflect.Name(o.Name)); od != nil {
			c.options(path+"."+o.Name, o.Options, od.Options(), nil, nil)
		}
	}
	// nested messages (map entries are synthesised by protoc)
	var wantM, gotM []string
	for _, n := range s.Messages {
		wantM = append(wantM, n.Name)
	}
	entries := map[string]bool{}
	for i := 0; i < md.Messages().Len(); i++ {
		n := md.Messages().Get(i)
		if n.IsMapEntry() {
			entries[string(n.Name())] = true
			continue
		}
		gotM = append(gotM, string(n.Name()))
	}
	for _, f := range s.Fields {
		if f.IsMap {
			delete(entries, mapEntryName(f.Name))
		}
	}
	for e := range entries {
		c.el("nested-message", path+"."+e)
		c.bad("message:missing-in-source", path+"."+e, "generated descriptor has a map entry type without a map field in api.proto", "<absent>", e)
	}
	c.sequence("message", path+" nested", wantM, gotM, nil)
	for _, n := range s.Messages {
		if nd := md.Messages().ByName(protoreflect.Name(n.Name)); nd != nil && !nd.IsMapEntry() {
			c.message(full, n, nd)
		} else {
			c.el("nested-message", path+"."+n.Name)
		}
	}
	var wantE, gotE []string
	for _, e := range s.Enums {
		wantE = append(wantE, e.Name)
	}
	for i := 0; i < md.Enums().Len(); i++ {
		gotE = append(gotE, string(md.Enums().Get(i).Name()))
	}
	c.sequence("enum", path+" enums", wantE, gotE, nil)
	for _, e := range s.Enums {
		if ed := md.Enums().ByName(protoreflect.Name(e.Name)); ed != nil {
			c.enum(e, ed, path+"."+e.Name)
		} else {
			c.el("enum", path+"."+e.Name)
		}
	}
	// reserved
	if len(s.Reserved) > 0 || md.ReservedRanges().Len() > 0 {
		c.el("reserved", path+" reserved ranges")
		var got []string
		for i := 0; i < md.ReservedRanges().Len(); i++ {
			r := md.ReservedRanges().Get(i)
			got = append(got, fmt.Sprintf("%d-%d", r[0], r[1]-1))
		}
		if w, g := rangesText(s.Reserved, 536870912), strings.Join(got, ","); w != g {
			c.bad("reserved", path+" reserved ranges", "reserved ranges differ", w, g)
		}
	}
	if len(s.ReservedNames) > 0 || md.ReservedNames().Len() > 0 {
		c.el("reserved", path+" reserved names")
		var got []string
		for i := 0; i < md.ReservedNames().Len(); i++ {
			got = append(got, string(md.ReservedNames().Get(i)))
		}
		if w, g := strings.Join(s.ReservedNames, ","), strings.Join(got, ","); w != g {
			c.bad("reserved", path+" reserved names", "reserved names differ", w, g)
		}
	}
	if md.ExtensionRanges().Len() > 0 || md.Extensions().Len() > 0 {
		c.bad("extension:missing-in-source", path, "generated descriptor has extension ranges or extensions, proto3 source cannot", "0", "present")
	}
	c.options(path, s.Options, md.Options(), nil, nil)
}

func (c *srcCmp) field(scope, path string, s *srcField, fd protoreflect.FieldDescriptor) {
	if int64(fd.Number()) != s.Number {
		c.bad("field:number", path, "field number differs", fmt.Sprint(s.Number), fmt.Sprint(fd.Number()))
	}
	// label
	gotLabel := ""
	switch {
	case fd.IsMap():
		gotLabel = "map"
	case fd.Cardinality() == protoreflect.Repeated:
		gotLabel = "repeated"
	case fd.Cardinality() == protoreflect.Required:
		gotLabel = "required"
	case fd.HasOptionalKeyword():
		gotLabel = "optional"
	}
	wantLabel := s.Label
	if s.IsMap {
		wantLabel = "map"
	}
	if wantLabel != gotLabel {
		c.bad("field:label", path, "field label differs", "'"+wantLabel+"'", "'"+gotLabel+"'")
	}
	// type
	if s.IsMap {
		if fd.IsMap() {
			gotT := "map<" + descType(fd.MapKey()) + "," + descType(fd.MapValue()) + ">"
			k, isScalar := scalarKinds[s.MapKey]
			if !isScalar || fd.MapKey().Kind() != k {
				c.bad("field:type", path, "map key type differs", s.MapKey, gotT)
			}
			if ok, want := c.typeMatches(scope, s.MapVal, fd.MapValue()); !ok {
				c.bad("field:type", path, "map value type differs", want, gotT)
			}
			if want := mapEntryName(s.Name); string(fd.Message().Name()) != want {
				c.bad("field:type", path, "map entry type has an unexpected name", want, string(fd.Message().Name()))
			}
		}
	} else if !fd.IsMap() {
		if ok, want := c.typeMatches(scope, s.Type, fd); !ok {
			c.bad("field:type", path, "field type differs", want, descType(fd))
		}
	}
	// oneof membership
	gotOneof := ""
	if od := fd.ContainingOneof(); od != nil && !od.IsSynthetic() {
		gotOneof = string(od.Name())
	}
	if s.Oneof != gotOneof {
		c.bad("field:oneof", path, "oneof membership differs", "'"+s.Oneof+"'", "'"+gotOneof+"'")
	}
	if s.Label == "optional" {
		if od := fd.ContainingOneof(); od == nil || !od.IsSynthetic() || string(od.Name()) != "_"+s.Name {
			c.bad("field:optional", path, "proto3 optional field lacks its synthetic oneof", "_"+s.Name, "")
		}
	}
	// json name and the remaining options
	wantJSON := jsonCamel(s.Name)
	for _, o := range s.Options {
		if !o.Ext && o.Name == "json_name" {
			if o.Value.Kind != "string" {
				c.unclear(path, "json_name is not a string")
			}
			wantJSON = o.Value.Text
		}
		if !o.Ext && o.Name == "default" {
			c.unclear(path, "default value not understood (not proto3)")
		}
	}
	if wantJSON != fd.JSONName() {
		c.bad("field:json-name", path, "JSON name differs", wantJSON, fd.JSONName())
	}
	c.options(path, s.Options, fd.Options(), map[string]bool{"json_name": true, "default": true}, nil)
}

func (c *srcCmp) enum(s *srcEnum, ed protoreflect.EnumDescriptor, path string) {
	c.el("enum", path)
	var want, got []string
	for _, v := range s.Values {
		want = append(want, v.Name)
	}
	for i := 0; i < ed.Values().Len(); i++ {
		got = append(got, string(ed.Values().Get(i).Name()))
	}
	c.sequence("enum-value", path, want, got, nil)
	for _, v := range s.Values {
		vpath := path + "." + v.Name
		c.el("enum-value", vpath)
		vd := ed.Values().ByName(protoreflect.Name(v.Name))
		if vd == nil {
			continue
		}
		if int64(vd.Number()) != v.Number {
			c.bad("enum-value:number", vpath, "enum value number differs", fmt.Sprint(v.Number), fmt.Sprint(vd.Number()))
		}
		c.options(vpath, v.Options, vd.Options(), nil, nil)
	}
	if len(s.Reserved) > 0 || ed.ReservedRanges().Len() > 0 {
		c.el("reserved", path+" reserved ranges")
		var g []string
		for i := 0; i < ed.ReservedRanges().Len(); i++ {
			r := ed.ReservedRanges().Get(i)
			g = append(g, fmt.Sprintf("%d-%d", r[0], r[1]))
		}
		if w, gs := rangesText(s.Reserved, 1<<31), strings.Join(g, ","); w != gs {
			c.bad("reserved", path+" reserved ranges", "reserved ranges differ", w, gs)
		}
	}
	if len(s.ReservedNames) > 0 || ed.ReservedNames().Len() > 0 {
		c.el("reserved", path+" reserved names")
		var g []string
		for i := 0; i < ed.ReservedNames().Len(); i++ {
			g = append(g, string(ed.ReservedNames().Get(i)))
		}
		if w, gs := strings.Join(s.ReservedNames, ","), strings.Join(g, ","); w != gs {
			c.bad("reserved", path+" reserved names", "reserved names differ", w, gs)
		}
	}
	c.options(path, s.Options, ed.Options(), nil, nil)
}

func (c *srcCmp) service(s *srcService, sd protoreflect.ServiceDescriptor) {
	c.el("service", s.Name)
	var want, got []string
	for _, m := range s.Methods {
		want = append(want, m.Name)
	}
	for i := 0; i < sd.Methods().Len(); i++ {
		got = append(got, string(sd.Methods().Get(i).Name()))
	}
	c.sequence("rpc", s.Name, want, got, nil)
	for _, m := range s.Methods {
		path := s.Name + "." + m.Name
		c.el("rpc", path)
		md := sd.Methods().ByName(protoreflect.Name(m.Name))
		if md == nil {
			continue
		}
		c.rpcType(path, "request", m.In, md.Input())
		c.rpcType(path, "response", m.Out, md.Output())
		if m.ClientStream != md.IsStreamingClient() || m.ServerStream != md.IsStreamingServer() {
			c.bad("rpc:streaming", path, "streaming flags differ",
				fmt.Sprintf("client=%v server=%v", m.ClientStream, m.ServerStream),
				fmt.Sprintf("client=%v server=%v", md.IsStreamingClient(), md.IsStreamingServer()))
		}
		c.http(path, m, md)
		c.options(path, m.Options, md.Options(), nil, map[string]bool{"google.api.http": true})
	}
	c.options(s.Name, s.Options, sd.Options(), nil, nil)
}

func (c *srcCmp) rpcType(path, which, written string, md protoreflect.MessageDescriptor) {
	full, kind, local := c.resolve(c.src.Package, written)
	ok := false
	if local {
		ok = kind == "message" && full == string(md.FullName())
	} else {
		ok = c.externalOK(c.src.Package, written, md)
	}
	if !ok {
		c.bad("rpc:"+which, path, which+" type differs", written, string(md.FullName()))
	}
}

// ruleFromAggregate reads a google.api.http option value written in text format.
func ruleFromAggregate(agg []aggField) (*httpRule, error) {
	h := &httpRule{Verb: "none"}
	seen := map[string]bool{}
	str := func(f aggField) (string, error) {
		if f.IsMsg || f.Scalar == nil || f.Scalar.Kind != "string" {
			return "", fmt.Errorf("line %d: %s is not a string", f.Line, f.Name)
		}
		return f.Scalar.Text, nil
	}
	for _, f := range agg {
		if f.Name != "additional_bindings" {
			if seen[f.Name] {
				return nil, fmt.Errorf("line %d: %s given twice", f.Line, f.Name)
			}
			seen[f.Name] = true
		}
		switch f.Name {
		case "get", "put", "post", "delete", "patch":
			if h.Verb != "none" {
				return nil, fmt.Errorf("line %d: two patterns in one rule", f.Line)
			}
			s, err := str(f)
			if err != nil {
				return nil, err
			}
			h.Verb, h.Path = f.Name, s
		case "custom":
			if h.Verb != "none" || !f.IsMsg {
				return nil, fmt.Errorf("line %d: custom pattern not understood", f.Line)
			}
			kind, path := "", ""
			for _, cf := range f.Msg {
				s, err := str(cf)
				if err != nil {
					return nil, err
				}
				switch cf.Name {
				case "kind":
					kind = s
				case "path":
					path = s
				default:
					return nil, fmt.Errorf("line %d: field %s of custom pattern not understood", cf.Line, cf.Name)
				}
			}
			h.Verb, h.Path = "custom:"+kind, path
		case "body", "response_body", "selector":
			s, err := str(f)
			if err != nil {
				return nil, err
			}
			switch f.Name {
			case "body":
				h.Body = s
			case "response_body":
				h.ResponseBody = s
			default:
				h.Selector = s
			}
		case "additional_bindings":
			if !f.IsMsg {
				return nil, fmt.Errorf("line %d: additional_bindings is not a message", f.Line)
			}
			a, err := ruleFromAggregate(f.Msg)
			if err != nil {
				return nil, err
			}
			h.Additional = append(h.Additional, a)
		default:
			return nil, fmt.Errorf("line %d: HttpRule field %s not understood", f.Line, f.Name)
		}
	}
	return h, nil
}

func (c *srcCmp) http(path string, m *srcMethod, md protoreflect.MethodDescriptor) {
	var want *httpRule
	n := 0
	for _, o := range m.Options {
		if o.Ext && o.Name == "google.api.http" {
			n++
			if o.Value.Kind != "aggregate" {
				c.unclear(path, "google.api.http value is not an aggregate")
				return
			}
			h, err := ruleFromAggregate(o.Value.Agg)
			if err != nil {
				c.unclear(path, "google.api.http: "+err.Error())
				return
			}
			want = h
		}
	}
	if n > 1 {
		c.unclear(path, "google.api.http given twice")
		return
	}
	got, err := httpOf(md)
	if err != nil {
		c.unclear(path, "generated google.api.http unreadable: "+err.Error())
		return
	}
	if want == nil && got == nil {
		return
	}
	c.el("http", path)
	if want.String() != got.String() {
		c.bad("http", path, "google.api.http differs", want.String(), got.String())
	}
}

// ---- Go bindings ----

// goCamel is protoc-gen-go's name mangling.
func goCamel(s string) string {
	lower := func(c byte) bool { return c >= 'a' && c <= 'z' }
	var b []byte
	for i := 0; i < len(s); i++ {
		ch := s[i]
		switch {
		case ch == '.' && i+1 < len(s) && lower(s[i+1]):
		case ch == '.':
			b = append(b, '_')
		case ch == '_' && (i == 0 || s[i-1] == '.'):
			b = append(b, 'X')
		case ch == '_' && i+1 < len(s) && lower(s[i+1]):
		case ch >= '0' && ch <= '9':
			b = append(b, ch)
		default:
			if lower(ch) {
				ch -= 'a' - 'A'
			}
			b = append(b, ch)
			for ; i+1 < len(s) && lower(s[i+1]); i++ {
				b = append(b, s[i+1])
			}
		}
	}
	return string(b)
}

var wireOfKind = map[protoreflect.Kind]string{
	protoreflect.BoolKind: "varint", protoreflect.EnumKind: "varint", protoreflect.Int32Kind: "varint",
	protoreflect.Int64Kind: "varint", protoreflect.Uint32Kind: "varint", protoreflect.Uint64Kind: "varint",
	protoreflect.Sint32Kind: "zigzag32", protoreflect.Sint64Kind: "zigzag64",
	protoreflect.Fixed32Kind: "fixed32", protoreflect.Sfixed32Kind: "fixed32", protoreflect.FloatKind: "fixed32",
	protoreflect.Fixed64Kind: "fixed64", protoreflect.Sfixed64Kind: "fixed64", protoreflect.DoubleKind: "fixed64",
	protoreflect.StringKind: "bytes", protoreflect.BytesKind: "bytes", protoreflect.MessageKind: "bytes",
	protoreflect.GroupKind: "group",
}

var goKindOf = map[protoreflect.Kind]reflect.Kind{
	protoreflect.BoolKind: reflect.Bool, protoreflect.EnumKind: reflect.Int32, protoreflect.Int32Kind: reflect.Int32,
	protoreflect.Sint32Kind: reflect.Int32, protoreflect.Sfixed32Kind: reflect.Int32,
	protoreflect.Int64Kind: reflect.Int64, protoreflect.Sint64Kind: reflect.Int64, protoreflect.Sfixed64Kind: reflect.Int64,
	protoreflect.Uint32Kind: reflect.Uint32, protoreflect.Fixed32Kind: reflect.Uint32,
	protoreflect.Uint64Kind: reflect.Uint64, protoreflect.Fixed64Kind: reflect.Uint64,
	protoreflect.FloatKind: reflect.Float32, protoreflect.DoubleKind: reflect.Float64,
	protoreflect.StringKind: reflect.String, protoreflect.BytesKind: reflect.Slice,
	protoreflect.MessageKind: reflect.Ptr, protoreflect.GroupKind: reflect.Ptr,
}

// goBindings compares the generated struct of every message with its
// descriptor: one tagged struct field per descriptor field, tag contents, Go
// kind, getter.
func (c *srcCmp) goBindings() {
	var visit func(md protoreflect.MessageDescriptor, goName string)
	visit = func(md protoreflect.MessageDescriptor, goName string) {
		if md.IsMapEntry() {
			return
		}
		path := strings.TrimPrefix(string(md.FullName()), string(c.fd.Package())+".")
		c.el("go-message", path)
		mt, err := protoregistry.GlobalTypes.FindMessageByName(md.FullName())
		if err != nil || mt.Descriptor() != md {
			c.unclear(path, "Go type of the message not reachable through the type registry")
			return
		}
		rt := reflect.TypeOf(mt.Zero().Interface())
		if rt.Kind() != reflect.Ptr || rt.Elem().Kind() != reflect.Struct {
			c.bad("go:type", path, "message is not bound to a generated struct", "*struct", rt.String())
			return
		}
		if rt.Elem().Name() != goName {
			c.bad("go:type-name", path, "Go type name differs", goName, rt.Elem().Name())
		}
		// A value that goes through Reset() before anything else looked at it
		// (the decode path of a server does this) must still describe itself
		// as this message.
		if z, ok := reflect.New(rt.Elem()).Interface().(interface {
			Reset()
			ProtoReflect() protoreflect.Message
		}); ok {
			c.el("go-reset", path)
			z.Reset()
			if got := z.ProtoReflect().Descriptor().FullName(); got != md.FullName() {
				c.bad("go:reset-descriptor", path, "a fresh value describes itself as another message after Reset()", string(md.FullName()), string(got))
			}
		}
		// The legacy entry point: Descriptor() returns the gzipped file
		// descriptor and the index path of the message in it; following the
		// path must lead to this very message.
		if ld, ok := mt.Zero().Interface().(interface{ Descriptor() ([]byte, []int) }); ok {
			c.el("go-legacy-descriptor", path)
			if name, err := legacyPathName(ld.Descriptor()); err != nil {
				c.bad("go:legacy-descriptor", path, "legacy Descriptor() cannot be followed: "+err.Error(), string(md.FullName()), "")
			} else if name != string(md.FullName()) {
				c.bad("go:legacy-descriptor", path, "legacy Descriptor() index path names another message", string(md.FullName()), name)
			}
		}
		st := rt.Elem()
		byNum := map[int]reflect.StructField{}
		oneofs := map[string]bool{}
		for i := 0; i < st.NumField(); i++ {
			sf := st.Field(i)
			if o := sf.Tag.Get("protobuf_oneof"); o != "" {
				oneofs[o] = true
			}
			tag := sf.Tag.Get("protobuf")
			if tag == "" {
				continue
			}
			parts := strings.Split(tag, ",")
			if len(parts) < 3 {
				c.bad("go:tag", path+"."+sf.Name, "malformed protobuf struct tag", "", tag)
				continue
			}
			n, _ := strconv.Atoi(parts[1])
			if _, dup := byNum[n]; dup {
				c.bad("go:tag", path+"."+sf.Name, "two struct fields carry the same field number", "", tag)
			}
			byNum[n] = sf
			if md.Fields().ByNumber(protoreflect.FieldNumber(n)) == nil {
				c.el("go-field", path+"."+sf.Name)
				c.bad("go:field-missing-in-descriptor", path+"."+sf.Name, "struct field is tagged with a number the descriptor does not have", "<absent>", tag)
			}
		}
		for i := 0; i < md.Fields().Len(); i++ {
			fd := md.Fields().Get(i)
			fpath := path + "." + string(fd.Name())
			c.el("go-field", fpath)
			if od := fd.ContainingOneof(); od != nil && !od.IsSynthetic() {
				// Members of a real oneof live in wrapper types; the struct
				// carries one interface field per oneof.
				if !oneofs[string(od.Name())] {
					c.bad("go:oneof", fpath, "struct has no field for the oneof", string(od.Name()), "")
				}
				c.m.r.Count("src:go_oneof_members_not_tag_checked", 1)
				continue
			}
			sf, ok := byNum[int(fd.Number())]
			if !ok {
				c.bad("go:field-missing", fpath, "no struct field is tagged with the field's number", fmt.Sprint(fd.Number()), "")
				continue
			}
			c.goField(fpath, fd, sf, rt)
		}
		for i := 0; i < md.Enums().Len(); i++ {
			c.goLegacyEnum(md.Enums().Get(i))
		}
		for i := 0; i < md.Messages().Len(); i++ {
			n := md.Messages().Get(i)
			visit(n, goName+"_"+goCamel(string(n.Name())))
		}
	}
	for i := 0; i < c.fd.Enums().Len(); i++ {
		c.goLegacyEnum(c.fd.Enums().Get(i))
	}
	for i := 0; i < c.fd.Messages().Len(); i++ {
		md := c.fd.Messages().Get(i)
		visit(md, goCamel(string(md.Name())))
	}
}

// goLegacyEnum follows the index path of an enum's legacy EnumDescriptor()
// (message indices, then the enum index) in the gunzipped descriptor.
func (c *srcCmp) goLegacyEnum(ed protoreflect.EnumDescriptor) {
	path := strings.TrimPrefix(string(ed.FullName()), string(c.fd.Package())+".")
	et, err := protoregistry.GlobalTypes.FindEnumByName(ed.FullName())
	if err != nil || et.Descriptor() != ed {
		c.unclear(path, "Go type of the enum not reachable through the type registry")
		return
	}
	le, ok := et.New(0).(interface{ EnumDescriptor() ([]byte, []int) })
	if !ok {
		return
	}
	c.goEnumTables(ed, path)
	c.el("go-legacy-descriptor", path)
	gz, idx := le.EnumDescriptor()
	name, err := legacyEnumPathName(gz, idx)
	if err != nil {
		c.bad("go:legacy-descriptor", path, "legacy EnumDescriptor() cannot be followed: "+err.Error(), string(ed.FullName()), "")
	} else if name != string(ed.FullName()) {
		c.bad("go:legacy-descriptor", path, "legacy EnumDescriptor() index path names another enum", string(ed.FullName()), name)
	}
}

func (c *srcCmp) goField(path string, fd protoreflect.FieldDescriptor, sf reflect.StructField, ptr reflect.Type) {
	tag := sf.Tag.Get("protobuf")
	parts := strings.Split(tag, ",")
	kv := map[string]string{}
	flags := map[string]bool{}
	for _, p := range parts[3:] {
		if i := strings.IndexByte(p, '='); i >= 0 {
			kv[p[:i]] = p[i+1:]
		} else {
			flags[p] = true
		}
	}
	elemFd := fd
	if fd.IsMap() {
		// the tag of a map field describes the entry message
		if parts[0] != "bytes" {
			c.bad("go:tag", path, "wire type in struct tag differs", "bytes", parts[0])
		}
	} else if want := wireOfKind[fd.Kind()]; parts[0] != want {
		c.bad("go:tag", path, "wire type in struct tag differs", want, parts[0])
	}
	wantCard := "opt"
	switch fd.Cardinality() {
	case protoreflect.Repeated:
		wantCard = "rep"
	case protoreflect.Required:
		wantCard = "req"
	}
	if parts[2] != wantCard {
		c.bad("go:tag", path, "cardinality in struct tag differs", wantCard, parts[2])
	}
	if kv["name"] != string(fd.Name()) {
		c.bad("go:tag", path, "name in struct tag differs", string(fd.Name()), kv["name"])
	}
	if j, ok := kv["json"]; ok && j != fd.JSONName() {
		c.bad("go:tag", path, "json name in struct tag differs", fd.JSONName(), j)
	} else if !ok && fd.JSONName() != string(fd.Name()) && fd.JSONName() != jsonCamel(string(fd.Name())) {
		c.bad("go:tag", path, "struct tag lacks the explicit json name", fd.JSONName(), "")
	}
	if fd.ParentFile().Syntax() == protoreflect.Proto3 && !flags["proto3"] {
		c.bad("go:tag", path, "struct tag lacks proto3", "proto3", tag)
	}
	if e, ok := kv["enum"]; fd.Kind() == protoreflect.EnumKind && !fd.IsMap() && (!ok || e != string(fd.Enum().FullName())) {
		c.bad("go:tag", path, "enum name in struct tag differs", string(fd.Enum().FullName()), e)
	}
	if fd.HasOptionalKeyword() != flags["oneof"] {
		c.bad("go:tag", path, "proto3-optional marker in struct tag differs", fmt.Sprint(fd.HasOptionalKeyword()), fmt.Sprint(flags["oneof"]))
	}
	// Go type
	t := sf.Type
	switch {
	case fd.IsMap():
		if t.Kind() != reflect.Map {
			c.bad("go:field-type", path, "Go type is not a map", "map", t.String())
			return
		}
		if t.Key().Kind() != goKindOf[fd.MapKey().Kind()] {
			c.bad("go:field-type", path, "Go map key kind differs", goKindOf[fd.MapKey().Kind()].String(), t.Key().String())
		}
		t, elemFd = t.Elem(), fd.MapValue()
	case fd.IsList():
		if t.Kind() != reflect.Slice {
			c.bad("go:field-type", path, "Go type is not a slice", "slice", t.String())
			return
		}
		t = t.Elem()
	case fd.HasOptionalKeyword() && fd.Kind() != protoreflect.MessageKind && fd.Kind() != protoreflect.BytesKind:
		if t.Kind() != reflect.Ptr {
			c.bad("go:field-type", path, "optional scalar is not a pointer", "pointer", t.String())
			return
		}
		t = t.Elem()
	}
	if want := goKindOf[elemFd.Kind()]; t.Kind() != want {
		c.bad("go:field-type", path, "Go kind differs", want.String(), t.String())
	} else if elemFd.Kind() == protoreflect.MessageKind {
		if pm, ok := reflect.Zero(t).Interface().(proto.Message); !ok || pm.ProtoReflect().Descriptor().FullName() != elemFd.Message().FullName() {
			c.bad("go:field-type", path, "Go message type differs", string(elemFd.Message().FullName()), t.String())
		}
	} else if elemFd.Kind() == protoreflect.EnumKind {
		if pe, ok := reflect.Zero(t).Interface().(protoreflect.Enum); !ok || pe.Descriptor().FullName() != elemFd.Enum().FullName() {
			c.bad("go:field-type", path, "Go enum type differs", string(elemFd.Enum().FullName()), t.String())
		}
	}
	// name and getter
	wantName := goCamel(string(fd.Name()))
	if strings.TrimRight(sf.Name, "_") != wantName {
		c.bad("go:field-name", path, "Go field name differs", wantName, sf.Name)
	}
	if _, ok := ptr.MethodByName("Get" + sf.Name); !ok {
		c.bad("go:getter", path, "getter missing", "Get"+sf.Name, "")
	}
}

// serviceDesc compares api_grpc.pb.go's ServiceDesc and server interface with
// the service's rpcs.
func (c *srcCmp) serviceDesc(v apiVersion) {
	if c.fd.Services().Len() != 1 {
		c.unclear("services", fmt.Sprintf("%d services; the harness binds exactly the Insights service", c.fd.Services().Len()))
		return
	}
	sd := c.fd.Services().Get(0)
	d := v.svcDesc
	c.el("servicedesc", string(sd.Name()))
	if d.ServiceName != string(sd.FullName()) {
		c.bad("servicedesc:name", string(sd.Name()), "ServiceDesc.ServiceName differs", string(sd.FullName()), d.ServiceName)
	}
	if md, _ := d.Metadata.(string); md != c.fd.Path() {
		c.bad("servicedesc:metadata", string(sd.Name()), "ServiceDesc.Metadata differs from the file path", c.fd.Path(), fmt.Sprint(d.Metadata))
	}
	var wantUnary, wantStream, gotUnary, gotStream []string
	for i := 0; i < sd.Methods().Len(); i++ {
		m := sd.Methods().Get(i)
		if m.IsStreamingClient() || m.IsStreamingServer() {
			wantStream = append(wantStream, fmt.Sprintf("%s client=%v server=%v", m.Name(), m.IsStreamingClient(), m.IsStreamingServer()))
		} else {
			wantUnary = append(wantUnary, string(m.Name()))
		}
		path := string(sd.Name()) + "." + string(m.Name())
		c.el("servicedesc-method", path)
		// server interface: func(ctx, *In) (*Out, error) for unary rpcs
		im, ok := v.srvIface.MethodByName(string(m.Name()))
		if !ok {
			c.bad("servicedesc:interface", path, "server interface lacks the method", string(m.Name()), "")
			continue
		}
		if !m.IsStreamingClient() && !m.IsStreamingServer() {
			if im.Type.NumIn() != 2 || im.Type.NumOut() != 2 {
				c.bad("servicedesc:interface", path, "server method has an unexpected shape", "func(ctx, *In) (*Out, error)", im.Type.String())
				continue
			}
			in, inOK := reflect.Zero(im.Type.In(1)).Interface().(proto.Message)
			out, outOK := reflect.Zero(im.Type.Out(0)).Interface().(proto.Message)
			if !inOK || !outOK || in.ProtoReflect().Descriptor() != m.Input() || out.ProtoReflect().Descriptor() != m.Output() {
				c.bad("servicedesc:interface", path, "server method's Go types are not the rpc's messages",
					string(m.Input().FullName())+" -> "+string(m.Output().FullName()), im.Type.String())
			}
		}
	}
	for _, m := range d.Methods {
		gotUnary = append(gotUnary, m.MethodName)
		// Dispatch: the handler registered under the rpc's name must decode
		// the rpc's request type and call the server method of that name. The
		// generated Unimplemented server names the method it was asked for.
		rpc := sd.Methods().ByName(protoreflect.Name(m.MethodName))
		if rpc == nil || m.Handler == nil || v.unimpl == nil {
			continue
		}
		path := string(sd.Name()) + "." + m.MethodName
		c.el("servicedesc-dispatch", path)
		var decoded proto.Message
		_, herr := func() (r any, err error) {
			defer func() {
				if p := recover(); p != nil {
					err = fmt.Errorf("panic: %v", p)
				}
			}()
			return m.Handler(v.unimpl, context.Background(), func(x any) error { decoded, _ = x.(proto.Message); return nil }, nil)
		}()
		if decoded == nil || decoded.ProtoReflect().Descriptor().FullName() != rpc.Input().FullName() {
			got := "<nothing>"
			if decoded != nil {
				got = string(decoded.ProtoReflect().Descriptor().FullName())
			}
			c.bad("servicedesc:dispatch", path, "the handler registered for the rpc decodes another request type", string(rpc.Input().FullName()), got)
		}
		if want := "method " + m.MethodName + " not implemented"; herr == nil || !strings.Contains(herr.Error(), want) {
			c.bad("servicedesc:dispatch", path, "the handler registered for the rpc calls another server method", want, fmt.Sprint(herr))
		}
	}
	for _, s := range d.Streams {
		gotStream = append(gotStream, fmt.Sprintf("%s client=%v server=%v", s.StreamName, s.ClientStreams, s.ServerStreams))
	}
	if w, g := strings.Join(wantUnary, ","), strings.Join(gotUnary, ","); w != g {
		c.bad("servicedesc:methods", string(sd.Name()), "ServiceDesc.Methods differ from the service's unary rpcs", w, g)
	}
	if w, g := strings.Join(wantStream, ","), strings.Join(gotStream, ","); w != g {
		c.bad("servicedesc:streams", string(sd.Name()), "ServiceDesc.Streams differ from the service's streaming rpcs", w, g)
	}
	// No interface method beyond the rpcs (and the forward-compatibility hook).
	for i := 0; i < v.srvIface.NumMethod(); i++ {
		n := v.srvIface.Method(i).Name
		if sd.Methods().ByName(protoreflect.Name(n)) == nil && !strings.HasPrefix(n, "mustEmbedUnimplemented") {
			c.bad("servicedesc:interface", string(sd.Name())+"."+n, "server interface has a method that is no rpc", "<absent>", n)
		}
	}
}

// legacyPathName gunzips a legacy descriptor and follows the message index
// path, returning the full name of the message found there.
func legacyPathName(gz []byte, path []int) (string, error) {
	zr, err := gzip.NewReader(bytes.NewReader(gz))
	if err != nil {
		return "", err
	}
	raw, err := io.ReadAll(zr)
	if err != nil {
		return "", err
	}
	var fdp descriptorpb.FileDescriptorProto
	if err := proto.Unmarshal(raw, &fdp); err != nil {
		return "", err
	}
	if len(path) == 0 || path[0] < 0 || path[0] >= len(fdp.MessageType) {
		return "", fmt.Errorf("index path %v out of range", path)
	}
	m := fdp.MessageType[path[0]]
	name := fdp.GetPackage() + "." + m.GetName()
	for _, i := range path[1:] {
		if i < 0 || i >= len(m.NestedType) {
			return "", fmt.Errorf("index path %v out of range", path)
		}
		m = m.NestedType[i]
		name += "." + m.GetName()
	}
	return name, nil
}

// legacyEnumPathName follows a legacy enum index path: zero or more message
// indices followed by the index of the enum in that scope.
func legacyEnumPathName(gz []byte, path []int) (string, error) {
	zr, err := gzip.NewReader(bytes.NewReader(gz))
	if err != nil {
		return "", err
	}
	raw, err := io.ReadAll(zr)
	if err != nil {
		return "", err
	}
	var fdp descriptorpb.FileDescriptorProto
	if err := proto.Unmarshal(raw, &fdp); err != nil {
		return "", err
	}
	if len(path) == 0 {
		return "", fmt.Errorf("empty index path")
	}
	name := fdp.GetPackage()
	enums := fdp.EnumType
	msgs := fdp.MessageType
	for _, i := range path[:len(path)-1] {
		if i < 0 || i >= len(msgs) {
			return "", fmt.Errorf("index path %v out of range", path)
		}
		m := msgs[i]
		name += "." + m.GetName()
		enums, msgs = m.EnumType, m.NestedType
	}
	last := path[len(path)-1]
	if last < 0 || last >= len(enums) {
		return "", fmt.Errorf("index path %v out of range", path)
	}
	return name + "." + enums[last].GetName(), nil
}

var enumTableRe = regexp.MustCompile(`(?s)\b(\w+)_(name|value) = map\[(?:int32\]string|string\]int32)\{(.*?)\n\t\}`)
var enumEntryRe = regexp.MustCompile(`(?m)^\s*(?:(-?\d+):\s*"(\w+)"|"(\w+)":\s*(-?\d+)),`)

// goEnumTables compares the exported lookup tables <Enum>_name and
// <Enum>_value, as written in api.pb.go, with the enum's values.
func (c *srcCmp) goEnumTables(ed protoreflect.EnumDescriptor, path string) {
	if c.goSrc == "" {
		return
	}
	goName := string(ed.Name())
	for p := ed.Parent(); p != nil; p = p.Parent() {
		if _, ok := p.(protoreflect.MessageDescriptor); !ok {
			break
		}
		goName = string(p.Name()) + "_" + goName
	}
	want := map[string]string{}
	for i := 0; i < ed.Values().Len(); i++ {
		v := ed.Values().Get(i)
		want[string(v.Name())] = fmt.Sprint(v.Number())
	}
	seen := map[string]bool{}
	for _, m := range enumTableRe.FindAllStringSubmatch(c.goSrc, -1) {
		if m[1] != goName {
			continue
		}
		seen[m[2]] = true
		c.el("go-enum-table", path+"."+m[2])
		got := map[string]string{}
		for _, e := range enumEntryRe.FindAllStringSubmatch(m[3], -1) {
			if m[2] == "name" {
				got[e[2]] = e[1]
			} else {
				got[e[3]] = e[4]
			}
		}
		if fmt.Sprint(got) != fmt.Sprint(want) {
			c.bad("go:enum-table", path+"."+m[2], "the exported "+goName+"_"+m[2]+" table differs from the enum's values", fmt.Sprint(want), fmt.Sprint(got))
		}
	}
	if !seen["name"] || !seen["value"] {
		c.unclear(path, "exported enum tables "+goName+"_name/_value not found in api.pb.go")
	}
}
