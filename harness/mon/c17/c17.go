// Package c17 monitors property C17: v3alpha is a wire-compatible superset of
// v3, the committed Go bindings describe exactly the committed .proto sources,
// and the resolver's System constants equal the API's System enum numbers.
//
// Three sub-monitors:
//
//	walk  live protoreflect descriptors of api/v3 against api/v3alpha (complete)
//	src   own proto3 parser over api.proto against the embedded descriptor, the
//	      Go struct bindings and the grpc ServiceDesc of the same package (complete)
//	wire  a v3 client talking to a v3alpha server over an in-process gRPC
//	      connection with generated messages (executions)
package c17

import (
	"encoding/json"
	"fmt"
	"os"
	"sort"
	"strings"
	"sync"

	"verif/harness/ev"
)

// mon is shared by the sub-monitors: it counts every compared element by kind
// and keeps a few element paths as samples.
type mon struct {
	r  *ev.Run
	mu sync.Mutex
	// elements compared, by "monitor:kind"
	byKind map[string]int64
	paths  map[string][]string // a few sample paths per monitor
}

func newMon(r *ev.Run) *mon {
	return &mon{r: r, byKind: map[string]int64{}, paths: map[string][]string{}}
}

// elem records that one descriptor element was compared (one oracle
// evaluation, one distinct case: paths are unique by construction of a walk,
// and the hash set makes the count honest if they are not).
func (m *mon) elem(monitor, kind, path string) {
	m.r.Eval(1)
	m.r.Nontrivial(monitor + "|" + kind + "|" + path)
	m.r.Count("elements:"+monitor+":"+kind, 1)
	m.mu.Lock()
	m.byKind[monitor+":"+kind]++
	if len(m.paths[monitor+":"+kind]) < 2 {
		m.paths[monitor+":"+kind] = append(m.paths[monitor+":"+kind], path)
	}
	m.mu.Unlock()
}

type elemCase struct {
	Monitor string `json:"monitor"`
	Version string `json:"version,omitempty"`
	Path    string `json:"path"`
	Want    string `json:"want,omitempty"`
	Got     string `json:"got,omitempty"`
}

func (m *mon) violation(class, what string, c elemCase) {
	m.r.Violation(class, what, c)
}

func repoDir() string {
	if d := os.Getenv("VERIF_REPO"); d != "" {
		return d
	}
	return "/repo"
}

// witness is one committed regression case. Kind "wire" re-executes one
// exchange; kind "system-string" names a resolve.System constant whose String()
// once was the stringer fallback.
type witness struct {
	Kind string   `json:"kind"`
	Note string   `json:"note,omitempty"`
	Name string   `json:"name,omitempty"`
	Wire wireCase `json:"wire,omitempty"`
}

func Run(r *ev.Run, replay string) {
	r.MaxSamples = 12
	r.Rule = "walk: every service, rpc (signature, streaming, google.api.http incl. additional bindings), message, field (number, name, json name, kind, cardinality, optional keyword, oneof, type name modulo package, map key/value), oneof, nested type, enum and enum value reachable from v3's File_api_proto is looked up in v3alpha's File_api_proto and compared; resolve.System constants against the v3 System enum. " +
		"src: api/v3/api.proto and api/v3alpha/api.proto are parsed by the harness's proto3 parser and the declaration tree is compared in both directions and in declaration order with the embedded descriptor of the same Go package; Go struct tags/getters and the grpc ServiceDesc are compared with that descriptor; every generated v3alpha client stub is called once; beforehand parser and comparison must reproduce three protoc-generated reference descriptors (protobuf-go test data: all scalar kinds, maps, oneofs) without a difference. " +
		"wire: a generated v3 client calls every v3 rpc on a bufconn gRPC server that registers the generated v3alpha service; request (v3 type) and response (v3alpha type) are filled field by field through protoreflect from the seeded PRNG (first case of a stratum: every field; then each field with p=0.8; repeated fields 2-3 elements; enum values and oneof arms cycled); stratum v3-only fills only what v3 declares, stratum v3alpha-extras also v3alpha-only fields and enum values; the server must read exactly the values sent (compared field number by field number across the two descriptor sets, no unknown fields), the client must read exactly the v3 fields sent and hold exactly the v3alpha-only fields as unknown fields. " +
		"A distinct non-trivial case is a distinct compared descriptor element (monitor, kind, path) or a distinct exchange (hash of method, request bytes, response bytes) with non-empty request and response."
	r.Assumptions = []string{
		"descriptors are reached through each package's File_api_proto, never through the global file registry (both files are called api.proto)",
		"a difference in [packed] or in the position of a oneof among the fields is not an incompatibility (every parser accepts both encodings); it is counted, not reported",
		"re-marshalled bytes that differ while every field value is equal across the two descriptor sets are counted (wire:bytes_differ_values_equal), not reported",
		"the .proto parser understands proto3 declarations only; extension options other than google.api.http, dotted option names, groups, extensions, proto2 and editions make the run inconclusive",
		"imported files are not parsed: a type name that is not declared in the file is accepted if the descriptor's type comes from another file and its full name ends with the written name under protoc's scope search",
	}
	m := newMon(r)

	if replay != "" {
		runReplay(m, replay)
		return
	}

	var wit []witness
	if err := ev.ReadJSON(ev.Root+"/witnesses/C17.json", &wit); err != nil {
		r.Inconclusive("witnesses/C17.json: " + err.Error())
	}

	descOK := func() (ok bool) {
		defer func() {
			if p := recover(); p != nil {
				r.Violation("C17:walk:panic", fmt.Sprint("panic while walking the descriptors: ", p), elemCase{Monitor: "walk"})
				ok = false
			}
		}()
		runWalk(m)
		return true
	}()
	func() {
		defer func() {
			if p := recover(); p != nil {
				r.Violation("C17:src:panic", fmt.Sprint("panic while comparing source and generated code: ", p), elemCase{Monitor: "src"})
			}
		}()
		runSrc(m)
	}()
	if descOK {
		runWire(m, wit)
	}
	for _, w := range wit {
		switch w.Kind {
		case "wire": // executed by runWire
		case "system-string":
			checkSystemStringWitness(m, w.Name)
		default:
			r.Inconclusive("witnesses/C17.json: unknown kind " + w.Kind)
		}
	}

	// Evidence.
	r.Set("exhaustive", true)
	r.Set("exhaustive_scope", "sub-monitors walk and src enumerate every descriptor element and every declaration; wire is sampled")
	m.mu.Lock()
	kinds := map[string]int64{}
	for k, v := range m.byKind {
		kinds[k] = v
	}
	var ks []string
	for k := range m.paths {
		ks = append(ks, k)
	}
	sort.Strings(ks)
	var sample []string
	for _, k := range ks {
		for _, p := range m.paths[k] {
			sample = append(sample, k+" "+p)
		}
	}
	m.mu.Unlock()
	r.Set("elements_by_kind", kinds)
	var total int64
	for _, v := range kinds {
		total += v
	}
	r.Set("descriptor_elements_compared", total)
	r.Sample(map[string]any{"element_paths": sample})

	// Gates: the complete monitors must have seen a plausible API, the wire
	// monitor must have exchanged what the tier asks for.
	r.Gate("elements:walk:rpc", 1)
	r.Gate("elements:walk:message", 1)
	r.Gate("elements:walk:field", 1)
	r.Gate("elements:walk:enum-value", 1)
	r.Gate("elements:walk:system-constant", 4)
	r.Gate("elements:src:field", 1)
	r.Gate("elements:src:rpc", 1)
	r.Gate("elements:src:http", 1)
	r.Gate("elements:src:go-field", 1)
	r.Gate("elements:src:servicedesc-method", 1)
	r.Gate("src:files_parsed", 2)
}

func runReplay(m *mon, path string) {
	var c struct {
		Case json.RawMessage `json:"case"`
	}
	if err := ev.ReadJSON(path, &c); err != nil {
		m.r.Inconclusive("replay unreadable: " + err.Error())
		return
	}
	var head struct {
		Monitor string `json:"monitor"`
	}
	if err := json.Unmarshal(c.Case, &head); err != nil {
		m.r.Inconclusive("replay case unreadable: " + err.Error())
		return
	}
	switch head.Monitor {
	case "walk":
		runWalk(m) // complete and deterministic: the element is visited again
	case "src":
		runSrc(m)
	case "wire":
		var wc wireCase
		if err := json.Unmarshal(c.Case, &wc); err != nil {
			m.r.Inconclusive("replay case unreadable: " + err.Error())
			return
		}
		replayWire(m, wc)
	default:
		m.r.Inconclusive("replay case names no monitor")
	}
}

// rel strips the package prefix so that names of the two API versions compare.
func rel(full, pkg string) string {
	if strings.HasPrefix(full, pkg+".") {
		return "~." + full[len(pkg)+1:]
	}
	return full
}
