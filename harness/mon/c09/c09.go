// Package c09 monitors the boolean-algebra laws of Set.Union/Intersect:
// pointwise agreement with the library's own matching of the operands.
package c09

import (
	"fmt"
	"math/rand"
	"regexp"
	"strings"
	"sync"

	"deps.dev/util/semver"
	"verif/harness/ev"
	"verif/harness/gen"
)

type Case struct {
	Sys   string   `json:"sys"`
	A     string   `json:"a"`
	B     string   `json:"b"`
	Cands []string `json:"cands,omitempty"`
}

type sysgen struct {
	name string
	sys  semver.System
	gen  func(*rand.Rand) string
	pfx  string
}

func systems() []sysgen {
	return []sysgen{
		{"Default", semver.DefaultSystem, gen.SmallEdges(gen.SameLower(gen.NPMRange, " ")), ""},
		{"NPM", semver.NPM, gen.SmallEdges(gen.SameLower(gen.NPMRange, " ")), ""},
		{"Cargo", semver.Cargo, gen.SmallEdges(gen.SameLower(gen.CargoReq, ", ")), ""},
		{"Go", semver.Go, func(r *rand.Rand) string { return "v" + gen.SemFull(r, true) }, "v"},
	}
}

func Run(r *ev.Run, replay string) {
	r.MaxSamples = 8
	r.Rule = "per system (Default, NPM, Cargo, Go): pairs (A,B) of generated constraints, each operand parsed afresh for every operation (Union/Intersect mutate shared storage); candidates = every bound printed in Set.String() of A, B and the result, its successor/predecessor in every position and -0/-alpha variants, plus 60 random versions. Oracle: (A∪B).MatchVersion(v) == A.Match(v)||B.Match(v) for all v; (A∩B).MatchVersion(v) == A&&B for release v; prerelease-inclusive: ParseSetConstraint((A∩B).String()).MatchVersionPrerelease(v) == A.MVP(v)&&B.MVP(v) for all v; Empty() => nothing matches; B∪A, B∩A and operands with reversed span/alternative order match identically. Non-trivial = distinct pair where some candidate is in exactly one operand and some in both."
	r.Assumptions = []string{"the oracle is the library's own Match on the operands (independent of whether Match is right, which is C03)"}
	if replay != "" {
		var c struct {
			Case Case `json:"case"`
		}
		if err := ev.ReadJSON(replay, &c); err != nil {
			r.Inconclusive("replay unreadable")
			return
		}
		for _, sg := range systems() {
			if sg.name == c.Case.Sys {
				pair(r, sg, c.Case.A, c.Case.B, c.Case.Cands, nil)
			}
		}
		return
	}
	var wit []Case
	if err := ev.ReadJSON(ev.Root+"/witnesses/C09.json", &wit); err != nil {
		r.Inconclusive("witnesses/C09.json: " + err.Error())
	}
	n := r.N(20000, 1200000)
	var wg sync.WaitGroup
	for _, sg := range systems() {
		for _, w := range wit {
			if w.Sys == sg.name {
				pair(r, sg, w.A, w.B, w.Cands, nil)
				r.Count("witness_pairs", 1)
			}
		}
		shards := 4
		for sh := 0; sh < shards; sh++ {
			wg.Add(1)
			go func(sg sysgen, sh int) {
				defer wg.Done()
				rng := r.Rand(fmt.Sprintf("%s/%d", sg.name, sh))
				var bg []string
				for i := 0; i < 60; i++ {
					bg = append(bg, sg.pfx+gen.SemFull(rng, true))
				}
				for i := 0; i < n/shards; i++ {
					a, b := sg.gen(rng), sg.gen(rng)
					switch k := rng.Intn(10); {
					case k == 0:
						b = a
					case k < 5:
						// B shares a bound with A: same version literal under another
						// operator, or A with one comparison made strict/non-strict.
						b = neighbour(sg, a, rng)
						r.Count("pairs_sharing_a_bound:"+sg.name, 1)
					}
					if (sg.name == "Default" || sg.name == "NPM") && rng.Intn(150) == 0 {
						// Long sets: 17-40 disjoint alternatives (more spans than any
						// small-set shortcut covers) against a wide range that canon
						// does not merge with them (its lower bound is the synthetic
						// minimum) or a prerelease-bounded one.
						k := 17 + rng.Intn(24)
						major := 1 + rng.Intn(3)
						alts := make([]string, k)
						for j := range alts {
							alts[j] = fmt.Sprintf("%d.%d.x", major, 2*j)
						}
						rng.Shuffle(k, func(x, y int) { alts[x], alts[y] = alts[y], alts[x] })
						a = strings.Join(alts, " || ")
						b = gen.Pick(rng, fmt.Sprintf("<%d.0.0", major+1+rng.Intn(3)), fmt.Sprintf("<=%d.%d.0", major, rng.Intn(2*k)), fmt.Sprintf(">=%d.%d.0-rc <%d.%d.0", major, rng.Intn(k), major, k+rng.Intn(k)), fmt.Sprintf("%d.%d.x || %d.x", major, 2*rng.Intn(k)+1, major+1))
						r.Count("long_set_pairs:"+sg.name, 1)
					}
					pair(r, sg, a, b, bg, rng)
				}
			}(sg, sh)
		}
	}
	wg.Wait()
	for _, sg := range systems() {
		r.Gate("pairs:"+sg.name, int64(n/3))
		if sg.name != "Go" {
			r.Gate("nontrivial:"+sg.name, int64(n/20))
		}
	}
}

var sampled sync.Map

func parse(sg sysgen, s string) *semver.Constraint {
	c, err := sg.sys.ParseConstraint(s)
	if err != nil {
		return nil
	}
	return c
}

// reversed returns the constraint text with its alternatives (and, for comma
// lists, its conjuncts) in reverse order: the same set written differently.
func reversed(sg sysgen, s string) string {
	rev := func(parts []string) {
		for i, j := 0, len(parts)-1; i < j; i, j = i+1, j-1 {
			parts[i], parts[j] = parts[j], parts[i]
		}
	}
	switch sg.name {
	case "Cargo":
		p := strings.Split(s, ",")
		rev(p)
		return strings.Join(p, ",")
	case "Go":
		return s
	}
	p := strings.Split(s, "||")
	rev(p)
	return strings.Join(p, "||")
}

func pair(r *ev.Run, sg sysgen, a, b string, extra []string, rng *rand.Rand) {
	c := Case{Sys: sg.name, A: a, B: b}
	defer func() {
		if p := recover(); p != nil {
			r.Violation("C09:"+sg.name+":panic", fmt.Sprintf("%s: panic on %q, %q: %v", sg.name, a, b, p), c)
		}
	}()
	aO, bO := parse(sg, a), parse(sg, b)
	if aO == nil || bO == nil {
		return
	}
	r.Count("pairs:"+sg.name, 1)
	viol := func(law, what string, v string) {
		cc := c
		cc.Cands = []string{v}
		if userWrittenMinimum(a, b, v) {
			law = "user-written-minimum"
		}
		r.Violation("C09:"+sg.name+":"+law, fmt.Sprintf("%s: A=%q B=%q: %s", sg.name, a, b, what), cc)
	}
	// The constraints whose sets were the receivers of the first union and
	// intersection: Constraint.Set hands out the set by value, and operating on
	// that value must leave the constraint itself matching as before.
	var recvs []*semver.Constraint
	op := func(x, y string, union bool) (semver.Set, error) {
		cx, cy := parse(sg, x), parse(sg, y)
		if cx == nil || cy == nil {
			return semver.Set{}, fmt.Errorf("operand no longer parses")
		}
		if x == a && y == b {
			recvs = append(recvs, cx)
		}
		s := cx.Set()
		var err error
		if union {
			err = s.Union(cy.Set())
		} else {
			err = s.Intersect(cy.Set())
		}
		return s, err
	}
	u, errU := op(a, b, true)
	i, errI := op(a, b, false)
	u2, errU2 := op(b, a, true)
	i2, errI2 := op(b, a, false)
	ra, rb := reversed(sg, a), reversed(sg, b)
	u3, errU3 := op(ra, rb, true)
	i3, errI3 := op(ra, rb, false)
	if errU != nil || errI != nil {
		r.Count("op_errors:"+sg.name, 1)
	}
	if (errU == nil) != (errU2 == nil) || (errU == nil) != (errU3 == nil) {
		viol("union:error-order-dependent", fmt.Sprintf("Union errs depending on operand/span order: %v / %v / %v", errU, errU2, errU3), "")
	}
	if (errI == nil) != (errI2 == nil) || (errI == nil) != (errI3 == nil) {
		viol("intersect:error-order-dependent", fmt.Sprintf("Intersect errs depending on operand/span order: %v / %v / %v", errI, errI2, errI3), "")
	}
	var iPre, i2Pre, i3Pre *semver.Constraint
	if errI == nil {
		var err error
		iPre, err = sg.sys.ParseSetConstraint(i.String())
		if err != nil {
			iPre = nil // round-tripping is C11's business
		}
		if errI2 == nil {
			i2Pre, _ = sg.sys.ParseSetConstraint(i2.String())
		}
		if errI3 == nil {
			i3Pre, _ = sg.sys.ParseSetConstraint(i3.String())
		}
	}
	// Candidates.
	text := aO.Set().String() + " " + bO.Set().String()
	if errU == nil {
		text += " " + u.String()
	}
	if errI == nil {
		text += " " + i.String()
	}
	cands := gen.Boundary(text, 3, 3, []string{"-0", "-alpha"})
	if sg.pfx != "" {
		for k := range cands {
			cands[k] = sg.pfx + cands[k]
		}
	}
	if len(cands) > 80 && rng != nil {
		rng.Shuffle(len(cands), func(x, y int) { cands[x], cands[y] = cands[y], cands[x] })
		cands = cands[:80]
	}
	cands = append(cands, extra...)
	// Accumulation from the empty set, the way a caller folds a list of
	// sets: acc = {} ∪ A ∪ B. The operand objects themselves (not fresh copies)
	// must still match afterwards as they did before.
	var acc semver.Set
	var aUsed, bUsed *semver.Constraint
	accOK := false
	if e, err := sg.sys.ParseSetConstraint("{<empty>}"); err == nil && sg.name != "Go" {
		acc = e.Set()
		aUsed, bUsed = parse(sg, a), parse(sg, b)
		if aUsed != nil && bUsed != nil && acc.Union(aUsed.Set()) == nil && acc.Union(bUsed.Set()) == nil {
			accOK = true
			r.Count("accumulations:"+sg.name, 1)
		}
	}
	// The operands once more as set texts with their spans written in reverse
	// order: ParseSetConstraint takes spans in any order, and a set means the
	// same whatever order its spans are written in.
	sortedA, revA := setTextOperands(sg, aO)
	sortedB, revB := setTextOperands(sg, bO)
	var revU *semver.Set
	if revA != nil && revB != nil {
		x, y := revA.Set(), revB.Set()
		// Fresh parses for the union: Union may reuse its operands' storage.
		if a2, b2 := reparse(sg, revA), reparse(sg, revB); a2 != nil && b2 != nil {
			x, y = a2.Set(), b2.Set()
			if x.Union(y) == nil {
				revU = &x
			}
		}
		r.Count("reversed_set_text_operands:"+sg.name, 1)
	}
	// And with an <empty> span written before, between and after the others
	// (ParseSetConstraint accepts it): it adds nothing to the set, and the
	// set is empty exactly when it matches nothing.
	var withEmpty []*semver.Constraint
	var plain []*semver.Constraint
	for _, o := range []*semver.Constraint{aO, bO} {
		vs := emptySpanVariants(sg, o)
		if len(vs) > 0 {
			if p, err := sg.sys.ParseSetConstraint(o.Set().String()); err == nil {
				for range vs {
					plain = append(plain, p)
				}
				withEmpty = append(withEmpty, vs...)
			}
		}
	}
	r.Count("empty_span_set_texts:"+sg.name, int64(len(withEmpty)))
	// The all-empty text united with the other operand is that operand.
	var emptyU []*semver.Set
	var emptyUwant []*semver.Constraint
	for k, o := range []*semver.Constraint{aO, bO} {
		other := []*semver.Constraint{bO, aO}[k]
		if o.Set().String() != "{<empty>}" {
			continue
		}
		e, err1 := sg.sys.ParseSetConstraint("{<empty>,<empty>}")
		p, err2 := sg.sys.ParseSetConstraint(other.Set().String())
		if err1 != nil || err2 != nil {
			continue
		}
		x := e.Set()
		if x.Union(p.Set()) == nil {
			emptyU = append(emptyU, &x)
			// (Compared with the operand as parsed from the same text: a
			// 0.0.0-0 bound written in set text is a user-written minimum.)
			if again, err := sg.sys.ParseSetConstraint(other.Set().String()); err == nil {
				emptyUwant = append(emptyUwant, again)
			} else {
				emptyU = emptyU[:len(emptyU)-1]
				continue
			}
			r.Count("all_empty_text_unions:"+sg.name, 1)
		}
	}
	onlyOne, both := false, false
	done := map[string]bool{}
	for _, vs := range cands {
		v, err := sg.sys.Parse(vs)
		if err != nil || v.IsWildcard() {
			continue
		}
		ma, mb := aO.Set().MatchVersion(v), bO.Set().MatchVersion(v)
		pa, pb := aO.MatchVersionPrerelease(v), bO.MatchVersionPrerelease(v)
		if ma != mb {
			onlyOne = true
		}
		if ma && mb {
			both = true
		}
		r.Eval(1)
		rep := func(law, what string) {
			if !done[law] {
				done[law] = true
				viol(law, what, vs)
			}
		}
		for _, rc := range recvs {
			if rc.Set().MatchVersion(v) != ma || rc.MatchVersionPrerelease(v) != pa {
				rep("receiver-source-modified", fmt.Sprintf("v=%s: the constraint A, whose Set() value was the receiver of a Union/Intersect with B, now matches %v/%v (it matched %v/%v); it prints %s", vs, rc.Set().MatchVersion(v), rc.MatchVersionPrerelease(v), ma, pa, rc.Set().String()))
			}
		}
		for k, eu := range emptyU {
			if m, want := eu.MatchVersion(v), emptyUwant[k].Set().MatchVersion(v); m != want {
				rep("set-text:empty-union", fmt.Sprintf("v=%s: {<empty>,<empty>} united with %s matches %v, the operand alone %v; the union prints %s", vs, emptyUwant[k].Set().String(), m, want, eu.String()))
			}
		}
		for k, we := range withEmpty {
			if m, want := we.MatchVersionPrerelease(v), plain[k].MatchVersionPrerelease(v); m != want {
				rep("set-text:empty-span", fmt.Sprintf("v=%s: %s matches %v, the same text without the <empty> span %v", vs, we.String(), m, want))
			}
			if set := we.Set(); set.Empty() && (we.MatchVersionPrerelease(v) || set.MatchVersion(v)) {
				rep("empty", fmt.Sprintf("v=%s matched by a set reported Empty(): %s", vs, we.String()))
			}
		}
		if revA != nil && sortedA.MatchVersionPrerelease(v) != revA.MatchVersionPrerelease(v) {
			rep("set-text:span-order", fmt.Sprintf("v=%s: the set text of A with its spans in reverse order matches %v, in printed order %v", vs, revA.MatchVersionPrerelease(v), sortedA.MatchVersionPrerelease(v)))
		}
		if revB != nil && sortedB.MatchVersionPrerelease(v) != revB.MatchVersionPrerelease(v) {
			rep("set-text:span-order", fmt.Sprintf("v=%s: the set text of B with its spans in reverse order matches %v, in printed order %v", vs, revB.MatchVersionPrerelease(v), sortedB.MatchVersionPrerelease(v)))
		}
		if revU != nil {
			// As for the union law above: plain MatchVersion.
			if got, want := revU.MatchVersion(v), sortedA.Set().MatchVersion(v) || sortedB.Set().MatchVersion(v); got != want {
				rep("set-text:union", fmt.Sprintf("v=%s: union of the operands given as set texts with reversed spans (%s) matches %v, the operands %v", vs, revU.String(), got, want))
			}
		}
		if accOK {
			if got := acc.MatchVersion(v); got != (ma || mb) {
				rep("union:accumulated", fmt.Sprintf("v=%s: A matches %v, B matches %v, ({} ∪ A ∪ B) = %s matches %v", vs, ma, mb, acc.String(), got))
			}
			if aUsed.Set().MatchVersion(v) != ma || bUsed.Set().MatchVersion(v) != mb {
				rep("operand-modified", fmt.Sprintf("v=%s: after {} ∪ A ∪ B the operand objects match differently than before (A: %v, was %v; B: %v, was %v); A now prints %s", vs, aUsed.Set().MatchVersion(v), ma, bUsed.Set().MatchVersion(v), mb, aUsed.Set().String()))
			}
		}
		if errU == nil {
			if got := u.MatchVersion(v); got != (ma || mb) {
				rep("union", fmt.Sprintf("v=%s: A matches %v, B matches %v, union %s matches %v", vs, ma, mb, u.String(), got))
			}
			if errU2 == nil && u2.MatchVersion(v) != u.MatchVersion(v) {
				rep("union:operand-order", fmt.Sprintf("v=%s: A∪B=%s and B∪A=%s match differently", vs, u.String(), u2.String()))
			}
			if errU3 == nil && u3.MatchVersion(v) != u.MatchVersion(v) {
				rep("union:span-order", fmt.Sprintf("v=%s: union of the operands written in reverse order %s differs from %s", vs, u3.String(), u.String()))
			}
			if u.Empty() && u.MatchVersion(v) {
				rep("empty", fmt.Sprintf("v=%s matched by a union reported Empty(): %s", vs, u.String()))
			}
		}
		if errI == nil {
			if !v.IsPrerelease() {
				if got := i.MatchVersion(v); got != (ma && mb) {
					rep("intersect", fmt.Sprintf("release v=%s: A matches %v, B matches %v, intersection %s matches %v", vs, ma, mb, i.String(), got))
				}
			}
			if iPre != nil {
				if got := iPre.MatchVersionPrerelease(v); got != (pa && pb) {
					law := "intersect-prerelease-inclusive"
					if got && adjacentMergeGap(sg, aO, bO, v) {
						law += ":adjacent-merge-gap"
					}
					rep(law, fmt.Sprintf("v=%s (interval matching): A %v, B %v, intersection %s %v", vs, pa, pb, i.String(), got))
				}
				if i2Pre != nil && i2Pre.MatchVersionPrerelease(v) != iPre.MatchVersionPrerelease(v) {
					rep("intersect:operand-order", fmt.Sprintf("v=%s: A∩B=%s and B∩A=%s match differently", vs, i.String(), i2.String()))
				}
				if i3Pre != nil && i3Pre.MatchVersionPrerelease(v) != iPre.MatchVersionPrerelease(v) {
					rep("intersect:span-order", fmt.Sprintf("v=%s: intersection of the operands written in reverse order %s differs from %s", vs, i3.String(), i.String()))
				}
			}
			if errI2 == nil && !v.IsPrerelease() && i2.MatchVersion(v) != i.MatchVersion(v) {
				rep("intersect:operand-order", fmt.Sprintf("release v=%s: A∩B=%s and B∩A=%s match differently", vs, i.String(), i2.String()))
			}
			if i.Empty() && (i.MatchVersion(v) || iPre != nil && iPre.MatchVersionPrerelease(v)) {
				rep("empty", fmt.Sprintf("v=%s matched by an intersection reported Empty(): %s", vs, i.String()))
			}
		}
	}
	if onlyOne && both {
		r.Nontrivial(sg.name + "\x00" + a + "\x00" + b)
		r.Count("nontrivial:"+sg.name, 1)
		if _, d := sampled.LoadOrStore(sg.name, true); !d && errU == nil && errI == nil {
			r.Sample(map[string]string{"sys": sg.name, "A": a, "B": b, "A∪B": u.String(), "A∩B": i.String()})
		}
	}
}

// setTextOperands parses the operand's printed set as it stands and with its
// spans in reverse order (nil, nil when the set has fewer than two spans or
// its text does not parse back, which is C11's subject).
func setTextOperands(sg sysgen, c *semver.Constraint) (sorted, rev *semver.Constraint) {
	txt := c.Set().String()
	if !strings.HasPrefix(txt, "{") || !strings.HasSuffix(txt, "}") {
		return nil, nil
	}
	spans := strings.Split(txt[1:len(txt)-1], ",")
	if len(spans) < 2 {
		return nil, nil
	}
	for i, j := 0, len(spans)-1; i < j; i, j = i+1, j-1 {
		spans[i], spans[j] = spans[j], spans[i]
	}
	sorted, err := sg.sys.ParseSetConstraint(txt)
	if err != nil {
		return nil, nil
	}
	rev, err = sg.sys.ParseSetConstraint("{" + strings.Join(spans, ",") + "}")
	if err != nil {
		return nil, nil
	}
	return sorted, rev
}

// emptySpanVariants parses the operand's printed set with an <empty> span
// added in first, in last and (two spans or more) in second position. Texts
// that do not parse are left out.
func emptySpanVariants(sg sysgen, c *semver.Constraint) []*semver.Constraint {
	txt := c.Set().String()
	if !strings.HasPrefix(txt, "{") || !strings.HasSuffix(txt, "}") || txt == "{}" {
		return nil
	}
	if txt == "{<empty>}" {
		// The empty set written with its span twice and three times.
		var out []*semver.Constraint
		for _, t := range []string{"{<empty>,<empty>}", "{<empty>,<empty>,<empty>}"} {
			if n, err := sg.sys.ParseSetConstraint(t); err == nil {
				out = append(out, n)
			}
		}
		return out
	}
	spans := strings.Split(txt[1:len(txt)-1], ",")
	texts := []string{"{<empty>," + txt[1:], txt[:len(txt)-1] + ",<empty>}"}
	if len(spans) >= 2 {
		texts = append(texts, "{"+spans[0]+",<empty>,"+strings.Join(spans[1:], ",")+"}")
	}
	var out []*semver.Constraint
	for _, t := range texts {
		if n, err := sg.sys.ParseSetConstraint(t); err == nil {
			out = append(out, n)
		}
	}
	return out
}

// reparse parses a set constraint's own text again (a fresh object).
func reparse(sg sysgen, c *semver.Constraint) *semver.Constraint {
	n, err := sg.sys.ParseSetConstraint(c.String())
	if err != nil {
		return nil
	}
	return n
}

// adjacentMergeGap recognises the recorded finding about canonicalisation
// joining adjoining spans ([a,1.∞.∞] and [2.0.0,b] become [a,b]): under interval
// matching the joined span newly contains the prereleases of the second span's
// lower bound. v is such a case iff v is a prerelease that is in neither... not in
// both operands, while its release x.y.z and the release just before x.y.z are
// in both operands.
func adjacentMergeGap(sg sysgen, a, b *semver.Constraint, v *semver.Version) bool {
	if !v.IsPrerelease() {
		return false
	}
	str := v.Canon(false)
	str = strings.TrimPrefix(str, "v")
	if i := strings.IndexByte(str, '-'); i >= 0 {
		str = str[:i]
	}
	var x, y, z int64
	if n, _ := fmt.Sscanf(str, "%d.%d.%d", &x, &y, &z); n != 3 {
		return false
	}
	const big = 999999999
	var pred string
	switch {
	case z > 0:
		pred = fmt.Sprintf("%d.%d.%d", x, y, z-1)
	case y > 0:
		pred = fmt.Sprintf("%d.%d.%d", x, y-1, big)
	case x > 0:
		pred = fmt.Sprintf("%d.%d.%d", x-1, big, big)
	default:
		return false
	}
	in := func(s string) bool {
		w, err := sg.sys.Parse(sg.pfx + s)
		return err == nil && a.MatchVersionPrerelease(w) && b.MatchVersionPrerelease(w)
	}
	return in(str) && in(pred)
}

var boundLit = regexp.MustCompile(`[0-9]+\.[0-9]+\.[0-9]+(-[0-9A-Za-z.-]*[0-9A-Za-z])?`)

// neighbour builds a constraint that touches a: it reuses one of the bounds
// printed in a's set (or a version next to it) under a random operator, or is a
// itself with one operator toggled between strict and non-strict.
func neighbour(sg sysgen, a string, rng *rand.Rand) string {
	c := parse(sg, a)
	if c == nil {
		return sg.gen(rng)
	}
	lits := boundLit.FindAllString(c.Set().String(), -1)
	if len(lits) == 0 {
		return sg.gen(rng)
	}
	v := lits[rng.Intn(len(lits))]
	if sg.name == "Go" {
		return "v" + v
	}
	if rng.Intn(4) == 0 {
		for _, sw := range [][2]string{{"<=", "<"}, {">=", ">"}} {
			from, to := sw[0], sw[1]
			if rng.Intn(2) == 0 {
				from, to = to, from
			}
			if i := strings.Index(a, from); i >= 0 && (from != "<" && from != ">" || !strings.HasPrefix(a[i:], from+"=")) {
				return a[:i] + to + a[i+len(from):]
			}
		}
	}
	var x, y, z int
	fmt.Sscanf(v, "%d.%d.%d", &x, &y, &z)
	next := fmt.Sprintf("%d.0.0", x+1)
	prev := fmt.Sprintf("%d.%d.%d", x, y, z)
	switch {
	case z > 0:
		prev = fmt.Sprintf("%d.%d.%d", x, y, z-1)
	case y > 0:
		prev = fmt.Sprintf("%d.%d.0", x, y-1)
	case x > 0:
		prev = fmt.Sprintf("%d.0.0", x-1)
	}
	sep := " "
	if sg.name == "Cargo" {
		sep = ", "
	}
	forms := []string{">=" + v, "<=" + v, ">" + v, "<" + v, "=" + v, "^" + v, "~" + v,
		">=" + v + sep + "<" + next, ">" + prev + sep + "<=" + v, ">=" + prev + sep + "<" + v, ">" + v + sep + "<=" + next, ">=" + prev + sep + "<=" + v}
	if sg.name != "Cargo" {
		forms = append(forms, prev+" - "+v, v+" - "+next, "<"+v+" || >"+v, "<="+prev+" || >="+v)
	}
	return forms[rng.Intn(len(forms))]
}

// userWrittenMinimum recognises the recorded finding about the minimum version
// 0.0.0-0 written out by the user: the library marks its own synthetic 0.0.0-0
// bound as "not user-provided" (so that it does not admit prereleases), and
// when a user-written 0.0.0-0 meets it in a union or intersection the mark of
// whichever object survives decides whether prereleases of 0.0.0 match. The
// shape: an operand names 0.0.0-0 literally and the candidate is a prerelease
// of 0.0.0.
func userWrittenMinimum(a, b, v string) bool {
	v = strings.TrimPrefix(v, "v")
	if !strings.HasPrefix(v, "0.0.0-") {
		return false
	}
	has := func(s string) bool {
		for _, t := range boundLit.FindAllString(s, -1) {
			if t == "0.0.0-0" {
				return true
			}
		}
		return false
	}
	return has(a) || has(b)
}
