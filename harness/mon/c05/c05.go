// Package c05 monitors that resolution is a pure function of the universe
// and the root: repeated, history-dependent, insertion-order-permuted, aliased
// and concurrent resolutions must equal a fresh-client baseline, the client
// must report the same before and after, and the race detector must stay
// silent on shared resolvers/clients.
package c05

import (
	"context"
	"encoding/json"
	"fmt"
	"math/rand"
	"os"
	"os/exec"
	"path/filepath"
	"runtime"
	"runtime/debug"
	"sort"
	"strings"
	"sync"

	"deps.dev/util/resolve"
	"deps.dev/util/resolve/maven"
	"deps.dev/util/resolve/npm"
	"deps.dev/util/resolve/pypi"
	"verif/harness/ev"
	"verif/harness/mon/c06"
	"verif/harness/mon/c07"
	"verif/harness/mon/c08"
	"verif/harness/racechild"
	"verif/harness/uni"
)

type Case struct {
	Sys      string        `json:"sys"`
	Universe *uni.Universe `json:"universe"`
	Root     [2]string     `json:"root,omitempty"`
	Step     string        `json:"step,omitempty"`
}

type sysDef struct {
	name   string
	gen    func(*rand.Rand) *uni.Universe
	mk     func(resolve.Client) resolve.Resolver
	shared bool // one resolver shared between goroutines (else one per goroutine over a shared client)
}

func systems() []sysDef {
	return []sysDef{
		{"NPM", func(r *rand.Rand) *uni.Universe {
			switch r.Intn(8) {
			case 0, 1:
				return c06.GenerateStratum(r, c06.Bundle)
			case 2:
				// Aliases that take the names of real packages, names that
				// differ in letter case only: where a look-up by name could
				// find more than one thing, the answer must still be one.
				return c06.GenerateStratum(r, c06.Collision)
			}
			return c06.GenerateStratum(r, c06.Base)
		}, npm.NewResolver, true},
		{"Maven", c07.Generate, maven.NewResolver, true},
		{"PyPI", c08.Generate, pypi.NewResolver, false},
	}
}

const marker = "C05-RACE-CHILD"

func Run(r *ev.Run, replay string) {
	if os.Getenv("C05_RACE_ONLY") != "" {
		childMain(r)
		return
	}
	if f := os.Getenv("C05_CLEAN_BASELINE"); f != "" {
		cleanChild(f)
		return
	}
	r.MaxSamples = 3
	r.Rule = "generated npm/Maven/PyPI universes (the generators of C06/C07/C08); per universe and root: baseline = encoding of Resolve on a fresh client and resolver; then (repeat) the same objects again, (history) all roots in two shuffled orders on one client+resolver, (insertion order) clients built by AddVersion in 3 random orders, (aliasing) a defensive-copy client wrapper, each compared with the baseline; the client's answers (Versions, Version, Requirements, MatchingVersions for every key of the universe, in order) are dumped before and after every resolution and must not change, nor may the dump itself change them; (concurrency, -race child) 2/4/16 goroutines resolve shuffled root lists on a shared resolver and client (PyPI: one resolver per goroutine over a shared client) with seeded yields at the client boundary, results compared with the baseline, race reports with a deps.dev frame counted. Non-trivial = distinct (universe, root) whose resolution touches >= 3 packages."
	r.Assumptions = []string{"results are compared through an order- and numbering-independent encoding of the graph (and error text), not through Graph.Canon, so a Canon defect cannot mask or fake a verdict", "resolutions that exhaust the logical step budget are compared as such (same verdict required) but their graphs are not", "the race detector only reports races it executed"}
	if replay != "" {
		var c struct {
			Case Case `json:"case"`
		}
		if err := ev.ReadJSON(replay, &c); err != nil || c.Case.Universe == nil {
			r.Inconclusive("replay unreadable")
			return
		}
		for _, sd := range systems() {
			if sd.name == c.Case.Sys {
				sequential(r, sd, c.Case.Universe, r.Rand("replay"), 1000)
			}
		}
		return
	}
	var wit []Case
	if err := ev.ReadJSON(ev.Root+"/witnesses/C05.json", &wit); err != nil {
		r.Inconclusive("witnesses/C05.json: " + err.Error())
	}
	for _, w := range wit {
		for _, sd := range systems() {
			if sd.name == w.Sys && w.Universe != nil {
				sequential(r, sd, w.Universe, r.Rand("witness"), 1000)
				r.Count("witness_universes", 1)
			}
		}
	}
	n := r.N(120, 1500)
	maxRoots := r.N(6, 12)
	var wg sync.WaitGroup
	for _, sd := range systems() {
		for sh := 0; sh < 4; sh++ {
			wg.Add(1)
			go func(sd sysDef, sh int) {
				defer wg.Done()
				rng := r.Rand(fmt.Sprintf("%s/%d", sd.name, sh))
				for i := 0; i < n/4; i++ {
					sequential(r, sd, sd.gen(rng), rng, maxRoots)
				}
			}(sd, sh)
		}
	}
	wg.Wait()
	cleanProcessPass(r)
	for _, sd := range systems() {
		r.Gate("universes:"+sd.name, int64(n*3/4))
		r.Gate("nontrivial:"+sd.name, int64(n/2))
		r.Gate("compared:"+sd.name, int64(n*10))
	}
	runChild(r)
}

// copyClient hands out copies of everything the underlying client returns, so
// that nothing the resolver does to a returned slice can reach the client.
type copyClient struct{ c resolve.Client }

func (c copyClient) Version(ctx context.Context, vk resolve.VersionKey) (resolve.Version, error) {
	v, err := c.c.Version(ctx, vk)
	v.AttrSet = v.AttrSet.Clone()
	return v, err
}

func (c copyClient) Versions(ctx context.Context, pk resolve.PackageKey) ([]resolve.Version, error) {
	vs, err := c.c.Versions(ctx, pk)
	return cloneVersions(vs), err
}

func (c copyClient) Requirements(ctx context.Context, vk resolve.VersionKey) ([]resolve.RequirementVersion, error) {
	rs, err := c.c.Requirements(ctx, vk)
	out := make([]resolve.RequirementVersion, len(rs))
	for i, q := range rs {
		out[i] = resolve.RequirementVersion{VersionKey: q.VersionKey, Type: q.Type.Clone()}
	}
	if rs == nil {
		out = nil
	}
	return out, err
}

func (c copyClient) MatchingVersions(ctx context.Context, vk resolve.VersionKey) ([]resolve.Version, error) {
	vs, err := c.c.MatchingVersions(ctx, vk)
	return cloneVersions(vs), err
}

func cloneVersions(vs []resolve.Version) []resolve.Version {
	if vs == nil {
		return nil
	}
	out := make([]resolve.Version, len(vs))
	for i, v := range vs {
		out[i] = resolve.Version{VersionKey: v.VersionKey, AttrSet: v.AttrSet.Clone()}
	}
	return out
}

// dump lists what the client reports for every key of the universe, in the
// order it reports it. The list of versions is taken before and after the
// MatchingVersions calls: a read must not change it either.
func dump(u *uni.Universe, c resolve.Client) (state string, selfChanged bool) {
	ctx := context.Background()
	var b strings.Builder
	listing := func() string {
		var l strings.Builder
		for _, p := range pkgsOf(u) {
			vs, err := c.Versions(ctx, resolve.PackageKey{System: u.System(), Name: p})
			fmt.Fprintf(&l, "Versions(%s) err=%v:", p, err != nil)
			for _, v := range vs {
				fmt.Fprintf(&l, " %s%s", v.Version, v.AttrSet.String())
			}
			l.WriteByte('\n')
		}
		for _, v := range u.Versions {
			vk := u.VK(v.Name, v.Version, resolve.Concrete)
			x, err := c.Version(ctx, vk)
			fmt.Fprintf(&l, "Version(%s@%s) err=%v %s\n", v.Name, v.Version, err != nil, x.AttrSet.String())
			rs, err := c.Requirements(ctx, vk)
			fmt.Fprintf(&l, "Requirements(%s@%s) err=%v:", v.Name, v.Version, err != nil)
			for _, q := range rs {
				fmt.Fprintf(&l, " [%s]", q.String())
			}
			l.WriteByte('\n')
		}
		return l.String()
	}
	first := listing()
	b.WriteString(first)
	seen := map[resolve.VersionKey]bool{}
	for _, v := range u.Versions {
		for _, q := range v.Reqs {
			rk := u.VK(q.Name, q.Req, resolve.Requirement)
			if seen[rk] {
				continue
			}
			seen[rk] = true
			ms, err := c.MatchingVersions(ctx, rk)
			fmt.Fprintf(&b, "MatchingVersions(%s@%s) err=%v:", q.Name, q.Req, err != nil)
			for _, m := range ms {
				fmt.Fprintf(&b, " %s", m.Version)
			}
			b.WriteByte('\n')
		}
	}
	return b.String(), listing() != first
}

func pkgsOf(u *uni.Universe) []string {
	set := map[string]bool{}
	for _, v := range u.Versions {
		set[v.Name] = true
		for _, q := range v.Reqs {
			set[q.Name] = true
		}
	}
	out := make([]string, 0, len(set))
	for p := range set {
		out = append(out, p)
	}
	sort.Strings(out)
	return out
}

func rootsOf(u *uni.Universe, rng *rand.Rand, max int) []resolve.VersionKey {
	var out []resolve.VersionKey
	for _, v := range u.Versions {
		if v.DerivedFrom == "" {
			out = append(out, u.VK(v.Name, v.Version, resolve.Concrete))
		}
	}
	if len(out) > max {
		rng.Shuffle(len(out), func(i, j int) { out[i], out[j] = out[j], out[i] })
		out = out[:max]
	}
	return out
}

func run(mk func(resolve.Client) resolve.Resolver, c resolve.Client, budget int64, root resolve.VersionKey) string {
	g, err, exhausted, _ := uni.Resolve(mk, c, budget, root)
	if exhausted {
		return "STEP-BUDGET-EXHAUSTED"
	}
	return encode(g, err)
}

// encode is the text two results are compared by: the harness's own
// numbering-independent encoding and, as the property is stated "after
// canonicalisation", the graph's own canonical form as well.
func encode(g *resolve.Graph, err error) string {
	s := uni.Encode(g, err)
	if err != nil || g == nil {
		return s
	}
	if cerr := g.Canon(); cerr != nil {
		return s + "\n--- Graph.Canon fails: " + cerr.Error()
	}
	return s + "\n--- canonical form\n" + g.String()
}

var sampleOnce sync.Map

func sequential(r *ev.Run, sd sysDef, u *uni.Universe, rng *rand.Rand, maxRoots int) {
	defer func() {
		if p := recover(); p != nil {
			r.Violation("C05:"+sd.name+":panic", fmt.Sprintf("panic: %v\n%s", p, debug.Stack()), Case{Sys: sd.name, Universe: u})
		}
	}()
	r.Count("universes:"+sd.name, 1)
	roots := rootsOf(u, rng, maxRoots)
	budget := u.StepBudget()
	base := map[resolve.VersionKey]string{}
	for _, rt := range roots {
		base[rt] = run(sd.mk, u.Client(nil), budget, rt)
		if n := strings.Count(strings.SplitN(base[rt], "\n--- ", 2)[0], "\n"); n >= 4 && !strings.HasPrefix(base[rt], "ERROR") {
			r.Nontrivial(fmt.Sprintf("%s|%p|%s", sd.name, u, rt.String()))
			r.Count("nontrivial:"+sd.name, 1)
			if _, done := sampleOnce.LoadOrStore(sd.name, true); !done {
				r.Sample(map[string]any{"sys": sd.name, "root": rt.String(), "universe_versions": len(u.Versions), "baseline": base[rt]})
			}
		}
	}
	collectForCleanProcess(r, sd, u, roots, base)
	reported := map[string]bool{}
	differ := func(step string, rt resolve.VersionKey, got string) {
		r.Eval(1)
		r.Count("compared:"+sd.name, 1)
		if got == base[rt] || reported[step] {
			return
		}
		reported[step] = true
		r.Violation("C05:"+sd.name+":"+step, fmt.Sprintf("%s: resolving %v (%s) differs from the fresh-client baseline\n--- baseline\n%s\n--- got\n%s", sd.name, rt, step, base[rt], got),
			Case{Sys: sd.name, Universe: u, Root: [2]string{rt.Name, rt.Version}, Step: step})
	}
	// One client and one resolver for repeat + history, with state dumps.
	client := u.Client(nil)
	before, selfChanged := dump(u, client)
	if selfChanged && !reported["dump"] {
		reported["dump"] = true
		r.Violation("C05:"+sd.name+":client-changed-by-read", sd.name+": listing the client, calling MatchingVersions for every requirement, and listing it again gives a different listing", Case{Sys: sd.name, Universe: u, Step: "dump"})
	}
	checkState := func(step string, rt resolve.VersionKey) {
		after, _ := dump(u, client)
		r.Eval(1)
		if after != before && !reported["state"] {
			reported["state"] = true
			r.Violation("C05:"+sd.name+":client-changed", fmt.Sprintf("%s: after resolving %v (%s) the client reports differently:\n%s", sd.name, rt, step, firstDiff(before, after)),
				Case{Sys: sd.name, Universe: u, Root: [2]string{rt.Name, rt.Version}, Step: step})
		}
	}
	// The resolver is created once and shared by all resolutions below; each
	// resolution gets its own step budget through a switchable client.
	sw := &switchClient{}
	res := sd.mk(sw)
	// Graphs handed out by the first resolutions are kept as they were
	// returned (encode works on a copy): whatever is resolved later on the same
	// resolver and client must not change them.
	type keptGraph struct {
		rt  resolve.VersionKey
		g   *resolve.Graph
		was string
	}
	var kept []keptGraph
	resolveShared := func(rt resolve.VersionKey) string {
		ctx, cancel := context.WithCancel(context.Background())
		defer cancel()
		cc := &uni.Counting{C: client, Budget: budget, Cancel: cancel}
		sw.set(cc)
		g, err := res.Resolve(ctx, rt)
		if cc.Exhausted() {
			return "STEP-BUDGET-EXHAUSTED"
		}
		if err == nil && g != nil && len(kept) < 4 {
			kept = append(kept, keptGraph{rt, g, uni.Encode(g, nil)})
			return encode(copyGraph(g), err)
		}
		return encode(g, err)
	}
	defer func() {
		for _, k := range kept {
			r.Eval(1)
			r.Count("kept_graphs_reread:"+sd.name, 1)
			if now := uni.Encode(k.g, nil); now != k.was && !reported["kept"] {
				reported["kept"] = true
				r.Violation("C05:"+sd.name+":earlier-graph-changed", fmt.Sprintf("%s: the graph returned for %v reads differently after the later resolutions on the same resolver and client\n--- when returned\n%s\n--- now\n%s", sd.name, k.rt, k.was, now),
					Case{Sys: sd.name, Universe: u, Root: [2]string{k.rt.Name, k.rt.Version}, Step: "earlier-graph-changed"})
			}
		}
	}()
	for _, rt := range roots { // repeat
		differ("repeat", rt, resolveShared(rt))
		checkState("repeat", rt)
		differ("repeat", rt, resolveShared(rt))
	}
	for k := 0; k < 2; k++ { // history
		for _, i := range rng.Perm(len(roots)) {
			differ("history", roots[i], resolveShared(roots[i]))
			checkState("history", roots[i])
		}
	}
	for k := 0; k < 3; k++ { // insertion order
		c2 := u.Client(rng.Perm(len(u.Versions)))
		for _, rt := range roots {
			differ("insertion-order", rt, run(sd.mk, c2, budget, rt))
		}
	}
	// Registry change: the shared resolver first resolves every root against
	// an earlier state of the same registry (dist-tags elsewhere, other
	// versions deprecated, some versions not yet published, requirement texts
	// swapped), then against the universe proper. Whatever it learned from
	// the earlier state must not show in the answers.
	{
		u0 := earlierState(u, rng)
		c0 := u0.Client(nil)
		for _, rt := range roots {
			ctx, cancel := context.WithCancel(context.Background())
			cc := &uni.Counting{C: c0, Budget: budget, Cancel: cancel}
			sw.set(cc)
			res.Resolve(ctx, rt)
			cancel()
			r.Count("registry_change_warmups:"+sd.name, 1)
		}
		for _, rt := range roots {
			differ("registry-changed", rt, resolveShared(rt))
		}
	}
	// Data updated in place: a client loaded with the earlier state of the
	// registry is resolved against, then every version of the universe proper
	// is added to it again (AddVersion replaces the stored record and its
	// requirements), and the answers must be those of a client loaded with the
	// universe alone. (The earlier state holds a subset of the versions and the
	// same package names, so nothing has to be taken away.)
	{
		u0 := earlierState(u, rng)
		evolving := u0.Client(nil)
		res2 := sd.mk(evolving)
		for _, rt := range roots {
			res2.Resolve(context.Background(), rt) // what it saw before the update must not matter
		}
		u.AddAllTo(evolving)
		r.Count("in_place_updates:"+sd.name, 1)
		for _, rt := range roots {
			differ("client-updated-in-place", rt, run(func(resolve.Client) resolve.Resolver { return res2 }, evolving, budget, rt))
			differ("client-updated-in-place:new-resolver", rt, run(sd.mk, evolving, budget, rt))
		}
	}
	// Cache saturation (PyPI, one universe in three): the resolver's bounded
	// caches are filled beyond their capacity by a foreign resolution, so that
	// the roots' own markers and constraints are inserted through the eviction
	// path and then looked up again.
	if sd.name == "PyPI" && rng.Intn(3) == 0 {
		uni.SaturatePyPI(res, func(c resolve.Client) { sw.set(c) })
		r.Count("cache_saturations:"+sd.name, 1)
		for k := 0; k < 2; k++ {
			for _, rt := range roots {
				differ("caches-saturated", rt, resolveShared(rt))
			}
		}
	}
	c3 := copyClient{u.Client(nil)} // aliasing
	for _, rt := range roots {
		differ("defensive-copy-client", rt, run(sd.mk, c3, budget, rt))
	}
	// A client that keeps its own list of each package's versions, in an order
	// of its own (Client.Versions promises none; a registry lists by upload
	// time), and hands out that one slice on every call, as a memoising client
	// does. The universe is the same, so the results must be; and the lists
	// belong to the client: they must read the same after the resolutions.
	for k := 0; k < 2; k++ {
		lc := &listingClient{Client: u.Client(nil), lists: map[resolve.PackageKey][]resolve.Version{}, was: map[resolve.PackageKey]string{}, rng: rand.New(rand.NewSource(rng.Int63())), rotate: k == 0}
		resL := sd.mk(lc)
		for _, rt := range roots {
			differ("own-listing-order", rt, run(func(resolve.Client) resolve.Resolver { return resL }, lc, budget, rt))
		}
		r.Count("own_listing_clients:"+sd.name, 1)
		r.Count("own_listing_lists_handed_out:"+sd.name, int64(len(lc.lists)))
		for pk, l := range lc.lists {
			r.Eval(1)
			if now := listingText(l); now != lc.was[pk] && !reported["listing"] {
				reported["listing"] = true
				r.Violation("C05:"+sd.name+":client-list-modified", fmt.Sprintf("%s: the slice a client returned from Versions(%v) reads differently after the resolutions: the resolver wrote into the client's data\n--- as handed out\n%s\n--- now\n%s", sd.name, pk, lc.was[pk], now),
					Case{Sys: sd.name, Universe: u, Step: "client-list-modified"})
			}
		}
	}
}

// listingClient answers Versions from lists of its own, one per package,
// made on first use from the wrapped client's answer and permuted (the last
// version moved to the front, or a seeded shuffle); every call returns the
// same slice.
type listingClient struct {
	resolve.Client
	mu     sync.Mutex
	lists  map[resolve.PackageKey][]resolve.Version
	was    map[resolve.PackageKey]string
	rng    *rand.Rand
	rotate bool
}

func (c *listingClient) Versions(ctx context.Context, pk resolve.PackageKey) ([]resolve.Version, error) {
	c.mu.Lock()
	defer c.mu.Unlock()
	if l, ok := c.lists[pk]; ok {
		return l, nil
	}
	vs, err := c.Client.Versions(ctx, pk)
	if err != nil {
		return vs, err
	}
	l := cloneVersions(vs)
	if c.rotate && len(l) > 1 {
		last := l[len(l)-1]
		copy(l[1:], l[:len(l)-1])
		l[0] = last
	} else {
		c.rng.Shuffle(len(l), func(i, j int) { l[i], l[j] = l[j], l[i] })
	}
	c.lists[pk] = l
	c.was[pk] = listingText(l)
	return l, nil
}

func listingText(l []resolve.Version) string {
	var b strings.Builder
	for _, v := range l {
		fmt.Fprintf(&b, " %s%s", v.Version, v.AttrSet.String())
	}
	return b.String()
}

// copyGraph copies nodes (with errors) and edges (with cloned types), so that
// canonicalising the copy leaves the original as the resolver returned it.
func copyGraph(g *resolve.Graph) *resolve.Graph {
	c := &resolve.Graph{Nodes: make([]resolve.Node, len(g.Nodes)), Edges: make([]resolve.Edge, len(g.Edges)), Error: g.Error, Duration: g.Duration}
	for i, n := range g.Nodes {
		c.Nodes[i] = n
		c.Nodes[i].Errors = append([]resolve.NodeError(nil), n.Errors...)
	}
	for i, e := range g.Edges {
		c.Edges[i] = e
		c.Edges[i].Type = e.Type.Clone()
	}
	return c
}

// earlierState derives a different state of the same registry: same package
// names, but tags moved, deprecations flipped, a fifth of the versions absent
// and requirement texts exchanged between requirements on the same package.
func earlierState(u *uni.Universe, rng *rand.Rand) *uni.Universe {
	o := &uni.Universe{Sys: u.Sys}
	texts := map[string][]string{}
	for _, v := range u.Versions {
		for _, q := range v.Reqs {
			texts[q.Name] = append(texts[q.Name], q.Req)
		}
	}
	for _, v := range u.Versions {
		if rng.Intn(5) == 0 {
			continue
		}
		w := v
		w.Tags = ""
		if rng.Intn(3) == 0 {
			w.Blocked = !w.Blocked
		}
		w.Reqs = append([]uni.Req(nil), v.Reqs...)
		for i := range w.Reqs {
			if ts := texts[w.Reqs[i].Name]; rng.Intn(2) == 0 {
				w.Reqs[i].Req = ts[rng.Intn(len(ts))]
			}
		}
		o.Versions = append(o.Versions, w)
	}
	// Tags go to another version of their package; on npm, where "latest"
	// steers the choice, most packages get one in the earlier state, and
	// preferably on a version that the universe proper has deprecated (that is
	// where a remembered tag would change the pick).
	byPkg := map[string][]int{}
	for i := range o.Versions {
		byPkg[o.Versions[i].Name] = append(byPkg[o.Versions[i].Name], i)
	}
	for _, name := range u.Packages() {
		idx := byPkg[name]
		if len(idx) == 0 {
			continue
		}
		tag := ""
		for _, v := range u.Of(name) {
			if v.Tags != "" {
				tag = v.Tags
			}
		}
		if tag == "" && u.Sys == "NPM" && rng.Intn(3) > 0 {
			tag = "latest"
		}
		if tag == "" {
			continue
		}
		var blocked []int
		for _, i := range idx {
			if w := u.Find(name, o.Versions[i].Version); w != nil && w.Blocked {
				blocked = append(blocked, i)
			}
		}
		if len(blocked) > 0 && rng.Intn(4) > 0 {
			idx = blocked
		}
		o.Versions[idx[rng.Intn(len(idx))]].Tags = tag
	}
	return o
}

// switchClient lets one resolver object be used with a fresh counting client
// per resolution (sequential use only).
type switchClient struct {
	mu sync.Mutex
	c  resolve.Client
}

func (s *switchClient) set(c resolve.Client) { s.mu.Lock(); s.c = c; s.mu.Unlock() }
func (s *switchClient) get() resolve.Client  { s.mu.Lock(); defer s.mu.Unlock(); return s.c }
func (s *switchClient) Version(ctx context.Context, vk resolve.VersionKey) (resolve.Version, error) {
	return s.get().Version(ctx, vk)
}
func (s *switchClient) Versions(ctx context.Context, pk resolve.PackageKey) ([]resolve.Version, error) {
	return s.get().Versions(ctx, pk)
}
func (s *switchClient) Requirements(ctx context.Context, vk resolve.VersionKey) ([]resolve.RequirementVersion, error) {
	return s.get().Requirements(ctx, vk)
}
func (s *switchClient) MatchingVersions(ctx context.Context, vk resolve.VersionKey) ([]resolve.Version, error) {
	return s.get().MatchingVersions(ctx, vk)
}

func firstDiff(a, b string) string {
	al, bl := strings.Split(a, "\n"), strings.Split(b, "\n")
	for i := 0; i < len(al) && i < len(bl); i++ {
		if al[i] != bl[i] {
			return "before: " + al[i] + "\nafter:  " + bl[i]
		}
	}
	return fmt.Sprintf("listings of %d and %d lines", len(al), len(bl))
}

// ---- concurrent sub-workload (runs in the -race child) ----

// yieldClient yields the processor at seeded points of the client boundary,
// where a real client would block on I/O.
type yieldClient struct {
	c    resolve.Client
	mu   sync.Mutex
	rng  *rand.Rand
	rate int
}

func (y *yieldClient) maybe() {
	y.mu.Lock()
	hit := y.rng.Intn(y.rate) == 0
	y.mu.Unlock()
	if hit {
		runtime.Gosched()
	}
}
func (y *yieldClient) Version(ctx context.Context, vk resolve.VersionKey) (resolve.Version, error) {
	y.maybe()
	return y.c.Version(ctx, vk)
}
func (y *yieldClient) Versions(ctx context.Context, pk resolve.PackageKey) ([]resolve.Version, error) {
	y.maybe()
	return y.c.Versions(ctx, pk)
}
func (y *yieldClient) Requirements(ctx context.Context, vk resolve.VersionKey) ([]resolve.RequirementVersion, error) {
	y.maybe()
	return y.c.Requirements(ctx, vk)
}
func (y *yieldClient) MatchingVersions(ctx context.Context, vk resolve.VersionKey) ([]resolve.Version, error) {
	y.maybe()
	return y.c.MatchingVersions(ctx, vk)
}

func childMain(r *ev.Run) {
	n := r.N(24, 300)
	reps := r.N(3, 10)
	total, bad := 0, 0
	orders := map[string]bool{}
	for _, sd := range systems() {
		rng := r.Rand("conc/" + sd.name)
		for i := 0; i < n; i++ {
			u := sd.gen(rng)
			roots := rootsOf(u, rng, 8)
			budget := u.StepBudget()
			base := map[resolve.VersionKey]string{}
			for _, rt := range roots {
				base[rt] = run(sd.mk, u.Client(nil), budget, rt)
			}
			for rep := 0; rep < reps; rep++ {
				G := []int{2, 4, 16}[rep%3]
				runtime.GOMAXPROCS([]int{2, 16}[rep%2])
				client := &yieldClient{c: u.Client(nil), rng: rand.New(rand.NewSource(rng.Int63())), rate: 1 + rng.Intn(6)}
				// No per-resolution budget here: the budget needs a client per
				// resolution; universes whose baseline exhausted it are skipped.
				skip := false
				for _, b := range base {
					if b == "STEP-BUDGET-EXHAUSTED" {
						skip = true
					}
				}
				if skip {
					continue
				}
				var shared resolve.Resolver
				if sd.shared {
					shared = sd.mk(client)
				}
				var wg sync.WaitGroup
				var mu sync.Mutex
				var finish []string
				for gi := 0; gi < G; gi++ {
					wg.Add(1)
					perm := rng.Perm(len(roots))
					go func(gi int, perm []int) {
						defer wg.Done()
						res := shared
						if res == nil {
							res = sd.mk(client)
						}
						for _, i := range perm {
							g, err := res.Resolve(context.Background(), roots[i])
							got := encode(g, err)
							mu.Lock()
							total++
							finish = append(finish, fmt.Sprint(gi, ":", i))
							if got != base[roots[i]] {
								bad++
								if bad <= 5 {
									fmt.Printf("%s mismatch %s: %d goroutines, resolving %v concurrently differs from the baseline\n", marker, sd.name, G, roots[i])
								}
							}
							mu.Unlock()
						}
					}(gi, perm)
				}
				wg.Wait()
				orders[fmt.Sprint(sd.name, G, strings.Join(finish, ","))] = true
			}
		}
	}
	fmt.Printf("%s done resolutions=%d mismatches=%d distinct_completion_orders=%d race_build=%v\n", marker, total, bad, len(orders), raceEnabled)
	os.Exit(0)
}

func runChild(r *ev.Run) {
	bin := racechild.Find(raceEnabled, "dev05")
	res := racechild.Run(r, bin, "C05", "C05_RACE_ONLY")
	if res.Skipped != "" {
		r.Inconclusive("concurrent sub-workload did not run: " + res.Skipped)
		return
	}
	if res.Timeout {
		r.Inconclusive("race child: watchdog fired")
		return
	}
	done := false
	for _, line := range strings.Split(res.Output, "\n") {
		if strings.HasPrefix(line, marker+" mismatch ") {
			r.Violation("C05:concurrent:differs", strings.TrimPrefix(line, marker+" mismatch "), nil)
		}
		if strings.HasPrefix(line, marker+" done ") {
			done = true
			var n, mm, ord int
			var rb bool
			fmt.Sscanf(strings.TrimPrefix(line, marker+" done "), "resolutions=%d mismatches=%d distinct_completion_orders=%d race_build=%t", &n, &mm, &ord, &rb)
			r.Count("concurrent:resolutions", int64(n))
			r.Count("concurrent:distinct_completion_orders", int64(ord))
			r.Eval(int64(n))
			if !rb {
				r.Inconclusive("race child binary " + bin + " is not a -race build")
			}
		}
	}
	if strings.Contains(res.Output, "fatal error: concurrent map") {
		r.Violation("C05:concurrent:concurrent-map-access", "runtime fatal error in the race child: "+tail(res.Output, 1200), nil)
		done = true
	}
	crashed := false
	if !done {
		// The child died. When it died inside deps.dev code while goroutines
		// used the resolvers the documented way, that is the observation
		// (a nil dereference in a structure two goroutines were rewriting, for
		// instance); the race reports collected up to then are judged below.
		out := "\n" + res.Output
		if i := strings.LastIndex(out, "\npanic: "); i >= 0 && strings.Contains(out[i:], "deps.dev/") {
			r.Violation("C05:concurrent:crash", "the race child panicked inside deps.dev code under concurrent use: "+head(out[i:], 1500), nil)
			crashed = true
		} else if i := strings.LastIndex(out, "\nfatal error: "); i >= 0 && strings.Contains(out[i:], "deps.dev/") {
			r.Violation("C05:concurrent:crash", "runtime fatal error in the race child inside deps.dev code: "+head(out[i:], 1500), nil)
			crashed = true
		} else {
			r.Inconclusive("race child did not finish: " + tail(res.Output, 600))
			return
		}
	}
	seen := map[string]bool{}
	lib, harnessOnly := 0, 0
	for _, b := range res.Blocks {
		if len(b.Lib) == 0 {
			harnessOnly++
			continue
		}
		lib++
		if k := b.Key(); !seen[k] {
			seen[k] = true
			if len(seen) <= 3 {
				r.Violation("C05:race:data-race", "data race with deps.dev frames: "+k+"\n"+tail(b.Text, 1800), nil)
			}
		}
	}
	r.Count("race:reports_with_library_frames", int64(lib))
	r.Count("race:distinct_reports", int64(len(seen)))
	if harnessOnly > 0 {
		r.Inconclusive(fmt.Sprintf("%d race reports with harness frames only (monitor bug)", harnessOnly))
	}
	if !crashed {
		r.Gate("concurrent:resolutions", 200)
		r.Gate("concurrent:distinct_completion_orders", 30)
	}
}

func head(s string, n int) string {
	if len(s) > n {
		return s[:n]
	}
	return s
}

func tail(s string, n int) string {
	if len(s) > n {
		return s[len(s)-n:]
	}
	return s
}

// ---- clean-process baseline -------------------------------------------------
//
// Everything above compares results obtained inside one busy process: state
// that lives in a package-level variable of the library (a cache of parsed
// requirements or exclusions, say) is the same for the baseline and for the
// runs compared with it. A sample of the universes is therefore resolved once
// more in a fresh process that does nothing else, in reverse order, and the
// answers must be the ones this process gave: a pure function of universe and
// root cannot depend on what the process did before.

type cleanCase struct {
	Sys      string        `json:"sys"`
	Universe *uni.Universe `json:"universe"`
	Roots    [][2]string   `json:"roots"`
	Base     []string      `json:"base,omitempty"` // parent: encoding per root; child: the same, recomputed
}

var (
	cleanMu    sync.Mutex
	cleanQueue = map[string][]cleanCase{}
)

func collectForCleanProcess(r *ev.Run, sd sysDef, u *uni.Universe, roots []resolve.VersionKey, base map[resolve.VersionKey]string) {
	limit := r.N(80, 600)
	cleanMu.Lock()
	defer cleanMu.Unlock()
	if len(cleanQueue[sd.name]) >= limit {
		return
	}
	c := cleanCase{Sys: sd.name, Universe: u}
	for _, rt := range roots {
		c.Roots = append(c.Roots, [2]string{rt.Name, rt.Version})
		c.Base = append(c.Base, base[rt])
	}
	cleanQueue[sd.name] = append(cleanQueue[sd.name], c)
}

func cleanProcessPass(r *ev.Run) {
	var all []cleanCase
	for _, sd := range systems() {
		q := cleanQueue[sd.name]
		for i := len(q) - 1; i >= 0; i-- { // the other way round: another history
			all = append(all, q[i])
		}
	}
	if len(all) == 0 {
		return
	}
	dir := os.Getenv("VERIF_BUILD")
	if dir == "" {
		dir = os.TempDir()
	}
	in := filepath.Join(dir, fmt.Sprintf("c05-clean-%d.json", os.Getpid()))
	out := in + ".out"
	defer os.Remove(in)
	defer os.Remove(out)
	send := make([]cleanCase, len(all))
	for i, c := range all {
		send[i] = cleanCase{Sys: c.Sys, Universe: c.Universe, Roots: c.Roots}
	}
	b, _ := json.Marshal(send)
	if err := os.WriteFile(in, b, 0o644); err != nil {
		r.Inconclusive("clean-process baseline: " + err.Error())
		return
	}
	self, err := os.Executable()
	if err != nil {
		r.Inconclusive("clean-process baseline: " + err.Error())
		return
	}
	cmd := exec.Command(self, "C05", r.Tier)
	cmd.Env = append(os.Environ(), "VERIF_INPROC=1", "C05_CLEAN_BASELINE="+in)
	if msg, err := cmd.CombinedOutput(); err != nil {
		r.Inconclusive(fmt.Sprintf("clean-process baseline child failed: %v: %s", err, tail(string(msg), 400)))
		return
	}
	var got []cleanCase
	if err := ev.ReadJSON(out, &got); err != nil || len(got) != len(all) {
		r.Inconclusive("clean-process baseline: unreadable answer")
		return
	}
	for i, c := range all {
		for k := range c.Roots {
			r.Eval(1)
			r.Count("clean_process_comparisons:"+c.Sys, 1)
			if k < len(got[i].Base) && got[i].Base[k] == c.Base[k] {
				continue
			}
			g := "<missing>"
			if k < len(got[i].Base) {
				g = got[i].Base[k]
			}
			r.Violation("C05:"+c.Sys+":process-history", fmt.Sprintf("%s: resolving %s@%s in a fresh process that did nothing else gives another result than in this process, which had resolved many other universes before\n--- this process\n%s\n--- fresh process\n%s", c.Sys, c.Roots[k][0], c.Roots[k][1], c.Base[k], g),
				Case{Sys: c.Sys, Universe: c.Universe, Root: c.Roots[k], Step: "process-history"})
			break
		}
	}
}

// cleanChild is the fresh process: it resolves what it is given, in the order
// given, each root on a fresh client and resolver, and writes the encodings.
func cleanChild(in string) {
	var cases []cleanCase
	if err := ev.ReadJSON(in, &cases); err != nil {
		fmt.Fprintln(os.Stderr, "clean child:", err)
		os.Exit(3)
	}
	defs := map[string]sysDef{}
	for _, sd := range systems() {
		defs[sd.name] = sd
	}
	for i := range cases {
		c := &cases[i]
		sd := defs[c.Sys]
		for _, rt := range c.Roots {
			c.Base = append(c.Base, run(sd.mk, c.Universe.Client(nil), c.Universe.StepBudget(), c.Universe.VK(rt[0], rt[1], resolve.Concrete)))
		}
		c.Universe = nil
	}
	b, _ := json.Marshal(cases)
	if err := os.WriteFile(in+".out", b, 0o644); err != nil {
		fmt.Fprintln(os.Stderr, "clean child:", err)
		os.Exit(3)
	}
	os.Exit(0)
}
