package c16

import (
	"encoding/json"
	"fmt"
	"math/rand"
	"sort"
	"strings"
	"sync"

	"verif/harness/ev"
	"verif/harness/ref"
)

type markerCase struct {
	Marker string
	Extras []string
}

// probeEnvs are the sixteen environments under which markers are evaluated by
// packaging to compare marker texts (sub-monitor a) and to tell a marker whose
// truth is constant from one whose truth depends on the environment (b).
func probeEnvs(target map[string]string) []map[string]string {
	mk := func(pv, pfv, osn, sp, mach, impl, rel, sys, extra string) map[string]string {
		return map[string]string{
			"python_version": pv, "python_full_version": pfv, "os_name": osn, "sys_platform": sp,
			"platform_machine": mach, "platform_python_implementation": impl, "platform_release": rel,
			"platform_system": sys, "platform_version": "#1 SMP " + rel, "implementation_name": strings.ToLower(impl),
			"implementation_version": pfv, "extra": extra,
		}
	}
	envs := []map[string]string{
		mk("2.7", "2.7.18", "posix", "linux2", "x86_64", "CPython", "4.4.0-generic", "Linux", ""),
		mk("3.6", "3.6.15", "posix", "linux", "x86_64", "CPython", "5.4.0-generic", "Linux", "x"),
		mk("3.8", "3.8.10", "nt", "win32", "AMD64", "CPython", "10", "Windows", "test"),
		mk("3.9", "3.9.0", "posix", "darwin", "arm64", "CPython", "21.6.0", "Darwin", ""),
		mk("3.9", "3.9.6", "posix", "linux", "x86_64", "CPython", "6.9.10-1rodete5-amd64", "Linux", "Y_z"),
		mk("3.9", "3.9.7", "posix", "linux", "aarch64", "PyPy", "5.15.0", "Linux", "a-b"),
		mk("3.10", "3.10.0", "posix", "linux", "x86_64", "CPython", "5.15.0-generic", "Linux", ""),
		mk("3.10", "3.10.12", "nt", "win32", "AMD64", "CPython", "10", "Windows", "x"),
		mk("3.11", "3.11.7", "posix", "darwin", "x86_64", "CPython", "22.1.0", "Darwin", "doc"),
		mk("3.12", "3.12.1", "posix", "linux", "x86_64", "CPython", "6.1.0", "Linux", "test"),
		mk("3.13", "3.13.0", "posix", "cygwin", "x86_64", "CPython", "3.4.6", "CYGWIN_NT-10.0", ""),
		mk("3.7", "3.7.17", "java", "java1.8.0", "amd64", "Jython", "1.8.0", "Java", ""),
		mk("3.5", "3.5.10", "posix", "freebsd13", "amd64", "CPython", "13.1-RELEASE", "FreeBSD", "y"),
		mk("4.0", "4.0.0", "posix", "linux", "riscv64", "CPython", "7.0.0", "Linux", "x"),
		mk("3.9", "3.9.6", "nt", "win32", "x86", "IronPython", "10", "Windows", ""),
	}
	t := map[string]string{}
	for k, v := range target {
		t[k] = v
	}
	t["extra"] = ""
	return append(envs, t)
}

// ---------------------------------------------------------------------------
// generator

var extraNames = []string{"x", "test", "Y_z", "a-b"}

var allOps = []string{"==", "!=", "<", "<=", ">", ">=", "~=", "===", "in", "not in"}

type mgen struct {
	rng  *rand.Rand
	env  map[string]string
	lits map[string][]string // per variable
	vver map[string]bool     // variable is version-valued
	free bool                // requirement-string mode: no atom-domain restrictions
}

func bump(v string, d int) string {
	seg := strings.Split(v, ".")
	n := 0
	fmt.Sscan(seg[len(seg)-1], &n)
	n += d
	if n < 0 {
		n = 0
	}
	seg[len(seg)-1] = fmt.Sprint(n)
	return strings.Join(seg, ".")
}

func looksVersion(v string) bool {
	if v == "" {
		return false
	}
	for _, s := range strings.Split(v, ".") {
		if s == "" {
			return false
		}
		for _, c := range s {
			if c < '0' || c > '9' {
				return false
			}
		}
	}
	return true
}

func swapCase(s string) string {
	b := []byte(s)
	for i, c := range b {
		switch {
		case c >= 'a' && c <= 'z':
			b[i] = c - 32
		case c >= 'A' && c <= 'Z':
			b[i] = c + 32
		}
	}
	return string(b)
}

func newMgen(rng *rand.Rand, env map[string]string, free bool) *mgen {
	g := &mgen{rng: rng, env: env, lits: map[string][]string{}, vver: map[string]bool{}, free: free}
	for _, name := range variables {
		v := env[name]
		var ls []string
		if looksVersion(v) {
			g.vver[name] = true
			major := strings.Split(v, ".")[0]
			ls = []string{
				v, v, v, v + ".0", v + ".1", bump(v, 1), bump(v, -1), bump(v, 1) + ".0", major, bump(major, 1), bump(major, -1) + ".7",
				"3.10", "3.10.0", "3.9", "3.9.6", "3.9.7", "3.8", "3.8.20", "3", "4", "2.7", "3.9.0", "3.11",
				v + "rc1", v + ".dev1", v + ".post1", v + "a0", bump(v, 1) + "rc1", bump(v, 1) + ".dev0",
				v + ".*", major + ".*", bump(v, 1) + ".*",
				v + ".0.0", v + ".post0",
				// Spellings packaging accepts in a specifier besides the normal form:
				// a leading v/V and leading zeros.
				"v" + v, "V" + v, "v" + bump(v, -1), "V" + bump(v, 1), "v" + v + ".0", "v3.8", "V3.10", "v" + major, "0" + v, "v" + v + "rc1",
				// Non-version text.
				"", "abc", v + "x", v + ".", "three", "3.x", "py" + v,
				// Containers for in / not in.
				"2.7 " + v + " 3.10", bump(v, -1) + "," + bump(v, 1), v + "." + "6", "1" + v,
			}
		} else {
			ls = []string{v, v, v, v + "2", "x" + v, swapCase(v), strings.ToLower(v), strings.ToUpper(v), "", "a", "zzz", "M", "~",
				v + " other", "win32," + v, "nt;" + v + ";java"}
			if len(v) > 1 {
				ls = append(ls, v[:len(v)-1], v[1:], v[:1])
				// A blank inside the value, and the value as one of two words.
				ls = append(ls, v[:len(v)/2]+" "+v[len(v)/2:], v[:1]+" "+v[1:], "x "+v, v+"  "+v)
			}
			if words := strings.Split(v, " "); len(words) > 1 {
				// Pieces of a value that has blanks, with and without them.
				ls = append(ls, strings.ReplaceAll(v, " ", ""), strings.Replace(v, " ", "", 1), strings.ReplaceAll(v, " ", "  "))
				for i := 0; i+1 < len(words); i++ {
					ls = append(ls, words[i]+" "+words[i+1], words[i]+words[i+1], words[i]+"  "+words[i+1], words[i]+" ", " "+words[i+1])
					if i+2 < len(words) {
						ls = append(ls, words[i]+" "+words[i+1]+" "+words[i+2], words[i]+words[i+1]+" "+words[i+2])
					}
				}
			}
			for _, c := range probeCandidates[name] {
				if !looksVersion(c) {
					ls = append(ls, c)
				}
			}
		}
		g.lits[name] = ls
	}
	return g
}

func (g *mgen) pick(ss ...string) string { return ss[g.rng.Intn(len(ss))] }

func (g *mgen) quote(l string) string {
	if strings.Contains(l, "'") {
		return `"` + l + `"`
	}
	if strings.Contains(l, `"`) || g.rng.Intn(2) == 0 {
		return "'" + l + "'"
	}
	return `"` + l + `"`
}

func (g *mgen) sp() string { return g.pick("", " ", " ", "  ", "\t") }

// Operators offered per kind of variable. For a string-valued variable ===
// and ~= are always outside the atom domain (=== coerces the left side to a
// LegacyVersion, ~= is undefined on non-versions), so they are drawn rarely,
// only to exercise the domain filter.
var (
	stringOps  = []string{"==", "!=", "<", "<=", ">", ">=", "in", "not in", "==", "!=", "in", "not in"}
	versionOps = []string{"==", "!=", "<", "<=", ">", ">=", "~=", "===", "in", "not in", "~=", "==="}
)

func (g *mgen) atom() string {
	r := g.rng
	var name, op, lit string
	if r.Intn(6) == 0 {
		name = "extra"
		op = "=="
		lit = g.pick(extraNames...)
		if r.Intn(8) == 0 {
			lit = g.pick("other", "X", "tes", "y")
		}
		if g.free && r.Intn(4) == 0 {
			op = g.pick("!=", "in", "not in")
		}
	} else {
		name = variables[r.Intn(len(variables))]
		ls := g.lits[name]
		lit = ls[r.Intn(len(ls))]
		switch {
		case g.free || r.Intn(25) == 0:
			op = allOps[r.Intn(len(allOps))]
		case g.vver[name]:
			op = versionOps[r.Intn(len(versionOps))]
			if op == "~=" && (!looksVersion(lit) || !strings.Contains(lit, ".")) && r.Intn(8) > 0 {
				lit = g.pick("3.9", "3.9.6", "3.8", "3.9.0", "3.10", "3.9.7", "2.7", "3.8.20")
			}
		default:
			op = stringOps[r.Intn(len(stringOps))]
		}
		if g.free && r.Intn(5) == 0 {
			// Requirement-string mode: any variable against any literal.
			other := variables[r.Intn(len(variables))]
			lit = g.lits[other][r.Intn(len(g.lits[other]))]
		}
	}
	q := g.quote(lit)
	reversed := r.Intn(4) == 0
	if !g.free && reversed && name != "extra" && op != "in" && op != "not in" && !looksVersion(lit) && g.vver[name] && r.Intn(8) > 0 {
		// literal-op-variable with a non-version literal against a version
		// value is always outside the atom domain (LegacyVersion coercion).
		reversed = false
	}
	l, rr := name, q
	if reversed {
		l, rr = q, name
	}
	switch op {
	case "in":
		return l + g.pick(" ", "  ", "\t") + "in" + g.pick(" ", "  ", "\t") + rr
	case "not in":
		// packaging 21.3 recognises "not in" with exactly one space only.
		return l + g.pick(" ", "  ", "\t") + "not in" + g.pick(" ", " ", "\t") + rr
	}
	return l + g.sp() + op + g.sp() + rr
}

// expr renders a marker of and/or/parentheses nesting depth at most max.
func (g *mgen) expr(depth, max int) string {
	r := g.rng
	if depth >= max {
		return g.atom()
	}
	switch k := r.Intn(10); {
	case k < 3 && depth > 0:
		return g.atom()
	case k < 5:
		return "(" + g.sp() + g.expr(depth+1, max) + g.sp() + ")"
	default:
		// A chain of 2-4 operands joined by and/or without parentheses
		// (precedence and associativity are under test).
		n := 2 + r.Intn(2)
		var sb strings.Builder
		for i := 0; i < n; i++ {
			if i > 0 {
				sb.WriteString(g.pick(" ", "  ", "\t") + g.pick("and", "or") + g.pick(" ", "  ", "\t"))
			}
			if r.Intn(3) == 0 {
				sb.WriteString("(" + g.sp() + g.expr(depth+1, max) + g.sp() + ")")
			} else if r.Intn(2) == 0 {
				sb.WriteString(g.atom())
			} else {
				sb.WriteString(g.expr(depth+2, max))
			}
		}
		return sb.String()
	}
}

func (g *mgen) marker() string {
	if g.free {
		// Requirement strings: splitting is under test, keep markers small.
		switch g.rng.Intn(4) {
		case 0:
			return g.atom()
		case 1:
			return g.expr(1, 2)
		default:
			return g.expr(0, 2)
		}
	}
	// A disagreement on one atom is only visible when that atom decides the
	// marker, so small markers carry most of the weight.
	switch k := g.rng.Intn(20); {
	case k < 5:
		return g.atom()
	case k < 10:
		return g.small()
	case k < 14:
		return g.expr(0, 2)
	case k < 17:
		return g.expr(0, 3)
	default:
		return g.expr(0, 4)
	}
}

// small renders two or three atoms joined by and/or, optionally with one
// parenthesised pair.
func (g *mgen) small() string {
	j := func() string { return g.pick(" ", "  ", "\t") + g.pick("and", "or") + g.pick(" ", "  ", "\t") }
	a, b, c := g.atom(), g.atom(), g.atom()
	switch g.rng.Intn(6) {
	case 0:
		return a + j() + b
	case 1:
		return "(" + g.sp() + a + j() + b + g.sp() + ")"
	case 2:
		return a + j() + b + j() + c
	case 3:
		return "(" + a + j() + b + ")" + j() + c
	case 4:
		return a + j() + "(" + g.sp() + b + j() + c + g.sp() + ")"
	default:
		return "(" + a + ")" + j() + "((" + b + "))"
	}
}

// sweep enumerates every single-atom marker over (variable, operator, literal
// of that variable's pool, operand order) plus the extra atoms.
func (g *mgen) sweep() []markerCase {
	var out []markerCase
	for _, name := range variables {
		for _, lit := range distinctSorted(g.lits[name]) {
			q := `"` + lit + `"`
			if strings.Contains(lit, `"`) {
				q = "'" + lit + "'"
			}
			for _, op := range allOps {
				out = append(out, markerCase{Marker: name + " " + op + " " + q}, markerCase{Marker: q + " " + op + " " + name})
			}
		}
	}
	for _, lit := range append([]string{"other", "X", "tes", "y"}, extraNames...) {
		for _, ex := range [][]string{nil, {lit}, {"other2"}, {lit, "other2"}, {"x", "test"}} {
			out = append(out, markerCase{Marker: `extra == "` + lit + `"`, Extras: ex}, markerCase{Marker: `'` + lit + `'==extra`, Extras: ex})
		}
	}
	return out
}

// ---------------------------------------------------------------------------
// oracle + comparison

type verInfo struct {
	Norm    string `json:"norm"`
	Pre     bool   `json:"pre"` // pre- or dev-release
	Post    bool   `json:"post"`
	Dev     bool   `json:"dev"`
	Local   string `json:"local"`
	Epoch   int    `json:"epoch"`
	Release []int  `json:"release"`
}

// markerDomain decides structurally whether a marker is inside the atom
// domain (see Assumptions); reason is "" when it is.
func markerDomain(atoms []atom, extras []string, env map[string]string, vi map[string]*verInfo, specOK map[string]bool) string {
	extraLits := map[string]bool{}
	for _, a := range atoms {
		if !a.L.Var && !a.R.Var {
			return "literal-literal"
		}
		if a.L.Var && a.R.Var {
			return "variable-variable"
		}
		if a.L.Var && a.L.Text == "extra" || a.R.Var && a.R.Text == "extra" {
			if a.Op != "==" {
				return "extra-operator"
			}
			lit := a.L.Text
			if a.L.Var {
				lit = a.R.Text
				// lhs is the (non-version) extra; a version-like literal would be coerced.
				if specOK["=="+lit] {
					return "legacy-coercion"
				}
			}
			extraLits[lit] = true
			continue
		}
		val := func(o operand) string {
			if o.Var {
				return env[o.Text]
			}
			return o.Text
		}
		lv, rv := val(a.L), val(a.R)
		if a.Op == "in" || a.Op == "not in" {
			continue
		}
		if vi[lv] == nil && specOK[a.Op+rv] {
			return "legacy-coercion"
		}
		if vi[lv] != nil && specOK[a.Op+rv] {
			// Two more places where packaging 21.3 and later generations differ
			// (the left value goes through Version): === compares str(Version(left)),
			// so an unnormalised spelling matters in 21.3 only; and Specifier.contains
			// drops a pre-release left value in 21.3 but not later.
			if a.Op == "~=" && vi[rv] != nil && vi[rv].Norm != rv {
				// 21.3 derives the prefix of ~= from the text of the specifier, so a
				// right side that is not in normal form (v3.9, 03.9) never matches;
				// later generations work on the parsed version.
				return "compatible-release-unnormalised-right"
			}
			if a.Op == "===" && vi[lv].Norm != lv {
				return "arbitrary-equality-unnormalised-left"
			}
			if vi[lv].Pre {
				return "prerelease-left"
			}
		}
	}
	for _, e := range extras {
		if specOK["=="+e] || strings.ContainsAny(e, ", \t") || e == "" {
			return "extra-name"
		}
	}
	if len(extras) > 1 && len(extraLits) > 1 {
		return "multi-extra"
	}
	return ""
}

func distinctSorted(ss []string) []string {
	m := map[string]bool{}
	for _, s := range ss {
		m[s] = true
	}
	out := make([]string, 0, len(m))
	for s := range m {
		out = append(out, s)
	}
	sort.Strings(out)
	return out
}

// checkMarkers evaluates the cases with packaging (one adapter batch), decides
// the domain, resolves each in-domain case and compares.
func checkMarkers(r *ev.Run, env map[string]string, cases []markerCase, origin string, report reporter, order *rand.Rand) {
	type parsed struct {
		atoms []atom
		depth int
		ok    bool
	}
	ps := make([]parsed, len(cases))
	var values, specs []string
	for i, c := range cases {
		a, d, ok := scanAtoms(c.Marker)
		ps[i] = parsed{a, d, ok}
		for _, at := range a {
			for _, o := range []operand{at.L, at.R} {
				if o.Var && o.Text != "extra" {
					values = append(values, env[o.Text])
				} else if !o.Var {
					values = append(values, o.Text)
				}
			}
			if at.Op != "in" && at.Op != "not in" {
				rv := at.R.Text
				if at.R.Var {
					rv = env[at.R.Text]
				}
				specs = append(specs, at.Op+rv)
			}
		}
		for _, e := range c.Extras {
			specs = append(specs, "=="+e)
		}
	}
	values = distinctSorted(values)
	specs = distinctSorted(specs)
	envJSON, _ := json.Marshal(env)
	envsJSON, _ := json.Marshal(probeEnvs(env))
	qs := []string{ref.Q("setenv", string(envJSON)), ref.Q("setenvs", string(envsJSON))}
	for _, v := range values {
		qs = append(qs, jq("verinfo", v))
	}
	for _, s := range specs {
		qs = append(qs, jq("spec1", s))
	}
	base := make([]int, len(cases))
	for i, c := range cases {
		base[i] = len(qs)
		ex, _ := json.Marshal(c.Extras)
		if len(c.Extras) == 0 {
			ex = []byte("[]")
		}
		qs = append(qs, jq("markerx", c.Marker, string(ex)))
	}
	ans, err := ref.Py.Batch(qs)
	if err != nil {
		r.Inconclusive(err.Error())
		return
	}
	if ans[0] != "ok" || ans[1] != "ok" {
		r.Inconclusive("packaging adapter: setenv failed: " + ans[0] + " " + ans[1])
		return
	}
	vi := map[string]*verInfo{}
	k := 2
	for _, v := range values {
		if strings.HasPrefix(ans[k], "{") {
			var x verInfo
			if json.Unmarshal([]byte(ans[k]), &x) == nil {
				vi[v] = &x
			}
		}
		k++
	}
	specOK := map[string]bool{}
	for _, s := range specs {
		specOK[s] = !strings.HasPrefix(ans[k], "E")
		k++
	}

	type job struct {
		i    int
		want bool
		envs string
	}
	var jobs []job
	for i, c := range cases {
		b := base[i]
		if !strings.HasPrefix(ans[b], "{") {
			outOfDomain(r, "marker_out:packaging-rejects", c.Marker)
			continue
		}
		var mx struct{ Str, Envs, Truth string }
		if err := json.Unmarshal([]byte(ans[b]), &mx); err != nil {
			r.Inconclusive("packaging adapter: bad markerx answer " + ans[b])
			return
		}
		if !ps[i].ok {
			outOfDomain(r, "marker_out:scanner", c.Marker)
			continue
		}
		if why := markerDomain(ps[i].atoms, c.Extras, env, vi, specOK); why != "" {
			outOfDomain(r, "marker_out:"+why, c.Marker+"   extras="+strings.Join(c.Extras, ","))
			continue
		}
		if strings.Contains(mx.Truth, "U") || mx.Truth == "" {
			outOfDomain(r, "marker_out:undefined-comparison", c.Marker)
			continue
		}
		want := strings.Contains(mx.Truth, "1")
		jobs = append(jobs, job{i: i, want: want, envs: mx.Envs})
	}

	fresh := make([]obs, len(cases)) // via-top observation on a fresh resolver, per case
	wants := make([]bool, len(cases))
	var wg sync.WaitGroup
	ch := make(chan job, 256)
	for w := 0; w < 12; w++ {
		wg.Add(1)
		go func() {
			defer wg.Done()
			for j := range ch {
				c := cases[j.i]
				p := ps[j.i]
				var observations []obs
				observations = append(observations, resolveMarker(c.Marker, c.Extras, true))
				fresh[j.i], wants[j.i] = observations[0], j.want
				paths := []string{"via-top"}
				if len(c.Extras) == 0 {
					// Without extras the root's own dependencies take a second
					// path through the resolver (evaluated before resolution starts).
					observations = append(observations, resolveMarker(c.Marker, nil, false))
					paths = append(paths, "root")
				} else {
					// With extras: the same request arriving only after root has
					// been pinned without any (top -> root, top -> via -> root[extras]).
					observations = append(observations, resolveMarkerLate(c.Marker, c.Extras))
					paths = append(paths, "late-extras")
					r.Count("marker_late_extras_resolutions", 1)
					if len(c.Extras) >= 2 {
						// And split: one extra with the pin, the others later.
						observations = append(observations, resolveMarkerLateSplit(c.Marker, c.Extras[:1], c.Extras[1:]))
						paths = append(paths, "late-extras-split")
						r.Count("marker_late_extras_split_resolutions", 1)
					}
				}
				r.Eval(int64(len(observations)))
				r.Count("marker_in_domain", 1)
				r.Count("marker_resolutions", int64(len(observations)))
				features(r, c, p.atoms, p.depth, env, j.want)
				all := j.envs + map[bool]string{true: "1", false: "0"}[j.want]
				varying := strings.Contains(all, "1") && strings.Contains(all, "0")
				if len(p.atoms) >= 2 && varying {
					r.Nontrivial("m\x00" + c.Marker + "\x00" + strings.Join(c.Extras, ","))
					r.Count("marker_nontrivial", 1)
					if r.Counter("marker_nontrivial")%97 == 1 {
						r.Sample(map[string]any{"marker": c.Marker, "extras": c.Extras, "packaging": j.want, "resolver": observations[0].String(), "truth_over_probe_envs": j.envs})
					}
				}
				for oi, o := range observations {
					path := paths[oi]
					cs := Case{Kind: "marker", Marker: c.Marker, Extras: c.Extras, Lib: o.String() + " (" + path + ")", Ref: fmt.Sprint(j.want)}
					switch {
					case o.Budget:
						r.Inconclusive(fmt.Sprintf("step budget exceeded resolving marker %q", c.Marker))
					case o.Panic != "":
						report("C16:marker:panic", fmt.Sprintf("marker %q extras %v: resolver panics: %s", c.Marker, c.Extras, o.Panic), cs)
					case o.Err != "":
						cl := "C16:marker:resolver-error"
						if sh := explain(c.Marker, p.atoms, c.Extras, paths[oi] != "root", j.want, env, vi); sh != "" {
							cl += ":" + sh
						}
						report(cl, fmt.Sprintf("marker %q extras %v: packaging evaluates to %v, resolver fails: %s", c.Marker, c.Extras, j.want, o.Err), cs)
					case o.Shape != "":
						r.Inconclusive(fmt.Sprintf("marker %q: unexpected graph shape: %s", c.Marker, o.Shape))
					case o.Edge != j.want:
						cl := "C16:marker:truth"
						if sh := explain(c.Marker, p.atoms, c.Extras, paths[oi] != "root", j.want, env, vi); sh != "" {
							cl += ":" + sh
						}
						report(cl, fmt.Sprintf("marker %q extras %v: packaging evaluates to %v, resolver edge root->dep present=%v (%s)", c.Marker, c.Extras, j.want, o.Edge, path), cs)
					}
				}
			}
		}()
	}
	for _, j := range jobs {
		ch <- j
	}
	close(ch)
	wg.Wait()

	// Second pass: all in-domain markers of this batch on ONE resolver, in a
	// seeded order. State the resolver keeps between Resolve calls must not
	// change any verdict.
	idx := make([]int, len(jobs))
	for k, j := range jobs {
		idx[k] = j.i
	}
	if order != nil {
		order.Shuffle(len(idx), func(a, b int) { idx[a], idx[b] = idx[b], idx[a] })
	}
	// Pairs the shared resolver could confuse: equal once blanks are dropped
	// (inside literals too), different truth.
	byStripped := map[string][2]int{}
	for _, i := range idx {
		k := stripWS(cases[i].Marker) + "\x00" + strings.Join(cases[i].Extras, ",")
		c := byStripped[k]
		if wants[i] {
			c[1]++
		} else {
			c[0]++
		}
		byStripped[k] = c
	}
	for _, c := range byStripped {
		if c[0] > 0 && c[1] > 0 {
			r.Count("shared_batch_groups_equal_modulo_blanks_with_both_truths", 1)
		}
		if c[0]+c[1] > 1 {
			r.Count("shared_batch_groups_equal_modulo_blanks", 1)
		}
	}
	sh := newSharedResolver(cases, idx)
	// Two rounds over the batch: the second asks the resolver again for
	// markers it has by then parsed (and cached) itself.
	for pass, order2 := 0, append(append([]int(nil), idx...), idx...); pass < len(order2); pass++ {
		i := order2[pass]
		c := cases[i]
		o := sh.resolve(i)
		r.Eval(1)
		r.Count("shared_resolver_resolutions", 1)
		if o.String() == fresh[i].String() {
			continue
		}
		// The fresh resolver's verdict has been judged above; what is new
		// here is that the verdict depends on the resolver's history.
		cs := Case{Kind: "marker", Marker: c.Marker, Extras: c.Extras, Lib: o.String() + " (shared resolver); " + fresh[i].String() + " (fresh resolver)", Ref: fmt.Sprint(wants[i])}
		switch {
		case o.Budget:
			r.Inconclusive(fmt.Sprintf("step budget exceeded resolving marker %q on the shared resolver", c.Marker))
		case o.Shape != "":
			r.Inconclusive(fmt.Sprintf("marker %q on the shared resolver: unexpected graph shape: %s", c.Marker, o.Shape))
		default:
			cs.Before = sharedContext(cases, idx, i)
			report("C16:marker:shared-resolver-state", fmt.Sprintf("marker %q extras %v: packaging evaluates to %v; a fresh resolver gives %q, the same resolver after other resolutions gives %q", c.Marker, c.Extras, wants[i], fresh[i], o), cs)
		}
	}
}

// sharedContext lists the markers resolved earlier on the shared resolver that
// equal this one modulo blanks (the likely partners of a confusion); a replay
// resolves them first on the same resolver.
func sharedContext(cases []markerCase, idx []int, i int) []string {
	key := stripWS(cases[i].Marker)
	var prev []string
	for _, k := range idx {
		if k == i {
			break
		}
		if stripWS(cases[k].Marker) == key && len(prev) < 6 {
			prev = append(prev, cases[k].Marker)
		}
	}
	return prev
}

func features(r *ev.Run, c markerCase, atoms []atom, depth int, env map[string]string, want bool) {
	if want {
		r.Count("marker_true", 1)
	} else {
		r.Count("marker_false", 1)
	}
	if len(c.Extras) > 0 {
		r.Count("marker_with_extras_requested", 1)
	}
	if len(c.Extras) > 1 {
		r.Count("marker_with_two_extras_requested", 1)
	}
	if len(atoms) >= 2 {
		r.Count("marker_atoms>=2", 1)
	}
	if len(atoms) >= 5 {
		r.Count("marker_atoms>=5", 1)
	}
	if depth >= 2 {
		r.Count("marker_paren_depth>=2", 1)
	}
	hasAnd := strings.Contains(c.Marker, "and")
	hasOr := strings.Contains(c.Marker, "or")
	if hasAnd && hasOr && depth == 0 {
		r.Count("marker_mixed_and_or_unparenthesised", 1)
	}
	for _, a := range atoms {
		lit := a.L.Text
		if a.L.Var {
			lit = a.R.Text
		}
		if len(lit) > 1 && (lit[0] == 'v' || lit[0] == 'V') && lit[1] >= '0' && lit[1] <= '9' && a.Op != "in" && a.Op != "not in" {
			r.Count("literal:v-prefix", 1)
		}
		if strings.Contains(strings.TrimSpace(lit), " ") {
			r.Count("literal:inner-blank", 1)
		}
		r.Count("op:"+a.Op, 1)
		if a.L.Var {
			r.Count("var:"+a.L.Text, 1)
			r.Count("order:var-op-literal", 1)
		} else {
			r.Count("var:"+a.R.Text, 1)
			r.Count("order:literal-op-var", 1)
		}
	}
}

func runMarkers(r *ev.Run, env map[string]string) {
	n := r.N(6000, 160000)
	chunk := r.N(500, 2500)
	shards := (n + chunk - 1) / chunk
	var wg sync.WaitGroup
	sem := make(chan struct{}, 14)
	for sh := 0; sh < shards; sh++ {
		wg.Add(1)
		sem <- struct{}{}
		go func(sh int) {
			defer wg.Done()
			defer func() { <-sem }()
			rng := r.Rand(fmt.Sprintf("markers/%d", sh))
			g := newMgen(rng, env, false)
			var cases []markerCase
			size := min(chunk, n-sh*chunk)
			// A quarter of the batch are families (base + members differing in
			// blanks, literal case, quotes, operand order); the rest independent.
			for len(cases) < size/4 {
				base := g.pivot()
				if rng.Intn(3) == 0 {
					base = g.small()
				}
				ex := pickExtras(rng)
				fam := family(rng, base)
				r.Count("families", 1)
				for _, m := range fam {
					cases = append(cases, markerCase{Marker: m, Extras: ex})
				}
			}
			r.Count("family_members", int64(len(cases)))
			for len(cases) < size {
				cases = append(cases, markerCase{Marker: g.marker(), Extras: pickExtras(rng)})
			}
			checkMarkers(r, env, cases, "generated", r.Violation, r.Rand(fmt.Sprintf("markers/order/%d", sh)))
		}(sh)
	}
	// Single-atom sweep: all combinations (thorough) or a seeded sample (quick).
	{
		rng := r.Rand("markers/sweep")
		all := newMgen(rng, env, false).sweep()
		r.Set("single_atom_sweep_size", len(all))
		if !r.Thorough() {
			rng.Shuffle(len(all), func(i, j int) { all[i], all[j] = all[j], all[i] })
			all = all[:min(len(all), 2000)]
		}
		for i := 0; i < len(all); i += chunk {
			part := all[i:min(len(all), i+chunk)]
			wg.Add(1)
			sem <- struct{}{}
			go func() {
				defer wg.Done()
				defer func() { <-sem }()
				checkMarkers(r, env, part, "sweep", r.Violation, r.Rand(fmt.Sprintf("markers/sweep-order/%d", i)))
			}()
		}
	}
	wg.Wait()
	r.Gate("marker_in_domain", int64(n/2))
	r.Gate("shared_resolver_resolutions", int64(n/2))
	r.Count("shared_resolvers_started_cache_saturated", saturatedShared.Load())
	r.Gate("family_members", int64(n/5))
	r.Gate("shared_batch_groups_equal_modulo_blanks", int64(n/50))
	r.Gate("shared_batch_groups_equal_modulo_blanks_with_both_truths", int64(n/200))
	r.Gate("literal:v-prefix", int64(n/100))
	r.Gate("literal:inner-blank", int64(n/20))
	r.Gate("marker_nontrivial", int64(n/10))
	r.Gate("marker_true", int64(n/40))
	r.Gate("marker_false", int64(n/40))
	r.Gate("marker_with_extras_requested", int64(n/40))
	r.Gate("marker_paren_depth>=2", int64(n/100))
	r.Gate("marker_mixed_and_or_unparenthesised", int64(n/100))
	r.Gate("order:literal-op-var", int64(n/40))
	for _, op := range allOps {
		r.Gate("op:"+op, int64(n/200))
	}
	for _, v := range append([]string{"extra"}, variables...) {
		r.Gate("var:"+v, int64(n/200))
	}
}

func pickExtras(rng *rand.Rand) []string {
	switch k := rng.Intn(10); {
	case k < 4:
		return nil
	case k < 7:
		return []string{extraNames[rng.Intn(len(extraNames))]}
	case k < 8:
		return []string{"other"}
	default:
		p := rng.Perm(len(extraNames))
		return []string{extraNames[p[0]], extraNames[p[1]]}
	}
}

// Observe resolves one marker and describes what the resolver did (debugging aid).
func Observe(marker string, extras []string) string {
	s := resolveMarker(marker, extras, true).String()
	if len(extras) == 0 {
		s += " / from root: " + resolveMarker(marker, nil, false).String()
	}
	return s
}
