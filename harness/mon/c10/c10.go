// Package c10 monitors the canonical-string laws of versions.
package c10

import (
	"fmt"
	"math/rand"
	"strings"
	"sync"

	"deps.dev/util/pypi"
	"deps.dev/util/semver"
	"verif/harness/ev"
	"verif/harness/gen"
)

type Case struct {
	Sys string `json:"sys"`
	V   string `json:"v"`
	W   string `json:"w,omitempty"`
}

type sysgen struct {
	name string
	sys  semver.System
	gen  func(*rand.Rand) string
}

// pfx is what a version of the system must start with.
func (sg sysgen) pfx() string {
	if sg.sys == semver.Go {
		return "v"
	}
	return ""
}

func systems() []sysgen {
	return []sysgen{
		{"Default", semver.DefaultSystem, gen.Wild(gen.Loose)},
		{"Cargo", semver.Cargo, gen.Wild(gen.SemVerStrict(""))},
		{"Go", semver.Go, gen.SemVerStrict("v")},
		{"Maven", semver.Maven, gen.MavenLoose},
		{"NPM", semver.NPM, gen.Wild(gen.Loose)},
		{"NuGet", semver.NuGet, gen.Wild(gen.NuGet)},
		{"PyPI", semver.PyPI, gen.Wild(gen.PyPI)},
		{"Composer", semver.Composer, gen.Wild(gen.Loose)},
		{"RubyGems", semver.RubyGems, gen.GemRelease},
	}
}

func Run(r *ev.Run, replay string) {
	r.MaxSamples = 10
	r.Rule = "per system: N generated version strings (plus respelled variants) accepted by Parse; for each v: c=Canon(true) must parse, compare equal to v and canonicalise to c again (same for Canon(false)); versions grouped by canonical string must compare equal pairwise; PyPI additionally through pypi.CanonVersion. Non-trivial = distinct version string whose canonical string differs from its text."
	r.Assumptions = []string{"RubyGems is release-only (prerelease canonical forms are documented as private; recorded in the property)", "Maven uses the full permissive generator (the statement does not restrict Maven here)"}
	if replay != "" {
		var c struct {
			Case Case `json:"case"`
		}
		if err := ev.ReadJSON(replay, &c); err != nil {
			r.Inconclusive("replay unreadable")
			return
		}
		for _, sg := range systems() {
			if sg.name == c.Case.Sys {
				groups := map[string][]string{}
				one(r, sg, c.Case.V, groups)
				if c.Case.W != "" {
					one(r, sg, c.Case.W, groups)
				}
				sameCanon(r, sg, groups)
			}
		}
		return
	}
	var wit []Case
	if err := ev.ReadJSON(ev.Root+"/witnesses/C10.json", &wit); err != nil {
		r.Inconclusive("witnesses/C10.json: " + err.Error())
	}
	n := r.N(100000, 3000000)
	var wg sync.WaitGroup
	for _, sg := range systems() {
		wg.Add(1)
		go func(sg sysgen) {
			defer wg.Done()
			groups := map[string][]string{}
			for _, w := range wit {
				if w.Sys == sg.name {
					one(r, sg, w.V, groups)
					if w.W != "" {
						one(r, sg, w.W, groups)
					}
				}
			}
			rng := r.Rand(sg.name)
			seen := map[string]bool{}
			var last []string
			for i := 0; i < n; i++ {
				var s string
				if len(last) > 0 && rng.Intn(3) == 0 {
					s = gen.Variant(sg.sys, last[rng.Intn(len(last))], rng)
				} else {
					s = sg.gen(rng)
				}
				if seen[s] {
					continue
				}
				seen[s] = true
				if one(r, sg, s, groups) {
					if len(last) < 64 {
						last = append(last, s)
					} else {
						last[rng.Intn(64)] = s
					}
				}
			}
			// Integer-edge families: a generated string with one component
			// running over 0, 1 and numbers around 2^31, 2^32, 2^63, 2^64.
			for _, s := range gen.ExtremeFamilies(r.Rand(sg.name+"/edges"), sg.gen, n/20, nil) {
				if !seen[s] {
					seen[s] = true
					if one(r, sg, s, groups) {
						r.Count("integer_edge_versions:"+sg.name, 1)
					}
				}
			}
			// The infinity sign, which the set notation uses in bounds: where a
			// system's Parse takes it inside a version (Maven reads it as a
			// number), that version has a canonical form like any other.
			{
				rng := r.Rand(sg.name + "/infinity")
				for i := 0; i < n/40; i++ {
					s := sg.gen(rng)
					var runs [][2]int
					for a := 0; a < len(s); {
						if s[a] < '0' || s[a] > '9' {
							a++
							continue
						}
						b := a
						for b < len(s) && s[b] >= '0' && s[b] <= '9' {
							b++
						}
						runs = append(runs, [2]int{a, b})
						a = b
					}
					switch {
					case len(runs) == 0 || rng.Intn(4) == 0:
						s += gen.Pick(rng, ".∞", "-∞", "∞", "-x∞")
					default:
						x := runs[rng.Intn(len(runs))]
						s = s[:x[0]] + "∞" + s[x[1]:]
					}
					if !seen[s] {
						seen[s] = true
						if one(r, sg, s, groups) {
							r.Count("infinity_sign_versions:"+sg.name, 1)
						}
					}
				}
			}
			// Many components: counts around the edges of 8-, 15- and 16-bit
			// counters, for the systems that take more than three numbers.
			for _, k := range []int{255, 256, 257, 32766, 32767, 32768, 40000, 65535, 65536, 65539} {
				for _, tail := range []string{"", ".7"} {
					s := sg.pfx() + "1" + strings.Repeat(".1", k-1) + tail
					if !seen[s] {
						seen[s] = true
						if one(r, sg, s, groups) {
							r.Count("many_component_versions:"+sg.name, 1)
						}
					}
				}
			}
			sameCanon(r, sg, groups)
		}(sg)
	}
	wg.Wait()
	for _, sg := range systems() {
		r.Gate("versions:"+sg.name, int64(n/20))
		if sg.name != "RubyGems" && sg.name != "Cargo" && sg.name != "Go" {
			r.Gate("canon_differs:"+sg.name, 50)
		}
	}
}

var sampled sync.Map

// one checks the laws for a single string; it reports whether s parsed.
func one(r *ev.Run, sg sysgen, s string, groups map[string][]string) (parsed bool) {
	defer func() {
		if p := recover(); p != nil {
			r.Violation("C10:"+sg.name+":panic", fmt.Sprintf("%s: panic canonicalising %q: %v", sg.name, s, p), Case{Sys: sg.name, V: s})
		}
	}()
	v, err := sg.sys.Parse(s)
	if err != nil {
		return false
	}
	if sg.sys == semver.RubyGems && v.IsPrerelease() {
		return false
	}
	if v.IsWildcard() {
		r.Count("wildcard_versions:"+sg.name, 1)
	}
	r.Count("versions:"+sg.name, 1)
	for _, showBuild := range []bool{true, false} {
		c := v.Canon(showBuild)
		r.Eval(1)
		mode := "canon"
		if !showBuild {
			mode = "canon-nobuild"
		}
		w, err := sg.sys.Parse(c)
		if err != nil {
			r.Violation("C10:"+sg.name+":"+mode+":unparsable", fmt.Sprintf("%s: Canon(%v) of %q is %q which does not parse: %v", sg.name, showBuild, s, c, err), Case{Sys: sg.name, V: s})
			continue
		}
		if cmp := v.Compare(w); cmp != 0 {
			class := "C10:" + sg.name + ":" + mode + ":not-equal"
			if wildcardMetadataOnly(sg, s, v) {
				class = "C10:" + sg.name + ":wildcard-metadata:not-equal"
			}
			r.Violation(class, fmt.Sprintf("%s: %q and its canonical string %q compare %d", sg.name, s, c, cmp), Case{Sys: sg.name, V: s})
		}
		if c2 := w.Canon(showBuild); c2 != c {
			r.Violation("C10:"+sg.name+":"+mode+":not-idempotent", fmt.Sprintf("%s: %q -> %q -> %q", sg.name, s, c, c2), Case{Sys: sg.name, V: s})
		}
		if showBuild {
			groups[c] = append(groups[c], s)
			if c != s {
				r.Nontrivial(sg.name + "\x00" + s)
				r.Count("canon_differs:"+sg.name, 1)
				if _, done := sampled.LoadOrStore(sg.name, true); !done {
					r.Sample(map[string]string{"sys": sg.name, "version": s, "canon": c})
				}
			}
		}
	}
	if sg.sys == semver.PyPI {
		c := pypi.CanonVersion(s)
		r.Eval(1)
		w, err := sg.sys.Parse(c)
		if err != nil {
			r.Violation("C10:PyPI:CanonVersion:unparsable", fmt.Sprintf("pypi.CanonVersion(%q) = %q does not parse", s, c), Case{Sys: sg.name, V: s})
			return true
		}
		if v.Compare(w) != 0 {
			r.Violation("C10:PyPI:CanonVersion:not-equal", fmt.Sprintf("pypi.CanonVersion(%q) = %q compares %d", s, c, v.Compare(w)), Case{Sys: sg.name, V: s})
		}
		if c2 := pypi.CanonVersion(c); c2 != c {
			r.Violation("C10:PyPI:CanonVersion:not-idempotent", fmt.Sprintf("pypi.CanonVersion: %q -> %q -> %q", s, c, c2), Case{Sys: sg.name, V: s})
		}
	}
	return true
}

// wildcardMetadataOnly reports whether s is a wildcard pattern carrying a
// prerelease or build metadata whose failure goes away with that metadata:
// the pattern cut before its first '-' or '+' parses, and compares equal to
// its own canonical string. (Canon documents the metadata of a pattern as
// irrelevant and drops it; Compare looks at it: an open finding.)
func wildcardMetadataOnly(sg sysgen, s string, v *semver.Version) bool {
	if !v.IsWildcard() {
		return false
	}
	i := strings.IndexAny(s, "-+")
	if i <= 0 {
		return false
	}
	b, err := sg.sys.Parse(s[:i])
	if err != nil || !b.IsWildcard() {
		return false
	}
	w, err := sg.sys.Parse(b.Canon(true))
	return err == nil && b.Compare(w) == 0 && v.Canon(true) == b.Canon(true)
}

func sameCanon(r *ev.Run, sg sysgen, groups map[string][]string) {
	for c, ss := range groups {
		if len(ss) < 2 {
			continue
		}
		r.Count("same_canon_groups:"+sg.name, 1)
		v0, err := sg.sys.Parse(ss[0])
		if err != nil {
			continue
		}
		for _, s := range ss[1:] {
			v, err := sg.sys.Parse(s)
			if err != nil {
				continue
			}
			r.Eval(1)
			if v.Compare(v0) != 0 {
				class := "C10:" + sg.name + ":same-canon-differ"
				if wildcardMetadataOnly(sg, s, v) || wildcardMetadataOnly(sg, ss[0], v0) {
					class = "C10:" + sg.name + ":wildcard-metadata:same-canon-differ"
				}
				r.Violation(class, fmt.Sprintf("%s: %q and %q share the canonical string %q but compare %d", sg.name, s, ss[0], c, v.Compare(v0)), Case{Sys: sg.name, V: s, W: ss[0]})
				break
			}
		}
	}
}
