// Package c19 monitors property C19: dependency types (dep.Type) and version
// attribute sets (version.AttrSet) are values — a total order whose equality is
// "same flags, same key/value pairs", clones independent of their originals —
// with a faithful text form in the test schema syntax.
package c19

import (
	"encoding/json"
	"fmt"
	"hash/fnv"
	"math/rand"
	"os"
	"sort"
	"strconv"
	"strings"
	"sync"

	"verif/harness/ev"
)

// ---------------------------------------------------------------------------
// value alphabet

type alphaVal struct {
	label string
	v     string
	w     int // weight
}

var longValue = strings.Repeat("long-value/0123456789.", 14) // 308 bytes
var hugeValue = strings.Repeat("huge-value/0123456789.", 3200) // 70400 bytes: longer than any line buffer of 64 KiB

var alphabet = []alphaVal{
	{"empty", "", 10},
	{"a", "a", 10},
	{"b", "b", 6},
	{"spaced", "a b", 8},
	{"quote-inside", `q"uote`, 8},
	{"pipe", "|", 5},
	{"at", "@", 6},
	{"hash", "#", 6},
	{"non-ascii", "é", 6},
	{"long", longValue, 4},
	{"huge", hugeValue, 1},
	{"leading-space", " lead", 2},
	{"trailing-space", "trail ", 2},
	{"space-run", "a  b", 2},
	{"trailing-backslash", `back\`, 2},
	{"spaced-trailing-backslash", `sp ace\`, 2},
	{"leading-quote", `"startq`, 2},
	{"fully-quoted", `"x y"`, 2},
	{"tab", "tab\tx", 2},
	{"newline", "new\nline", 2},
	{"colon-space", "a: b", 2},
	{"error-marker", "x ERROR: y", 1},
	{"backtick", "`bt`", 2},
	{"pipe-inside", "g:a|*:b", 2},
	{"at-inside", "@scope/pkg", 3},
	{"hash-inside", "c#d e", 2},
	{"invalid-utf8", "\xffz", 2},
	{"nul", "a\x00", 1},
	{"key-name", "dev", 2},
	{"marker", `python_version < "3.8" and extra == 'x'`, 2},
	{"prefix-of-a", "a ", 1},
	// White space other than ASCII space/tab/newline: strings.Fields splits on
	// every Unicode space, a writer that only looks for ASCII ones does not.
	{"nbsp", "a\u00a0b", 2},
	{"vtab", "x\vy", 2},
	{"formfeed", "f\ff", 1},
	{"nel-trailing", "nel\u0085", 2},
	{"em-space", "em\u2003sp", 2},
	// Letter case: keys are written in lower case, values as they are.
	{"upper", "LTS", 4},
	{"mixed-case", "org.Example:Lib", 4},
	{"mixed-case-framework", ".NETStandard2.0:net6.0", 2},
	{"upper-key-name", "Dev", 2},
	{"non-ascii-upper", "École", 2},
}

var alphaTotal = func() int {
	t := 0
	for _, a := range alphabet {
		t += a.w
	}
	return t
}()

var labelOf = func() map[string]string {
	m := map[string]string{}
	for _, a := range alphabet {
		m[a.v] = a.label
	}
	return m
}()

func pickValue(rng *rand.Rand) string {
	x := rng.Intn(alphaTotal)
	for _, a := range alphabet {
		if x < a.w {
			return a.v
		}
		x -= a.w
	}
	return ""
}

// ---------------------------------------------------------------------------
// cases

type opRec struct {
	Op     string   `json:"op"` // set | clone | aliasclone | new | snap | rt
	I      int      `json:"i"`
	J      int      `json:"j,omitempty"`
	Key    string   `json:"key,omitempty"`
	ValQ   string   `json:"val,omitempty"` // strconv.Quote form (values may be invalid UTF-8)
	Keys   []string `json:"keys,omitempty"`
	Form   string   `json:"form,omitempty"`
	Choice int      `json:"choice,omitempty"`
}

type attrSpec struct {
	Key  string `json:"key"`
	ValQ string `json:"val,omitempty"`
}

// seqCase is one executable case: witnesses, replays and generated sequences
// all have this shape.
type seqCase struct {
	Kind string       `json:"kind"`
	Hist [][]attrSpec `json:"hist,omitempty"` // frozen sets present from the start
	Live int          `json:"live"`           // number of zero values at the start
	Ops  []opRec      `json:"ops"`
	Note string       `json:"note,omitempty"`
}

const (
	maxLive  = 4
	maxHist  = 6
	maxAlias = 2
	maxOps   = 30
)

// ent is one real value with its model.
type ent struct {
	v    value
	m    model
	str  string // String() when last touched
	role string // live | hist | alias
	src  *ent   // alias: the value it is an assignment copy of
}

// local accumulates per-worker statistics (flushed to the run under one lock).
type local struct {
	evals int64
	// hot counters kept out of the map
	pairsEqual, pairsUnequal, untouched, triples int64
	counters                                     map[string]int64
	nontriv                                      map[uint64]struct{}
	excl                                         map[string]struct{} // form + "\t" + reason + "\t" + value label
	samples                                      []any
}

func newLocal() *local {
	return &local{counters: map[string]int64{}, nontriv: map[uint64]struct{}{}, excl: map[string]struct{}{}}
}

func (l *local) count(k string, n int64) { l.counters[k] += n }

func hash64(s string) uint64 {
	h := fnv.New64a()
	h.Write([]byte(s))
	return h.Sum64()
}

type exclusionSink struct {
	mu sync.Mutex
	m  map[string]struct{}
}

func (l *local) flush(r *ev.Run, ex *exclusionSink) {
	r.Eval(l.evals)
	r.Count("pairs_equal_nonempty", l.pairsEqual)
	r.Count("pairs_unequal", l.pairsUnequal)
	r.Count("untouched_value_reverified", l.untouched)
	r.Count("triples", l.triples)
	for k, v := range l.counters {
		r.Count(k, v)
	}
	for k := range l.nontriv {
		r.NontrivialHash(k)
	}
	for _, s := range l.samples {
		r.Sample(s)
	}
	ex.mu.Lock()
	for k := range l.excl {
		ex.m[k] = struct{}{}
	}
	ex.mu.Unlock()
	*l = *newLocal()
}

// seq is the state of one running sequence.
type seq struct {
	r     *ev.Run
	l     *local
	kd    *kind
	c     *seqCase
	live  []*ent
	hist  []*ent
	alias []*ent
	bad   bool // a value or order check failed: the sequence stops
	rtBad bool // a text round trip failed: no further round trips in this sequence

	poolBuf [maxLive + maxHist + maxAlias]*ent
}

// textViolation reports a failed text round trip. It does not end the
// sequence (the values themselves are intact), only its further round trips.
func (s *seq) textViolation(class, what string) {
	if s.bad || s.rtBad {
		return
	}
	s.rtBad = true
	cc := *s.c
	cc.Ops = append([]opRec(nil), s.c.Ops...)
	s.r.Violation("C19:"+class, what, cc)
}

func (s *seq) violation(class, what string) {
	if s.bad {
		return
	}
	s.bad = true
	cc := *s.c
	cc.Ops = append([]opRec(nil), s.c.Ops...)
	s.r.Violation("C19:"+class, what, cc)
}

// diffModel compares everything a value reports about itself with its model.
func diffModel(kd *kind, v value, m *model) string {
	for k, ki := range kd.keys {
		got, ok := v.Get(k)
		if ok != m.has[k] {
			return fmt.Sprintf("GetAttr(%s) ok=%v, model says %v", ki.name, ok, m.has[k])
		}
		if ok && !ki.flag && got != m.val[k] {
			return fmt.Sprintf("GetAttr(%s)=%q, model says %q", ki.name, got, m.val[k])
		}
		if h := v.Has(k); h != m.has[k] {
			return fmt.Sprintf("HasAttr(%s)=%v, model says %v", ki.name, h, m.has[k])
		}
	}
	if e := v.Empty(); e != m.empty() {
		return fmt.Sprintf("IsRegular/Empty=%v, model says %v", e, m.empty())
	}
	if kd.hasEach {
		var seen [maxKeys]int
		for _, p := range v.Each() {
			if p.k < 0 {
				return "ForEachAttr yields a key that is not a named constant"
			}
			seen[p.k]++
			if !m.has[p.k] {
				return fmt.Sprintf("ForEachAttr yields %s, absent in the model", kd.keys[p.k].name)
			}
			if !kd.keys[p.k].flag && p.v != m.val[p.k] {
				return fmt.Sprintf("ForEachAttr yields %s=%q, model says %q", kd.keys[p.k].name, p.v, m.val[p.k])
			}
		}
		for k := range kd.keys {
			want := 0
			if m.has[k] {
				want = 1
			}
			if seen[k] != want {
				return fmt.Sprintf("ForEachAttr yields %s %d times, model says %d", kd.keys[k].name, seen[k], want)
			}
		}
	}
	return ""
}

func (s *seq) pool() []*ent {
	p := s.poolBuf[:0]
	p = append(p, s.live...)
	p = append(p, s.hist...)
	p = append(p, s.alias...)
	return p
}

func (e *ent) describe(kd *kind) string {
	return fmt.Sprintf("[%s model=%s real=%s]", e.role, e.m.canon(kd), e.v.String())
}

// verify re-checks EVERY value of the pool against its own model and the
// whole comparison matrix against model equality and the order laws. touched
// is the value the last operation wrote to (or created).
func (s *seq) verify(touched *ent, opname string) {
	kd := s.kd
	pool := s.pool()
	for _, e := range pool {
		s.l.evals++
		cls := "independence"
		if e == touched {
			cls = "model"
		} else {
			s.l.untouched++
		}
		if d := diffModel(kd, e.v, &e.m); d != "" {
			s.violation(kd.name+":"+cls+":attrs", fmt.Sprintf("after %s: %s %s: %s", opname, cls, e.describe(kd), d))
			return
		}
		str := e.v.String()
		if e == touched {
			if again := e.v.String(); again != str {
				s.violation(kd.name+":model:string-unstable", fmt.Sprintf("String() twice: %q then %q", str, again))
				return
			}
			e.str = str
		} else if str != e.str {
			s.violation(kd.name+":independence:string", fmt.Sprintf("after %s on another value: String() of %s changed from %q to %q", opname, e.describe(kd), e.str, str))
			return
		}
	}
	n := len(pool)
	var cm [maxLive + maxHist + maxAlias][maxLive + maxHist + maxAlias]int8
	var eq [maxLive + maxHist + maxAlias][maxLive + maxHist + maxAlias]bool
	var strs [maxLive + maxHist + maxAlias]string
	for i, x := range pool {
		strs[i] = x.v.String()
	}
	for i, x := range pool {
		for j, y := range pool {
			s.l.evals++
			want := x.m.equal(&y.m)
			e := x.v.Equal(y.v)
			eq[i][j] = e
			if e != want {
				s.violation(kd.name+":equal-vs-model", fmt.Sprintf("after %s: Equal(%s, %s)=%v but model equality is %v", opname, x.describe(kd), y.describe(kd), e, want))
				return
			}
			// The text form is faithful: values that differ are written
			// differently, equal ones alike.
			if xs, ys := strs[i], strs[j]; (xs == ys) != want {
				s.violation(kd.name+":string:faithful", fmt.Sprintf("after %s: %s and %s (model equality %v) are written %q and %q", opname, x.describe(kd), y.describe(kd), want, xs, ys))
				return
			}
			if i != j {
				if want {
					if !x.m.empty() {
						s.l.pairsEqual++
					}
				} else {
					s.l.pairsUnequal++
				}
			}
			if kd.hasCompare {
				c := x.v.Compare(y.v)
				if c < -1 || c > 1 {
					s.violation(kd.name+":order:range", fmt.Sprintf("Compare(%s, %s)=%d, not -1, 0 or 1", x.describe(kd), y.describe(kd), c))
					return
				}
				cm[i][j] = int8(c)
				if (c == 0) != want {
					s.violation(kd.name+":compare-vs-model", fmt.Sprintf("after %s: Compare(%s, %s)=%d but model equality is %v", opname, x.describe(kd), y.describe(kd), c, want))
					return
				}
			}
		}
	}
	for i := 0; i < n; i++ {
		if !eq[i][i] || cm[i][i] != 0 {
			s.violation(kd.name+":order:reflexive", fmt.Sprintf("%s is not equal to itself (Equal=%v Compare=%d)", pool[i].describe(kd), eq[i][i], cm[i][i]))
			return
		}
		for j := 0; j < n; j++ {
			if eq[i][j] != eq[j][i] || cm[i][j] != -cm[j][i] {
				s.violation(kd.name+":order:antisymmetric", fmt.Sprintf("x=%s y=%s: Equal(x,y)=%v Equal(y,x)=%v Compare(x,y)=%d Compare(y,x)=%d", pool[i].describe(kd), pool[j].describe(kd), eq[i][j], eq[j][i], cm[i][j], cm[j][i]))
				return
			}
		}
	}
	for i := 0; i < n; i++ {
		for j := 0; j < n; j++ {
			for k := 0; k < n; k++ {
				if eq[i][j] && eq[j][k] && !eq[i][k] {
					s.violation(kd.name+":order:transitive-equal", fmt.Sprintf("x=%s y=%s z=%s: x==y, y==z, x!=z", pool[i].describe(kd), pool[j].describe(kd), pool[k].describe(kd)))
					return
				}
				if kd.hasCompare && cm[i][j] <= 0 && cm[j][k] <= 0 {
					bad := cm[i][k] > 0 || ((cm[i][j] < 0 || cm[j][k] < 0) && cm[i][k] == 0)
					if bad {
						s.violation(kd.name+":order:transitive", fmt.Sprintf("x=%s y=%s z=%s: Compare(x,y)=%d Compare(y,z)=%d Compare(x,z)=%d", pool[i].describe(kd), pool[j].describe(kd), pool[k].describe(kd), cm[i][j], cm[j][k], cm[i][k]))
						return
					}
				}
			}
		}
	}
	s.l.evals += int64(n * n * n)
	s.l.triples += int64(n * n * n)
}

func (s *seq) dropAliasesOf(e *ent) {
	w := 0
	for _, a := range s.alias {
		if a.src != e {
			s.alias[w] = a
			w++
		}
	}
	s.alias = s.alias[:w]
}

func (s *seq) place(j int, e *ent) bool {
	e.role = "live"
	switch {
	case j >= 0 && j < len(s.live):
		// the overwritten value is dropped; assignment copies of it stay valid
		// (nobody can write through it any more) but are dropped too for simplicity
		s.dropAliasesOf(s.live[j])
		s.live[j] = e
	case j == len(s.live) && j < maxLive:
		s.live = append(s.live, e)
	default:
		return false
	}
	return true
}

// apply executes one recorded operation and all checks that follow it.
func (s *seq) apply(op opRec) {
	kd := s.kd
	if op.I < 0 || op.I >= len(s.live) {
		return
	}
	src := s.live[op.I]
	switch op.Op {
	case "set":
		k := kd.keyIndex(op.Key)
		v, err := strconv.Unquote(op.ValQ)
		if k < 0 || err != nil {
			return
		}
		// plain assignment copies of this value now share a map with a value
		// that is being written: the statement promises nothing about them.
		s.dropAliasesOf(src)
		src.v.Set(k, v)
		src.m.set(kd, k, v)
		s.l.count("set:"+kd.name+":"+op.Key, 1)
		if lb, ok := labelOf[v]; ok {
			s.l.count("val:"+lb, 1)
		} else {
			s.l.count("val:(not in the alphabet: witness/replay)", 1)
		}
		s.verify(src, "set "+op.Key+"="+op.ValQ)
	case "clone":
		c := &ent{v: src.v.Clone(), m: src.m}
		if !s.place(op.J, c) {
			return
		}
		s.l.count("op:"+kd.name+":clone", 1)
		s.verify(c, "clone")
	case "aliasclone":
		a := &ent{v: src.v.Alias(), m: src.m, role: "alias", src: src}
		a.str = a.v.String()
		c := &ent{v: a.v.Clone(), m: src.m}
		if !s.place(op.J, c) {
			return
		}
		if len(s.alias) >= maxAlias {
			s.alias = s.alias[1:]
		}
		if op.J != op.I {
			s.alias = append(s.alias, a)
		}
		s.l.count("op:"+kd.name+":aliasclone", 1)
		s.verify(c, "clone of an assignment copy")
	case "new":
		var ks []int
		e := &ent{}
		for _, kn := range op.Keys {
			k := kd.keyIndex(kn)
			if k < 0 {
				return
			}
			ks = append(ks, k)
			e.m.set(kd, k, "")
		}
		e.v = kd.newOf(ks)
		if !s.place(op.J, e) {
			return
		}
		s.l.count("op:"+kd.name+":new", 1)
		s.verify(e, "NewType/zero value")
	case "snap":
		h := &ent{v: src.v.Clone(), m: src.m, role: "hist"}
		if len(s.hist) >= maxHist {
			s.hist = s.hist[1:]
		}
		s.hist = append(s.hist, h)
		s.l.count("op:"+kd.name+":snap", 1)
		s.verify(h, "clone kept as a frozen snapshot")
		if h.m.count() >= 2 {
			s.l.nontriv[hash64(h.m.canon(kd))] = struct{}{}
		}
	case "rt":
		s.roundTrip(src, op.Form, op.Choice)
	}
}

// roundTrip writes the value in one text form and parses it back.
func (s *seq) roundTrip(e *ent, form string, choice int) {
	kd := s.kd
	if !strings.HasPrefix(form, kd.name+":") || s.rtBad {
		return
	}
	// A value containing '|' has no spelling on a graph line (the line is cut
	// at the first '|'): a limit of the test syntax, listed under exclusions.
	real, m := e.v, e.m
	if _, why := carry(kd, form, &m); why != "" {
		// The form cannot carry this set. Overwrite the offending values in a
		// CLONE with ones it can carry, so that the key structure still takes
		// the round trip.
		real = e.v.Clone()
		for guard := 0; guard < maxKeys+1; guard++ {
			k, why := carry(kd, form, &m)
			if why == "" {
				break
			}
			s.l.excl[form+"\t"+why+"\t"+labelOf[m.val[k]]] = struct{}{}
			s.l.count("rt_value_replaced:"+form, 1)
			repl := "a"
			if kd.keys[k].textFlag {
				repl = ""
			}
			real.Set(k, repl)
			m.set(kd, k, repl)
		}
		if d := diffModel(kd, real, &m); d != "" {
			s.violation(kd.name+":model:attrs", "clone with overwritten values: "+d)
			return
		}
	}
	s.l.evals++
	s.l.count("rt:"+form, 1)
	if m.count() >= 2 {
		s.l.count("rt_multi:"+form, 1)
	}
	for k, ki := range kd.keys {
		if m.has[k] {
			s.l.count("rtkey:"+form+":"+ki.name, 1)
		}
	}
	kindOfFailure, what, text := rtOnce(kd, form, real, &m, choice)
	if len(s.l.samples) < 2 && m.count() >= 2 {
		s.l.samples = append(s.l.samples, map[string]string{"form": form, "set": m.canon(kd), "text": text})
	}
	if kindOfFailure != "" {
		// structural feature of the written text, so that the class names the shape
		feat := ""
		if kd == depKind && tokenAfterQuotedValue(kd, &m) {
			feat = ":after-quoted-value"
		}
		s.textViolation(form+":roundtrip:"+kindOfFailure+feat, what)
	}
}

// rtOnce writes one set in one form, parses it back and compares. It returns
// the failure kind ("" = faithful), a description and the text.
func rtOnce(kd *kind, form string, real value, m *model, choice int) (fail, what, text string) {
	text = writeText(kd, form, real, m, choice)
	var parsed value
	var err error
	if kd == depKind {
		parsed, err = parseDep(form, text)
	} else {
		parsed, err = parseVer(text)
	}
	if err != nil {
		return "parse-error", fmt.Sprintf("set %s written as %q does not parse: %v", m.canon(kd), text, err), text
	}
	if d := diffModel(kd, parsed, m); d != "" {
		return "unequal", fmt.Sprintf("set %s written as %q parses to %s: %s", m.canon(kd), text, parsed.String(), d), text
	}
	if !parsed.Equal(real) || !real.Equal(parsed) || (kd.hasCompare && (parsed.Compare(real) != 0 || real.Compare(parsed) != 0)) {
		return "unequal", fmt.Sprintf("set %s written as %q parses to %s, which is not Equal/Compare==0 to the original", m.canon(kd), text, parsed.String()), text
	}
	// What a parse returns is the caller's own value: changing it must not show
	// in what the same text parses to next (nor in the value it was written from).
	for k, ki := range kd.keys {
		if ki.flag || ki.textFlag {
			continue
		}
		parsed.Set(k, "changed-after-parsing")
		break
	}
	var again value
	if kd == depKind {
		again, err = parseDep(form, text)
	} else {
		again, err = parseVer(text)
	}
	if err != nil {
		return "second-parse-error", fmt.Sprintf("%q parsed once and fails the second time: %v", text, err), text
	}
	if d := diffModel(kd, again, m); d != "" {
		return "second-parse-differs", fmt.Sprintf("set %s written as %q parses to %s the second time, after the first parse's result was changed in place: %s", m.canon(kd), text, again.String(), d), text
	}
	if d := diffModel(kd, real, m); d != "" {
		return "original-changed-by-parsed-copy", fmt.Sprintf("set %s: after changing the value parsed from %q the original reads differently: %s", m.canon(kd), text, d), text
	}
	return "", "", text
}

const pipeClass = "C19:dep:graphstring:roundtrip:value-with-pipe"

// pipeProbe: Graph.String has to write whatever dep.Type an edge carries, and
// the schema syntax has no spelling for a value with '|' (the documented shape
// of MavenExclusions). The set takes the Graph.String round trip with its '|'
// values in place (every OTHER unwritable value replaced); a failure is
// reported under pipeClass, which is exactly the shape of the open finding:
// the caller then repeats the round trip with the '|' values replaced, which
// must pass.
func (s *seq) pipeProbe(e *ent) {
	kd := s.kd
	m := e.m
	pipes := false
	var real value
	for k, ki := range kd.keys {
		if !m.has[k] || ki.flag {
			continue
		}
		why := depCarry(formGraphString, ki, m.val[k])
		if why == "" {
			continue
		}
		if !ki.textFlag && strings.Contains(m.val[k], "|") {
			if _, other := depValueToken(m.val[k]); other == "" && !strings.Contains(m.val[k], " ERROR: ") && !strings.Contains(m.val[k], ": ") {
				pipes = true
				continue
			}
		}
		if real == nil {
			real = e.v.Clone()
		}
		repl := "a"
		if ki.textFlag {
			repl = ""
		}
		real.Set(k, repl)
		m.set(kd, k, repl)
	}
	if !pipes {
		return
	}
	if real == nil {
		real = e.v
	}
	s.l.evals++
	s.l.count("pipe_probe", 1)
	if fail, what, _ := rtOnce(kd, formGraphString, real, &m, 0); fail != "" {
		s.l.count("pipe_probe_failed", 1)
		cc := *s.c
		cc.Ops = append([]opRec(nil), s.c.Ops...)
		s.r.Violation(pipeClass, what, cc)
	}
}

// start builds the initial state of a case.
func startSeq(r *ev.Run, l *local, c *seqCase, carried []*ent) *seq {
	kd := kindByName(c.Kind)
	if kd == nil {
		return nil
	}
	s := &seq{r: r, l: l, kd: kd, c: c}
	if carried != nil {
		s.hist = append(s.hist, carried...)
	} else {
		for _, spec := range c.Hist {
			e := &ent{v: kd.zero(), role: "hist"}
			for _, a := range spec {
				k := kd.keyIndex(a.Key)
				v, err := strconv.Unquote(a.ValQ)
				if a.ValQ == "" {
					v, err = "", nil
				}
				if k < 0 || err != nil {
					continue
				}
				e.v.Set(k, v)
				e.m.set(kd, k, v)
			}
			s.hist = append(s.hist, e)
		}
	}
	for _, h := range s.hist {
		h.str = h.v.String()
	}
	n := c.Live
	if n < 1 {
		n = 1
	}
	if n > maxLive {
		n = maxLive
	}
	for i := 0; i < n; i++ {
		e := &ent{v: kd.zero(), role: "live"}
		e.str = e.v.String()
		s.live = append(s.live, e)
	}
	return s
}

// runCase executes a recorded case (witness or replay).
func runCase(r *ev.Run, l *local, c *seqCase) {
	defer func() {
		if p := recover(); p != nil {
			r.Violation("C19:"+c.Kind+":panic", fmt.Sprint("panic while executing a recorded case: ", p), c)
		}
	}()
	full := *c
	c2 := full
	c2.Ops = nil
	s := startSeq(r, l, &c2, nil)
	if s == nil {
		r.Inconclusive("case with unknown kind " + c.Kind)
		return
	}
	s.verify(nil, "start")
	for _, op := range full.Ops {
		if s.bad {
			return
		}
		c2.Ops = append(c2.Ops, op)
		s.apply(op)
	}
}

func specOf(kd *kind, m *model) []attrSpec {
	var out []attrSpec
	for k, ki := range kd.keys {
		if m.has[k] {
			a := attrSpec{Key: ki.name}
			if !ki.flag {
				a.ValQ = strconv.Quote(m.val[k])
			}
			out = append(out, a)
		}
	}
	return out
}

// genSeq generates and executes one sequence; it returns the frozen values to
// carry into the worker's next sequence of the same kind.
func genSeq(r *ev.Run, l *local, rng *rand.Rand, kd *kind, carried []*ent) (next []*ent) {
	c := &seqCase{Kind: kd.name, Live: 1 + rng.Intn(maxLive)}
	for _, h := range carried {
		c.Hist = append(c.Hist, specOf(kd, &h.m))
	}
	s := startSeq(r, l, c, carried)
	defer func() {
		if p := recover(); p != nil {
			s.violation(kd.name+":panic", fmt.Sprint("panic: ", p))
			next = nil
		}
	}()
	forms := depForms
	if kd == verKind {
		forms = verForms
	}
	nops := 8 + rng.Intn(maxOps-8+1)
	do := func(op opRec) {
		c.Ops = append(c.Ops, op)
		s.apply(op)
	}
	for step := 0; step < nops && !s.bad; step++ {
		i := rng.Intn(len(s.live))
		target := func() int {
			// any live slot, or a new one while there is room
			n := len(s.live)
			if n < maxLive {
				n++
			}
			return rng.Intn(n)
		}
		switch p := rng.Intn(100); {
		case p < 55:
			do(opRec{Op: "set", I: i, Key: kd.keys[rng.Intn(len(kd.keys))].name, ValQ: strconv.Quote(pickValue(rng))})
		case p < 70:
			do(opRec{Op: "clone", I: i, J: target()})
		case p < 80:
			do(opRec{Op: "aliasclone", I: i, J: target()})
		case p < 85:
			var ks []string
			for n := rng.Intn(4); n > 0; n-- {
				ks = append(ks, kd.keys[rng.Intn(len(kd.keys))].name)
			}
			do(opRec{Op: "new", I: i, J: target(), Keys: ks})
		case p < 92:
			do(opRec{Op: "snap", I: i})
		default:
			do(opRec{Op: "rt", I: i, Form: forms[rng.Intn(len(forms))], Choice: rng.Intn(1 << 12)})
		}
	}
	// every live value takes every text form at the end
	for i := 0; i < len(s.live) && !s.bad; i++ {
		for _, f := range forms {
			if s.bad {
				break
			}
			do(opRec{Op: "rt", I: i, Form: f, Choice: rng.Intn(1 << 12)})
		}
		if m := &s.live[i].m; m.count() >= 2 {
			l.nontriv[hash64(m.canon(kd))] = struct{}{}
		}
	}
	l.count("sequences:"+kd.name, 1)
	l.count("operations", int64(len(c.Ops)))
	if s.bad {
		return nil // the carried values may be damaged
	}
	if len(l.samples) < 4 && len(c.Ops) < 14 {
		l.samples = append(l.samples, c)
	}
	return s.hist
}

// ---------------------------------------------------------------------------

func Run(r *ev.Run, replay string) {
	if os.Getenv("C19_RACE_ONLY") != "" {
		childMain(r) // does not return
	}
	r.Rule = "seeded sequences of <=30 operations (AddAttr/SetAttr of any named key with values from a hostile alphabet, Clone, Clone of a plain assignment copy, NewType/zero value, frozen snapshot clone, text round trip) over <=4 live values plus <=6 frozen values carried from earlier sequences and <=2 read-only assignment copies; after EVERY operation every value of the pool is re-verified against its own {flags, key->value} model (GetAttr, HasAttr, IsRegular/Empty, ForEachAttr, String unchanged unless it was the operand) and the full Equal/Compare matrix is checked against model equality, range {-1,0,1}, reflexivity, antisymmetry and transitivity over all triples; every live value is finally written in every text form of the schema syntax and parsed back through schema.ParseResolve / schema.New. Non-trivial = distinct set (canonical model text) with >=2 attributes that was live at the end of a sequence or frozen as a snapshot."
	r.Assumptions = []string{
		"only the named AttrKey constants are used (14 dep keys, 13 version keys), as the key doc comments require",
		"a flag key's value is not observed (doc: 'its value is ignored; its presence is the indicator'); only presence is compared",
		"after a plain assignment copy nothing is demanded of copy vs original once either is written to: copies are read-only observers and sources for Clone, and are forgotten when their original is written",
		"version.AttrSet has no Compare: its order laws are those of Equal (reflexive, symmetric, transitive, equal iff model-equal)",
		"ForEachAttr order is not compared (version doc promises none), only the multiset of attributes",
		"String() has no promised format; it is only required to stay the same while the value is not written to",
		"text forms: values the documented syntax cannot carry are replaced (in a clone) before writing; the list is in coverage.text_form_exclusions",
	}
	ex := &exclusionSink{m: map[string]struct{}{}}
	if replay != "" {
		var f struct {
			Case seqCase `json:"case"`
		}
		if err := ev.ReadJSON(replay, &f); err != nil {
			r.Inconclusive("replay unreadable: " + err.Error())
			return
		}
		l := newLocal()
		runCase(r, l, &f.Case)
		l.flush(r, ex)
		return
	}

	// committed witnesses, every run, every seed
	var wit []seqCase
	if err := ev.ReadJSON(ev.Root+"/witnesses/C19.json", &wit); err != nil {
		r.Inconclusive("witnesses/C19.json: " + err.Error())
	}
	{
		l := newLocal()
		for i := range wit {
			runCase(r, l, &wit[i])
			l.count("witness_cases", 1)
		}
		l.samples = nil
		l.flush(r, ex)
	}

	// concrete witnesses of open findings: do they still fail?
	for _, f := range r.OpenFindings() {
		if f.Class != pipeClass {
			continue
		}
		var w struct {
			Kind  string     `json:"kind"`
			Attrs []attrSpec `json:"attrs"`
		}
		if err := json.Unmarshal(f.Witness, &w); err != nil || kindByName(w.Kind) != depKind {
			r.Inconclusive("finding " + f.ID + ": witness unreadable")
			continue
		}
		v := depKind.zero()
		var m model
		for _, a := range w.Attrs {
			k := depKind.keyIndex(a.Key)
			val, err := strconv.Unquote(a.ValQ)
			if k < 0 || (err != nil && a.ValQ != "") {
				r.Inconclusive("finding " + f.ID + ": witness attribute unreadable")
				continue
			}
			v.Set(k, val)
			m.set(depKind, k, val)
		}
		fail, _, _ := rtOnce(depKind, formGraphString, v, &m, 0)
		r.KnownWitness(f.ID, fail != "")
	}

	n := r.N(20000, 500000)
	if raceEnabled {
		n /= 4 // the -race build is for the race sub-workload; keep the rest affordable
	}
	const workers = 16
	var wg sync.WaitGroup
	for w := 0; w < workers; w++ {
		wg.Add(1)
		go func(w int) {
			defer wg.Done()
			rng := r.Rand(fmt.Sprintf("worker/%d", w))
			l := newLocal()
			carried := map[*kind][]*ent{}
			for i := w; i < n; i += workers {
				kd := depKind
				if (i/workers)%2 == 1 {
					kd = verKind
				}
				carried[kd] = genSeq(r, l, rng, kd, carried[kd])
				if (i/workers)%500 == 499 {
					l.flush(r, ex)
				}
			}
			l.flush(r, ex)
		}(w)
	}
	wg.Wait()

	runRaceChild(r)

	// evidence: what the text forms cannot carry
	excl := map[string]map[string][]string{}
	for k := range ex.m {
		p := strings.SplitN(k, "\t", 3)
		if excl[p[0]] == nil {
			excl[p[0]] = map[string][]string{}
		}
		excl[p[0]][p[1]] = append(excl[p[0]][p[1]], p[2])
	}
	for _, m := range excl {
		for reason, v := range m {
			sort.Strings(v)
			if strings.HasPrefix(reason, "Selector ") {
				m[reason] = []string{fmt.Sprintf("(every non-empty value; %d of the alphabet met)", len(v))}
			}
		}
	}
	r.Set("text_form_exclusions", excl)
	alpha := map[string]string{}
	for _, a := range alphabet {
		v := a.v
		if len(v) > 40 {
			v = v[:40] + fmt.Sprintf("...(%d bytes)", len(a.v))
		}
		alpha[a.label] = strconv.Quote(v)
	}
	r.Set("value_alphabet", alpha)

	// coverage gates
	scale := int64(1)
	if r.Thorough() {
		scale = 10
	}
	for _, kd := range []*kind{depKind, verKind} {
		for _, k := range kd.keys {
			r.Gate("set:"+kd.name+":"+k.name, 200*scale)
		}
		for _, op := range []string{"clone", "aliasclone", "new", "snap"} {
			r.Gate("op:"+kd.name+":"+op, 1000*scale)
		}
		r.Gate("sequences:"+kd.name, int64(n)/2-workers)
	}
	for _, a := range alphabet {
		r.Gate("val:"+a.label, 100*scale)
	}
	for _, f := range append(append([]string{}, depForms...), verForms...) {
		r.Gate("rt:"+f, 2000*scale)
		r.Gate("rt_multi:"+f, 1000*scale)
		kd := depKind
		if strings.HasPrefix(f, "ver:") {
			kd = verKind
		}
		for _, k := range kd.keys {
			r.Gate("rtkey:"+f+":"+k.name, 100*scale)
		}
	}
	r.Gate("pairs_equal_nonempty", 5000*scale)
	r.Gate("pairs_unequal", 100000*scale)
	r.Gate("untouched_value_reverified", 100000*scale)
	r.GateNontrivial(int64(r.N(5000, 50000)))
}
