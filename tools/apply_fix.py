#!/usr/bin/env python3
"""apply_fix.py <diff> : applies the non-test parts of a proposed diff to /repo, runs the baseline suite, prints result (no commit)."""
import re, subprocess, sys
d = open(sys.argv[1]).read()
i = d.index('diff --git')
parts = re.split(r'(?m)^(?=diff --git )', d[i:])
keep = [p for p in parts if p.strip() and not re.match(r'diff --git a/\S+_test\.go ', p)]
open('/tmp/fix.diff', 'w').write(''.join(keep))
subprocess.run(['git', '-C', '/repo', 'apply', '/tmp/fix.diff'], check=True)
r = subprocess.run(['/verif/tools/baseline.sh'], capture_output=True, text=True)
print(r.stdout.strip()[-200:])
sys.exit(0 if 'BASELINE OK' in r.stdout else 1)
