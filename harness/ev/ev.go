// Package ev holds what every monitor shares: the run record (evaluations,
// distinct non-trivial cases, samples, feature counters), the three-valued
// verdict, the known-findings matcher, replay files and the evidence writer.
package ev

import (
	"encoding/json"
	"fmt"
	"hash/fnv"
	"math/rand"
	"os"
	"path/filepath"
	"sort"
	"strconv"
	"sync"
	"time"
)

// Root is the /verif directory (overridable for runs from a snapshot).
var Root = func() string {
	if r := os.Getenv("VERIF_ROOT"); r != "" {
		return r
	}
	return "/verif"
}()

// Finding is one entry of known_findings.json.
type Finding struct {
	ID       string          `json:"id"`
	Status   string          `json:"status"` // "open" or "fixed"
	Property string          `json:"property"`
	Class    string          `json:"class"` // violation class this entry covers (open only)
	What     string          `json:"what"`
	Commit   string          `json:"commit,omitempty"`
	Witness  json.RawMessage `json:"witness,omitempty"`
}

type Violation struct {
	Class  string `json:"class"`
	What   string `json:"what"`
	Detail any    `json:"detail,omitempty"`
	Replay string `json:"replay,omitempty"`
}

type Run struct {
	Prop  string
	Tier  string
	Seed  int64
	Level string

	start time.Time
	mu    sync.Mutex

	evaluations  int64
	nontrivial   map[uint64]struct{}
	nontrivAdd   int64 // cases distinct by construction, counted not hashed
	samples      []any
	counters     map[string]int64
	Rule         string
	Assumptions  []string
	extra        map[string]any
	violations   []Violation
	nviol        int
	classCount   map[string]int
	findings     []Finding
	knownSeen    map[string]int64 // finding id -> generated violations attributed
	knownWitness map[string]bool  // finding id -> witness still fails
	inconclusive []string
	gates        []gate
	MaxSamples   int
}

type gate struct {
	name string
	min  int64
	get  func() int64
}

func New(prop string) *Run {
	r := &Run{
		Prop:         prop,
		Tier:         "quick",
		Seed:         1,
		Level:        "exploration",
		start:        time.Now(),
		nontrivial:   map[uint64]struct{}{},
		counters:     map[string]int64{},
		extra:        map[string]any{},
		knownSeen:    map[string]int64{},
		classCount:   map[string]int{},
		knownWitness: map[string]bool{},
		MaxSamples:   8,
	}
	if t := os.Getenv("VERIF_TIER"); t == "quick" || t == "thorough" {
		r.Tier = t
	}
	if s := os.Getenv("VERIF_SEED"); s != "" {
		if n, err := strconv.ParseInt(s, 10, 64); err == nil {
			r.Seed = n
		}
	}
	r.loadFindings()
	// Replays of an earlier run at this seed would be mistaken for this run's.
	if old, _ := filepath.Glob(filepath.Join(outDir("replays"), fmt.Sprintf("%s-%d-*.json", r.Prop, r.Seed))); len(old) > 0 {
		for _, f := range old {
			os.Remove(f)
		}
	}
	return r
}

// outDir is where evidence/ and replays/ go: /verif normally, the alternative
// build directory when the monitors run against another checkout (VERIF_OUT),
// so that trying a seeded change never overwrites the real evidence.
func outDir(sub string) string {
	if d := os.Getenv("VERIF_OUT"); d != "" {
		return filepath.Join(d, sub)
	}
	return filepath.Join(Root, sub)
}

// ReadJSON decodes a JSON file.
func ReadJSON(path string, v any) error {
	b, err := os.ReadFile(path)
	if err != nil {
		return err
	}
	return json.Unmarshal(b, v)
}

func (r *Run) loadFindings() {
	r.loadFindingsFile(filepath.Join(Root, "known_findings.json"))
	if os.Getenv("VERIF_PROPOSED") != "" {
		// Development only: findings proposed but not yet merged.
		r.loadFindingsFile(filepath.Join(Root, "proposed", r.Prop+"-findings.json"))
	}
}

func (r *Run) loadFindingsFile(path string) {
	b, err := os.ReadFile(path)
	if err != nil {
		return
	}
	var all struct {
		Findings []Finding `json:"findings"`
	}
	if err := json.Unmarshal(b, &all); err != nil {
		r.Inconclusive("known_findings.json unreadable: " + err.Error())
		return
	}
	for _, f := range all.Findings {
		if f.Property == r.Prop {
			r.findings = append(r.findings, f)
		}
	}
}

// OpenFindings returns the open entries of this property.
func (r *Run) OpenFindings() []Finding {
	var out []Finding
	for _, f := range r.findings {
		if f.Status == "open" {
			out = append(out, f)
		}
	}
	return out
}

// AllFindings returns open and fixed entries of this property.
func (r *Run) AllFindings() []Finding { return r.findings }

func (r *Run) Thorough() bool { return r.Tier == "thorough" }

// N picks a size by tier.
func (r *Run) N(quick, thorough int) int {
	if r.Thorough() {
		return thorough
	}
	return quick
}

// Rand returns a PRNG determined by (seed, property, stream).
func (r *Run) Rand(stream string) *rand.Rand {
	h := fnv.New64a()
	fmt.Fprintf(h, "%d|%s|%s", r.Seed, r.Prop, stream)
	return rand.New(rand.NewSource(int64(h.Sum64())))
}

func (r *Run) Eval(n int64) {
	r.mu.Lock()
	r.evaluations += n
	r.mu.Unlock()
}

func hash(s string) uint64 {
	h := fnv.New64a()
	h.Write([]byte(s))
	return h.Sum64()
}

// Nontrivial records one distinct non-trivial case by canonical key.
func (r *Run) Nontrivial(key string) {
	k := hash(key)
	r.mu.Lock()
	r.nontrivial[k] = struct{}{}
	r.mu.Unlock()
}

// NontrivialN records n distinct cases that are known distinct by construction
// (e.g. triples of distinct pool indices); prefix keeps namespaces apart.
func (r *Run) NontrivialHash(k uint64) {
	r.mu.Lock()
	r.nontrivial[k] = struct{}{}
	r.mu.Unlock()
}

// NontrivialAdd counts n further cases that are distinct by construction
// (e.g. triples of distinct indices into a pool of distinct strings).
func (r *Run) NontrivialAdd(n int64) {
	r.mu.Lock()
	r.nontrivAdd += n
	r.mu.Unlock()
}

func (r *Run) NontrivialCount() int64 {
	r.mu.Lock()
	defer r.mu.Unlock()
	return int64(len(r.nontrivial)) + r.nontrivAdd
}

func (r *Run) Sample(x any) {
	r.mu.Lock()
	if len(r.samples) < r.MaxSamples {
		r.samples = append(r.samples, x)
	}
	r.mu.Unlock()
}

func (r *Run) Count(name string, n int64) {
	r.mu.Lock()
	r.counters[name] += n
	r.mu.Unlock()
}

func (r *Run) Counter(name string) int64 {
	r.mu.Lock()
	defer r.mu.Unlock()
	return r.counters[name]
}

func (r *Run) Set(key string, v any) {
	r.mu.Lock()
	r.extra[key] = v
	r.mu.Unlock()
}

// Gate demands a minimum for a counter at Finish; failing it makes the run
// inconclusive (never a violation, never a pass).
func (r *Run) Gate(counter string, min int64) {
	r.gates = append(r.gates, gate{name: counter, min: min, get: func() int64 { return r.Counter(counter) }})
}

func (r *Run) GateNontrivial(min int64) {
	r.gates = append(r.gates, gate{name: "distinct_nontrivial", min: min, get: r.NontrivialCount})
}

func (r *Run) Inconclusive(why string) {
	r.mu.Lock()
	r.inconclusive = append(r.inconclusive, why)
	r.mu.Unlock()
}

// Violation reports a refuting observation. class names the kind of failure
// precisely enough that a known finding can be identified by it; a violation
// whose class equals an open finding's class is attributed to that finding,
// everything else is fresh.
func (r *Run) Violation(class, what string, detail any) {
	r.mu.Lock()
	defer r.mu.Unlock()
	for _, f := range r.findings {
		if f.Status == "open" && classMatch(f.Class, class) {
			r.knownSeen[f.ID]++
			return
		}
	}
	r.nviol++
	r.classCount[class]++
	if r.classCount[class] > 3 || len(r.violations) >= 40 {
		return
	}
	v := Violation{Class: class, What: what, Detail: detail}
	dir := outDir("replays")
	os.MkdirAll(dir, 0o755)
	p := filepath.Join(dir, fmt.Sprintf("%s-%d-%d.json", r.Prop, r.Seed, len(r.violations)))
	b, _ := json.MarshalIndent(map[string]any{
		"property": r.Prop, "seed": r.Seed, "tier": r.Tier, "class": class, "what": what, "case": detail,
	}, "", " ")
	if err := os.WriteFile(p, b, 0o644); err == nil {
		v.Replay = p
	}
	r.violations = append(r.violations, v)
}

func (r *Run) Violations() int { r.mu.Lock(); defer r.mu.Unlock(); return r.nviol }

// KnownWitness records whether the concrete witness of an open finding still
// fails on this tree.
func (r *Run) KnownWitness(id string, stillFails bool) {
	r.mu.Lock()
	r.knownWitness[id] = stillFails
	r.mu.Unlock()
}

// Finish writes evidence, prints verdict lines and exits.
func (r *Run) Finish() {
	r.mu.Lock()
	for _, g := range r.gates {
		r.mu.Unlock()
		got := g.get()
		r.mu.Lock()
		if got < g.min {
			r.inconclusive = append(r.inconclusive, fmt.Sprintf("coverage gate %s: %d < %d", g.name, got, g.min))
		}
	}
	cov := map[string]any{
		"evaluations":         r.evaluations,
		"distinct_nontrivial": int64(len(r.nontrivial)) + r.nontrivAdd,
		"rule":                r.Rule,
		"samples":             r.samples,
		"counters":            sortedCounters(r.counters),
	}
	if len(r.samples) == 0 {
		cov["samples"] = []any{"(none recorded)"}
	}
	for k, v := range r.extra {
		cov[k] = v
	}
	known := map[string]any{}
	for _, f := range r.findings {
		if f.Status == "open" {
			known[f.ID] = map[string]any{"witness_still_fails": r.knownWitness[f.ID], "generated_cases_attributed": r.knownSeen[f.ID]}
		}
	}
	cov["known_findings_seen"] = known
	verdict := "held"
	if r.nviol > 0 {
		verdict = "violated"
	} else if len(r.inconclusive) > 0 {
		verdict = "inconclusive"
	}
	cov["verdict"] = verdict
	if len(r.inconclusive) > 0 {
		cov["inconclusive_reasons"] = r.inconclusive
	}
	if len(r.violations) > 0 {
		cov["violation_list"] = r.violations
		cov["violation_classes"] = r.classCount
	}
	evd := map[string]any{
		"property_id": r.Prop,
		"tier":        r.Tier,
		"seed":        r.Seed,
		"level":       r.Level,
		"coverage":    cov,
		"assumptions": r.Assumptions,
		"wall_s":      time.Since(r.start).Seconds(),
		"violations":  r.nviol,
	}
	if r.Assumptions == nil {
		evd["assumptions"] = []string{}
	}
	b, _ := json.MarshalIndent(evd, "", " ")
	os.MkdirAll(outDir("evidence"), 0o755)
	if err := os.WriteFile(filepath.Join(outDir("evidence"), r.Prop+".json"), b, 0o644); err != nil {
		fmt.Fprintln(os.Stderr, "cannot write evidence:", err)
	}
	for _, f := range r.findings {
		if f.Status == "open" && (r.knownWitness[f.ID] || r.knownSeen[f.ID] > 0) {
			fmt.Printf("KNOWN-FINDING: property=%s %s: %s (cases attributed this run, witness included: %d)\n", r.Prop, f.ID, f.What, r.knownSeen[f.ID]+b2i(r.knownWitness[f.ID]))
		}
	}
	fmt.Printf("%s %s seed=%d: %s; evaluations=%d distinct_nontrivial=%d violations=%d wall=%.1fs\n",
		r.Prop, r.Tier, r.Seed, verdict, r.evaluations, int64(len(r.nontrivial))+r.nontrivAdd, r.nviol, time.Since(r.start).Seconds())
	if r.nviol > 0 {
		for c, k := range r.classCount {
			fmt.Printf("  violation class %s: %d\n", c, k)
		}
		for _, v := range r.violations {
			fmt.Printf("VIOLATION property=%s replay=%s\n", r.Prop, v.Replay)
			fmt.Printf("  class=%s %s\n", v.Class, v.What)
		}
		r.mu.Unlock()
		os.Exit(1)
	}
	if len(r.inconclusive) > 0 {
		for _, s := range r.inconclusive {
			fmt.Fprintln(os.Stderr, "INCONCLUSIVE:", s)
			fmt.Println("INCONCLUSIVE:", s)
		}
		r.mu.Unlock()
		os.Exit(2)
	}
	r.mu.Unlock()
	os.Exit(0)
}

func sortedCounters(m map[string]int64) map[string]int64 {
	out := map[string]int64{}
	ks := make([]string, 0, len(m))
	for k := range m {
		ks = append(ks, k)
	}
	sort.Strings(ks)
	for _, k := range ks {
		out[k] = m[k]
	}
	return out
}

func b2i(b bool) int64 {
	if b {
		return 1
	}
	return 0
}

// classMatch compares a finding's class with a violation class segment by
// segment (":"-separated); a "*" segment in the finding matches any one segment.
func classMatch(pat, class string) bool {
	if pat == class {
		return true
	}
	ps, cs := splitColon(pat), splitColon(class)
	if len(ps) != len(cs) {
		return false
	}
	for i := range ps {
		if ps[i] != "*" && ps[i] != cs[i] {
			return false
		}
	}
	return true
}

func splitColon(s string) []string {
	var out []string
	for {
		i := -1
		for k := 0; k < len(s); k++ {
			if s[k] == ':' {
				i = k
				break
			}
		}
		if i < 0 {
			return append(out, s)
		}
		out = append(out, s[:i])
		s = s[i+1:]
	}
}
