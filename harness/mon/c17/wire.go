package c17

// Sub-monitor 3: executions. A generated v3 client talks to the generated
// v3alpha service over an in-process gRPC connection.

import (
	"bytes"
	"context"
	"encoding/hex"
	"fmt"
	"hash/fnv"
	"math"
	"math/rand"
	"net"
	"reflect"
	"sort"
	"strings"
	"sync"
	"sync/atomic"
	"time"

	v3 "deps.dev/api/v3"
	v3a "deps.dev/api/v3alpha"
	"google.golang.org/grpc"
	"google.golang.org/grpc/codes"
	"google.golang.org/grpc/credentials/insecure"
	"google.golang.org/grpc/metadata"
	"google.golang.org/grpc/status"
	"google.golang.org/grpc/test/bufconn"
	"google.golang.org/protobuf/encoding/prototext"
	"google.golang.org/protobuf/encoding/protowire"
	"google.golang.org/protobuf/proto"
	"google.golang.org/protobuf/reflect/protoreflect"
)

// wireCase is one exchange, as written to replay files and witnesses. The hex
// forms are authoritative; the text forms are for readers (and are used when a
// hand-written witness gives no hex).
type wireCase struct {
	Monitor  string `json:"monitor,omitempty"`
	Method   string `json:"method,omitempty"`
	Stratum  string `json:"stratum,omitempty"`
	ReqHex   string `json:"req_hex,omitempty"`   // v3 request
	RespHex  string `json:"resp_hex,omitempty"`  // v3alpha response the server sends
	ReqText  string `json:"req_text,omitempty"`  // prototext of the v3 request
	RespText string `json:"resp_text,omitempty"` // prototext of the v3alpha response
}

// recCodec is the proto codec plus a record of the exact bytes it produced or
// consumed, keyed by the message object.
type recCodec struct{ seen sync.Map }

func (c *recCodec) Name() string { return "proto" }

func (c *recCodec) Marshal(v any) ([]byte, error) {
	m, ok := v.(proto.Message)
	if !ok {
		return nil, fmt.Errorf("recCodec: %T is not a proto.Message", v)
	}
	b, err := proto.Marshal(m)
	if err == nil {
		c.seen.Store(v, append([]byte(nil), b...))
	}
	return b, err
}

func (c *recCodec) Unmarshal(data []byte, v any) error {
	m, ok := v.(proto.Message)
	if !ok {
		return fmt.Errorf("recCodec: %T is not a proto.Message", v)
	}
	c.seen.Store(v, append([]byte(nil), data...))
	return proto.Unmarshal(data, m)
}

func (c *recCodec) take(v any) []byte {
	b, ok := c.seen.LoadAndDelete(v)
	if !ok {
		return nil
	}
	return b.([]byte)
}

// plan is what the server does for one call and what it saw.
type plan struct {
	resp    proto.Message // v3alpha response to send (nil: empty response of the right type)
	gotReq  proto.Message
	gotRaw  []byte
	method  string
	reached bool
}

type fakeServer struct {
	v3a.UnimplementedInsightsServer
}

type wireEnv struct {
	m        *mon
	ctx      context.Context
	cancel   context.CancelFunc
	lis      *bufconn.Listener
	srv      *grpc.Server
	conn     *grpc.ClientConn
	cliCodec *recCodec
	srvCodec *recCodec
	plans    sync.Map // call id -> *plan
	nextID   atomic.Int64
	respType map[string]reflect.Type // v3alpha rpc name -> response pointer type
	fileA    protoreflect.FileDescriptor
	fileB    protoreflect.FileDescriptor
	pkgA     string
	pkgB     string

	cov *coverage

	distinctMu sync.Mutex
	distinct   map[[2]uint64]struct{} // distinct non-trivial exchanges (two independent 64-bit hashes)
}

const callHeader = "c17-call"

func newWireEnv(m *mon) (*wireEnv, error) {
	e := &wireEnv{m: m, cliCodec: &recCodec{}, srvCodec: &recCodec{}, respType: map[string]reflect.Type{},
		fileA: v3.File_api_proto, fileB: v3a.File_api_proto, cov: newCoverage(), distinct: map[[2]uint64]struct{}{}}
	e.pkgA, e.pkgB = string(e.fileA.Package()), string(e.fileB.Package())
	// The only use of time: an outer watchdog whose firing is inconclusive.
	e.ctx, e.cancel = context.WithTimeout(context.Background(), 20*time.Minute)
	it := reflect.TypeOf((*v3a.InsightsServer)(nil)).Elem()
	for i := 0; i < it.NumMethod(); i++ {
		mt := it.Method(i)
		if mt.Type.NumOut() == 2 {
			e.respType[mt.Name] = mt.Type.Out(0)
		}
	}
	e.lis = bufconn.Listen(1 << 20)
	e.srv = grpc.NewServer(grpc.ForceServerCodec(e.srvCodec), grpc.UnaryInterceptor(e.intercept))
	v3a.RegisterInsightsServer(e.srv, &fakeServer{})
	// A v3 client addresses /<v3 package>.Insights/X, the v3alpha service is
	// /<v3alpha package>.Insights/X: over gRPC, as over HTTP, the two differ by
	// the version prefix and a deployment routes by it. In process the v3alpha
	// ServiceDesc (its handlers, hence its Go types) is registered a second time
	// under the v3 service name.
	if e.fileA.Services().Len() == 1 {
		alias := v3a.Insights_ServiceDesc
		alias.ServiceName = string(e.fileA.Services().Get(0).FullName())
		e.srv.RegisterService(&alias, &fakeServer{})
	}
	go e.srv.Serve(e.lis)
	conn, err := grpc.NewClient("passthrough:///c17",
		grpc.WithContextDialer(func(ctx context.Context, _ string) (net.Conn, error) { return e.lis.DialContext(ctx) }),
		grpc.WithTransportCredentials(insecure.NewCredentials()),
		grpc.WithDefaultCallOptions(grpc.ForceCodec(e.cliCodec), grpc.MaxCallRecvMsgSize(64<<20), grpc.MaxCallSendMsgSize(64<<20)))
	if err != nil {
		e.close()
		return nil, err
	}
	e.conn = conn
	return e, nil
}

func (e *wireEnv) close() {
	if e.conn != nil {
		e.conn.Close()
	}
	e.srv.Stop()
	e.lis.Close()
	e.cancel()
}

// intercept replaces every handler: it records the decoded request (which the
// generated handler decoded into the generated v3alpha type) and answers with
// the planned response.
func (e *wireEnv) intercept(ctx context.Context, req any, info *grpc.UnaryServerInfo, _ grpc.UnaryHandler) (any, error) {
	md, _ := metadata.FromIncomingContext(ctx)
	ids := md.Get(callHeader)
	if len(ids) != 1 {
		return nil, status.Error(codes.Internal, "c17: call without plan id")
	}
	pv, ok := e.plans.Load(ids[0])
	if !ok {
		return nil, status.Error(codes.Internal, "c17: unknown plan id")
	}
	p := pv.(*plan)
	p.reached = true
	p.method = info.FullMethod
	p.gotReq, _ = req.(proto.Message)
	p.gotRaw = e.srvCodec.take(req)
	if p.resp != nil {
		return p.resp, nil
	}
	name := info.FullMethod[strings.LastIndexByte(info.FullMethod, '/')+1:]
	t, ok := e.respType[name]
	if !ok {
		return nil, status.Error(codes.Internal, "c17: no response type for "+name)
	}
	return reflect.New(t.Elem()).Interface(), nil
}

// call invokes a generated client method by name.
func (e *wireEnv) call(client reflect.Value, method string, req proto.Message, p *plan) (proto.Message, error) {
	id := fmt.Sprint(e.nextID.Add(1))
	e.plans.Store(id, p)
	defer e.plans.Delete(id)
	ctx := metadata.AppendToOutgoingContext(e.ctx, callHeader, id)
	out := client.MethodByName(method).Call([]reflect.Value{reflect.ValueOf(ctx), reflect.ValueOf(req)})
	if !out[1].IsNil() {
		return nil, out[1].Interface().(error)
	}
	resp, ok := out[0].Interface().(proto.Message)
	if !ok {
		return nil, fmt.Errorf("client method %s returned %s", method, out[0].Type())
	}
	return resp, nil
}

// unaryMethods lists the client's rpc methods: func(ctx, *In, ...CallOption) (*Out, error).
func unaryMethods(client reflect.Value) map[string]reflect.Type {
	out := map[string]reflect.Type{}
	t := client.Type()
	for i := 0; i < t.NumMethod(); i++ {
		mt := t.Method(i)
		ft := mt.Type // bound through the interface value: receiver is In(0)
		if ft.NumIn() == 4 && ft.NumOut() == 2 && ft.IsVariadic() {
			out[mt.Name] = ft.In(2)
		}
	}
	return out
}

var det = proto.MarshalOptions{Deterministic: true}

func text(m proto.Message) string {
	s := prototext.MarshalOptions{Multiline: false}.Format(m)
	return strings.Join(strings.Fields(s), " ")
}

func runWire(m *mon, wit []witness) {
	e, err := newWireEnv(m)
	if err != nil {
		m.r.Inconclusive("wire: cannot set up the in-process connection: " + err.Error())
		return
	}
	defer e.close()
	if e.fileA.Services().Len() != 1 || e.fileB.Services().ByName(e.fileA.Services().Get(0).Name()) == nil {
		m.r.Inconclusive("wire: v3 must have exactly one service and v3alpha one of the same name (the walk reports the difference)")
		return
	}
	sdA := e.fileA.Services().Get(0)
	clientA := reflect.ValueOf(v3.NewInsightsClient(e.conn))
	clientB := reflect.ValueOf(v3a.NewInsightsClient(e.conn))
	methodsA := unaryMethods(clientA)

	// Every generated v3alpha client stub reaches its own rpc (the v3 stubs
	// are exercised by the exchanges below).
	e.stubs(clientB, e.fileB.Services().ByName(sdA.Name()), "v3alpha")

	for _, w := range wit {
		if w.Kind == "wire" {
			m.r.Count("witness:wire", 1)
			replayWire1(e, clientA, w.Wire, "witness")
		}
	}

	n := m.r.N(100, 5000)
	var wg sync.WaitGroup
	for i := 0; i < sdA.Methods().Len(); i++ {
		i := i
		md := sdA.Methods().Get(i)
		name := string(md.Name())
		if md.IsStreamingClient() || md.IsStreamingServer() {
			m.r.Inconclusive("wire: streaming rpc " + name + " is not exercised by this monitor")
			continue
		}
		reqT, ok := methodsA[name]
		if !ok {
			m.violation("C17:wire:"+name+":client-stub", "generated v3 client has no method for rpc "+name, elemCase{Monitor: "wire", Path: name})
			continue
		}
		respT, ok := e.respType[name]
		if !ok {
			// The walk reports the missing rpc; nothing to execute.
			m.r.Count("wire:rpc_missing_in_v3alpha", 1)
			continue
		}
		wg.Add(1)
		go func() {
			defer wg.Done()
			defer func() {
				if p := recover(); p != nil {
					m.violation("C17:wire:"+name+":panic", fmt.Sprint("panic in the wire monitor: ", p), elemCase{Monitor: "wire", Path: name})
				}
			}()
			e.method(clientA, name, reqT, respT, n, i == 0)
		}()
	}
	wg.Wait()
	if e.ctx.Err() != nil {
		m.r.Inconclusive("wire: watchdog fired")
	}
	e.coverageVerdict(sdA)
	e.distinctMu.Lock()
	m.r.Set("distinct_wire_exchanges", len(e.distinct))
	e.distinctMu.Unlock()
	m.r.Gate("wire:exchanges", int64(n*sdA.Methods().Len()))
	m.r.Gate("wire:stratum:v3-only", int64(n/2*sdA.Methods().Len()))
	m.r.Gate("wire:stratum:v3alpha-extras", int64(n/2*sdA.Methods().Len()))
}

func (e *wireEnv) stubs(client reflect.Value, sd protoreflect.ServiceDescriptor, ver string) {
	ms := unaryMethods(client)
	for i := 0; i < sd.Methods().Len(); i++ {
		md := sd.Methods().Get(i)
		name := string(md.Name())
		if md.IsStreamingClient() || md.IsStreamingServer() {
			continue
		}
		path := ver + ":" + string(sd.Name()) + "." + name
		e.m.elem("src", "client-stub", path)
		reqT, ok := ms[name]
		if !ok {
			e.m.violation("C17:src:"+ver+":client-stub", path+": generated client has no method for the rpc", elemCase{Monitor: "src", Version: ver, Path: path})
			continue
		}
		req := reflect.New(reqT.Elem()).Interface().(proto.Message)
		if req.ProtoReflect().Descriptor() != md.Input() {
			e.m.violation("C17:src:"+ver+":client-stub", path+": client method takes another message than the rpc", elemCase{Monitor: "src", Version: ver, Path: path,
				Want: string(md.Input().FullName()), Got: string(req.ProtoReflect().Descriptor().FullName())})
			continue
		}
		p := &plan{}
		resp, err := e.call(client, name, req, p)
		want := "/" + string(sd.FullName()) + "/" + name
		switch {
		case err != nil:
			e.m.violation("C17:src:"+ver+":client-stub", path+": call through the generated stub failed: "+err.Error(), elemCase{Monitor: "src", Version: ver, Path: path, Want: want})
		case p.method != want:
			e.m.violation("C17:src:"+ver+":client-stub", path+": stub reached another method", elemCase{Monitor: "src", Version: ver, Path: path, Want: want, Got: p.method})
		case resp.ProtoReflect().Descriptor() != md.Output():
			e.m.violation("C17:src:"+ver+":client-stub", path+": stub returns another message than the rpc", elemCase{Monitor: "src", Version: ver, Path: path,
				Want: string(md.Output().FullName()), Got: string(resp.ProtoReflect().Descriptor().FullName())})
		}
	}
}

// ---- generation ----

type coverage struct {
	mu     sync.Mutex
	fields map[string]bool // "<v3 message full name>#<number>" populated in a request or response
	enums  map[string]bool // "<v3 enum full name>#<number>"
	arms   map[string]bool // oneof arms "<v3 message>#<number>"
}

func newCoverage() *coverage {
	return &coverage{fields: map[string]bool{}, enums: map[string]bool{}, arms: map[string]bool{}}
}

type filler struct {
	e       *wireEnv
	rng     *rand.Rand
	all     bool // populate every eligible field
	v3Only  bool // when filling a v3alpha message: only what v3 declares
	isAlpha bool // the message being filled is of the v3alpha package
	enumCtr map[protoreflect.FullName]int
	armCtr  map[protoreflect.FullName]int
	extras  int // v3alpha-only fields populated
	cut     int
}

// v3Name maps a full name of either package to the v3 package.
func (e *wireEnv) v3Name(n protoreflect.FullName) protoreflect.FullName {
	if s := string(n); strings.HasPrefix(s, e.pkgB+".") {
		return protoreflect.FullName(e.pkgA + s[len(e.pkgB):])
	}
	return n
}

// findMessage finds a message of file by full name.
func findMessage(fd protoreflect.FileDescriptor, full protoreflect.FullName) protoreflect.MessageDescriptor {
	pkg := string(fd.Package())
	s := string(full)
	if !strings.HasPrefix(s, pkg+".") {
		return nil
	}
	parts := strings.Split(s[len(pkg)+1:], ".")
	md := fd.Messages().ByName(protoreflect.Name(parts[0]))
	for _, p := range parts[1:] {
		if md == nil {
			return nil
		}
		md = md.Messages().ByName(protoreflect.Name(p))
	}
	return md
}

func findEnum(fd protoreflect.FileDescriptor, full protoreflect.FullName) protoreflect.EnumDescriptor {
	pkg := string(fd.Package())
	s := string(full)
	if !strings.HasPrefix(s, pkg+".") {
		return nil
	}
	rest := s[len(pkg)+1:]
	i := strings.LastIndexByte(rest, '.')
	if i < 0 {
		return fd.Enums().ByName(protoreflect.Name(rest))
	}
	md := findMessage(fd, protoreflect.FullName(pkg+"."+rest[:i]))
	if md == nil {
		return nil
	}
	return md.Enums().ByName(protoreflect.Name(rest[i+1:]))
}

// counterpart returns the v3 descriptor of the message m describes (m itself
// for v3 and for imported messages, nil for a v3alpha-only message).
func (e *wireEnv) counterpart(md protoreflect.MessageDescriptor) protoreflect.MessageDescriptor {
	if md.ParentFile() == e.fileB {
		return findMessage(e.fileA, e.v3Name(md.FullName()))
	}
	return md
}

const maxDepth = 12

func (f *filler) fill(m protoreflect.Message, depth int) {
	md := m.Descriptor()
	v3md := f.e.counterpart(md)
	fields := md.Fields()
	// choose one arm per real oneof, cycling so that every arm is taken
	chosen := map[protoreflect.FieldNumber]bool{}
	for i := 0; i < md.Oneofs().Len(); i++ {
		od := md.Oneofs().Get(i)
		if od.IsSynthetic() {
			continue
		}
		var arms []protoreflect.FieldDescriptor
		for j := 0; j < od.Fields().Len(); j++ {
			if fd := od.Fields().Get(j); f.eligible(fd, v3md) {
				arms = append(arms, fd)
			}
		}
		if len(arms) == 0 {
			continue
		}
		k := f.armCtr[od.FullName()]
		f.armCtr[od.FullName()] = k + 1
		chosen[arms[k%len(arms)].Number()] = true
	}
	for i := 0; i < fields.Len(); i++ {
		fd := fields.Get(i)
		if !f.eligible(fd, v3md) {
			continue
		}
		if od := fd.ContainingOneof(); od != nil && !od.IsSynthetic() {
			if !chosen[fd.Number()] {
				continue
			}
		} else if !f.all && f.rng.Intn(5) == 0 {
			continue
		}
		if (fd.Kind() == protoreflect.MessageKind || fd.Kind() == protoreflect.GroupKind || fd.IsMap()) && depth >= maxDepth {
			f.cut++
			continue
		}
		inV3 := v3md != nil && v3md.Fields().ByNumber(fd.Number()) != nil
		if !inV3 {
			f.extras++
		}
		switch {
		case fd.IsMap():
			mp := m.Mutable(fd).Map()
			for k := 0; k < 2; k++ {
				key := f.scalar(fd.MapKey(), true).MapKey()
				if fd.MapValue().Kind() == protoreflect.MessageKind {
					v := mp.NewValue()
					f.fill(v.Message(), depth+1)
					mp.Set(key, v)
				} else {
					mp.Set(key, f.scalar(fd.MapValue(), false))
				}
			}
		case fd.IsList():
			l := m.Mutable(fd).List()
			n := 2
			if depth < 2 {
				n += f.rng.Intn(2)
			}
			for k := 0; k < n; k++ {
				if fd.Kind() == protoreflect.MessageKind || fd.Kind() == protoreflect.GroupKind {
					v := l.NewElement()
					f.fill(v.Message(), depth+1)
					l.Append(v)
				} else {
					l.Append(f.scalar(fd, f.rng.Intn(8) == 0)) // elements may be zero values
				}
			}
		case fd.Kind() == protoreflect.MessageKind || fd.Kind() == protoreflect.GroupKind:
			f.fill(m.Mutable(fd).Message(), depth+1)
		default:
			m.Set(fd, f.scalar(fd, false))
		}
		if inV3 {
			key := fmt.Sprintf("%s#%d", v3md.FullName(), fd.Number())
			f.e.cov.mu.Lock()
			f.e.cov.fields[key] = true
			if od := fd.ContainingOneof(); od != nil && !od.IsSynthetic() {
				f.e.cov.arms[key] = true
			}
			f.e.cov.mu.Unlock()
		}
	}
}

// eligible says whether a field may be populated in the current stratum.
func (f *filler) eligible(fd protoreflect.FieldDescriptor, v3md protoreflect.MessageDescriptor) bool {
	if !f.v3Only {
		return true
	}
	return v3md != nil && v3md.Fields().ByNumber(fd.Number()) != nil
}

var sampleStrings = []string{"a", "lodash", "@scope/pkg", "org.apache:commons-lang3", "1.2.3-beta.1+build", "github.com/user/repo", "GHSA-xxxx", "naïve", "日本語", "a b\tc\n", "x\u0000y", "{package_key.name}", "/v3/query?x=1&y=2"}

func (f *filler) scalar(fd protoreflect.FieldDescriptor, mayBeZero bool) protoreflect.Value {
	r := f.rng
	nz := func(v int64) int64 {
		if v == 0 && !mayBeZero {
			return 1
		}
		return v
	}
	switch fd.Kind() {
	case protoreflect.BoolKind:
		if mayBeZero {
			return protoreflect.ValueOfBool(r.Intn(2) == 0)
		}
		return protoreflect.ValueOfBool(true)
	case protoreflect.EnumKind:
		ed := fd.Enum()
		vals := ed.Values()
		var nums []protoreflect.EnumNumber
		v3ed := ed
		if ed.ParentFile() == f.e.fileB {
			v3ed = findEnum(f.e.fileA, f.e.v3Name(ed.FullName()))
		}
		for i := 0; i < vals.Len(); i++ {
			n := vals.Get(i).Number()
			if n == 0 && !mayBeZero && vals.Len() > 1 {
				continue
			}
			if f.v3Only && (v3ed == nil || v3ed.Values().ByNumber(n) == nil) {
				continue
			}
			nums = append(nums, n)
		}
		if len(nums) == 0 {
			return protoreflect.ValueOfEnum(0)
		}
		k := f.enumCtr[ed.FullName()]
		f.enumCtr[ed.FullName()] = k + 1
		n := nums[k%len(nums)]
		if v3ed != nil && v3ed.Values().ByNumber(n) != nil {
			f.e.cov.mu.Lock()
			f.e.cov.enums[fmt.Sprintf("%s#%d", v3ed.FullName(), n)] = true
			f.e.cov.mu.Unlock()
		}
		return protoreflect.ValueOfEnum(n)
	case protoreflect.Int32Kind, protoreflect.Sint32Kind, protoreflect.Sfixed32Kind:
		switch r.Intn(6) {
		case 0:
			return protoreflect.ValueOfInt32(math.MinInt32)
		case 1:
			return protoreflect.ValueOfInt32(math.MaxInt32)
		case 2:
			return protoreflect.ValueOfInt32(-1)
		}
		return protoreflect.ValueOfInt32(int32(nz(int64(int32(r.Uint32() >> uint(r.Intn(32)))))))
	case protoreflect.Int64Kind, protoreflect.Sint64Kind, protoreflect.Sfixed64Kind:
		switch r.Intn(6) {
		case 0:
			return protoreflect.ValueOfInt64(math.MinInt64)
		case 1:
			return protoreflect.ValueOfInt64(math.MaxInt64)
		case 2:
			return protoreflect.ValueOfInt64(-1)
		}
		return protoreflect.ValueOfInt64(nz(int64(r.Uint64() >> uint(r.Intn(64)))))
	case protoreflect.Uint32Kind, protoreflect.Fixed32Kind:
		if r.Intn(6) == 0 {
			return protoreflect.ValueOfUint32(math.MaxUint32)
		}
		return protoreflect.ValueOfUint32(uint32(nz(int64(r.Uint32() >> uint(r.Intn(32))))))
	case protoreflect.Uint64Kind, protoreflect.Fixed64Kind:
		if r.Intn(6) == 0 {
			return protoreflect.ValueOfUint64(math.MaxUint64)
		}
		return protoreflect.ValueOfUint64(uint64(nz(int64(r.Uint64() >> uint(1+r.Intn(63))))))
	case protoreflect.FloatKind:
		switch r.Intn(8) {
		case 0:
			return protoreflect.ValueOfFloat32(float32(math.Inf(-1)))
		case 1:
			return protoreflect.ValueOfFloat32(math.MaxFloat32)
		case 2:
			return protoreflect.ValueOfFloat32(math.SmallestNonzeroFloat32)
		}
		return protoreflect.ValueOfFloat32(float32(r.NormFloat64()*10) + 0.25)
	case protoreflect.DoubleKind:
		switch r.Intn(8) {
		case 0:
			return protoreflect.ValueOfFloat64(math.Inf(1))
		case 1:
			return protoreflect.ValueOfFloat64(math.MaxFloat64)
		case 2:
			return protoreflect.ValueOfFloat64(math.SmallestNonzeroFloat64)
		}
		return protoreflect.ValueOfFloat64(r.NormFloat64()*1e6 + 0.125)
	case protoreflect.StringKind:
		if mayBeZero && r.Intn(2) == 0 {
			return protoreflect.ValueOfString("")
		}
		s := sampleStrings[r.Intn(len(sampleStrings))]
		if r.Intn(2) == 0 {
			s += fmt.Sprint(r.Intn(100000))
		}
		return protoreflect.ValueOfString(s)
	case protoreflect.BytesKind:
		if mayBeZero && r.Intn(2) == 0 {
			return protoreflect.ValueOfBytes(nil)
		}
		b := make([]byte, 1+r.Intn(40))
		r.Read(b)
		return protoreflect.ValueOfBytes(b)
	}
	panic("c17: scalar of kind " + fd.Kind().String())
}

// ---- one method ----

func (e *wireEnv) method(client reflect.Value, name string, reqT, respT reflect.Type, n int, sample bool) {
	rng := e.m.r.Rand("wire/" + name)
	enumCtr := map[protoreflect.FullName]int{}
	armCtr := map[protoreflect.FullName]int{}
	for i := 0; i < n; i++ {
		if e.ctx.Err() != nil {
			return
		}
		stratum := "v3-only"
		if i%2 == 1 {
			stratum = "v3alpha-extras"
		}
		all := i < 2 // the first case of each stratum populates everything
		req := reflect.New(reqT.Elem()).Interface().(proto.Message)
		(&filler{e: e, rng: rng, all: all, enumCtr: enumCtr, armCtr: armCtr}).fill(req.ProtoReflect(), 0)
		resp := reflect.New(respT.Elem()).Interface().(proto.Message)
		fr := &filler{e: e, rng: rng, all: all, v3Only: stratum == "v3-only", enumCtr: enumCtr, armCtr: armCtr}
		fr.fill(resp.ProtoReflect(), 0)
		e.m.r.Count("wire:v3alpha_only_fields_populated", int64(fr.extras))
		e.m.r.Count("wire:depth_cut", int64(fr.cut))
		e.exchange(client, name, stratum, req, resp, sample && i < 2)
	}
}

// exchange performs one call and evaluates the oracle.
func (e *wireEnv) exchange(client reflect.Value, name, stratum string, req, resp proto.Message, sample bool) {
	r := e.m.r
	reqDet, err1 := det.Marshal(req)
	respDet, err2 := det.Marshal(resp)
	if err1 != nil || err2 != nil {
		r.Inconclusive(fmt.Sprintf("wire: %s: generated message does not marshal: %v %v", name, err1, err2))
		return
	}
	wc := wireCase{Monitor: "wire", Method: name, Stratum: stratum, ReqHex: hex.EncodeToString(reqDet), RespHex: hex.EncodeToString(respDet)}
	viol := func(kind, what string) {
		wc.ReqText, wc.RespText = clip(text(req), 4000), clip(text(resp), 4000)
		r.Violation("C17:wire:"+name+":"+kind, name+" ("+stratum+"): "+what, wc)
	}
	p := &plan{resp: resp}
	got, err := e.call(client, name, req, p)
	r.Eval(1)
	r.Count("wire:exchanges", 1)
	r.Count("wire:stratum:"+stratum, 1)
	r.Count("wire:method:"+name, 1)
	if err != nil {
		if e.ctx.Err() != nil {
			return // watchdog: reported once by the caller
		}
		viol("call-failed", "a v3 client's call fails on the v3alpha service: "+err.Error())
		return
	}
	if len(reqDet) > 0 && len(respDet) > 0 {
		key := "wire|" + name + "|" + wc.ReqHex + "|" + wc.RespHex
		r.Nontrivial(key)
		h1, h2 := fnv.New64a(), fnv.New64()
		h1.Write([]byte(key))
		h2.Write([]byte(key))
		e.distinctMu.Lock()
		e.distinct[[2]uint64{h1.Sum64(), h2.Sum64()}] = struct{}{}
		e.distinctMu.Unlock()
	}
	r.Count("wire:request_bytes", int64(len(reqDet)))
	r.Count("wire:response_bytes", int64(len(respDet)))

	// (a) what the server saw
	sent := e.cliCodec.take(req)
	if !p.reached || p.gotReq == nil {
		r.Inconclusive("wire: " + name + ": the server interceptor did not see the call")
		return
	}
	if !bytes.Equal(sent, p.gotRaw) {
		r.Inconclusive("wire: " + name + ": transport altered the request bytes")
		return
	}
	if want := "/" + e.pkgB + "." + string(e.fileA.Services().Get(0).Name()) + "/" + name; p.method != want {
		viol("routed", "call reached "+p.method+", expected "+want)
	}
	srvReq := p.gotReq.ProtoReflect()
	if srvReq.Descriptor().ParentFile() != e.fileB {
		r.Inconclusive("wire: " + name + ": the server did not decode into a v3alpha message")
		return
	}
	var diffs []string
	unknownPaths(srvReq, "request", &diffs)
	if len(diffs) > 0 {
		viol("request:unknown-field", "the v3alpha server cannot interpret part of the v3 request: "+strings.Join(clipList(diffs), "; "))
	}
	diffs = nil
	crossDiff(req.ProtoReflect(), srvReq, false, "request", &diffs)
	if len(diffs) > 0 {
		viol("request:value", "the v3alpha server reads other values than the v3 client sent: "+strings.Join(clipList(diffs), "; "))
	} else if again, err := det.Marshal(p.gotReq); err != nil || !bytes.Equal(again, sent) {
		r.Count("wire:bytes_differ_values_equal", 1)
	} else {
		r.Count("wire:request_bytes_identical", 1)
	}

	// (b) what the client got
	cliResp := got.ProtoReflect()
	if cliResp.Descriptor().ParentFile() != e.fileA {
		r.Inconclusive("wire: " + name + ": the client did not decode into a v3 message")
		return
	}
	diffs = nil
	crossDiff(cliResp, resp.ProtoReflect(), true, "response", &diffs)
	if len(diffs) > 0 {
		viol("response:value", "the v3 client reads other values than the v3alpha server sent: "+strings.Join(clipList(diffs), "; "))
		return
	}
	diffs = nil
	unknownDiff(cliResp, resp.ProtoReflect(), "response", &diffs)
	if len(diffs) > 0 {
		viol("response:unknown-field", "unknown fields of the v3 client are not exactly the v3alpha-only fields sent: "+strings.Join(clipList(diffs), "; "))
		return
	}
	if stratum == "v3-only" {
		if n := countUnknown(cliResp); n > 0 {
			viol("response:unknown-field", fmt.Sprintf("%d unknown fields although only v3 fields were sent", n))
			return
		}
	} else {
		r.Count("wire:unknown_fields_seen_by_v3_client", int64(countUnknown(cliResp)))
	}
	// bytes: the v3 view without unknown fields against the v3 projection of
	// what was sent
	proj := proto.Clone(resp)
	project(proj.ProtoReflect(), cliResp.Descriptor())
	view := proto.Clone(got)
	stripUnknown(view.ProtoReflect())
	pb, err1 := det.Marshal(proj)
	vb, err2 := det.Marshal(view)
	if err1 != nil || err2 != nil || !bytes.Equal(pb, vb) {
		r.Count("wire:bytes_differ_values_equal", 1)
	} else {
		r.Count("wire:response_bytes_identical", 1)
	}
	if sample {
		r.Sample(map[string]any{"wire_exchange": map[string]any{
			"method": name, "stratum": stratum,
			"v3_request": clip(text(req), 500), "v3alpha_response_sent": clip(text(resp), 700), "v3_response_seen": clip(text(got), 700),
			"request_bytes": len(reqDet), "response_bytes": len(respDet)}})
	}
}

func clip(s string, n int) string {
	if len(s) > n {
		return s[:n] + fmt.Sprintf("... (%d bytes more)", len(s)-n)
	}
	return s
}

func clipList(l []string) []string {
	if len(l) > 6 {
		return append(l[:6:6], fmt.Sprintf("... %d more", len(l)-6))
	}
	return l
}

// ---- oracles over two descriptor sets ----

func scalarEqual(k protoreflect.Kind, a, b protoreflect.Value) bool {
	switch k {
	case protoreflect.FloatKind:
		return math.Float32bits(float32(a.Float())) == math.Float32bits(float32(b.Float()))
	case protoreflect.DoubleKind:
		return math.Float64bits(a.Float()) == math.Float64bits(b.Float())
	case protoreflect.BytesKind:
		return bytes.Equal(a.Bytes(), b.Bytes())
	case protoreflect.EnumKind:
		return a.Enum() == b.Enum()
	}
	return a.Interface() == b.Interface()
}

func sameShape(fa, fb protoreflect.FieldDescriptor) bool {
	if fa.Kind() != fb.Kind() || fa.IsList() != fb.IsList() || fa.IsMap() != fb.IsMap() {
		return false
	}
	if fa.IsMap() {
		return fa.MapKey().Kind() == fb.MapKey().Kind() && fa.MapValue().Kind() == fb.MapValue().Kind()
	}
	return true
}

// crossDiff compares message a (v3 descriptors) with message b (v3alpha
// descriptors) field number by field number. With extraOK, b may populate
// fields a's descriptor does not have.
func crossDiff(a, b protoreflect.Message, extraOK bool, path string, out *[]string) {
	ad, bd := a.Descriptor(), b.Descriptor()
	for i := 0; i < ad.Fields().Len(); i++ {
		fa := ad.Fields().Get(i)
		fpath := path + "." + string(fa.Name())
		fb := bd.Fields().ByNumber(fa.Number())
		if fb == nil {
			if a.Has(fa) {
				*out = append(*out, fpath+": no field with this number on the other side")
			}
			continue
		}
		if !sameShape(fa, fb) {
			if a.Has(fa) || b.Has(fb) {
				*out = append(*out, fpath+": field has another type on the other side")
			}
			continue
		}
		ha, hb := a.Has(fa), b.Has(fb)
		if ha != hb {
			*out = append(*out, fmt.Sprintf("%s: set=%v on the v3 side, set=%v on the v3alpha side", fpath, ha, hb))
			continue
		}
		if !ha {
			continue
		}
		va, vb := a.Get(fa), b.Get(fb)
		single := func(fa protoreflect.FieldDescriptor, va, vb protoreflect.Value, p string) {
			if fa.Kind() == protoreflect.MessageKind || fa.Kind() == protoreflect.GroupKind {
				crossDiff(va.Message(), vb.Message(), extraOK, p, out)
			} else if !scalarEqual(fa.Kind(), va, vb) {
				*out = append(*out, fmt.Sprintf("%s: %v on the v3 side, %v on the v3alpha side", p, va, vb))
			}
		}
		switch {
		case fa.IsList():
			la, lb := va.List(), vb.List()
			if la.Len() != lb.Len() {
				*out = append(*out, fmt.Sprintf("%s: %d elements on the v3 side, %d on the v3alpha side", fpath, la.Len(), lb.Len()))
				continue
			}
			for k := 0; k < la.Len(); k++ {
				single(fa, la.Get(k), lb.Get(k), fmt.Sprintf("%s[%d]", fpath, k))
			}
		case fa.IsMap():
			ma, mb := va.Map(), vb.Map()
			if ma.Len() != mb.Len() {
				*out = append(*out, fmt.Sprintf("%s: %d entries on the v3 side, %d on the v3alpha side", fpath, ma.Len(), mb.Len()))
				continue
			}
			ma.Range(func(k protoreflect.MapKey, v protoreflect.Value) bool {
				if !mb.Has(k) {
					*out = append(*out, fmt.Sprintf("%s[%v]: key missing on the v3alpha side", fpath, k))
					return true
				}
				single(fa.MapValue(), v, mb.Get(k), fmt.Sprintf("%s[%v]", fpath, k))
				return true
			})
		default:
			single(fa, va, vb, fpath)
		}
	}
	if !extraOK {
		for i := 0; i < bd.Fields().Len(); i++ {
			fb := bd.Fields().Get(i)
			if ad.Fields().ByNumber(fb.Number()) == nil && b.Has(fb) {
				*out = append(*out, fmt.Sprintf("%s.%s: set on the v3alpha side, not part of v3", path, fb.Name()))
			}
		}
	}
}

// eachSub calls f for every populated sub-message of m.
func eachSub(m protoreflect.Message, f func(fd protoreflect.FieldDescriptor, idx string, sub protoreflect.Message)) {
	m.Range(func(fd protoreflect.FieldDescriptor, v protoreflect.Value) bool {
		switch {
		case fd.IsMap():
			if fd.MapValue().Kind() == protoreflect.MessageKind {
				v.Map().Range(func(k protoreflect.MapKey, mv protoreflect.Value) bool {
					f(fd, fmt.Sprintf("[%v]", k), mv.Message())
					return true
				})
			}
		case fd.IsList():
			if fd.Kind() == protoreflect.MessageKind || fd.Kind() == protoreflect.GroupKind {
				for i := 0; i < v.List().Len(); i++ {
					f(fd, fmt.Sprintf("[%d]", i), v.List().Get(i).Message())
				}
			}
		case fd.Kind() == protoreflect.MessageKind || fd.Kind() == protoreflect.GroupKind:
			f(fd, "", v.Message())
		}
		return true
	})
}

func unknownNumbers(b []byte) []int {
	set := map[int]bool{}
	for len(b) > 0 {
		num, typ, n := protowire.ConsumeTag(b)
		if n < 0 {
			set[-1] = true
			break
		}
		b = b[n:]
		n = protowire.ConsumeFieldValue(num, typ, b)
		if n < 0 {
			set[-1] = true
			break
		}
		b = b[n:]
		set[int(num)] = true
	}
	var out []int
	for k := range set {
		out = append(out, k)
	}
	sort.Ints(out)
	return out
}

// unknownPaths lists every place of m that carries unknown fields.
func unknownPaths(m protoreflect.Message, path string, out *[]string) {
	if u := m.GetUnknown(); len(u) > 0 {
		*out = append(*out, fmt.Sprintf("%s: unknown field numbers %v", path, unknownNumbers(u)))
	}
	eachSub(m, func(fd protoreflect.FieldDescriptor, idx string, sub protoreflect.Message) {
		unknownPaths(sub, path+"."+string(fd.Name())+idx, out)
	})
}

func countUnknown(m protoreflect.Message) int {
	n := len(unknownNumbers(m.GetUnknown()))
	eachSub(m, func(_ protoreflect.FieldDescriptor, _ string, sub protoreflect.Message) { n += countUnknown(sub) })
	return n
}

// unknownDiff demands that, at every level, the unknown field numbers of a
// (what the v3 client received) are exactly the populated fields of b (what
// the v3alpha server sent) that a's descriptor does not have. crossDiff has
// already established that the common fields are equal.
func unknownDiff(a, b protoreflect.Message, path string, out *[]string) {
	ad, bd := a.Descriptor(), b.Descriptor()
	var want []int
	for i := 0; i < bd.Fields().Len(); i++ {
		fb := bd.Fields().Get(i)
		if ad.Fields().ByNumber(fb.Number()) == nil && b.Has(fb) {
			want = append(want, int(fb.Number()))
		}
	}
	sort.Ints(want)
	if got := unknownNumbers(a.GetUnknown()); fmt.Sprint(got) != fmt.Sprint(want) {
		*out = append(*out, fmt.Sprintf("%s: unknown numbers %v, v3alpha-only fields sent %v", path, got, want))
	}
	for i := 0; i < ad.Fields().Len(); i++ {
		fa := ad.Fields().Get(i)
		fb := bd.Fields().ByNumber(fa.Number())
		if fb == nil || !sameShape(fa, fb) || !a.Has(fa) || !b.Has(fb) {
			continue
		}
		fpath := path + "." + string(fa.Name())
		va, vb := a.Get(fa), b.Get(fb)
		switch {
		case fa.IsMap():
			if fa.MapValue().Kind() == protoreflect.MessageKind {
				va.Map().Range(func(k protoreflect.MapKey, v protoreflect.Value) bool {
					if vb.Map().Has(k) {
						unknownDiff(v.Message(), vb.Map().Get(k).Message(), fmt.Sprintf("%s[%v]", fpath, k), out)
					}
					return true
				})
			}
		case fa.IsList():
			if fa.Kind() == protoreflect.MessageKind {
				for k := 0; k < va.List().Len() && k < vb.List().Len(); k++ {
					unknownDiff(va.List().Get(k).Message(), vb.List().Get(k).Message(), fmt.Sprintf("%s[%d]", fpath, k), out)
				}
			}
		case fa.Kind() == protoreflect.MessageKind:
			unknownDiff(va.Message(), vb.Message(), fpath, out)
		}
	}
}

// project clears, recursively, every field of m that the v3 descriptor ad does
// not have.
func project(m protoreflect.Message, ad protoreflect.MessageDescriptor) {
	var clear []protoreflect.FieldDescriptor
	m.Range(func(fd protoreflect.FieldDescriptor, v protoreflect.Value) bool {
		fa := ad.Fields().ByNumber(fd.Number())
		if fa == nil || !sameShape(fa, fd) {
			clear = append(clear, fd)
			return true
		}
		switch {
		case fd.IsMap():
			if fd.MapValue().Kind() == protoreflect.MessageKind {
				v.Map().Range(func(_ protoreflect.MapKey, mv protoreflect.Value) bool {
					project(mv.Message(), fa.MapValue().Message())
					return true
				})
			}
		case fd.IsList():
			if fd.Kind() == protoreflect.MessageKind {
				for i := 0; i < v.List().Len(); i++ {
					project(v.List().Get(i).Message(), fa.Message())
				}
			}
		case fd.Kind() == protoreflect.MessageKind:
			project(v.Message(), fa.Message())
		}
		return true
	})
	for _, fd := range clear {
		m.Clear(fd)
	}
}

func stripUnknown(m protoreflect.Message) {
	m.SetUnknown(nil)
	eachSub(m, func(_ protoreflect.FieldDescriptor, _ string, sub protoreflect.Message) { stripUnknown(sub) })
}

// ---- coverage of the v3 surface ----

// coverageVerdict makes the run inconclusive if some field, enum value or
// oneof arm reachable from a v3 rpc was never populated.
func (e *wireEnv) coverageVerdict(sd protoreflect.ServiceDescriptor) {
	fields := map[string]bool{}
	enums := map[string]bool{}
	arms := map[string]bool{}
	seen := map[protoreflect.FullName]bool{}
	var visit func(md protoreflect.MessageDescriptor, depth int)
	visit = func(md protoreflect.MessageDescriptor, depth int) {
		if seen[md.FullName()] || depth > maxDepth {
			return
		}
		seen[md.FullName()] = true
		for i := 0; i < md.Fields().Len(); i++ {
			fd := md.Fields().Get(i)
			key := fmt.Sprintf("%s#%d", md.FullName(), fd.Number())
			fields[key] = true
			if od := fd.ContainingOneof(); od != nil && !od.IsSynthetic() {
				arms[key] = true
			}
			el := fd
			if fd.IsMap() {
				el = fd.MapValue()
			}
			if el.Kind() == protoreflect.EnumKind && el.Enum().ParentFile() == e.fileA {
				for j := 0; j < el.Enum().Values().Len(); j++ {
					v := el.Enum().Values().Get(j)
					if v.Number() != 0 || el.Enum().Values().Len() == 1 || fd.IsList() {
						enums[fmt.Sprintf("%s#%d", el.Enum().FullName(), v.Number())] = true
					}
				}
			}
			if el.Kind() == protoreflect.MessageKind || el.Kind() == protoreflect.GroupKind {
				visit(el.Message(), depth+1)
			}
		}
	}
	for i := 0; i < sd.Methods().Len(); i++ {
		visit(sd.Methods().Get(i).Input(), 0)
		visit(sd.Methods().Get(i).Output(), 0)
	}
	e.cov.mu.Lock()
	defer e.cov.mu.Unlock()
	missing := func(want, got map[string]bool) []string {
		var out []string
		for k := range want {
			if !got[k] {
				out = append(out, k)
			}
		}
		sort.Strings(out)
		return out
	}
	r := e.m.r
	r.Count("wire:v3_fields_reachable", int64(len(fields)))
	r.Count("wire:v3_enum_values_reachable_nonzero", int64(len(enums)))
	r.Count("wire:v3_oneof_arms_reachable", int64(len(arms)))
	hitF, hitE := 0, 0
	for k := range fields {
		if e.cov.fields[k] {
			hitF++
		}
	}
	for k := range enums {
		if e.cov.enums[k] {
			hitE++
		}
	}
	r.Count("wire:v3_fields_populated", int64(hitF))
	r.Count("wire:v3_enum_values_sent", int64(hitE))
	if mf := missing(fields, e.cov.fields); len(mf) > 0 {
		r.Inconclusive(fmt.Sprintf("wire: %d v3 fields reachable from an rpc were never populated, e.g. %v", len(mf), clipList(mf)))
	}
	if me := missing(enums, e.cov.enums); len(me) > 0 {
		r.Inconclusive(fmt.Sprintf("wire: %d v3 enum values were never sent, e.g. %v", len(me), clipList(me)))
	}
	if ma := missing(arms, e.cov.arms); len(ma) > 0 {
		r.Inconclusive(fmt.Sprintf("wire: %d v3 oneof arms were never taken, e.g. %v", len(ma), clipList(ma)))
	}
}

// ---- replay and witnesses ----

func replayWire(m *mon, wc wireCase) {
	e, err := newWireEnv(m)
	if err != nil {
		m.r.Inconclusive("wire: cannot set up the in-process connection: " + err.Error())
		return
	}
	defer e.close()
	replayWire1(e, reflect.ValueOf(v3.NewInsightsClient(e.conn)), wc, "replay")
}

func replayWire1(e *wireEnv, client reflect.Value, wc wireCase, origin string) {
	r := e.m.r
	reqT, ok := unaryMethods(client)[wc.Method]
	respT, ok2 := e.respType[wc.Method]
	if !ok || !ok2 {
		r.Inconclusive(origin + ": wire case names unknown method " + wc.Method)
		return
	}
	req := reflect.New(reqT.Elem()).Interface().(proto.Message)
	resp := reflect.New(respT.Elem()).Interface().(proto.Message)
	load := func(which, hx, txt string, m proto.Message) bool {
		if hx != "" {
			b, err := hex.DecodeString(hx)
			if err == nil {
				err = proto.Unmarshal(b, m)
			}
			if err != nil {
				r.Inconclusive(fmt.Sprintf("%s: %s %s unreadable: %v", origin, wc.Method, which, err))
				return false
			}
			return true
		}
		if err := prototext.Unmarshal([]byte(txt), m); err != nil {
			r.Inconclusive(fmt.Sprintf("%s: %s %s unreadable: %v", origin, wc.Method, which, err))
			return false
		}
		return true
	}
	if !load("request", wc.ReqHex, wc.ReqText, req) || !load("response", wc.RespHex, wc.RespText, resp) {
		return
	}
	stratum := wc.Stratum
	if stratum == "" {
		stratum = "v3alpha-extras"
	}
	e.exchange(client, wc.Method, stratum, req, resp, false)
}
