package c04

import (
	"deps.dev/util/semver"
	"strings"
)

var semverSys = map[string]semver.System{
	"Default": semver.DefaultSystem, "Cargo": semver.Cargo, "Go": semver.Go, "Maven": semver.Maven, "NPM": semver.NPM,
	"NuGet": semver.NuGet, "PyPI": semver.PyPI, "RubyGems": semver.RubyGems, "Composer": semver.Composer,
}

var semverDict = []string{
	"||", " || ", " - ", ">=", "<=", "~>", "~=", "==", "!=", "===", "^", "~", ",", ", ", " ", "*", ".*", ".x", "x", "X", "v", "=", "<", ">",
	"[", "]", "(", ")", "{", "}", ":", "<empty>", "∞", "∞.∞.∞", "-rc.1", "-0", ".0", "+build", ".dev0", ".post1", "rc1", "a1", "!", "1!", "-SNAPSHOT", "_", "-",
}

// parseC obtains a Constraint from text: set syntax when it starts with a
// brace, constraint syntax otherwise.
func parseC(x *runner, sys semver.System, s string) (*semver.Constraint, error) {
	// Not deferred: after a panic curSys must still name the system that was
	// being parsed (a set operation may use another system for its operand).
	old := x.curSys
	x.curSys = sysNames[sys]
	var c *semver.Constraint
	var err error
	if len(s) > 0 && s[0] == '{' {
		x.hit("semver.System.ParseSetConstraint")
		c, err = sys.ParseSetConstraint(s)
	} else {
		x.hit("semver.System.ParseConstraint")
		c, err = sys.ParseConstraint(s)
	}
	x.curSys = old
	return c, err
}

func simpleVersion(sys string) string {
	switch sys {
	case "Go":
		return "v1.2.3"
	}
	return "1.2.3"
}

func simpleConstraint(sys string) string {
	switch sys {
	case "Go":
		return "v1.2.3"
	case "Maven", "NuGet":
		return "[1.0,2.0)"
	case "PyPI":
		return ">=1.0,<2.0"
	case "RubyGems":
		return ">= 1.0, < 2.0"
	case "Composer":
		return "{[1.0.0:2.0.0)}"
	}
	return ">=1.0.0"
}

func bb(ss ...string) [][]byte {
	out := make([][]byte, len(ss))
	for i, s := range ss {
		out[i] = []byte(s)
	}
	return out
}

func init() {
	vsent := func(g *genCtx, sys string) []byte { return []byte(versionSentence(g.r, sys)) }
	csent := func(g *genCtx, sys string) []byte { return []byte(constraintOrSet(g.r, sys)) }
	// vpair: two versions to compare. In half of the draws the second is the
	// first one grown or cut by a trailing segment (1.0+abc / 1.0+abc.1, 1.2 /
	// 1.2.0, rc.1 / rc), respelt in the other case, or the same text: pairs that
	// agree over the whole of the shorter one are where element-wise loops end.
	vpair := func(g *genCtx, sys string) [][]byte {
		a := versionSentence(g.r, sys)
		if g.r.Intn(2) == 0 {
			return [][]byte{[]byte(a), []byte(versionSentence(g.r, sys))}
		}
		b := a
		switch g.r.Intn(7) {
		case 0:
			b = a + "." + []string{"0", "1", "a", "00"}[g.r.Intn(4)]
		case 1:
			if i := strings.LastIndexAny(a, ".-_"); i > 0 {
				b = a[:i]
			}
		case 2:
			if strings.Contains(a, "+") {
				b = a + "." + []string{"1", "abc", "0"}[g.r.Intn(3)]
			} else {
				b = a + "+" + []string{"abc", "abc.1", "1", "1.a.2"}[g.r.Intn(4)]
				a += "+" + []string{"abc", "abc.1", "1"}[g.r.Intn(3)]
			}
		case 3:
			b = strings.ToUpper(a)
		case 4:
			if i := strings.IndexAny(a, "+-"); i > 0 {
				b = a[:i]
			}
		case 5:
			b = a + []string{"-rc", "-rc.1", ".post1", ".dev0", "-SNAPSHOT", "-1"}[g.r.Intn(6)]
		}
		if g.r.Intn(2) == 0 {
			a, b = b, a
		}
		return [][]byte{[]byte(a), []byte(b)}
	}
	// splice: a sentence of another system's grammar (version, constraint or set).
	splice := func(g *genCtx, sys string, k int) []byte {
		o := otherSys(g.r, sys)
		switch g.r.Intn(3) {
		case 0:
			return []byte(versionSentence(g.r, o))
		case 1:
			return []byte(constraintSentence(g.r, o))
		}
		return []byte(setSentence(g.r, o))
	}
	v1 := func(sys string) [][]byte { return bb(simpleVersion(sys)) }
	v2 := func(sys string) [][]byte { return bb(simpleVersion(sys), simpleVersion(sys)) }
	c1 := func(sys string) [][]byte { return bb(simpleConstraint(sys)) }
	cv := func(sys string) [][]byte { return bb(simpleConstraint(sys), simpleVersion(sys)) }
	cc := func(sys string) [][]byte { return bb(simpleConstraint(sys), simpleConstraint(sys)) }

	register(&driver{
		name: "semver.Parse", systems: sysNames, apis: []string{"semver.System.Parse"},
		valid:  func(g *genCtx, sys string) [][]byte { return [][]byte{vsent(g, sys)} },
		splice: splice, dict: semverDict, simple: v1, longParts: []int{0}, weight: 2,
		run: func(x *runner, sys string, in []byte) string {
			x.hit("semver.System.Parse")
			_, err := semverSys[sys].Parse(string(in))
			return retErr(err)
		},
	})
	register(&driver{
		name: "semver.ParseConstraint", systems: sysNames, apis: []string{"semver.System.ParseConstraint"},
		valid:  func(g *genCtx, sys string) [][]byte { return [][]byte{[]byte(constraintSentence(g.r, sys))} },
		splice: splice, dict: semverDict, simple: c1, longParts: []int{0}, weight: 3,
		run: func(x *runner, sys string, in []byte) string {
			x.hit("semver.System.ParseConstraint")
			_, err := semverSys[sys].ParseConstraint(string(in))
			return retErr(err)
		},
	})
	register(&driver{
		name: "semver.ParseSetConstraint", systems: sysNames, apis: []string{"semver.System.ParseSetConstraint"},
		valid:  func(g *genCtx, sys string) [][]byte { return [][]byte{[]byte(setSentence(g.r, sys))} },
		splice: splice, dict: semverDict, simple: func(sys string) [][]byte { return bb("{[" + simpleVersion(sys) + ":" + simpleVersion(sys) + "]}") },
		longParts: []int{0}, weight: 2,
		run: func(x *runner, sys string, in []byte) string {
			x.hit("semver.System.ParseSetConstraint")
			_, err := semverSys[sys].ParseSetConstraint(string(in))
			return retErr(err)
		},
	})
	register(&driver{
		name: "semver.Compare", systems: sysNames, apis: []string{"semver.System.Compare"},
		valid:  vpair,
		splice: splice, dict: semverDict, simple: v2, longParts: []int{0, 1},
		run: func(x *runner, sys string, in []byte) string {
			p := splitN(in, 2)
			x.hit("semver.System.Compare")
			semverSys[sys].Compare(string(p[0]), string(p[1]))
			return "value"
		},
	})
	register(&driver{
		name: "semver.Difference", systems: sysNames, apis: []string{"semver.System.Difference", "semver.Diff.String"},
		valid:  vpair,
		splice: splice, dict: semverDict, simple: v2, longParts: []int{0, 1},
		run: func(x *runner, sys string, in []byte) string {
			p := splitN(in, 2)
			x.hit("semver.System.Difference")
			_, d, err := semverSys[sys].Difference(string(p[0]), string(p[1]))
			x.hit("semver.Diff.String")
			_ = d.String()
			return retErr(err)
		},
	})
	register(&driver{
		name: "semver.Version.methods", systems: sysNames,
		apis: []string{"semver.Version.Canon", "semver.Version.String", "semver.Version.IsPrerelease", "semver.Version.IsBuild", "semver.Version.IsWildcard",
			"semver.Version.Major", "semver.Version.Prerelease", "semver.Version.Epoch", "semver.System.MinVersion"},
		valid:  func(g *genCtx, sys string) [][]byte { return [][]byte{vsent(g, sys)} },
		splice: splice, dict: semverDict, simple: v1, longParts: []int{0}, weight: 2,
		run: func(x *runner, sys string, in []byte) string {
			s := semverSys[sys]
			x.hit("semver.System.Parse")
			v, err := s.Parse(string(in))
			if err != nil {
				return "skip"
			}
			x.hit("semver.Version.Canon")
			c1 := v.Canon(true)
			_ = v.Canon(false)
			x.hit("semver.Version.String")
			_ = v.String()
			x.hit("semver.Version.IsPrerelease")
			v.IsPrerelease()
			x.hit("semver.Version.IsBuild")
			v.IsBuild()
			x.hit("semver.Version.IsWildcard")
			v.IsWildcard()
			x.hit("semver.Version.Major")
			v.Major()
			x.hit("semver.Version.Prerelease")
			_ = v.Prerelease()
			x.hit("semver.Version.Epoch")
			v.Epoch()
			x.hit("semver.System.MinVersion")
			if m := s.MinVersion(v); m != nil {
				_ = m.Canon(true)
			}
			// The canonical text is text from outside for the next caller.
			x.hit("semver.System.Parse")
			if _, err := s.Parse(c1); err != nil {
				return "value:canon-unparsable"
			}
			return "value"
		},
	})
	register(&driver{
		name: "semver.Version.Compare", systems: sysNames, apis: []string{"semver.Version.Compare", "semver.Version.Difference"},
		valid:  vpair,
		splice: splice, dict: semverDict, simple: v2, longParts: []int{0}, weight: 3,
		run: func(x *runner, sys string, in []byte) string {
			s := semverSys[sys]
			p := splitN(in, 2)
			x.hit("semver.System.Parse")
			a, err := s.Parse(string(p[0]))
			if err != nil {
				return "skip"
			}
			x.hit("semver.System.Parse")
			b, err := s.Parse(string(p[1]))
			if err != nil {
				return "skip"
			}
			x.hit("semver.Version.Compare")
			a.Compare(b)
			b.Compare(a)
			x.hit("semver.Version.Difference")
			_, d := a.Difference(b)
			_ = d.String()
			return "value"
		},
	})
	register(&driver{
		name: "semver.Constraint.Match", systems: sysNames, apis: []string{"semver.Constraint.Match", "semver.Set.Match"},
		valid: func(g *genCtx, sys string) [][]byte { return [][]byte{csent(g, sys), vsent(g, sys)} }, keep: 1,
		splice: splice, dict: semverDict, simple: cv, longParts: []int{0, 1}, weight: 3,
		run: func(x *runner, sys string, in []byte) string {
			p := splitN(in, 2)
			c, err := parseC(x, semverSys[sys], string(p[0]))
			if err != nil {
				return "skip"
			}
			x.hit("semver.Constraint.Match")
			m := c.Match(string(p[1]))
			x.hit("semver.Constraint.Set")
			set := c.Set()
			x.hit("semver.Set.Match")
			_, err = set.Match(string(p[1]))
			if err != nil {
				return retErr(err)
			}
			if m {
				return "value:true"
			}
			return "value:false"
		},
	})
	register(&driver{
		name: "semver.Constraint.MatchVersion", systems: sysNames,
		apis:  []string{"semver.Constraint.MatchVersion", "semver.Constraint.MatchVersionPrerelease", "semver.Set.MatchVersion"},
		valid: func(g *genCtx, sys string) [][]byte { return [][]byte{csent(g, sys), vsent(g, sys)} }, keep: 1,
		splice: splice, dict: semverDict, simple: cv, longParts: []int{0}, weight: 5,
		run: func(x *runner, sys string, in []byte) string {
			s := semverSys[sys]
			p := splitN(in, 2)
			c, err := parseC(x, s, string(p[0]))
			if err != nil {
				return "skip"
			}
			x.hit("semver.System.Parse")
			v, err := s.Parse(string(p[1]))
			if err != nil {
				return "skip"
			}
			x.hit("semver.Constraint.MatchVersion")
			m := c.MatchVersion(v)
			x.hit("semver.Constraint.MatchVersionPrerelease")
			c.MatchVersionPrerelease(v)
			x.hit("semver.Constraint.Set")
			set := c.Set()
			x.hit("semver.Set.MatchVersion")
			set.MatchVersion(v)
			if m {
				return "value:true"
			}
			return "value:false"
		},
	})
	register(&driver{
		name: "semver.Constraint.methods", systems: sysNames,
		apis: []string{"semver.Constraint.String", "semver.Constraint.IsSimple", "semver.Constraint.HasPrerelease", "semver.Constraint.Set",
			"semver.Set.String", "semver.Set.Empty"},
		valid:  func(g *genCtx, sys string) [][]byte { return [][]byte{csent(g, sys)} },
		splice: splice, dict: semverDict, simple: c1, longParts: []int{0}, weight: 3,
		run: func(x *runner, sys string, in []byte) string {
			s := semverSys[sys]
			c, err := parseC(x, s, string(in))
			if err != nil {
				return "skip"
			}
			x.hit("semver.Constraint.String")
			_ = c.String()
			x.hit("semver.Constraint.IsSimple")
			c.IsSimple()
			x.hit("semver.Constraint.HasPrerelease")
			c.HasPrerelease()
			x.hit("semver.Constraint.Set")
			set := c.Set()
			x.hit("semver.Set.String")
			txt := set.String()
			x.hit("semver.Set.Empty")
			set.Empty()
			// The printed set is text for ParseSetConstraint.
			x.hit("semver.System.ParseSetConstraint")
			if _, err := s.ParseSetConstraint(txt); err != nil {
				return "value:set-text-unparsable"
			}
			return "value"
		},
	})
	setOp := func(name, api string, op func(a *semver.Set, b semver.Set) error) {
		register(&driver{
			name: name, systems: sysNames, apis: []string{api},
			valid: func(g *genCtx, sys string) [][]byte {
				o := sys
				if g.r.Intn(12) == 0 {
					o = otherSys(g.r, sys)
				}
				return [][]byte{csent(g, sys), csent(g, o), []byte(o)}
			}, keep: 2,
			splice: splice, dict: semverDict,
			simple: func(sys string) [][]byte { return append(cc(sys), []byte(sys)) }, longParts: []int{0}, weight: 4,
			run: func(x *runner, sys string, in []byte) string {
				p := splitN(in, 3)
				a, err := parseC(x, semverSys[sys], string(p[0]))
				if err != nil {
					return "skip"
				}
				sys2, ok := semverSys[string(p[2])]
				if !ok {
					sys2 = semverSys[sys]
				}
				b, err := parseC(x, sys2, string(p[1]))
				if err != nil {
					return "skip"
				}
				x.hit("semver.Constraint.Set")
				sa, sb := a.Set(), b.Set()
				x.hit(api)
				err = op(&sa, sb)
				x.hit("semver.Set.String")
				_ = sa.String()
				x.hit("semver.Set.Empty")
				sa.Empty()
				x.hit("semver.Set.Match")
				sa.Match(simpleVersion(sys))
				return retErr(err)
			},
		})
	}
	setOp("semver.Set.Union", "semver.Set.Union", func(a *semver.Set, b semver.Set) error { return a.Union(b) })
	setOp("semver.Set.Intersect", "semver.Set.Intersect", func(a *semver.Set, b semver.Set) error { return a.Intersect(b) })
}
