package c18

import (
	"context"
	"errors"
	"fmt"
	"sort"
	"strings"

	"deps.dev/util/resolve"
	"deps.dev/util/resolve/dep"
	"deps.dev/util/resolve/version"
	"verif/harness/uni"
)

// canonical text of client results (independent of the library's String
// methods and of map iteration order)

var depKeys = []struct {
	k dep.AttrKey
	n string
}{{dep.XTest, "xtest"}, {dep.Framework, "framework"}, {dep.Scope, "scope"}, {dep.MavenClassifier, "classifier"}, {dep.MavenArtifactType, "arttype"},
	{dep.MavenDependencyOrigin, "origin"}, {dep.EnabledDependencies, "enabled"}, {dep.KnownAs, "knownas"}, {dep.MavenExclusions, "exclusions"},
	{dep.Environment, "environment"}, {dep.Selector, "selector"}}

func typeStr(t dep.Type) string {
	var s []string
	for _, f := range []struct {
		k dep.AttrKey
		n string
	}{{dep.Dev, "dev"}, {dep.Opt, "opt"}, {dep.Test, "test"}} {
		if t.HasAttr(f.k) {
			s = append(s, f.n)
		}
	}
	for _, f := range depKeys {
		if v, ok := t.GetAttr(f.k); ok {
			s = append(s, fmt.Sprintf("%s=%q", f.n, v))
		}
	}
	if len(s) == 0 {
		return "regular"
	}
	return strings.Join(s, ",")
}

func vkStr(k resolve.VersionKey) string {
	t := "?"
	switch k.VersionType {
	case resolve.Concrete:
		t = "concrete"
	case resolve.Requirement:
		t = "requirement"
	}
	return fmt.Sprintf("%s %q %s %q", k.System, k.Name, t, k.Version)
}

func verStr(v resolve.Version) string {
	var s []string
	v.ForEachAttr(func(k version.AttrKey, val string) { s = append(s, fmt.Sprintf("%s=%q", k, val)) })
	for _, f := range []version.AttrKey{version.Blocked, version.Deleted, version.Error} {
		if v.HasAttr(f) {
			s = append(s, f.String())
		}
	}
	sort.Strings(s)
	return vkStr(v.VersionKey) + " {" + strings.Join(s, ",") + "}"
}

func versStr(vs []resolve.Version) string {
	s := make([]string, len(vs))
	for i, v := range vs {
		s[i] = verStr(v)
	}
	return "[" + strings.Join(s, "; ") + "]"
}

func reqStr(q resolve.RequirementVersion) string {
	return vkStr(q.VersionKey) + " (" + typeStr(q.Type) + ")"
}

func reqsStr(rs []resolve.RequirementVersion, sorted bool) string {
	s := make([]string, len(rs))
	for i, q := range rs {
		s[i] = reqStr(q)
	}
	if sorted {
		sort.Strings(s)
	}
	return "[" + strings.Join(s, "; ") + "]"
}

func modelReqs(u *uni.Universe, rs []uni.Req) []resolve.RequirementVersion {
	out := make([]resolve.RequirementVersion, len(rs))
	for i, q := range rs {
		out[i] = resolve.RequirementVersion{VersionKey: u.VK(q.Name, q.Req, resolve.Requirement), Type: q.Type()}
	}
	return out
}

// finding is one failed clause of the invariants.
type finding struct {
	class string // suffix after "C18:inv:"
	what  string
}

func npmVK(name, v string, t resolve.VersionType) resolve.VersionKey {
	return resolve.VersionKey{PackageKey: resolve.PackageKey{System: resolve.NPM, Name: name}, VersionType: t, Version: v}
}

// multisetDiff compares the requirements a client returned with the model's,
// as multisets.
func multisetDiff(got, want []resolve.RequirementVersion) (missing, extra []resolve.RequirementVersion) {
	cnt := map[string]int{}
	for _, q := range got {
		cnt[reqStr(q)]++
	}
	for _, q := range want {
		if cnt[reqStr(q)] > 0 {
			cnt[reqStr(q)]--
		} else {
			missing = append(missing, q)
		}
	}
	cnt2 := map[string]int{}
	for _, q := range want {
		cnt2[reqStr(q)]++
	}
	for _, q := range got {
		if cnt2[reqStr(q)] > 0 {
			cnt2[reqStr(q)]--
		} else {
			extra = append(extra, q)
		}
	}
	return
}

// checkRequirements judges one Requirements answer against the model's list for
// that version: clause (b) (aliases) and the declared sections.
func checkRequirements(who string, got []resolve.RequirementVersion, want []resolve.RequirementVersion, add func(class, f string, a ...any)) {
	missing, extra := multisetDiff(got, want)
	for _, q := range missing {
		class := "requirements:missing"
		if a, ok := q.Type.GetAttr(dep.KnownAs); ok {
			class = "alias"
			if strings.HasPrefix(q.Name, "@") {
				class = "alias:scoped"
			}
			add(class, "%s: the entry %q: \"npm:%s@%s\" must be a requirement on %q with text %q known as %q; Requirements has no such element (it has %s)", who, a, q.Name, q.Version, q.Name, q.Version, a, reqsStr(extra, true))
			continue
		}
		if strings.Contains(q.Name, ">") {
			class = "bundle:parent-requirement"
		}
		add(class, "%s: Requirements lacks %s (unexpected elements: %s)", who, reqStr(q), reqsStr(extra, true))
	}
	if len(missing) == 0 {
		for _, q := range extra {
			add("requirements:extra", "%s: Requirements has %s, which no declaration explains", who, reqStr(q))
		}
	}
}

// invStats are the features a registry's invariant run exercised.
type invStats struct {
	parents, bundles, depth2, depth3, aliases, scopedAliases, atInName, aliasedDirs, notFoundBefore int
	plainVersions, withRegistries, heldRechecked                                                    int
}

// checkInvariants runs clauses (a) and (b) of the property on a fresh client:
// parents are visited in the given order; after each parent's Requirements
// its bundle tree is examined, and at the end every tree once more (by then
// every other parent's bundles are stored as well).
func checkInvariants(c resolve.Client, reg *Registry, order [][2]string) ([]finding, invStats) {
	ctx := context.Background()
	u := Encode(reg)
	var out []finding
	var st invStats
	add := func(class, f string, a ...any) {
		if len(out) < 20 {
			out = append(out, finding{class, fmt.Sprintf(f, a...)})
		}
	}
	tree := func(name string, v *Ver, first bool) {
		walkBundles(v.Bundled, nil, func(b *Bundle, path []string) {
			m := Mangle(name, v.Version, path)
			who := fmt.Sprintf("bundled %s@%s at %s of %s@%s (package %q)", b.Name, b.Version, "node_modules/"+strings.Join(path, "/node_modules/"), name, v.Version, m)
			mv := u.Find(m, b.Version)
			if mv == nil {
				add("model", "%s: the model has no such version", who)
				return
			}
			if first {
				st.bundles++
				switch {
				case len(path) == 2:
					st.depth2++
				case len(path) >= 3:
					st.depth3++
				}
				if b.Dir != b.Name {
					st.aliasedDirs++
				}
			}
			conc := npmVK(m, b.Version, resolve.Concrete)
			wantAttr := func(call string, got resolve.Version) {
				if got.VersionKey != conc {
					add("bundle:"+call+":key", "%s: %s returns the version %s, want %s", who, call, vkStr(got.VersionKey), vkStr(conc))
				}
				if d, ok := got.GetAttr(version.DerivedFrom); !ok || d != b.Name {
					add("bundle:"+call+":derived-from", "%s: %s returns a version with DerivedFrom=%q (set=%v), want %q", who, call, d, ok, b.Name)
				}
			}
			// Versions: exactly one concrete version.
			vs, err := c.Versions(ctx, conc.PackageKey)
			var one string
			switch {
			case err != nil:
				add("bundle:Versions:error", "%s: Versions fails after the holder's Requirements: %v", who, err)
			case len(vs) != 1:
				add("bundle:Versions:count", "%s: Versions returns %d versions, want exactly one: %s", who, len(vs), versStr(vs))
			default:
				wantAttr("Versions", vs[0])
				one = verStr(vs[0])
			}
			// Version.
			gv, err := c.Version(ctx, conc)
			if err != nil {
				add("bundle:Version:error", "%s: Version(%s) fails: %v", who, vkStr(conc), err)
			} else {
				wantAttr("Version", gv)
				if one != "" && verStr(gv) != one {
					add("bundle:agree", "%s: Version returns %s, Versions returned %s", who, verStr(gv), one)
				}
			}
			// The holder requires it with a regular requirement of exactly that version.
			req := npmVK(m, b.Version, resolve.Requirement)
			holder := npmVK(name, v.Version, resolve.Concrete)
			if len(path) > 1 {
				hb := findBundle(v.Bundled, path[:len(path)-1])
				holder = npmVK(Mangle(name, v.Version, path[:len(path)-1]), hb.Version, resolve.Concrete)
			}
			hreqs, err := c.Requirements(ctx, holder)
			if err != nil {
				add("bundle:holder-requirements:error", "%s: Requirements(%s) of its holder fails: %v", who, vkStr(holder), err)
			} else {
				n := 0
				for _, q := range hreqs {
					if q.VersionKey == req && q.Type.IsRegular() && typeStr(q.Type) == "regular" {
						n++
					}
				}
				if n != 1 {
					add("bundle:parent-requirement", "%s: its holder %s has %d regular requirements %s, want one; it has %s", who, vkStr(holder), n, vkStr(req), reqsStr(hreqs, false))
				}
			}
			// MatchingVersions of that requirement: exactly that version.
			ms, err := c.MatchingVersions(ctx, req)
			switch {
			case err != nil:
				add("bundle:MatchingVersions:error", "%s: MatchingVersions(%s) fails: %v", who, vkStr(req), err)
			case len(ms) != 1:
				add("bundle:MatchingVersions:count", "%s: MatchingVersions(%s) returns %s, want exactly the bundled version", who, vkStr(req), versStr(ms))
			default:
				wantAttr("MatchingVersions", ms[0])
				if one != "" && verStr(ms[0]) != one {
					add("bundle:agree", "%s: MatchingVersions returns %s, Versions returned %s", who, verStr(ms[0]), one)
				}
			}
			// Its own requirements: the bundled package.json plus what sits in its node_modules.
			rs, err := c.Requirements(ctx, conc)
			if err != nil {
				add("bundle:Requirements:error", "%s: Requirements(%s) fails: %v", who, vkStr(conc), err)
			} else {
				checkRequirements(who, rs, modelReqs(u, mv.Reqs), func(class, f string, a ...any) {
					if class == "bundle:parent-requirement" {
						class = "bundle:nested-requirement"
					}
					add(class, f, a...)
				})
			}
			// The package has that one version only: asking for another one finds nothing.
			other := npmVK(m, otherVersion, resolve.Concrete)
			if ov, err := c.Version(ctx, other); err == nil {
				add("bundle:Version:other-version-found", "%s: Version(%s) — a version the package does not have (Versions lists only %q) — succeeds and returns %s", who, vkStr(other), b.Version, verStr(ov))
			}
			if ors, err := c.Requirements(ctx, other); err == nil {
				add("bundle:Requirements:other-version-found", "%s: Requirements(%s) — a version the package does not have (Versions lists only %q) — succeeds and returns %d requirements", who, vkStr(other), b.Version, len(ors))
			}
		})
	}
	countAliases := func(d Deps) {
		for _, s := range d.sections() {
			for _, x := range *s {
				if x.Real == "" {
					continue
				}
				st.aliases++
				if strings.HasPrefix(x.Real, "@") || strings.HasPrefix(x.Name, "@") {
					st.scopedAliases++
				}
				if strings.Contains(strings.TrimPrefix(x.Real, "@"), "@") {
					st.atInName++
				}
			}
		}
	}
	// Answers about plain registry versions are kept and read again at the end:
	// what the client said about one version must not change because it was
	// later asked about another one.
	type heldVersion struct {
		what string
		v    []resolve.Version
		was  string
	}
	var held []heldVersion
	plain := func(k [2]string, v *Ver) {
		vk := npmVK(k[0], k[1], resolve.Concrete)
		who := fmt.Sprintf("%s@%s", k[0], k[1])
		gv, err := c.Version(ctx, vk)
		if err != nil {
			add("plain:Version:error", "%s: Version fails: %v", who, err)
			return
		}
		st.plainVersions++
		wantRegs := strings.Join(registriesFor(k[0], k[1]), "|")
		if got, _ := gv.GetAttr(version.Registries); got != wantRegs {
			add("plain:Version:registries", "%s: Version reports registries %q, the service says %q", who, got, wantRegs)
		}
		if wantRegs != "" {
			st.withRegistries++
		}
		tags, _ := gv.GetAttr(version.Tags)
		if (tags == "latest") != v.Default {
			add("plain:Version:latest", "%s: Version reports tags %q, the service says default=%v", who, tags, v.Default)
		}
		held = append(held, heldVersion{"Version(" + who + ")", []resolve.Version{gv}, versStr([]resolve.Version{gv})})
		if vs, err := c.Versions(ctx, vk.PackageKey); err == nil {
			held = append(held, heldVersion{"Versions(" + k[0] + ")", vs, versStr(vs)})
		}
		if ms, err := c.MatchingVersions(ctx, npmVK(k[0], "*", resolve.Requirement)); err == nil {
			held = append(held, heldVersion{"MatchingVersions(" + k[0] + "@*)", ms, versStr(ms)})
		}
	}
	recheckHeld := func() {
		for _, h := range held {
			st.heldRechecked++
			if now := versStr(h.v); now != h.was {
				add("plain:earlier-answer-changed", "%s answered %s when asked and reads %s after the later calls", h.what, h.was, now)
			}
		}
	}
	for _, k := range order {
		v := reg.ver(k[0], k[1])
		if v == nil {
			continue
		}
		plain(k, v)
		// Before the holder's Requirements the bundled names are documented to
		// be inaccessible; observed, not demanded.
		if len(v.Bundled) > 0 {
			if _, err := c.Versions(ctx, npmVK(Mangle(k[0], k[1], []string{v.Bundled[0].Dir}), "", resolve.Concrete).PackageKey); errors.Is(err, resolve.ErrNotFound) {
				st.notFoundBefore++
			}
		}
		vk := npmVK(k[0], k[1], resolve.Concrete)
		rs, err := c.Requirements(ctx, vk)
		if err != nil {
			add("requirements:error", "Requirements(%s) fails: %v", vkStr(vk), err)
			continue
		}
		st.parents++
		countAliases(v.Deps)
		walkBundles(v.Bundled, nil, func(b *Bundle, _ []string) { countAliases(b.Deps) })
		checkRequirements(fmt.Sprintf("%s@%s", k[0], k[1]), rs, modelReqs(u, u.Find(k[0], k[1]).Reqs), add)
		tree(k[0], v, true)
	}
	for _, k := range order {
		if v := reg.ver(k[0], k[1]); v != nil && len(v.Bundled) > 0 {
			tree(k[0], v, false)
		}
	}
	recheckHeld()
	return out, st
}

func findBundle(bs []*Bundle, path []string) *Bundle {
	for _, b := range bs {
		if b.Dir == path[0] {
			if len(path) == 1 {
				return b
			}
			return findBundle(b.Nested, path[1:])
		}
	}
	return nil
}
