package main

import (
	"os"

	"verif/harness/ev"
	"verif/harness/mon/c06"
)

func main() {
	r := ev.New("C06")
	replay := ""
	for i := 1; i < len(os.Args); i++ {
		switch os.Args[i] {
		case "quick", "thorough":
			r.Tier = os.Args[i]
		case "--replay":
			replay = os.Args[i+1]
			i++
		}
	}
	c06.Run(r, replay)
	r.Finish()
}
