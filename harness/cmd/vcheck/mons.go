package main

import (
	"verif/harness/mon/c03"
	"verif/harness/mon/c04"
	"verif/harness/mon/c05"
	"verif/harness/mon/c06"
	"verif/harness/mon/c07"
	"verif/harness/mon/c08"
	"verif/harness/mon/c09"
	"verif/harness/mon/c10"
	"verif/harness/mon/c11"
	"verif/harness/mon/c12"
	"verif/harness/mon/c13"
	"verif/harness/mon/c14"
	"verif/harness/mon/c15"
	"verif/harness/mon/c16"
	"verif/harness/mon/c17"
	"verif/harness/mon/c18"
	"verif/harness/mon/c19"
)

func init() {
	register("C03", c03.Run)
	register("C04", c04.Run)
	children["c04"] = c04.Child
	register("C05", c05.Run)
	register("C06", c06.Run)
	register("C07", c07.Run)
	register("C08", c08.Run)
	register("C09", c09.Run)
	register("C10", c10.Run)
	register("C11", c11.Run)
	register("C12", c12.Run)
	register("C13", c13.Run)
	register("C14", c14.Run)
	register("C15", c15.Run)
	register("C16", c16.Run)
	register("C17", c17.Run)
	register("C18", c18.Run)
	register("C19", c19.Run)
}
