// Rust semver crate reference adapter. TSV lines on stdin, one answer per line.
use semver::{Version, VersionReq};
use std::io::{self, BufRead, Write};
fn main() {
    let stdin = io::stdin();
    let out = io::stdout();
    let mut w = io::BufWriter::new(out.lock());
    for line in stdin.lock().lines() {
        let line = line.unwrap();
        if line.is_empty() { continue; }
        let p: Vec<&str> = line.split('\t').collect();
        match p[0] {
            "ver" => writeln!(w, "semver 1.0.28").unwrap(),
            "cmp" => match (Version::parse(p[1]), Version::parse(p[2])) {
                (Ok(a), Ok(b)) => writeln!(w, "{}", a.cmp_precedence(&b) as i32).unwrap(),
                _ => writeln!(w, "E").unwrap(),
            },
            "valid" => match Version::parse(p[1]) {
                Ok(v) => writeln!(w, "{}", v).unwrap(),
                _ => writeln!(w, "E").unwrap(),
            },
            "sat" => match VersionReq::parse(p[1]) {
                Ok(r) => match Version::parse(p[2]) {
                    Ok(v) => writeln!(w, "{}", if r.matches(&v) { 1 } else { 0 }).unwrap(),
                    _ => writeln!(w, "EV").unwrap(),
                },
                _ => writeln!(w, "ER").unwrap(),
            },
            "range" => match VersionReq::parse(p[1]) {
                Ok(r) => writeln!(w, "{}", r).unwrap(),
                _ => writeln!(w, "E").unwrap(),
            },
            _ => writeln!(w, "?").unwrap(),
        }
    }
}
