// dev17 runs the C17 monitor on its own (./check dev 17 quick).
package main

import (
	"os"

	"verif/harness/ev"
	"verif/harness/mon/c17"
)

func main() {
	r := ev.New("C17")
	replay := ""
	for i := 1; i < len(os.Args); i++ {
		switch os.Args[i] {
		case "quick", "thorough":
			r.Tier = os.Args[i]
		case "--replay":
			if i+1 < len(os.Args) {
				replay = os.Args[i+1]
				i++
			}
		}
	}
	c17.Run(r, replay)
	r.Finish()
}
