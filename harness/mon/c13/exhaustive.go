package c13

import (
	"fmt"
	"math/big"
	"sort"
	"strings"
	"sync"

	"verif/harness/ev"
)

// The enumerated spaces. One element is a rooted graph description:
//
//	nodes    0..n-1, node 0 the root, each labelled a@1 or a@2 (2^n labellings);
//	edges    a set of k distinct ordered pairs (from, to) in n x n, self loops
//	         included, KMin <= k <= KMax, listed in ascending (from, to) order,
//	         every one with requirement "x" and the regular type;
//	parallel nothing, or one extra edge appended to the list that is parallel
//	         to the j-th edge of the set (j < k) and is either (requirement
//	         "x", type dev) or (requirement "y", regular type): 1 + 2k options;
//	errors   nothing, or one node i carrying the error list [f@^1 "m"], or one
//	         node i carrying the list [f@^1 "m", e@^1 "m"]: 1 + 2n options.
//
// P(n,KMin..KMax) takes the full product of the parallel and error options:
//
//	|P| = 2^n * (1+2n) * sum_{k=KMin..min(KMax,n^2)} C(n^2,k) * (1+2k).
//
// A(n,KMin..KMax) takes at most one of the two options (a parallel edge or
// node errors, not both):
//
//	|A| = 2^n * sum_{k=KMin..min(KMax,n^2)} C(n^2,k) * (1+2k+2n).
//
// Every element G is canonicalised as listed, and relabel(G) is canonicalised
// for ALL (n-1)! permutations of the non-root node ids (identity included),
// each with the edge list and every error list reversed.
type spaceDef struct {
	N, KMin, KMax int
	Additive      bool
}

func (sd spaceDef) String() string {
	f := "P"
	if sd.Additive {
		f = "A"
	}
	return fmt.Sprintf("%s(n=%d,k=%d..%d)", f, sd.N, sd.KMin, sd.KMax)
}

// size computes the number of elements from the closed formula
// (independently of the enumeration, which counts what it visits).
func (sd spaceDef) size() int64 {
	p := int64(sd.N * sd.N)
	n := int64(sd.N)
	sum := big.NewInt(0)
	for k := int64(sd.KMin); k <= int64(sd.KMax) && k <= p; k++ {
		t := new(big.Int).Binomial(p, k)
		if sd.Additive {
			t.Mul(t, big.NewInt(1+2*k+2*n))
		} else {
			t.Mul(t, big.NewInt(1+2*k))
		}
		sum.Add(sum, t)
	}
	if !sd.Additive {
		sum.Mul(sum, big.NewInt(1+2*n))
	}
	sum.Lsh(sum, uint(sd.N))
	return sum.Int64()
}

func factorial(n int) int64 {
	f := int64(1)
	for i := 2; i <= n; i++ {
		f *= int64(i)
	}
	return f
}

// permsFixingRoot lists all permutations of 0..n-1 with p[0] = 0.
func permsFixingRoot(n int) [][]int {
	var out [][]int
	p := make([]int, n)
	used := make([]bool, n)
	var rec func(i int)
	rec = func(i int) {
		if i == n {
			out = append(out, append([]int(nil), p...))
			return
		}
		for v := 1; v < n; v++ {
			if !used[v] {
				used[v], p[i] = true, v
				rec(i + 1)
				used[v] = false
			}
		}
	}
	if n > 0 {
		p[0] = 0
		rec(1)
	}
	return out
}

var (
	exhErr1 = NodeErr{Name: "f", Ver: "^1", Msg: "m"}
	exhErr2 = NodeErr{Name: "e", Ver: "^1", Msg: "m"}
)

type exhStats struct {
	graphs, relabels, nontrivial        int64
	bothOK, bothErr, parallel, equalKey int64
	skipped                             int64 // relabelings not evaluated because the graph was already reported
}

// unit enumerates the slice of a space with a fixed labelling and, for a
// product space, a fixed error option (errOpt < 0: additive space, the error
// options are looped over for the graphs without parallel edge).
func (m *monitor) unit(ck *checker, sd spaceDef, lab uint, errOpt int, perms [][]int, st *exhStats) {
	n := sd.N
	var s Graph
	s.Nodes = make([]Node, n)
	equalKeyed := false
	for i := range s.Nodes {
		s.Nodes[i] = Node{Name: "a", Ver: "1"}
		if lab>>uint(i)&1 == 1 {
			s.Nodes[i].Ver = "2"
		}
		for j := 0; j < i; j++ {
			if s.Nodes[j].Ver == s.Nodes[i].Ver {
				equalKeyed = true
			}
		}
	}
	err1, err2 := []NodeErr{exhErr1}, []NodeErr{exhErr1, exhErr2}
	setErr := func(opt int) { // opt 0: none; 2i+1: node i one error; 2i+2: node i two errors
		for i := range s.Nodes {
			s.Nodes[i].Errs = nil
		}
		if opt > 0 {
			if i := (opt - 1) / 2; (opt-1)%2 == 0 {
				s.Nodes[i].Errs = err1
			} else {
				s.Nodes[i].Errs = err2
			}
		}
	}
	if errOpt > 0 {
		setErr(errOpt)
	}
	rels := make([]Relabel, len(perms))
	for i, p := range perms {
		rels[i] = Relabel{Perm: p, Reverse: true}
	}
	pairs := n * n
	buf := make([]Edge, 0, sd.KMax+1)
	idx := make([]int, 0, sd.KMax)
	origin := "exhaustive " + sd.String()

	evalOne := func(par bool) {
		st.graphs++
		if equalKeyed || par {
			st.nontrivial++
		}
		if par {
			st.parallel++
		}
		if equalKeyed {
			st.equalKey++
		}
		res, v := ck.base(&s)
		if v != nil {
			m.report(ck, v, Case{G: s, Rel: Relabel{Perm: perms[0], Reverse: true}}, origin)
			st.skipped += int64(len(rels))
			return
		}
		if res.err == nil {
			st.bothOK++
		} else {
			st.bothErr++
		}
		for i := range rels {
			st.relabels++
			if v := ck.relabelled(&s, &res, &rels[i]); v != nil {
				m.report(ck, v, Case{G: s, Rel: rels[i]}, origin)
				st.skipped += int64(len(rels) - 1 - i)
				return // one report per graph
			}
		}
	}
	eval := func(par bool) {
		if errOpt >= 0 || par {
			evalOne(par)
			return
		}
		for opt := 0; opt <= 2*n; opt++ {
			setErr(opt)
			evalOne(false)
		}
		setErr(0)
	}

	var rec func(start int)
	rec = func(start int) {
		k := len(idx)
		if k >= sd.KMin {
			buf = buf[:0]
			for _, p := range idx {
				buf = append(buf, Edge{From: p / n, To: p % n, Req: "x", Type: "reg"})
			}
			s.Edges = buf[:k]
			eval(false)
			for j := 0; j < k; j++ {
				for variant := 0; variant < 2; variant++ {
					e := buf[j]
					if variant == 0 {
						e.Type = "dev"
					} else {
						e.Req = "y"
					}
					s.Edges = append(buf[:k], e)
					eval(true)
				}
			}
		}
		if k == sd.KMax {
			return
		}
		for p := start; p < pairs; p++ {
			idx = append(idx, p)
			rec(p + 1)
			idx = idx[:len(idx)-1]
		}
	}
	rec(0)
}

// exhaustive enumerates the given (pairwise disjoint) spaces completely, in
// parallel over (space, labelling[, error option]) units.
func (m *monitor) exhaustive(r *ev.Run, spaces []spaceDef) {
	type job struct {
		sd     spaceDef
		lab    uint
		errOpt int
	}
	var jobs []job
	var wantGraphs, wantRel int64
	var defs []string
	sizes := map[string]any{}
	permCache := map[int][][]int{}
	for _, sd := range spaces {
		for lab := uint(0); lab < 1<<uint(sd.N); lab++ {
			if sd.Additive {
				jobs = append(jobs, job{sd, lab, -1})
				continue
			}
			for eo := 0; eo <= 2*sd.N; eo++ {
				jobs = append(jobs, job{sd, lab, eo})
			}
		}
		sz := sd.size()
		wantGraphs += sz
		wantRel += sz * factorial(sd.N-1)
		defs = append(defs, sd.String())
		sizes[sd.String()] = map[string]int64{"graphs": sz, "relabelings_each": factorial(sd.N - 1)}
		if permCache[sd.N] == nil {
			permCache[sd.N] = permsFixingRoot(sd.N)
		}
	}
	// Largest units first, for balance.
	weight := func(sd spaceDef) int64 {
		units := int64(1) << uint(sd.N)
		if !sd.Additive {
			units *= int64(1 + 2*sd.N)
		}
		return sd.size() / units * (factorial(sd.N-1) + 2)
	}
	sort.SliceStable(jobs, func(a, b int) bool { return weight(jobs[a].sd) > weight(jobs[b].sd) })
	var total exhStats
	var mu sync.Mutex
	ch := make(chan job)
	var wg sync.WaitGroup
	for w := 0; w < m.workers; w++ {
		wg.Add(1)
		go func() {
			defer wg.Done()
			ck := newChecker()
			for j := range ch {
				var st exhStats
				m.unit(ck, j.sd, j.lab, j.errOpt, permCache[j.sd.N], &st)
				mu.Lock()
				total.graphs += st.graphs
				total.relabels += st.relabels
				total.skipped += st.skipped
				total.nontrivial += st.nontrivial
				total.bothOK += st.bothOK
				total.bothErr += st.bothErr
				total.parallel += st.parallel
				total.equalKey += st.equalKey
				mu.Unlock()
			}
			mu.Lock()
			m.canonCalls += ck.calls
			mu.Unlock()
		}()
	}
	for _, j := range jobs {
		ch <- j
	}
	close(ch)
	wg.Wait()

	r.Eval(total.graphs + total.relabels)
	r.NontrivialAdd(total.nontrivial) // distinct by construction: the spaces are disjoint and every description is visited once
	r.Count("exhaustive:graphs", total.graphs)
	r.Count("exhaustive:relabelings", total.relabels)
	r.Count("exhaustive:nontrivial_graphs", total.nontrivial)
	r.Count("exhaustive:canon_ok", total.bothOK)
	r.Count("exhaustive:canon_err", total.bothErr)
	r.Count("exhaustive:with_parallel_edge", total.parallel)
	r.Count("exhaustive:with_equal_keyed_nodes", total.equalKey)
	m.graphs += total.graphs
	m.nontrivial += total.nontrivial

	complete := total.graphs == wantGraphs && total.relabels+total.skipped == wantRel
	r.Set("exhaustive", complete)
	r.Set("exhaustive_space", "disjoint union of "+strings.Join(defs, ", ")+". An element is a rooted graph on nodes 0..n-1 (0 = root), each node labelled a@1 or a@2; "+
		"edge set = any k (KMin<=k<=KMax) distinct ordered pairs of n x n incl. self loops, each with requirement x and regular type, listed ascending; "+
		"option par: one extra edge parallel to one of them that is (x,dev) or (y,regular) [1+2k choices]; "+
		"option err: one node carrying the error list [f@^1 m] or [f@^1 m, e@^1 m] [1+2n choices]. "+
		"P(n,k-range) takes par x err: |P| = 2^n (1+2n) sum_k C(n^2,k)(1+2k). A(n,k-range) takes at most one of par, err: |A| = 2^n sum_k C(n^2,k)(1+2k+2n). "+
		"Each element is canonicalised as listed and under ALL (n-1)! renumberings of the non-root nodes (identity included), each with edge list and error lists reversed.")
	r.Set("exhaustive_size", map[string]any{
		"per_space":                  sizes,
		"graphs_expected_by_formula": wantGraphs,
		"graphs_enumerated":          total.graphs,
		"relabelings_expected":       wantRel,
		"relabelings_evaluated":      total.relabels,
		"relabelings_skipped_after_a_violation_of_the_same_graph": total.skipped,
	})
	if !complete {
		r.Inconclusive(fmt.Sprintf("exhaustive enumeration visited %d graphs / %d+%d relabelings, the formula says %d / %d", total.graphs, total.relabels, total.skipped, wantGraphs, wantRel))
	}
}
