// Maven 3.8.7 reference adapter: ComparableVersion and VersionRange.
import org.apache.maven.artifact.versioning.*;
import java.io.*;
public class RefMaven {
  public static void main(String[] a) throws Exception {
    BufferedReader br = new BufferedReader(new InputStreamReader(System.in, "UTF-8"));
    PrintStream out = new PrintStream(new BufferedOutputStream(System.out, 1 << 16), false, "UTF-8");
    String line;
    while ((line = br.readLine()) != null) {
      if (line.isEmpty()) continue;
      String[] p = line.split("\t", -1);
      try {
        if (p[0].equals("ver")) { out.println("maven-artifact 3.8.7"); }
        else if (p[0].equals("cmp")) { out.println(Integer.signum(new ComparableVersion(p[1]).compareTo(new ComparableVersion(p[2])))); }
        else if (p[0].equals("valid")) { out.println(new ComparableVersion(p[1]).getCanonical()); }
        else if (p[0].equals("sat")) {
          VersionRange r;
          try { r = VersionRange.createFromVersionSpec(p[1]); } catch (Exception e) { out.println("ER"); continue; }
          if (r.getRecommendedVersion() != null) out.println("1");
          else out.println(r.containsVersion(new DefaultArtifactVersion(p[2])) ? "1" : "0");
        }
        else if (p[0].equals("range")) {
          try { VersionRange r = VersionRange.createFromVersionSpec(p[1]); out.println(r.getRecommendedVersion() != null ? "soft" : r.toString()); }
          catch (Exception e) { out.println("E"); }
        }
        else out.println("?");
      } catch (Exception e) { out.println("E"); }
    }
    out.flush();
  }
}
