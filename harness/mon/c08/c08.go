// Package c08 monitors the PyPI resolver: every graph returned without a
// graph-level error must be a consistent pip solution of the universe it was
// computed from (refuting events P1-P5 of DESIGN §6/C08).
package c08

import (
	"context"
	"encoding/json"
	"fmt"
	"hash/fnv"
	"regexp"
	"sort"
	"strings"
	"sync"
	"sync/atomic"

	"deps.dev/util/resolve"
	"deps.dev/util/resolve/dep"
	"deps.dev/util/resolve/pypi"
	"deps.dev/util/semver"
	"verif/harness/ev"
	"verif/harness/ref"
	"verif/harness/uni"
)

// Root names the version a universe is resolved for.
type Root struct {
	Name    string `json:"name"`
	Version string `json:"version"`
}

// Case is what a witness and a replay file hold.
type Case struct {
	Universe *uni.Universe `json:"universe"`
	Root     Root          `json:"root"`
	Note     string        `json:"note,omitempty"`
}

func (c Case) rootKey() resolve.VersionKey {
	return c.Universe.VK(c.Root.Name, c.Root.Version, resolve.Concrete)
}

// ---------------------------------------------------------------------------
// Reference answers (pip's packaging), cached for the whole run.

type refCache struct {
	mu  sync.Mutex
	sat map[string]string // spec \x00 version -> 1 | 0 | ER | EV ...
	ver map[string]string // version literal -> pre | final | invalid
	rel map[string]string // version literal -> release segment without trailing zeros, e.g. "2.1"
}

func newRefCache() *refCache {
	return &refCache{sat: map[string]string{}, ver: map[string]string{}, rel: map[string]string{}}
}

// asker answers from the cache and remembers what it could not answer; Flush
// puts all pending questions to the adapter in one call.
type asker struct {
	c       *refCache
	needSat map[string][2]string
	needVer map[string]bool
}

func newAsker(c *refCache) *asker {
	return &asker{c: c, needSat: map[string][2]string{}, needVer: map[string]bool{}}
}

// Sat: does SpecifierSet(spec).contains(ver, prereleases=True) hold. known is
// false when the question is pending; valid is false when packaging rejects
// the specifier or the version.
func (a *asker) Sat(spec, ver string) (sat, valid, known bool) {
	k := spec + "\x00" + ver
	a.c.mu.Lock()
	ans, ok := a.c.sat[k]
	a.c.mu.Unlock()
	if !ok {
		a.needSat[k] = [2]string{spec, ver}
		return true, true, false
	}
	return ans == "1", ans == "1" || ans == "0", true
}

// Pre: is the literal a pre or dev release for packaging (Version.is_prerelease).
func (a *asker) Pre(ver string) (pre, valid, known bool) {
	a.c.mu.Lock()
	ans, ok := a.c.ver[ver]
	a.c.mu.Unlock()
	if !ok {
		a.needVer[ver] = true
		return false, true, false
	}
	return ans == "pre", ans != "invalid", true
}

// Release returns the literal's release segment without trailing zeros
// ("2.0rc1" -> "2"); only meaningful once Pre(ver) is known.
func (a *asker) Release(ver string) string {
	a.c.mu.Lock()
	defer a.c.mu.Unlock()
	return a.c.rel[ver]
}

func (a *asker) Pending() int { return len(a.needSat) + len(a.needVer) }

func (a *asker) Flush() error {
	if a.Pending() == 0 {
		return nil
	}
	var qs []string
	var satKeys, verKeys []string
	for k := range a.needSat {
		satKeys = append(satKeys, k)
	}
	sort.Strings(satKeys)
	for k := range a.needVer {
		verKeys = append(verKeys, k)
	}
	sort.Strings(verKeys)
	for _, k := range satKeys {
		q := a.needSat[k]
		qs = append(qs, ref.Q("j:sat", jsonStr(q[0]), jsonStr(q[1]), jsonStr("pre")))
	}
	for _, k := range verKeys {
		qs = append(qs, ref.Q("j:verinfo", jsonStr(k)))
	}
	ans, err := ref.Py.Batch(qs)
	if err != nil {
		return err
	}
	a.c.mu.Lock()
	for i, k := range satKeys {
		a.c.sat[k] = ans[i]
	}
	for i, k := range verKeys {
		var info struct {
			Pre     bool  `json:"pre"`
			Release []int `json:"release"`
		}
		if json.Unmarshal([]byte(ans[len(satKeys)+i]), &info) != nil {
			a.c.ver[k] = "invalid"
			continue
		}
		a.c.ver[k] = "final"
		if info.Pre {
			a.c.ver[k] = "pre"
		}
		rel := info.Release
		for len(rel) > 1 && rel[len(rel)-1] == 0 {
			rel = rel[:len(rel)-1]
		}
		parts := make([]string, len(rel))
		for j, x := range rel {
			parts[j] = fmt.Sprint(x)
		}
		a.c.rel[k] = strings.Join(parts, ".")
	}
	a.c.mu.Unlock()
	a.needSat = map[string][2]string{}
	a.needVer = map[string]bool{}
	return nil
}

func jsonStr(s string) string { b, _ := json.Marshal(s); return string(b) }

// ---------------------------------------------------------------------------
// One resolution.

// tracer records which versions' requirements the resolver fetched.
type tracer struct {
	resolve.Client
	fetched []resolve.VersionKey
}

func (t *tracer) Requirements(ctx context.Context, vk resolve.VersionKey) ([]resolve.RequirementVersion, error) {
	t.fetched = append(t.fetched, vk)
	return t.Client.Requirements(ctx, vk)
}

type resolved struct {
	g         *resolve.Graph
	err       error
	exhausted bool
	extended  bool // the standard step budget did not suffice
	calls     int64
	fetched   []resolve.VersionKey
	panicked  any
}

// world is what the resolutions of one universe share: the LocalClient and
// one resolver (its marker, constraint and match caches are built once; the
// constructor allocates three 10 000-entry tables). The resolver talks to the
// client through a switch so that every resolution still runs under its own
// counting client inside uni.Resolve.
type world struct {
	lc  *resolve.LocalClient
	sw  *switchClient
	res resolve.Resolver
}

type switchClient struct{ resolve.Client }

func newWorld(u *uni.Universe) *world {
	// The other systems' matchers read the same requirement texts first
	// (see uni.ForeignWarmup): nothing the PyPI resolver does may depend on it.
	uni.ForeignWarmup(u)
	w := &world{lc: u.Client(nil), sw: &switchClient{}}
	w.res = pypi.NewResolver(w.sw)
	// Every third resolver starts with its bounded caches filled beyond their
	// capacity (see uni.SaturatePyPI), so that this universe's markers and
	// constraints are inserted through the eviction path.
	if worlds.Add(1)%3 == 0 {
		uni.SaturatePyPI(w.res, func(c resolve.Client) { w.sw.Client = c })
		saturated.Add(1)
	}
	return w
}

var worlds, saturated atomic.Int64

func run(c Case, w *world) (res resolved) {
	defer func() {
		if p := recover(); p != nil {
			res.panicked = p
		}
	}()
	if w == nil {
		w = newWorld(c.Universe)
	}
	tr := &tracer{Client: w.lc}
	mk := func(cc resolve.Client) resolve.Resolver { w.sw.Client = cc; return w.res }
	res.g, res.err, res.exhausted, res.calls = uni.Resolve(mk, tr, c.Universe.StepBudget(), c.rootKey())
	if res.exhausted {
		// Deep backtracking (dense cycles with extras) can need more than the
		// standard budget and still terminate. Only a resolution that also
		// outlasts a hundred times the budget is reported as exhausted;
		// whether the resolver terminates at all is C04's question.
		res.extended = true
		tr.fetched = nil
		res.g, res.err, res.exhausted, res.calls = uni.Resolve(mk, tr, 100*c.Universe.StepBudget(), c.rootKey())
	}
	res.fetched = tr.fetched
	return res
}

// ---------------------------------------------------------------------------
// The oracle.

type finding struct {
	class string
	what  string
}

type verdict struct {
	skipped    string // graph-error | go-error | budget | panic
	findings   []finding
	feats      []string
	nontrivial bool
	incomplete bool // some reference answer was still pending
}

var clauseRE = regexp.MustCompile(`^\s*(===|==|~=|!=|<=|>=|<|>)\s*(.*?)\s*$`)

type clause struct {
	op, lit string
	wild    bool   // literal ended in .*
	text    string // the clause as written
}

func clauses(spec string) []clause {
	var out []clause
	for _, part := range strings.Split(spec, ",") {
		if strings.TrimSpace(part) == "" {
			continue
		}
		m := clauseRE.FindStringSubmatch(part)
		if m == nil {
			out = append(out, clause{op: "?", lit: part, text: part})
			continue
		}
		out = append(out, clause{op: m[1], lit: strings.TrimSuffix(m[2], ".*"), wild: strings.HasSuffix(m[2], ".*"), text: strings.TrimSpace(part)})
	}
	return out
}

func splitExtras(t dep.Type, into map[string]bool) {
	if s, ok := t.GetAttr(dep.EnabledDependencies); ok {
		for _, x := range strings.Split(s, ",") {
			if x = strings.TrimSpace(x); x != "" {
				into[x] = true
			}
		}
	}
}

// check evaluates P1-P5 on one result. dropped holds the markers whose truth
// value the start-up probe could not confirm.
func check(c Case, res resolved, a *asker, dropped map[string]bool) (v verdict) {
	u := c.Universe
	root := c.rootKey()
	switch {
	case res.panicked != nil:
		v.skipped = "panic"
		v.findings = append(v.findings, finding{"C08:panic", fmt.Sprintf("resolver panicked: %v", res.panicked)})
		return
	case res.exhausted:
		v.skipped = "budget"
		v.findings = append(v.findings, finding{"C08:budget-exhausted", fmt.Sprintf("resolver still calling the client after %d calls (budget %d)", res.calls, u.StepBudget())})
		return
	case res.err != nil:
		v.skipped = "go-error"
		return
	case res.g == nil:
		v.skipped = "go-error"
		return
	case res.g.Error != "":
		v.skipped = "graph-error"
		return
	}
	g := res.g
	add := func(class, format string, args ...any) {
		v.findings = append(v.findings, finding{class, fmt.Sprintf(format, args...)})
	}
	feat := func(f string) { v.feats = append(v.feats, f) }

	// P1: node 0 is the requested root; one node per package.
	if len(g.Nodes) == 0 || g.Nodes[0].Version != root {
		add("C08:P1:root-replaced", "node 0 is not the requested root %v", root)
		return
	}
	byPkg := map[string]resolve.NodeID{}
	for i, n := range g.Nodes {
		if j, dup := byPkg[n.Version.Name]; dup {
			cl := "C08:P1:two-versions"
			if n.Version.Name == root.Name {
				cl = "C08:P1:second-root-version"
			}
			add(cl, "package %s selected twice: %s and %s", n.Version.Name, g.Nodes[j].Version.Version, n.Version.Version)
			continue
		}
		byPkg[n.Version.Name] = resolve.NodeID(i)
		if n.Version.VersionType != resolve.Concrete || u.Find(n.Version.Name, n.Version.Version) == nil {
			add("C08:P1:unknown-version", "node %v is not a version of the universe", n.Version)
		}
	}
	n := len(g.Nodes)
	out := make([][]resolve.Edge, n)
	in := make([][]resolve.Edge, n)
	extras := make([]map[string]bool, n)
	for i := range extras {
		extras[i] = map[string]bool{}
	}
	for _, e := range g.Edges {
		if int(e.From) >= n || int(e.To) >= n || e.From < 0 || e.To < 0 {
			add("C08:P1:dangling-edge", "edge %d->%d outside the node list", e.From, e.To)
			return
		}
		out[e.From] = append(out[e.From], e)
		in[e.To] = append(in[e.To], e)
		splitExtras(e.Type, extras[e.To])
		if len(extras[e.To]) > 0 {
			feat("extras-requested")
		}
	}
	if len(in[0]) > 0 {
		feat("cycle-through-root")
	}

	// P5: reachability.
	seen := make([]bool, n)
	seen[0] = true
	queue := []resolve.NodeID{0}
	for len(queue) > 0 {
		x := queue[0]
		queue = queue[1:]
		for _, e := range out[x] {
			if !seen[e.To] {
				seen[e.To] = true
				queue = append(queue, e.To)
			}
		}
	}
	for i, s := range seen {
		if !s {
			add("C08:P5:unreachable", "node %v is not reachable from the root", g.Nodes[i].Version)
		}
	}

	// P2 / P4: requirements of the selected versions vs out-edges.
	type where struct {
		node int
		req  uni.Req
	}
	p4where := map[int]where{}
	for i, nd := range g.Nodes {
		rec := u.Find(nd.Version.Name, nd.Version.Version)
		if rec == nil {
			continue
		}
		claimed := make([]bool, len(out[i]))
		perPkg := map[string]int{}
		for _, q := range rec.Reqs {
			perPkg[q.Name]++
		}
		for _, q := range rec.Reqs {
			if perPkg[q.Name] > 1 {
				// Outside the quantifier (stored cases only): several
				// requirements of one version on one package.
				feat("requirement-outside-quantifier")
				for k, e := range out[i] {
					if g.Nodes[e.To].Version.Name == q.Name {
						claimed[k] = true
					}
				}
				continue
			}
			truth, sure := true, true
			if q.Environment != "" {
				tt, ok := known[q.Environment]
				if !ok || dropped[q.Environment] {
					sure = false
				} else {
					truth = tt[extrasIndex(extras[i])] == '1'
				}
			}
			found := false
			for k, e := range out[i] {
				if g.Nodes[e.To].Version.Name == q.Name && e.Requirement == q.Req {
					found = true
					claimed[k] = true
				}
			}
			if !sure {
				feat("marker-outside-table")
				continue
			}
			if q.Environment != "" {
				kind := "plain"
				if strings.Contains(q.Environment, "extra") {
					kind = "extra"
				}
				feat(fmt.Sprintf("marker-%s-%v", kind, truth))
			}
			if truth && !found {
				cl := "C08:P2:true-requirement-without-edge"
				if strings.Contains(q.Environment, "extra") {
					cl = "C08:P2:extra-requirement-without-edge"
				}
				add(cl, "%v requires %s%s [marker %q, extras %v] but has no such out-edge", nd.Version, q.Name, q.Req, q.Environment, keys(extras[i]))
			}
			if !truth && found {
				cl := "C08:P4:false-marker-edge"
				if strings.Contains(q.Environment, "extra") {
					cl = "C08:P4:unrequested-extra-edge"
					p4where[len(v.findings)] = where{i, q}
				}
				add(cl, "%v has an out-edge for %s%s whose marker %q is false [extras %v]", nd.Version, q.Name, q.Req, q.Environment, keys(extras[i]))
			}
		}
		for k, ok := range claimed {
			if !ok {
				// Not one of P1-P5: an edge that stands for no requirement
				// of the selected version. Counted, not judged.
				_ = k
				feat("edge-without-requirement")
			}
		}
	}

	// Coverage: extras that reach a node only through a cycle (from itself or
	// from one of its descendants, i.e. after it had to be pinned) and that
	// switch on one of its requirements.
	for i, nd := range g.Nodes {
		if len(extras[i]) == 0 {
			continue
		}
		reach := map[resolve.NodeID]int{} // descendant -> distance
		frontier := []resolve.NodeID{resolve.NodeID(i)}
		for d := 1; len(frontier) > 0; d++ {
			var next []resolve.NodeID
			for _, x := range frontier {
				for _, e := range out[x] {
					if _, ok := reach[e.To]; !ok && int(e.To) != i {
						reach[e.To] = d
						next = append(next, e.To)
					}
				}
			}
			frontier = next
		}
		outside := map[string]bool{}
		depth := 0
		for _, e := range in[i] {
			d, desc := reach[e.From]
			if int(e.From) == i {
				d, desc = 0, true
			}
			if !desc {
				splitExtras(e.Type, outside)
				continue
			}
			m := map[string]bool{}
			splitExtras(e.Type, m)
			if len(m) > 0 && d+1 > depth {
				depth = d + 1
			}
		}
		if depth == 0 || extrasIndex(outside) == extrasIndex(extras[i]) {
			continue
		}
		rec := u.Find(nd.Version.Name, nd.Version.Version)
		if rec == nil {
			continue
		}
		for _, q := range rec.Reqs {
			if tt, ok := known[q.Environment]; ok && !dropped[q.Environment] && tt[extrasIndex(extras[i])] == '1' && tt[extrasIndex(outside)] == '0' {
				feat(fmt.Sprintf("requirement-enabled-by-extra-from-cycle:length-%d", min(depth, 3)))
				break
			}
		}
	}

	// Requirements the resolver has seen: those of every version whose
	// requirements it fetched, selected or not. pip at the modelled release
	// (resolvelib 0.7) never withdraws a requirement once merged into a
	// criterion, so a requirement of an abandoned candidate may still take
	// part in the choice of a version; the justification of a prerelease and
	// the origin of an extra have to allow for them.
	seenSpecs := map[string][]string{} // package -> specifiers of fetched versions' requirements on it
	// Extras requested on a package by versions that were tried and are not
	// part of the result (what a selected version requests is an in-edge or
	// was never merged).
	seenExtras := map[string]map[string]bool{}
	fetchedOnce := map[resolve.VersionKey]bool{}
	isSelected := map[resolve.VersionKey]bool{}
	for _, nd := range g.Nodes {
		isSelected[nd.Version] = true
	}
	for _, f := range res.fetched {
		if fetchedOnce[f] {
			continue
		}
		fetchedOnce[f] = true
		if rec := u.Find(f.Name, f.Version); rec != nil {
			for _, q := range rec.Reqs {
				seenSpecs[q.Name] = append(seenSpecs[q.Name], q.Req)
				if isSelected[f] {
					continue
				}
				if seenExtras[q.Name] == nil {
					seenExtras[q.Name] = map[string]bool{}
				}
				splitExtras(q.Type(), seenExtras[q.Name])
			}
		}
	}
	// Refine P4 findings on extras: was the extra requested by a requirement
	// the resolver has seen, though by none that is an in-edge?
	for k, f := range v.findings {
		if f.class != "C08:P4:unrequested-extra-edge" {
			continue
		}
		i, q := p4where[k].node, p4where[k].req
		all := map[string]bool{}
		for x := range extras[i] {
			all[x] = true
		}
		for x := range seenExtras[g.Nodes[i].Version.Name] {
			all[x] = true
		}
		if tt := known[q.Environment]; tt[extrasIndex(all)] == '1' {
			v.findings[k].class += ":stale-extras"
		}
	}

	// P3: every edge's target satisfies the edge's specifier; pre/dev targets
	// other than the root are justified in one of pip's two ways.
	for _, e := range g.Edges {
		y := g.Nodes[e.To].Version
		sat, valid, kn := a.Sat(e.Requirement, y.Version)
		if !kn {
			v.incomplete = true
		}
		if valid && sat {
			continue
		}
		if kn && !valid {
			feat("specifier-rejected-by-reference")
			continue
		}
		// Which clauses fail? Two narrow shapes are classified.
		ypre, _, kn1 := a.Pre(y.Version)
		shape := ""
		for _, cl := range clauses(e.Requirement) {
			cs, cvalid, kn2 := a.Sat(cl.text, y.Version)
			lpre, _, kn3 := a.Pre(cl.lit)
			if !kn1 || !kn2 || !kn3 {
				v.incomplete = true
				continue
			}
			if cs || !cvalid {
				continue
			}
			sh := "other"
			yrel, lrel := a.Release(y.Version), a.Release(cl.lit)
			switch {
			case cl.op == "<" && !cl.wild && !lpre && ypre && yrel == lrel:
				sh = "exclusive-bound-own-prerelease"
			case cl.op == "!=" && cl.wild && ypre && (yrel == lrel || strings.HasPrefix(yrel, lrel+".")):
				sh = "wildcard-exclusion-own-prerelease"
			}
			if shape == "" || shape == sh {
				shape = sh
			} else {
				shape = "other"
			}
		}
		if v.incomplete {
			continue
		}
		cl := "C08:P3:unsatisfied"
		if shape != "" && shape != "other" {
			cl += ":" + shape
		}
		add(cl, "edge %v -> %v: %q does not contain %s (packaging, prereleases=True)", g.Nodes[e.From].Version, y, e.Requirement, y.Version)
	}
	sys := semver.PyPI
	for i := 1; i < n; i++ {
		y := g.Nodes[i].Version
		ypre, yvalid, kn := a.Pre(y.Version)
		if !kn {
			v.incomplete = true // keep going: the collecting pass must see every question
		}
		if !yvalid {
			continue
		}
		anyInvalid := false
		namesPre := func(spec string) (names, upper bool) {
			cls := clauses(spec)
			upper = false
			onlyUpper := len(cls) > 0
			for _, cl := range cls {
				switch cl.op {
				case "<", "<=":
					upper = true
				case "!=":
				default:
					onlyUpper = false
				}
				p, valid, kn := a.Pre(cl.lit)
				if !kn {
					v.incomplete = true
				}
				if !valid {
					anyInvalid = true
				}
				names = names || p
			}
			return names, upper && onlyUpper
		}
		satAll := func(specs []string, w string) bool {
			all := true
			for _, sp := range specs {
				s, valid, kn := a.Sat(sp, w)
				if !kn {
					v.incomplete = true
				}
				if !valid {
					anyInvalid = true
				}
				all = all && s
			}
			return all
		}
		// In-edge specifiers: do they name a pre/dev release; are they all
		// upper bounds (clauses < and <=, possibly with != clauses)?
		var inSpecs []string
		names, upperOnly := false, len(in[i]) > 0
		for _, e := range in[i] {
			inSpecs = append(inSpecs, e.Requirement)
			nm, up := namesPre(e.Requirement)
			names = names || nm
			upperOnly = upperOnly && up
		}
		// The same over every requirement on y's package the resolver has seen.
		namesSeen := names
		for _, sp := range seenSpecs[y.Name] {
			nm, _ := namesPre(sp)
			namesSeen = namesSeen || nm
		}
		var finals, finalsSeen, admitted []string
		for _, w := range u.Of(y.Name) {
			wpre, wvalid, kn := a.Pre(w.Version)
			if !kn {
				v.incomplete = true
			}
			if !wvalid {
				continue
			}
			okIn := satAll(inSpecs, w.Version)
			okSeen := satAll(seenSpecs[y.Name], w.Version)
			if !okIn {
				continue
			}
			if !wpre {
				finals = append(finals, w.Version)
				if okSeen {
					finalsSeen = append(finalsSeen, w.Version)
				}
			}
			if !wpre || names {
				admitted = append(admitted, w.Version)
			}
		}
		if v.incomplete || anyInvalid {
			continue
		}
		if ypre {
			switch {
			case names:
				feat("prerelease-selected:named")
			case len(finals) == 0:
				feat("prerelease-selected:no-final")
			case namesSeen:
				feat("prerelease-selected:named-by-abandoned-candidate")
			case len(finalsSeen) == 0:
				feat("prerelease-selected:no-final-under-abandoned-requirements")
			default:
				cl := "C08:P3:prerelease-unjustified"
				if upperOnly {
					cl += ":upper-bound-only"
				}
				var specs []string
				for _, sp := range inSpecs {
					specs = append(specs, fmt.Sprintf("%q", sp))
				}
				add(cl, "%v selected although no requirement on %s that the resolver has seen names a pre/dev release (in-edges: %s) and final release(s) %v satisfy all of them", y, y.Name, strings.Join(specs, ", "), finalsSeen)
			}
		}
		// Coverage: is this node below the best version its own in-edges admit?
		yv, err := sys.Parse(y.Version)
		if err != nil {
			continue
		}
		for _, w := range admitted {
			if wv, err := sys.Parse(w); err == nil && wv.Compare(yv) > 0 {
				v.nontrivial = true
			}
		}
		// Observation outside P1-P5 (the statement does not speak about
		// preference): a higher final release that satisfies every
		// requirement the resolver has seen on the package, yet whose
		// requirements were never fetched, i.e. that was never tried.
		for _, w := range finalsSeen {
			if wv, err := sys.Parse(w); err == nil && wv.Compare(yv) > 0 && !fetchedOnce[u.VK(y.Name, w, resolve.Concrete)] {
				feat("higher-admissible-final-never-tried")
			}
		}
	}
	// Coverage: candidates whose requirements were fetched but that are not selected.
	selected := map[resolve.VersionKey]bool{}
	for _, nd := range g.Nodes {
		selected[nd.Version] = true
	}
	times := map[resolve.VersionKey]int{}
	for _, f := range res.fetched {
		times[f]++
		if !selected[f] {
			feat("abandoned-candidate")
		}
		if times[f] == 2 && f != root {
			feat("refetched-candidate")
		}
	}
	return
}

func keys(m map[string]bool) []string {
	out := []string{}
	for k := range m {
		out = append(out, k)
	}
	sort.Strings(out)
	return out
}

// judge is resolve + check with the reference consulted as often as needed.
func judge(c Case, a *asker, dropped map[string]bool) (resolved, verdict, error) {
	res := run(c, nil)
	v := check(c, res, a, dropped)
	for i := 0; v.incomplete && i < 3; i++ {
		if err := a.Flush(); err != nil {
			return res, v, err
		}
		v = check(c, res, a, dropped)
	}
	return res, v, nil
}

// prefetch asks the reference about every (specifier on p, version of p) pair
// and every literal of the universe, so that shrinking needs no further calls.
func prefetch(u *uni.Universe, a *asker) error {
	for _, v := range u.Versions {
		a.Pre(v.Version)
		for _, q := range v.Reqs {
			for _, cl := range clauses(q.Req) {
				a.Pre(cl.lit)
			}
			for _, w := range u.Of(q.Name) {
				a.Sat(q.Req, w.Version)
			}
		}
	}
	return a.Flush()
}

// ---------------------------------------------------------------------------
// Shrinking.

func cloneU(u *uni.Universe) *uni.Universe {
	b, _ := json.Marshal(u)
	var out uni.Universe
	json.Unmarshal(b, &out)
	return &out
}

// shrink greedily removes versions, requirements and attributes while the
// case keeps violating with the same class. At most budget oracle calls.
func shrink(c Case, class string, a *asker, dropped map[string]bool, budget int) Case {
	if err := prefetch(c.Universe, a); err != nil {
		return c
	}
	calls := 0
	still := func(cand Case) bool {
		if calls >= budget {
			return false
		}
		calls++
		_, v, err := judge(cand, a, dropped)
		if err != nil {
			return false
		}
		for _, f := range v.findings {
			if f.class == class {
				return true
			}
		}
		return false
	}
	cur := Case{Universe: cloneU(c.Universe), Root: c.Root, Note: c.Note}
	for changed := true; changed && calls < budget; {
		changed = false
		// Drop whole versions.
		for i := len(cur.Universe.Versions) - 1; i >= 0; i-- {
			v := cur.Universe.Versions[i]
			if v.Name == cur.Root.Name && v.Version == cur.Root.Version {
				continue
			}
			cand := Case{Universe: cloneU(cur.Universe), Root: cur.Root}
			cand.Universe.Versions = append(cand.Universe.Versions[:i], cand.Universe.Versions[i+1:]...)
			if still(cand) {
				cur, changed = cand, true
			}
		}
		// Drop requirements, then their attributes.
		for i := range cur.Universe.Versions {
			for k := len(cur.Universe.Versions[i].Reqs) - 1; k >= 0; k-- {
				cand := Case{Universe: cloneU(cur.Universe), Root: cur.Root}
				rs := cand.Universe.Versions[i].Reqs
				cand.Universe.Versions[i].Reqs = append(rs[:k], rs[k+1:]...)
				if still(cand) {
					cur, changed = cand, true
					continue
				}
				for _, f := range []func(*uni.Req) bool{
					func(q *uni.Req) bool { ok := q.Environment != ""; q.Environment = ""; return ok },
					func(q *uni.Req) bool { ok := q.Enabled != ""; q.Enabled = ""; return ok },
				} {
					cand := Case{Universe: cloneU(cur.Universe), Root: cur.Root}
					if f(&cand.Universe.Versions[i].Reqs[k]) && still(cand) {
						cur, changed = cand, true
					}
				}
			}
		}
	}
	cur.Note = fmt.Sprintf("shrunk with %d oracle calls", calls)
	return cur
}

// ---------------------------------------------------------------------------
// Start-up probe of the marker templates.

// probe resolves r 1.0 -> p[extras] -> (marker) q for every template and
// every set of requested extras and keeps the templates whose assumed truth
// value is what the library observes. What an environment variable compares
// to is C16's business, so a disagreement there only removes the template.
// The bare atoms over extra are different: `extra == "x"` is true exactly
// when x is requested, by definition of a requested extra, and handing the
// requested extras to the marker is the resolver's own job. Those templates
// are never dropped; their probe universes are returned and judged like any
// other case (a disagreement shows up as P2 or P4).
func probe(r *ev.Run) (kept []Template, dropped map[string]bool, cases []Case) {
	dropped = map[string]bool{}
	var report []string
	for _, t := range AllTemplates {
		obs := make([]byte, 4)
		bare := bareExtra[t.Marker]
		for idx, ex := range []string{"", "x", "y", "x,y"} {
			u := &uni.Universe{Sys: "PyPI", Versions: []uni.Version{
				{Name: "r", Version: "1.0", Reqs: []uni.Req{{Name: "p", Req: "", Enabled: ex}}},
				{Name: "p", Version: "1.0", Reqs: []uni.Req{{Name: "q", Req: "", Environment: t.Marker}}},
				{Name: "q", Version: "1.0"},
			}}
			c := Case{Universe: u, Root: Root{"r", "1.0"}, Note: "marker probe"}
			if bare {
				cases = append(cases, c)
			}
			res := run(c, nil)
			obs[idx] = '?'
			if res.panicked == nil && res.err == nil && res.g != nil && res.g.Error == "" && !res.exhausted {
				obs[idx] = '0'
				for _, nd := range res.g.Nodes {
					if nd.Version.Name == "q" {
						obs[idx] = '1'
					}
				}
			}
			r.Count("probe_resolutions", 1)
		}
		switch {
		case string(obs) == t.Truth:
			kept = append(kept, t)
		case bare:
			kept = append(kept, t)
			report = append(report, fmt.Sprintf("%s: assumed %s, library observes %s (kept: judged as P2/P4)", t.Marker, t.Truth, obs))
		default:
			dropped[t.Marker] = true
			report = append(report, fmt.Sprintf("%s: assumed %s, library observes %s (dropped)", t.Marker, t.Truth, obs))
		}
	}
	r.Count("templates_kept", int64(len(kept)))
	r.Count("templates_dropped", int64(len(dropped)))
	if len(report) > 0 {
		r.Set("marker_probe_disagreements", report)
	}
	return
}

var bareExtra = map[string]bool{`extra == "x"`: true, `extra == "y"`: true, `"x" == extra`: true}

// ---------------------------------------------------------------------------

type runner struct {
	r       *ev.Run
	cache   *refCache
	dropped map[string]bool
	mu      sync.Mutex
	shrunk  map[string]int // class -> cases shrunk and reported
	sampled int
}

func uhash(u *uni.Universe) string {
	b, _ := json.Marshal(u)
	h := fnv.New64a()
	h.Write(b)
	return fmt.Sprintf("%016x", h.Sum64())
}

func summary(g *resolve.Graph) []string {
	var out []string
	for _, e := range g.Edges {
		out = append(out, fmt.Sprintf("%s %s -[%s %s]-> %s %s", g.Nodes[e.From].Version.Name, g.Nodes[e.From].Version.Version, e.Requirement, e.Type.String(), g.Nodes[e.To].Version.Name, g.Nodes[e.To].Version.Version))
	}
	return out
}

// batch resolves every root of every universe, obtains the reference answers
// for the whole batch in one adapter call and judges the graphs.
func (rn *runner) batch(us []*uni.Universe, witness []Case) {
	r := rn.r
	type item struct {
		c   Case
		res resolved
		key string
		gen bool
	}
	var items []item
	for _, u := range us {
		w := newWorld(u)
		h := uhash(u)
		for _, rt := range u.Roots() {
			c := Case{Universe: u, Root: Root{rt.Name, rt.Version}}
			items = append(items, item{c: c, res: run(c, w), key: h + "/" + rt.Name + "@" + rt.Version, gen: true})
		}
	}
	for _, c := range witness {
		items = append(items, item{c: c, res: run(c, nil), key: "witness/" + uhash(c.Universe) + "/" + c.Root.Name + "@" + c.Root.Version})
	}
	a := newAsker(rn.cache)
	for _, it := range items {
		check(it.c, it.res, a, rn.dropped)
	}
	if err := a.Flush(); err != nil {
		r.Inconclusive(err.Error())
		return
	}
	r.Count("adapter_calls", 1)
	for _, it := range items {
		v := check(it.c, it.res, a, rn.dropped)
		if v.incomplete {
			// Cannot happen after the collecting pass; be safe.
			if err := a.Flush(); err != nil {
				r.Inconclusive(err.Error())
				return
			}
			v = check(it.c, it.res, a, rn.dropped)
		}
		r.Count("resolutions", 1)
		r.Count("client_calls", it.res.calls)
		if it.res.extended {
			r.Count("needed_extended_step_budget", 1)
		}
		if it.gen {
			r.Count("generated:resolutions", 1)
			if v.skipped == "" {
				r.Count("generated:error_free", 1)
			}
			if v.nontrivial {
				r.Count("generated:nontrivial", 1)
			}
		}
		if v.skipped != "" {
			r.Count("skipped:"+v.skipped, 1)
			if v.skipped == "graph-error" {
				r.Count("graph-error:"+firstWords(strings.ReplaceAll(it.res.g.Error, "resolution impossible:", ""), 2), 1)
			}
			if v.skipped == "go-error" && it.res.err != nil {
				r.Count("go-error:"+firstWords(it.res.err.Error(), 3), 1)
			}
		} else {
			r.Eval(1)
			r.Count("error_free", 1)
			r.Count(fmt.Sprintf("nodes:%d", min(len(it.res.g.Nodes), 8)), 1)
			seen := map[string]bool{}
			for _, f := range v.feats {
				if !seen[f] {
					seen[f] = true
					r.Count("feature:"+f, 1)
				}
			}
			if v.nontrivial {
				r.Nontrivial(it.key)
				r.Count("nontrivial", 1)
				rn.mu.Lock()
				if rn.sampled < r.MaxSamples {
					rn.sampled++
					r.Sample(map[string]any{"case": it.c, "graph": summary(it.res.g)})
				}
				rn.mu.Unlock()
			}
		}
		for _, f := range v.findings {
			rn.report(it.c, f)
		}
	}
}

func firstWords(s string, n int) string {
	f := strings.Fields(s)
	if len(f) > n {
		f = f[:n]
	}
	return strings.Join(f, " ")
}

func (rn *runner) report(c Case, f finding) {
	rn.mu.Lock()
	k := rn.shrunk[f.class]
	rn.shrunk[f.class]++
	rn.mu.Unlock()
	rn.r.Count("violations:"+f.class, 1)
	for _, kf := range rn.r.OpenFindings() {
		if kf.Class == f.class {
			rn.r.Violation(f.class, f.what, c) // attributed to the open finding by ev
			return
		}
	}
	if k < 3 && !strings.HasPrefix(f.class, "C08:budget") && !strings.HasPrefix(f.class, "C08:panic") {
		a := newAsker(rn.cache)
		sc := shrink(c, f.class, a, rn.dropped, 300)
		_, v, err := judge(sc, a, rn.dropped)
		if err == nil {
			for _, g := range v.findings {
				if g.class == f.class {
					rn.r.Violation(f.class, g.what, sc)
					return
				}
			}
		}
	}
	rn.r.Violation(f.class, f.what, c)
}

var selftest = [][2]string{
	{ref.Q("sat", "<=2.2", "2.2rc1", "pre"), "1"},
	{ref.Q("sat", "<=2.2", "2.2rc1"), "0"},
	{ref.Q("sat", ">=1.0,<2.0", "1.5", "pre"), "1"},
	{ref.Q("sat", "~=1.4.2", "1.5.0", "pre"), "0"},
	{ref.Q("sat", "==1.*", "1.9", "pre"), "1"},
	{ref.Q("sat", ">1.7", "1.7.dev1", "pre"), "0"},
	{ref.Q("sat", "", "3.0a1", "pre"), "1"},
}

func Run(r *ev.Run, replay string) {
	r.MaxSamples = 6
	r.Rule = "generated PyPI universes (4-7 packages a..g x 1-5 versions, finals M.m and pre/dev releases; every package has 1-3 target packages, mostly later in the alphabet, and each of its versions requires most of them with its own specifier, at most one requirement per (version, package); about half of the packages carry an idiom that asks an already pinned package for further extras through a cycle: a requirement of a version on its own package with extras under a marker on another extra, or a dependency that requires its dependent back with extras, plus a requirement that only those extras switch on; specifiers of every PEP 440 operator incl. wildcards, compound clauses and literals naming pre/dev releases; markers from a table over python_version/python_full_version/sys_platform/os_name/extra whose truth value in the library's fixed environment is known by construction and confirmed by a start-up probe; extras x/y requested on a quarter of the requirements). Every version of every universe is resolved as root through uni.Resolve under the universe's step budget. For a graph without graph-level error: P1 node 0 is the root, one node per package, every node a version of the universe; P2 every requirement of a selected version whose marker is true (under the extras on the version's in-edges) has an out-edge labelled with its specifier to the selected version of its package; P3 every edge's target satisfies the edge's specifier for packaging (prereleases=True), and a pre/dev target other than the root is justified: a requirement on its package names a pre/dev release, or no final release of the universe satisfies all requirements on it; P4 no out-edge for a requirement whose marker is false; P5 every node reachable from node 0. Non-trivial = error-free resolution in which some selected version is lower than the highest version its own in-edge specifiers admit (the greedy highest-of-everything assignment is not the answer)."
	r.Assumptions = []string{
		"pip's vendored packaging (SpecifierSet.contains, Version.is_prerelease, Version.release) is the reference for specifier satisfaction and for what a pre/dev release is; trusted after self-test",
		"marker truth values are fixed by construction and confirmed against the library at start-up by resolving r -> p[extras] -> (marker) q; a template over environment variables that the library evaluates differently is dropped and listed (marker semantics are C16's business); the bare atoms extra == \"x\" / extra == \"y\" are never dropped, because handing the requested extras to the marker is the resolver's own job: their probe universes are judged like any other case",
		"P3 states necessary conditions only. A specifier naming a pre/dev release with any operator counts as justification. The requirements considered for the justification are the in-edges plus the requirements of every version whose requirements the resolver fetched during the resolution: pip at the modelled release (resolvelib 0.7) never withdraws a requirement merged into a criterion, so the requirement of an abandoned candidate may legitimately take part in a choice (util/resolve/pypi/testdata drop-requirements pins that behaviour)",
		"at most one requirement per (dependent version, package) (the quantifier); stored cases that break this are not judged on P2/P4 for those requirements. A requirement of a version on its own package (the umbrella-extra idiom) is an ordinary requirement: its edge is a self-edge of the node and its extras count towards the node's requested extras, as in the unchanged resolver and in pip, where name[extra] depends on name",
		"a resolution that exhausts the universe's step budget is repeated once under 100 times that budget and reported as C08:budget-exhausted only if it exhausts that too (counter needed_extended_step_budget); resolutions that end in a Go error or a graph-level error are counted and skipped; one LocalClient and one resolver per universe, shared by the resolutions of all its roots (cross-resolution purity is C05's business); a violation is shrunk and re-judged with a fresh client and resolver before it is reported",
		"the statement does not speak about which of several consistent solutions is returned: preference for the highest version is only observed (feature:higher-admissible-final-never-tried), as are out-edges that stand for no requirement of the selected source version (feature:edge-without-requirement)",
	}
	if _, err := ref.Py.SelfTest(selftest); err != nil {
		r.Inconclusive(err.Error())
		return
	}
	kept, dropped, probeCases := probe(r)
	active = kept
	rn := &runner{r: r, cache: newRefCache(), dropped: dropped, shrunk: map[string]int{}}

	if replay != "" {
		var f struct {
			Case Case `json:"case"`
		}
		if err := ev.ReadJSON(replay, &f); err != nil || f.Case.Universe == nil {
			r.Inconclusive("replay unreadable")
			return
		}
		rn.batch(nil, []Case{f.Case})
		return
	}

	var wit []Case
	if err := ev.ReadJSON(ev.Root+"/witnesses/C08.json", &wit); err != nil {
		r.Inconclusive("witnesses/C08.json: " + err.Error())
	}
	var ok []Case
	for _, w := range wit {
		if w.Universe != nil {
			ok = append(ok, w)
		}
	}
	rn.batch(nil, append(ok, probeCases...))
	r.Count("witness_cases", int64(len(ok)+len(probeCases)))
	// Open known findings: does the recorded witness still fail, in its class?
	for _, f := range r.OpenFindings() {
		var c Case
		if len(f.Witness) == 0 || json.Unmarshal(f.Witness, &c) != nil || c.Universe == nil {
			r.Inconclusive("known finding " + f.ID + " has no usable witness")
			continue
		}
		a := newAsker(rn.cache)
		_, v, err := judge(c, a, rn.dropped)
		if err != nil {
			r.Inconclusive(err.Error())
			continue
		}
		fails := false
		for _, g := range v.findings {
			if g.class == f.Class {
				fails = true
			} else {
				r.Violation(g.class, g.what, c)
			}
		}
		r.KnownWitness(f.ID, fails)
	}

	shards := r.N(4, 16)
	per := r.N(100, 2500)
	const batchSize = 250
	var wg sync.WaitGroup
	for sh := 0; sh < shards; sh++ {
		wg.Add(1)
		go func(sh int) {
			defer wg.Done()
			rng := r.Rand(fmt.Sprintf("universes/%d", sh))
			for done := 0; done < per; done += batchSize {
				k := min(batchSize, per-done)
				us := make([]*uni.Universe, k)
				for i := range us {
					us[i] = Generate(rng)
				}
				r.Count("universes", int64(k))
				rn.batch(us, nil)
			}
		}(sh)
	}
	wg.Wait()
	r.Count("resolvers_started_cache_saturated", saturated.Load())

	total := r.Counter("generated:resolutions")
	free := r.Counter("generated:error_free")
	if free > 0 {
		r.Count("pct_nontrivial_of_error_free", 100*r.Counter("generated:nontrivial")/free)
	}
	if total > 0 {
		pct := 100 * (total - free) / total
		r.Count("pct_skipped", pct)
		if pct > 50 {
			r.Inconclusive(fmt.Sprintf("%d %% of the resolutions ended in an error (limit 50 %%)", pct))
		}
	}
	r.Gate("pct_nontrivial_of_error_free", 15)
	r.GateNontrivial(int64(r.N(300, 30000)))
	r.Gate("generated:error_free", int64(r.N(2000, 200000)))
	r.Gate("feature:requirement-enabled-by-extra-from-cycle:length-1", int64(r.N(40, 4000)))
	r.Gate("feature:requirement-enabled-by-extra-from-cycle:length-2", int64(r.N(40, 4000)))
	for _, f := range []string{"extras-requested", "marker-plain-true", "marker-plain-false", "marker-extra-true", "marker-extra-false", "cycle-through-root", "prerelease-selected:named", "abandoned-candidate"} {
		r.Gate("feature:"+f, int64(r.N(20, 2000)))
	}
	r.Gate("templates_kept", 12)
}
