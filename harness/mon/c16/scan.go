package c16

import "strings"

// operand of a marker atom.
type operand struct {
	Var  bool   // variable name (else quoted literal)
	Text string // name or literal content
}

type atom struct {
	L, R       operand
	Op         string // ==, !=, <, <=, >, >=, ~=, ===, in, not in
	Start, End int    // byte offsets of the atom in the marker text
}

type token struct {
	kind       byte // 'q' quoted, 'i' identifier, 'o' operator, '(' , ')'
	text       string
	start, end int
}

func tokenize(m string) ([]token, bool) {
	var ts []token
	for i := 0; i < len(m); {
		c := m[i]
		switch {
		case c == ' ' || c == '\t':
			i++
		case c == '(' || c == ')':
			ts = append(ts, token{kind: c, start: i, end: i + 1})
			i++
		case c == '\'' || c == '"':
			j := strings.IndexByte(m[i+1:], c)
			if j < 0 {
				return nil, false
			}
			ts = append(ts, token{kind: 'q', text: m[i+1 : i+1+j], start: i, end: i + j + 2})
			i += j + 2
		case c >= 'a' && c <= 'z' || c == '_':
			j := i
			for j < len(m) && (m[j] >= 'a' && m[j] <= 'z' || m[j] == '_') {
				j++
			}
			ts = append(ts, token{kind: 'i', text: m[i:j], start: i, end: j})
			i = j
		default:
			matched := false
			for _, op := range []string{"===", "==", "!=", "<=", ">=", "~=", "<", ">"} {
				if strings.HasPrefix(m[i:], op) {
					ts = append(ts, token{kind: 'o', text: op, start: i, end: i + len(op)})
					i += len(op)
					matched = true
					break
				}
			}
			if !matched {
				return nil, false
			}
		}
	}
	return ts, true
}

func isVarName(s string) bool {
	if s == "extra" {
		return true
	}
	for _, v := range variables {
		if v == s {
			return true
		}
	}
	return false
}

// scanAtoms extracts the comparison atoms of a marker, left to right, and the
// maximal parenthesis depth. ok is false when the text does not have the
// shape operand op operand joined by and/or/parentheses.
func scanAtoms(m string) (atoms []atom, depth int, ok bool) {
	ts, ok := tokenize(m)
	if !ok {
		return nil, 0, false
	}
	operandAt := func(i int) (operand, bool) {
		if i >= len(ts) {
			return operand{}, false
		}
		switch ts[i].kind {
		case 'q':
			return operand{Text: ts[i].text}, true
		case 'i':
			if isVarName(ts[i].text) {
				return operand{Var: true, Text: ts[i].text}, true
			}
		}
		return operand{}, false
	}
	cur := 0
	for i := 0; i < len(ts); {
		switch ts[i].kind {
		case '(':
			cur++
			if cur > depth {
				depth = cur
			}
			i++
			continue
		case ')':
			cur--
			if cur < 0 {
				return nil, 0, false
			}
			i++
			continue
		case 'i':
			if ts[i].text == "and" || ts[i].text == "or" {
				i++
				continue
			}
		}
		l, ok := operandAt(i)
		if !ok {
			return nil, 0, false
		}
		start := ts[i].start
		i++
		if i >= len(ts) {
			return nil, 0, false
		}
		var op string
		switch {
		case ts[i].kind == 'o':
			op = ts[i].text
			i++
		case ts[i].kind == 'i' && ts[i].text == "in":
			op = "in"
			i++
		case ts[i].kind == 'i' && ts[i].text == "not" && i+1 < len(ts) && ts[i+1].kind == 'i' && ts[i+1].text == "in":
			op = "not in"
			i += 2
		default:
			return nil, 0, false
		}
		r, ok := operandAt(i)
		if !ok {
			return nil, 0, false
		}
		atoms = append(atoms, atom{L: l, R: r, Op: op, Start: start, End: ts[i].end})
		i++
	}
	if cur != 0 || len(atoms) == 0 {
		return nil, 0, false
	}
	return atoms, depth, true
}
