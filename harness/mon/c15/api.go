package c15

import (
	"context"
	"fmt"
	"strings"

	"google.golang.org/grpc"
	"google.golang.org/grpc/codes"
	"google.golang.org/grpc/status"

	pb "deps.dev/api/v3"
	"deps.dev/util/resolve"
)

// The API pass. resolve.APIClient holds a second implementation of the
// pipeline (mavenRequirements, fetchMavenParents, mavenRequirementsToProject in
// util/resolve/maven.go): it takes the POM contents from GetRequirements
// responses instead of pom.xml files, activates default profiles only (JDK ""
// and a blank OS), merges parents, imports BOMs and returns the project's
// dependency list as requirements. The pass serves the lineage's POMs from an
// in-process pb.InsightsClient, calls APIClient.Requirements for the project
// and compares the answer with Maven's dependency list.
//
// Domain. The entry point cannot be told a JDK or an OS, so a lineage is in the
// pass's domain only when no profile of any of its POMs has a <jdk> or <os>
// activation (profiles with activeByDefault true/false/absent, or no profiles):
// Maven's answer then does not depend on JDK or OS either. Booleans must be
// spelled "", "true" or "false" (the XML decoder folds case, a response field
// is taken as it is, and what the service sends for "TRUE" is not known).
//
// Attribution. A lineage is compared only when Maven accepted it and the main
// comparison (the pipeline on files) found no difference at all, so that a
// disagreement here can only come from the APIClient path; lineages whose main
// difference is attributed to a known shape never reach this pass.
//
// Only the dependency list is compared: the entry point does not return
// managed dependencies. Every field of a row survives the journey through
// dep.Type (MavenDepType / MavenDepTypeToDependency) up to the normal form of
// normalise: scope "compile" and type "jar" come back as "", optional "false"
// comes back as "", all three of which normalise maps to the same row; the
// exclusions are carried as "g:a|g:a" in order. No field is left out.

// apiOutOfDomain says why the lineage is outside the pass's domain ("" = in).
func apiOutOfDomain(l *Lineage) string {
	boolean := func(s string) bool { return s == "" || s == "true" || s == "false" }
	why := ""
	forProfiles(l, func(pr *Profile) {
		switch {
		case pr.JDK != "" || pr.OS != nil:
			why = "jdk-or-os-activation"
		case !boolean(pr.Default) && why == "":
			why = "boolean-spelling"
		}
	})
	if why != "" {
		return why
	}
	forSections(l, func(list *[]Dep) {
		for _, d := range *list {
			if !boolean(d.Optional) {
				why = "boolean-spelling"
			}
		}
	})
	return why
}

// ---------------------------------------------------------------- the fake service

func pbName(g, a string) string { return g + ":" + a }

func pbDependencies(ds []Dep) []*pb.Requirements_Maven_Dependency {
	var out []*pb.Requirements_Maven_Dependency
	for _, d := range ds {
		x := &pb.Requirements_Maven_Dependency{
			Name:       pbName(d.G, d.A),
			Version:    d.V,
			Classifier: d.Classifier,
			Type:       d.Type,
			Scope:      d.Scope,
			Optional:   d.Optional,
		}
		for _, e := range d.Excl {
			x.Exclusions = append(x.Exclusions, pbName(e[0], e[1]))
		}
		out = append(out, x)
	}
	return out
}

func pbProperties(kvs [][2]string) []*pb.Requirements_Maven_Property {
	var out []*pb.Requirements_Maven_Property
	for _, kv := range kvs {
		out = append(out, &pb.Requirements_Maven_Property{Name: kv[0], Value: kv[1]})
	}
	return out
}

// pbRequirements is the GetRequirements response for one POM: exactly the
// fields that mavenRequirementsToProject reads (no repositories are generated).
func pbRequirements(p *Pom) *pb.Requirements {
	m := &pb.Requirements_Maven{
		Dependencies:         pbDependencies(p.Deps),
		DependencyManagement: pbDependencies(p.Mgmt),
		Properties:           pbProperties(p.Props),
	}
	if p.Parent != nil {
		m.Parent = &pb.VersionKey{System: pb.System_MAVEN, Name: pbName(p.Parent[0], p.Parent[1]), Version: p.Parent[2]}
	}
	for i := range p.Profiles {
		pr := &p.Profiles[i]
		// A profile without <activation> has no activation message (the
		// natural proto3 encoding of an absent element). Only in-domain
		// lineages are served: no JDK, no OS.
		var act *pb.Requirements_Maven_Profile_Activation
		if pr.Default != "" {
			act = &pb.Requirements_Maven_Profile_Activation{ActiveByDefault: pr.Default}
		}
		m.Profiles = append(m.Profiles, &pb.Requirements_Maven_Profile{
			Id:                   pr.ID,
			Activation:           act,
			Dependencies:         pbDependencies(pr.Deps),
			DependencyManagement: pbDependencies(pr.Mgmt),
			Properties:           pbProperties(pr.Props),
		})
	}
	return &pb.Requirements{Maven: m}
}

// apiCallBudget bounds the GetRequirements calls of one Requirements call (a
// count, not a clock). A generated lineage needs at most a few dozen.
const apiCallBudget = 5000

// fakeInsights serves one lineage: GetRequirements by (MAVEN, "g:a", version).
type fakeInsights struct {
	poms  map[[2]string]*Pom
	calls int64
}

func newFakeInsights(l *Lineage) *fakeInsights {
	f := &fakeInsights{poms: map[[2]string]*Pom{}}
	for i := range l.Poms {
		p := &l.Poms[i]
		f.poms[[2]string{pbName(p.Dir[0], p.Dir[1]), p.Dir[2]}] = p
	}
	return f
}

func (f *fakeInsights) GetRequirements(_ context.Context, in *pb.GetRequirementsRequest, _ ...grpc.CallOption) (*pb.Requirements, error) {
	f.calls++
	if f.calls > apiCallBudget {
		return nil, status.Error(codes.ResourceExhausted, "call budget of the fake service exhausted")
	}
	k := in.GetVersionKey()
	p := f.poms[[2]string{k.GetName(), k.GetVersion()}]
	if p == nil || k.GetSystem() != pb.System_MAVEN {
		return nil, status.Error(codes.NotFound, "version not found")
	}
	// A fresh message per call, as a connection would deliver.
	return pbRequirements(p), nil
}

func unimplemented(m string) error {
	return status.Error(codes.Unimplemented, "method "+m+" not implemented by the fake service")
}

func (f *fakeInsights) GetPackage(context.Context, *pb.GetPackageRequest, ...grpc.CallOption) (*pb.Package, error) {
	return nil, unimplemented("GetPackage")
}
func (f *fakeInsights) GetVersion(context.Context, *pb.GetVersionRequest, ...grpc.CallOption) (*pb.Version, error) {
	return nil, unimplemented("GetVersion")
}
func (f *fakeInsights) GetDependencies(context.Context, *pb.GetDependenciesRequest, ...grpc.CallOption) (*pb.Dependencies, error) {
	return nil, unimplemented("GetDependencies")
}
func (f *fakeInsights) GetProject(context.Context, *pb.GetProjectRequest, ...grpc.CallOption) (*pb.Project, error) {
	return nil, unimplemented("GetProject")
}
func (f *fakeInsights) GetProjectPackageVersions(context.Context, *pb.GetProjectPackageVersionsRequest, ...grpc.CallOption) (*pb.ProjectPackageVersions, error) {
	return nil, unimplemented("GetProjectPackageVersions")
}
func (f *fakeInsights) GetAdvisory(context.Context, *pb.GetAdvisoryRequest, ...grpc.CallOption) (*pb.Advisory, error) {
	return nil, unimplemented("GetAdvisory")
}
func (f *fakeInsights) Query(context.Context, *pb.QueryRequest, ...grpc.CallOption) (*pb.QueryResult, error) {
	return nil, unimplemented("Query")
}

var _ pb.InsightsClient = (*fakeInsights)(nil)

// ---------------------------------------------------------------- the call

// apiRequirements asks resolve.APIClient for the requirements of the lineage's
// project (Poms[0]) and converts them into rows.
func apiRequirements(l *Lineage) (rows []Row, calls int64, stage string, err error) {
	f := newFakeInsights(l)
	defer func() {
		calls = f.calls
		if p := recover(); p != nil {
			rows, stage, err = nil, "panic", fmt.Errorf("panic: %v", p)
		}
	}()
	root := &l.Poms[0]
	vk := resolve.VersionKey{
		PackageKey:  resolve.PackageKey{System: resolve.Maven, Name: pbName(root.Dir[0], root.Dir[1])},
		VersionType: resolve.Concrete,
		Version:     root.Dir[2],
	}
	reqs, err := resolve.NewAPIClient(f).Requirements(context.Background(), vk)
	if err != nil {
		return nil, 0, "error", err
	}
	rows = make([]Row, 0, len(reqs))
	for _, rv := range reqs {
		if rv.System != resolve.Maven || rv.VersionType != resolve.Requirement {
			return nil, 0, "shape", fmt.Errorf("requirement %v is not a Maven requirement", rv.VersionKey)
		}
		g, a, ok := strings.Cut(rv.Name, ":")
		if !ok {
			return nil, 0, "shape", fmt.Errorf("requirement name %q is not group:artifact", rv.Name)
		}
		d, origin, err := resolve.MavenDepTypeToDependency(rv.Type)
		if err != nil {
			return nil, 0, "shape", fmt.Errorf("requirement %s: dep.Type %v: %v", rv.Name, rv.Type, err)
		}
		if origin != "" {
			return nil, 0, "shape", fmt.Errorf("requirement %s: a direct dependency carries the origin %q", rv.Name, origin)
		}
		var ex [][2]string
		for _, e := range d.Exclusions {
			ex = append(ex, [2]string{string(e.GroupID), string(e.ArtifactID)})
		}
		rows = append(rows, normalise([7]string{g, a, rv.Version, string(d.Type), string(d.Classifier), string(d.Scope), string(d.Optional)}, ex, false))
	}
	return rows, 0, "", nil
}

// apiPass runs the pass on one lineage whose main verdict is clean (Maven
// accepted it, the pipeline on files agrees with Maven in both lists and over
// the cache). generated = false for witnesses and replays.
func (m *monitor) apiPass(l *Lineage, o outcome, generated bool) {
	r := m.r
	tag := func(name string) {
		if generated {
			r.Count(name, 1)
		}
	}
	if why := apiOutOfDomain(l); why != "" {
		tag("api_pass:out_of_domain")
		tag("api_pass:out_of_domain:" + why)
		return
	}
	rows, calls, stage, err := apiRequirements(l)
	r.Count("api_pass:requirements_calls", calls)
	r.Eval(1)
	if generated {
		r.Count("api_pass:compared", 1)
		r.Count("api_pass:rows", int64(len(o.Ref.Deps)))
		if l.Poms[0].Parent != nil {
			r.Count("api_pass:root_has_parent", 1)
		}
		imports, active := false, false
		forSectionsOf(l, false, true, func(list *[]Dep) {
			for _, d := range *list {
				imports = imports || d.Scope == "import"
			}
		})
		forProfiles(l, func(pr *Profile) { active = active || pr.Default == "true" })
		if imports {
			r.Count("api_pass:imports_bom", 1)
		}
		if active {
			r.Count("api_pass:default_profile", 1)
		}
	} else {
		r.Count("api_pass:compared_witnesses", 1)
	}
	const preamble = "the effective POM computed from the pom.xml files (util/maven pipeline) agrees with Maven's in both lists, resolve.APIClient.Requirements on the same POMs served as GetRequirements responses does not: "
	cs := mkCase(l, o)
	if err != nil {
		cs.Note = "API pass: APIClient.Requirements failed"
		r.Violation("C15:api-client:"+stage, preamble+err.Error(), cs)
		return
	}
	class, what := diffRows("dep-list", rows, o.Ref.Deps)
	if class == "" {
		tag("api_pass:agree")
		return
	}
	kind := class[strings.LastIndex(class, ":")+1:]
	relabel := strings.NewReplacer("the library", "APIClient.Requirements", "library", "APIClient.Requirements", "dep-list", "dependencies")
	cs.API = rowStrings(rows, nil)
	cs.Note = "API pass: the rows under api_client are APIClient.Requirements' answer"
	r.Violation("C15:api-client:"+kind, preamble+relabel.Replace(what), cs)
}
