package c13

import (
	"encoding/hex"
	"fmt"
	"strings"

	"deps.dev/util/resolve"
	"deps.dev/util/resolve/dep"
)

// The harness' own description of a rooted graph. Node 0 is the root. It is
// what is generated, shrunk, stored in replay files and witnesses; a
// resolve.Graph is built from it freshly for every call of Canon so that no
// two calls ever share storage.

type NodeErr struct {
	Name string `json:"name"` // package of the failed requirement ("hex:…" = these bytes, for names that are not valid UTF-8)
	Ver  string `json:"ver"`  // requirement string
	Msg  string `json:"msg"`
	// Concrete makes the key of the failed requirement a Concrete one (the
	// usual kind is Requirement): same package and text, another VersionType.
	Concrete bool `json:"concrete,omitempty"`
}

// rawName decodes the "hex:" spelling of a name.
func rawName(n string) string {
	if h, ok := strings.CutPrefix(n, "hex:"); ok {
		if b, err := hex.DecodeString(h); err == nil {
			return string(b)
		}
	}
	return n
}

type Node struct {
	Name string    `json:"name"`
	Ver  string    `json:"ver"`
	Errs []NodeErr `json:"errs,omitempty"`
}

type Edge struct {
	From int    `json:"from"`
	To   int    `json:"to"`
	Req  string `json:"req"`
	Type string `json:"type"` // a name of the type alphabet, see typeNames
}

type Graph struct {
	Nodes []Node `json:"nodes"`
	Edges []Edge `json:"edges"`
}

// Relabel describes G' = relabel(G): node i of G becomes node Perm[i] of G'
// (Perm[0] = 0), the edge list of G' is G's edge list taken in EdgeOrder, the
// error list of node i is taken in ErrOrder[i]. Reverse is a shorthand for
// "edge list and every error list reversed" (EdgeOrder/ErrOrder then unused).
type Relabel struct {
	Perm      []int   `json:"perm"`
	Reverse   bool    `json:"reverse,omitempty"`
	EdgeOrder []int   `json:"edge_order,omitempty"`
	ErrOrder  [][]int `json:"err_order,omitempty"`
}

type Case struct {
	G    Graph   `json:"g"`
	Rel  Relabel `json:"rel"`
	Note string  `json:"note,omitempty"`
}

// The dependency-type alphabet. Names are what Edge.Type holds.
var typeNames = []string{"reg", "dev", "opt", "test", "dev|opt", "scope=peer", "scope=bundle", "opt|knownas=z",
	"scope=bundle|knownas=a", "scope=bundle|knownas=b", "scope=peer|knownas=a", "dev|scope=bundle|knownas=b"}

// siblingTypes are pairs of types with the same attribute keys that differ in
// the value of one attribute only, and not the lowest-keyed one.
var siblingTypes = [][2]string{
	{"scope=bundle|knownas=a", "scope=bundle|knownas=b"},
	{"scope=bundle|knownas=a", "scope=peer|knownas=a"},
	{"scope=bundle|knownas=b", "dev|scope=bundle|knownas=b"},
}

var (
	typeVals  []dep.Type
	typeIndex = map[string]int{}
	typeStrs  []string // dep.Type.String() at start-up, to detect a mutated alphabet
)

func init() {
	for i, n := range typeNames {
		var t dep.Type
		for _, tok := range strings.Split(n, "|") {
			switch {
			case tok == "reg":
			case tok == "dev":
				t.AddAttr(dep.Dev, "")
			case tok == "opt":
				t.AddAttr(dep.Opt, "")
			case tok == "test":
				t.AddAttr(dep.Test, "")
			case strings.HasPrefix(tok, "scope="):
				t.AddAttr(dep.Scope, tok[len("scope="):])
			case strings.HasPrefix(tok, "knownas="):
				t.AddAttr(dep.KnownAs, tok[len("knownas="):])
			default:
				panic("c13: bad type name " + n)
			}
		}
		typeVals = append(typeVals, t)
		typeIndex[n] = i
		typeStrs = append(typeStrs, t.String())
	}
}

// typeID identifies a dep.Type of a canonicalised graph in the alphabet by
// reading its attributes one by one (not by dep.Type.Compare, which is what
// Canon itself orders edges with); -1 when it is none of them.
func typeID(t dep.Type) int {
	sig := func(t dep.Type) string {
		s := ""
		for _, k := range []dep.AttrKey{dep.Dev, dep.Opt, dep.Test} {
			if t.HasAttr(k) {
				s += "1"
			} else {
				s += "0"
			}
		}
		for _, k := range []dep.AttrKey{dep.Scope, dep.KnownAs} {
			v, ok := t.GetAttr(k)
			s += fmt.Sprintf("|%v:%q", ok, v)
		}
		for _, k := range []dep.AttrKey{dep.XTest, dep.Framework, dep.MavenClassifier, dep.MavenArtifactType, dep.MavenDependencyOrigin, dep.MavenExclusions, dep.EnabledDependencies, dep.Environment, dep.Selector} {
			if t.HasAttr(k) {
				return "foreign"
			}
		}
		return s
	}
	want := sig(t)
	for i := range typeVals {
		if sig(typeVals[i]) == want {
			return i
		}
	}
	return -1
}

func nodeKey(n *Node) resolve.VersionKey {
	return resolve.VersionKey{
		PackageKey:  resolve.PackageKey{System: resolve.NPM, Name: n.Name},
		VersionType: resolve.Concrete,
		Version:     n.Ver,
	}
}

func errKey(e *NodeErr) resolve.VersionKey {
	vt := resolve.Requirement
	if e.Concrete {
		vt = resolve.Concrete
	}
	return resolve.VersionKey{
		PackageKey:  resolve.PackageKey{System: resolve.NPM, Name: rawName(e.Name)},
		VersionType: vt,
		Version:     e.Ver,
	}
}

// validate checks a stored case (replay / witness files are external input).
func (c *Case) validate() error {
	n := len(c.G.Nodes)
	if n == 0 {
		return fmt.Errorf("graph without root")
	}
	for _, e := range c.G.Edges {
		if e.From < 0 || e.From >= n || e.To < 0 || e.To >= n {
			return fmt.Errorf("edge %v out of range", e)
		}
		if _, ok := typeIndex[e.Type]; !ok {
			return fmt.Errorf("edge type %q not in alphabet", e.Type)
		}
	}
	isPerm := func(p []int, n int) bool {
		if len(p) != n {
			return false
		}
		seen := make([]bool, n)
		for _, x := range p {
			if x < 0 || x >= n || seen[x] {
				return false
			}
			seen[x] = true
		}
		return true
	}
	if !isPerm(c.Rel.Perm, n) || c.Rel.Perm[0] != 0 {
		return fmt.Errorf("perm %v is not a permutation fixing the root", c.Rel.Perm)
	}
	if !c.Rel.Reverse {
		if !isPerm(c.Rel.EdgeOrder, len(c.G.Edges)) {
			return fmt.Errorf("edge_order is not a permutation of the edge list")
		}
		if len(c.Rel.ErrOrder) != n {
			return fmt.Errorf("err_order has %d entries for %d nodes", len(c.Rel.ErrOrder), n)
		}
		for i := range c.G.Nodes {
			if !isPerm(c.Rel.ErrOrder[i], len(c.G.Nodes[i].Errs)) {
				return fmt.Errorf("err_order[%d] is not a permutation", i)
			}
		}
	}
	return nil
}

// build makes a fresh resolve.Graph through the public API. rel == nil builds
// G itself; otherwise relabel(G).
func build(s *Graph, rel *Relabel) *resolve.Graph {
	n := len(s.Nodes)
	g := &resolve.Graph{
		Nodes: make([]resolve.Node, 0, n),
		Edges: make([]resolve.Edge, 0, len(s.Edges)),
	}
	var invBuf [48]int
	inv := invBuf[:0]
	if n > len(invBuf) {
		inv = make([]int, 0, n)
	}
	inv = inv[:n]
	if rel == nil {
		for i := range inv {
			inv[i] = i
		}
	} else {
		for old, nw := range rel.Perm {
			inv[nw] = old
		}
	}
	for nw := 0; nw < n; nw++ {
		old := inv[nw]
		sn := &s.Nodes[old]
		id := g.AddNode(nodeKey(sn))
		if int(id) != nw {
			panic(fmt.Sprintf("AddNode returned id %d for the %d-th node", id, nw))
		}
		ne := len(sn.Errs)
		for k := 0; k < ne; k++ {
			j := k
			if rel != nil {
				if rel.Reverse {
					j = ne - 1 - k
				} else {
					j = rel.ErrOrder[old][k]
				}
			}
			e := &sn.Errs[j]
			if err := g.AddError(id, errKey(e), e.Msg); err != nil {
				panic("AddError: " + err.Error())
			}
		}
	}
	m := len(s.Edges)
	for k := 0; k < m; k++ {
		j := k
		if rel != nil {
			if rel.Reverse {
				j = m - 1 - k
			} else {
				j = rel.EdgeOrder[k]
			}
		}
		e := &s.Edges[j]
		from, to := e.From, e.To
		if rel != nil {
			from, to = rel.Perm[from], rel.Perm[to]
		}
		if err := g.AddEdge(resolve.NodeID(from), resolve.NodeID(to), e.Req, typeVals[typeIndex[e.Type]]); err != nil {
			panic("AddEdge: " + err.Error())
		}
	}
	return g
}

// ---- label-independent fingerprint (root, multiset of nodes with their
// error multisets, multiset of edges with end nodes, requirement and type).
// Equal multisets give equal fingerprints by construction (commutative sums of
// 64-bit mixes), so a fingerprint mismatch proves a multiset mismatch; the
// converse fails only on a 64-bit collision (a missed alarm, never a false one).

type fingerprint struct {
	root         uint64
	nodes, edges uint64
	nn, ne       int
}

func mix(x uint64) uint64 {
	x += 0x9e3779b97f4a7c15
	x = (x ^ (x >> 30)) * 0xbf58476d1ce4e5b9
	x = (x ^ (x >> 27)) * 0x94d049bb133111eb
	return x ^ (x >> 31)
}

func hstr(h uint64, s string) uint64 {
	for i := 0; i < len(s); i++ {
		h = (h ^ uint64(s[i])) * 0x100000001b3
	}
	return (h ^ 0xff) * 0x100000001b3
}

func hashVK(sys uint64, name string, vt uint64, ver string) uint64 {
	h := uint64(0xcbf29ce484222325)
	h = (h ^ sys) * 0x100000001b3
	h = hstr(h, name)
	h = (h ^ vt) * 0x100000001b3
	return hstr(h, ver)
}

func hashErr(vk uint64, msg string) uint64 { return mix(hstr(mix(vk), msg)) }

func hashNode(vk, errSum uint64, nerr int) uint64 {
	return mix(mix(vk) ^ mix(errSum+uint64(nerr)))
}

func hashEdge(from, to uint64, req string, tid int) uint64 {
	h := mix(from)
	h = mix(h ^ to)
	h = hstr(h, req)
	return mix(h ^ uint64(tid+1))
}

// fpSpec computes the fingerprint of the harness' description.
func fpSpec(s *Graph, nh []uint64) fingerprint {
	var f fingerprint
	f.nn, f.ne = len(s.Nodes), len(s.Edges)
	for i := range s.Nodes {
		n := &s.Nodes[i]
		var es uint64
		for j := range n.Errs {
			e := &n.Errs[j]
			k := errKey(e)
			es += hashErr(hashVK(uint64(k.System), k.Name, uint64(k.VersionType), k.Version), e.Msg)
		}
		nh[i] = hashNode(hashVK(uint64(resolve.NPM), n.Name, uint64(resolve.Concrete), n.Ver), es, len(n.Errs))
		f.nodes += mix(nh[i])
	}
	f.root = nh[0]
	for i := range s.Edges {
		e := &s.Edges[i]
		f.edges += hashEdge(nh[e.From], nh[e.To], e.Req, typeIndex[e.Type])
	}
	return f
}

// fpGraph computes the same fingerprint from a resolve.Graph as returned by
// the code under test. ok is false when the graph is not even well formed
// (edge end out of range, no nodes).
func fpGraph(g *resolve.Graph, nh []uint64) (f fingerprint, ok bool) {
	f.nn, f.ne = len(g.Nodes), len(g.Edges)
	if len(g.Nodes) == 0 || len(g.Nodes) > len(nh) {
		return f, false
	}
	for i := range g.Nodes {
		n := &g.Nodes[i]
		var es uint64
		for j := range n.Errors {
			e := &n.Errors[j]
			es += hashErr(hashVK(uint64(e.Req.System), e.Req.Name, uint64(e.Req.VersionType), e.Req.Version), e.Error)
		}
		nh[i] = hashNode(hashVK(uint64(n.Version.System), n.Version.Name, uint64(n.Version.VersionType), n.Version.Version), es, len(n.Errors))
		f.nodes += mix(nh[i])
	}
	f.root = nh[0]
	for i := range g.Edges {
		e := &g.Edges[i]
		if e.From < 0 || int(e.From) >= len(g.Nodes) || e.To < 0 || int(e.To) >= len(g.Nodes) {
			return f, false
		}
		f.edges += hashEdge(nh[e.From], nh[e.To], e.Requirement, typeID(e.Type))
	}
	return f, true
}

// sameGraph is the deep comparison of two canonical forms: nodes in order with
// version and errors, edges in order with from/to/requirement and type
// (identified attribute by attribute, see typeID).
func sameGraph(a, b *resolve.Graph) bool {
	if len(a.Nodes) != len(b.Nodes) || len(a.Edges) != len(b.Edges) {
		return false
	}
	for i := range a.Nodes {
		x, y := &a.Nodes[i], &b.Nodes[i]
		if x.Version != y.Version || len(x.Errors) != len(y.Errors) {
			return false
		}
		for j := range x.Errors {
			if x.Errors[j] != y.Errors[j] {
				return false
			}
		}
	}
	for i := range a.Edges {
		x, y := &a.Edges[i], &b.Edges[i]
		if x.From != y.From || x.To != y.To || x.Requirement != y.Requirement || typeID(x.Type) != typeID(y.Type) {
			return false
		}
	}
	return a.Error == b.Error
}

// snapshot deep-copies nodes (with errors) and edges.
func snapshot(g *resolve.Graph) *resolve.Graph {
	c := &resolve.Graph{
		Nodes: make([]resolve.Node, len(g.Nodes)),
		Edges: make([]resolve.Edge, len(g.Edges)),
		Error: g.Error,
	}
	for i, n := range g.Nodes {
		c.Nodes[i].Version = n.Version
		if n.Errors != nil {
			c.Nodes[i].Errors = append([]resolve.NodeError(nil), n.Errors...)
		}
	}
	copy(c.Edges, g.Edges)
	return c
}

// render prints a resolve.Graph compactly for violation messages.
func render(g *resolve.Graph) string {
	var b strings.Builder
	for i, n := range g.Nodes {
		if i > 0 {
			b.WriteString(" ")
		}
		fmt.Fprintf(&b, "%d:%s@%s", i, n.Version.Name, n.Version.Version)
		for _, e := range n.Errors {
			fmt.Fprintf(&b, "!%s@%s:%s", e.Req.Name, e.Req.Version, e.Error)
		}
	}
	b.WriteString(" |")
	for _, e := range g.Edges {
		fmt.Fprintf(&b, " %d>%d[%s,%s]", e.From, e.To, e.Requirement, e.Type)
	}
	return b.String()
}
