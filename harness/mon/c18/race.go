package c18

import (
	"context"
	"encoding/json"
	"fmt"
	"os"
	"os/exec"
	"path/filepath"
	"sort"
	"strings"
	"time"

	"verif/harness/ev"
)

// The concurrent sub-workload runs in a child process built with -race: the
// registered binary is not a -race build, and a report (or a runtime fatal
// error such as "concurrent map writes") must not take the monitor down.

const (
	raceMarker = "C18-RACE-CHILD"
	raceEnv    = "C18_RACE_ONLY"
)

// concSizes gives scenarios per goroutine count and repetitions per scenario.
func concSizes(r *ev.Run) (scenarios, reps int) { return r.N(72, 800), r.N(3, 4) }

// childMain is Run in the child: concurrent sub-workload only, no evidence.
func childMain(r *ev.Run) {
	st := newConcStats()
	sc, reps := concSizes(r)
	concurrentWorkload(r.Rand("conc"), sc, reps, st)
	b, _ := json.Marshal(st)
	fmt.Printf("%s result %s\n", raceMarker, b)
	fmt.Printf("%s done race_build=%v\n", raceMarker, raceEnabled)
	os.Exit(0)
}

func findRaceBinary() string {
	if raceEnabled {
		if exe, err := os.Executable(); err == nil {
			return exe
		}
	}
	b := os.Getenv("VERIF_BUILD")
	if b == "" {
		return ""
	}
	cands := []string{"vcheck-race", "dev18-race"}
	if strings.HasPrefix(filepath.Base(os.Args[0]), "dev18") {
		cands = []string{"dev18-race", "vcheck-race"}
	}
	for _, c := range cands {
		p := filepath.Join(b, c)
		if st, err := os.Stat(p); err == nil && !st.IsDir() && staleRaceBinary(p) == "" {
			return p
		}
	}
	return ""
}

// staleRaceBinary guards against a -race binary built from another state of
// the code under test or of this monitor (./check dev does not rebuild it): it
// must not be older than any source file it exercises. File metadata only; when
// in doubt the race build is not trusted and the sub-workload counts as skipped.
func staleRaceBinary(bin string) string {
	if raceEnabled {
		return "" // we are that binary
	}
	st, err := os.Stat(bin)
	if err != nil {
		return err.Error()
	}
	repo := os.Getenv("VERIF_REPO")
	if repo == "" {
		repo = "/repo"
	}
	dirs := []string{
		filepath.Join(repo, "util/resolve"), filepath.Join(repo, "util/resolve/npm"), filepath.Join(repo, "util/resolve/dep"),
		filepath.Join(repo, "util/resolve/version"), filepath.Join(repo, "util/resolve/internal/attr"), filepath.Join(repo, "api/v3"),
		filepath.Join(ev.Root, "harness/mon/c18"), filepath.Join(ev.Root, "harness/mon/c06"), filepath.Join(ev.Root, "harness/uni"),
	}
	for _, d := range dirs {
		files, _ := filepath.Glob(filepath.Join(d, "*.go"))
		for _, f := range files {
			if fs, err := os.Stat(f); err == nil && fs.ModTime().After(st.ModTime()) {
				return fmt.Sprintf("%s is older than %s (built from another state of the tree); rebuild it with ./check devrace 18 or ./check setup", bin, f)
			}
		}
	}
	return ""
}

// raceBlock is one report of the race runtime.
type raceBlock struct {
	text    string
	lib     []string // function frames in deps.dev/...
	harness int      // function frames in verif/harness/...
}

func parseRaceLogs(dir string) []raceBlock {
	files, _ := filepath.Glob(filepath.Join(dir, "race.*"))
	sort.Strings(files)
	var out []raceBlock
	for _, f := range files {
		b, err := os.ReadFile(f)
		if err != nil {
			continue
		}
		var cur *raceBlock
		flush := func() {
			if cur != nil {
				out = append(out, *cur)
				cur = nil
			}
		}
		for _, line := range strings.Split(string(b), "\n") {
			t := strings.TrimSpace(line)
			if strings.HasPrefix(t, "WARNING: DATA RACE") {
				flush()
				cur = &raceBlock{}
			}
			if cur == nil {
				continue
			}
			if strings.HasPrefix(t, "==================") {
				flush()
				continue
			}
			cur.text += line + "\n"
			if strings.HasSuffix(t, ")") && !strings.HasPrefix(t, "/") {
				switch {
				case strings.HasPrefix(t, "deps.dev/"):
					fn := t
					if i := strings.LastIndex(fn, "("); i > 0 {
						fn = fn[:i]
					}
					cur.lib = append(cur.lib, fn)
				case strings.HasPrefix(t, "verif/harness/"):
					cur.harness++
				}
			}
		}
		flush()
	}
	return out
}

// fold moves what a concurrent workload observed into the run record.
func fold(r *ev.Run, st *concStats) { foldAs(r, st, "") }

// foldAs is fold with a prefix on the counter names (witness runs are kept
// apart from the generated workload: some counters are set sizes and maxima).
func foldAs(r *ev.Run, st *concStats, prefix string) {
	keys := make([]string, 0, len(st.Counts))
	for k := range st.Counts {
		keys = append(keys, k)
	}
	sort.Strings(keys)
	for _, k := range keys {
		r.Count(prefix+k, st.Counts[k])
	}
	r.Eval(st.Counts["conc:value-checks"] + st.Counts["conc:histories-checked"])
	for _, v := range st.Violations {
		r.Violation("C18:"+v.Class, v.What, v.Case)
	}
	for _, s := range st.Inconclusive {
		r.Inconclusive(s)
	}
	if prefix == "" {
		for _, s := range st.Samples {
			r.Sample(map[string]any{"concurrent_history": s})
		}
	}
}

// inProcess runs sub-monitor (d) in this process: value and history checks,
// no race detector.
func inProcess(r *ev.Run, why string) {
	r.Count("race_subworkload_skipped", 1)
	r.Set("race_subworkload", "skipped: "+why+"; the concurrent workload ran in this process without the race detector")
	st := newConcStats()
	sc, reps := concSizes(r)
	concurrentWorkload(r.Rand("conc"), sc, reps, st)
	fold(r, st)
}

// runConcurrentPart runs sub-monitor (d) in the -race child. It returns a
// reason when there is no usable child; the caller then runs it in process.
func runConcurrentPart(r *ev.Run) (fallback string) {
	bin := findRaceBinary()
	if bin == "" {
		return "no usable -race binary ($VERIF_BUILD/vcheck-race or dev18-race missing or older than the sources)"
	}
	args := []string{r.Tier}
	if strings.HasPrefix(filepath.Base(bin), "vcheck") {
		args = []string{"C18", r.Tier}
	}
	base := os.Getenv("VERIF_BUILD")
	if base == "" {
		base = filepath.Join(ev.Root, "build")
	}
	dir := filepath.Join(base, "race", fmt.Sprintf("C18-%d-%d", r.Seed, os.Getpid()))
	os.RemoveAll(dir)
	if err := os.MkdirAll(dir, 0o755); err != nil {
		r.Inconclusive("race log dir: " + err.Error())
		return ""
	}
	defer os.RemoveAll(dir)
	// Outer watchdog only; its firing is inconclusive.
	ctx, cancel := context.WithTimeout(context.Background(), time.Duration(r.N(10, 45))*time.Minute)
	defer cancel()
	cmd := exec.CommandContext(ctx, bin, args...)
	for _, e := range os.Environ() {
		if strings.HasPrefix(e, "GORACE=") || strings.HasPrefix(e, raceEnv+"=") {
			continue
		}
		cmd.Env = append(cmd.Env, e)
	}
	cmd.Env = append(cmd.Env, raceEnv+"=1",
		"GORACE=halt_on_error=0 log_path="+filepath.Join(dir, "race"),
		fmt.Sprintf("VERIF_SEED=%d", r.Seed), "VERIF_TIER="+r.Tier)
	out, err := cmd.CombinedOutput()
	text := string(out)
	if ctx.Err() != nil {
		r.Inconclusive("race child: watchdog fired")
		return ""
	}
	ran := false
	for _, line := range strings.Split(text, "\n") {
		if rest, ok := strings.CutPrefix(line, raceMarker+" result "); ok {
			st := newConcStats()
			if err := json.Unmarshal([]byte(rest), st); err != nil {
				r.Inconclusive("race child: unreadable result: " + err.Error())
				continue
			}
			fold(r, st)
		}
		if rest, ok := strings.CutPrefix(line, raceMarker+" done "); ok {
			ran = true
			if !strings.Contains(rest, "race_build=true") {
				r.Inconclusive("race child binary " + bin + " is not a -race build")
			}
		}
	}
	switch {
	case strings.Contains(text, "fatal error: concurrent map"):
		r.Violation("C18:race:concurrent-map-access", "runtime fatal error in the race child: unsynchronised map access while goroutines share one APIClient", tail(text, 3000))
	case err != nil && !ran && crashInLibrary(text) != "":
		// The child died inside deps.dev code while goroutines shared one
		// APIClient the documented way: that is the observation. The race
		// reports collected up to then are judged below.
		r.Violation("C18:race:crash", "the race child crashed inside deps.dev code under concurrent use of one APIClient", crashInLibrary(text))
	case err != nil && !ran:
		if strings.Contains(text, "unknown property") {
			return bin + " does not contain C18"
		}
		r.Inconclusive(fmt.Sprintf("race child %s failed: %v: %s", bin, err, tail(text, 600)))
		return ""
	}
	blocks := parseRaceLogs(dir)
	seen := map[string]bool{}
	harnessOnly := 0
	for _, b := range blocks {
		if len(b.lib) == 0 {
			harnessOnly++
			continue
		}
		r.Count("race_reports_in_library", 1)
		sig := strings.Join(uniqSorted(b.lib), " ")
		if seen[sig] {
			continue
		}
		seen[sig] = true
		r.Violation("C18:race:data-race", "data race while goroutines share one APIClient; library frames: "+sig, tail(b.text, 4000))
	}
	if harnessOnly > 0 {
		r.Inconclusive(fmt.Sprintf("%d race reports without a deps.dev/ frame (monitor-induced)", harnessOnly))
	}
	r.Count("race_reports_total", int64(len(blocks)))
	r.Count("race_child_ran", 1)
	r.Set("race_subworkload", fmt.Sprintf("ran in %s: %d reports (%d distinct in deps.dev/ code)", filepath.Base(bin), len(blocks), len(seen)))
	return ""
}

func uniqSorted(s []string) []string {
	m := map[string]bool{}
	var out []string
	for _, x := range s {
		if !m[x] {
			m[x] = true
			out = append(out, x)
		}
	}
	sort.Strings(out)
	return out
}

func tail(s string, n int) string {
	if len(s) > n {
		return "..." + s[len(s)-n:]
	}
	return s
}

// crashInLibrary returns the head of a Go panic or runtime fatal error report
// whose stack mentions deps.dev code ("" when there is none).
func crashInLibrary(text string) string {
	out := "\n" + text
	for _, h := range []string{"\npanic: ", "\nfatal error: "} {
		if i := strings.LastIndex(out, h); i >= 0 && strings.Contains(out[i:], "deps.dev/") {
			c := out[i+1:]
			if len(c) > 2000 {
				c = c[:2000]
			}
			return c
		}
	}
	return ""
}
