// Command dev19 runs the C19 monitor on its own (development entry point).
package main

import (
	"os"

	"verif/harness/ev"
	"verif/harness/mon/c19"
)

func main() {
	r := ev.New("C19")
	replay := ""
	for i := 1; i < len(os.Args); i++ {
		switch os.Args[i] {
		case "quick", "thorough":
			r.Tier = os.Args[i]
		case "--replay":
			if i+1 < len(os.Args) {
				replay = os.Args[i+1]
				i++
			}
		}
	}
	c19.Run(r, replay)
	r.Finish()
}
