package c16

import (
	"context"
	"fmt"
	"os"
	"path/filepath"
	"regexp"
	"sort"
	"strconv"
	"strings"
	"sync/atomic"
	"verif/harness/uni"

	"deps.dev/util/resolve"
	"deps.dev/util/resolve/dep"
	"deps.dev/util/resolve/pypi"
	"verif/harness/ev"
)

// Variables in the order PEP 508 lists them.
var variables = []string{
	"os_name", "sys_platform", "platform_machine", "platform_python_implementation",
	"platform_release", "platform_system", "platform_version", "python_version",
	"python_full_version", "implementation_name", "implementation_version",
}

var markersTable = regexp.MustCompile(`(?s)var Markers = map\[string\]string\{(.*?)\n\}`)
var markersEntry = regexp.MustCompile(`(?m)^\s*("(?:[^"\\]|\\.)*"):\s*("(?:[^"\\]|\\.)*"),\s*$`)

// readEnvGen extracts the Markers table from the text of env.gen.go.
func readEnvGen(repo string) (map[string]string, error) {
	b, err := os.ReadFile(filepath.Join(repo, "util/resolve/pypi/internal/env.gen.go"))
	if err != nil {
		return nil, err
	}
	m := markersTable.FindSubmatch(b)
	if m == nil {
		return nil, fmt.Errorf("no Markers table")
	}
	env := map[string]string{}
	for _, e := range markersEntry.FindAllStringSubmatch(string(m[1]), -1) {
		k, err1 := strconv.Unquote(e[1])
		v, err2 := strconv.Unquote(e[2])
		if err1 != nil || err2 != nil {
			return nil, fmt.Errorf("bad entry %s", e[0])
		}
		env[k] = v
	}
	for _, v := range variables {
		if _, ok := env[v]; !ok {
			return nil, fmt.Errorf("Markers table has no %s", v)
		}
	}
	if len(env) != len(variables) {
		return nil, fmt.Errorf("Markers table has %d entries, want %d", len(env), len(variables))
	}
	return env, nil
}

// countClient counts client calls and stops the resolution (context
// cancellation plus an error from every further call) after a budget.
type countClient struct {
	c      resolve.Client
	n      atomic.Int64
	max    int64
	cancel context.CancelFunc
}

func (c *countClient) step() error {
	if c.n.Add(1) > c.max {
		c.cancel()
		return context.Canceled
	}
	return nil
}

func (c *countClient) Version(ctx context.Context, vk resolve.VersionKey) (resolve.Version, error) {
	if err := c.step(); err != nil {
		return resolve.Version{}, err
	}
	return c.c.Version(ctx, vk)
}

func (c *countClient) Versions(ctx context.Context, pk resolve.PackageKey) ([]resolve.Version, error) {
	if err := c.step(); err != nil {
		return nil, err
	}
	return c.c.Versions(ctx, pk)
}

func (c *countClient) Requirements(ctx context.Context, vk resolve.VersionKey) ([]resolve.RequirementVersion, error) {
	if err := c.step(); err != nil {
		return nil, err
	}
	return c.c.Requirements(ctx, vk)
}

func (c *countClient) MatchingVersions(ctx context.Context, vk resolve.VersionKey) ([]resolve.Version, error) {
	if err := c.step(); err != nil {
		return nil, err
	}
	return c.c.MatchingVersions(ctx, vk)
}

const stepBudget = 400

func vk(name, v string, t resolve.VersionType) resolve.VersionKey {
	return resolve.VersionKey{PackageKey: resolve.PackageKey{System: resolve.PyPI, Name: name}, VersionType: t, Version: v}
}

// observation of one resolution.
type obs struct {
	Edge   bool   // root->dep present
	Err    string // Resolve error or graph error
	Panic  string
	Budget bool
	Shape  string // unexpected graph shape (monitor cannot interpret)
}

func (o obs) String() string {
	switch {
	case o.Panic != "":
		return "panic: " + o.Panic
	case o.Budget:
		return "budget exceeded"
	case o.Err != "":
		return "error: " + o.Err
	case o.Shape != "":
		return "shape: " + o.Shape
	case o.Edge:
		return "edge"
	}
	return "no edge"
}

// resolveMarker builds the universe
//
//	top 1.0 -> root [extras]     root 1.0 -> dep ; marker     dep 1.0
//
// and resolves top (fromTop) or root itself. The observable is the presence
// of the edge root->dep.
func resolveMarker(marker string, extras []string, fromTop bool) (o obs) {
	defer func() {
		if p := recover(); p != nil {
			o = obs{Panic: fmt.Sprint(p)}
		}
	}()
	lc := resolve.NewLocalClient()
	var te dep.Type
	if len(extras) > 0 {
		te.AddAttr(dep.EnabledDependencies, strings.Join(extras, ","))
	}
	var tm dep.Type
	tm.AddAttr(dep.Environment, marker)
	lc.AddVersion(resolve.Version{VersionKey: vk("dep", "1.0", resolve.Concrete)}, nil)
	lc.AddVersion(resolve.Version{VersionKey: vk("root", "1.0", resolve.Concrete)},
		[]resolve.RequirementVersion{{VersionKey: vk("dep", "", resolve.Requirement), Type: tm}})
	lc.AddVersion(resolve.Version{VersionKey: vk("top", "1.0", resolve.Concrete)},
		[]resolve.RequirementVersion{{VersionKey: vk("root", "", resolve.Requirement), Type: te}})
	ctx, cancel := context.WithCancel(context.Background())
	defer cancel()
	cc := &countClient{c: lc, max: stepBudget, cancel: cancel}
	start := "root"
	if fromTop {
		start = "top"
	}
	g, err := pypi.NewResolver(cc).Resolve(ctx, vk(start, "1.0", resolve.Concrete))
	if cc.n.Load() > cc.max {
		return obs{Budget: true}
	}
	if err != nil {
		return obs{Err: err.Error()}
	}
	if g.Error != "" {
		return obs{Err: "graph: " + g.Error}
	}
	return edgeObs(g, "root", "dep")
}

// resolveMarkerLate builds the universe
//
//	top 1.0 -> root, via     via 1.0 -> root [extras]     root 1.0 -> dep ; marker     dep 1.0
//
// in which root is first pinned without extras and the extras arrive with a
// later requirement. pip then follows root's dependencies again with the
// extras enabled, so the observable and the oracle are those of resolveMarker.
func resolveMarkerLate(marker string, extras []string) (o obs) {
	return resolveMarkerLateSplit(marker, nil, extras)
}

// resolveMarkerLateSplit is resolveMarkerLate with the first requirement
// (the one root is pinned for) already carrying some extras and the later one
// bringing the others: top -> root[first], top -> via -> root[later].
func resolveMarkerLateSplit(marker string, first, extras []string) (o obs) {
	defer func() {
		if p := recover(); p != nil {
			o = obs{Panic: fmt.Sprint(p)}
		}
	}()
	lc := resolve.NewLocalClient()
	var tf dep.Type
	if len(first) > 0 {
		tf.AddAttr(dep.EnabledDependencies, strings.Join(first, ","))
	}
	var te dep.Type
	te.AddAttr(dep.EnabledDependencies, strings.Join(extras, ","))
	var tm dep.Type
	tm.AddAttr(dep.Environment, marker)
	lc.AddVersion(resolve.Version{VersionKey: vk("dep", "1.0", resolve.Concrete)}, nil)
	lc.AddVersion(resolve.Version{VersionKey: vk("root", "1.0", resolve.Concrete)},
		[]resolve.RequirementVersion{{VersionKey: vk("dep", "", resolve.Requirement), Type: tm}})
	lc.AddVersion(resolve.Version{VersionKey: vk("via", "1.0", resolve.Concrete)},
		[]resolve.RequirementVersion{{VersionKey: vk("root", "", resolve.Requirement), Type: te}})
	lc.AddVersion(resolve.Version{VersionKey: vk("top", "1.0", resolve.Concrete)},
		[]resolve.RequirementVersion{
			{VersionKey: vk("root", "==1.0", resolve.Requirement), Type: tf},
			{VersionKey: vk("via", "", resolve.Requirement)},
		})
	ctx, cancel := context.WithCancel(context.Background())
	defer cancel()
	cc := &countClient{c: lc, max: stepBudget, cancel: cancel}
	g, err := pypi.NewResolver(cc).Resolve(ctx, vk("top", "1.0", resolve.Concrete))
	if cc.n.Load() > cc.max {
		return obs{Budget: true}
	}
	if err != nil {
		return obs{Err: err.Error()}
	}
	if g.Error != "" {
		return obs{Err: "graph: " + g.Error}
	}
	return edgeObs(g, "root", "dep")
}

// edgeObs looks for the edge root->dep among the nodes of the given names.
func edgeObs(g *resolve.Graph, root, dep string) obs {
	rootID, depID := -1, -1
	for i, n := range g.Nodes {
		switch n.Version.Name {
		case root:
			if rootID >= 0 {
				return obs{Shape: "two root nodes"}
			}
			rootID = i
		case dep:
			if depID >= 0 {
				return obs{Shape: "two dep nodes"}
			}
			depID = i
		}
	}
	if rootID < 0 {
		return obs{Shape: "no root node"}
	}
	edge := false
	for _, e := range g.Edges {
		if int(e.From) == rootID && int(e.To) == depID && depID >= 0 {
			edge = true
		}
	}
	if depID >= 0 && !edge {
		return obs{Shape: "dep node without root->dep edge"}
	}
	return obs{Edge: edge}
}

// sharedResolver is ONE pypi resolver over one client holding the universes
// of many markers (top<i> -> root<i>[extras], root<i> -> dep<i> ; marker_i).
// A caller that resolves many packages keeps its resolver, and the resolver
// keeps caches (parsed markers, constraints) between Resolve calls; a marker
// must get the same verdict whatever was resolved before.
type sharedResolver struct {
	cc  *countClient
	res resolve.Resolver
}

func newSharedResolver(cases []markerCase, idx []int) *sharedResolver {
	lc := resolve.NewLocalClient()
	for _, i := range idx {
		c := cases[i]
		var te dep.Type
		if len(c.Extras) > 0 {
			te.AddAttr(dep.EnabledDependencies, strings.Join(c.Extras, ","))
		}
		var tm dep.Type
		tm.AddAttr(dep.Environment, c.Marker)
		n := fmt.Sprint(i)
		lc.AddVersion(resolve.Version{VersionKey: vk("dep"+n, "1.0", resolve.Concrete)}, nil)
		lc.AddVersion(resolve.Version{VersionKey: vk("root"+n, "1.0", resolve.Concrete)},
			[]resolve.RequirementVersion{{VersionKey: vk("dep"+n, "", resolve.Requirement), Type: tm}})
		lc.AddVersion(resolve.Version{VersionKey: vk("top"+n, "1.0", resolve.Concrete)},
			[]resolve.RequirementVersion{{VersionKey: vk("root"+n, "", resolve.Requirement), Type: te}})
	}
	cc := &countClient{c: lc, max: stepBudget, cancel: func() {}}
	s := &sharedResolver{cc: cc, res: pypi.NewResolver(cc)}
	// Every other shared resolver starts with its bounded caches filled beyond
	// their capacity (see uni.SaturatePyPI): the batch's markers are then
	// inserted through the eviction path and looked up again by later cases.
	if sharedResolvers.Add(1)%2 == 0 {
		cc.max = 1 << 40
		uni.SaturatePyPI(s.res, func(c resolve.Client) { cc.c = c })
		cc.c, cc.max = lc, stepBudget
		cc.n.Store(0)
		saturatedShared.Add(1)
	}
	return s
}

var sharedResolvers, saturatedShared atomic.Int64

// resolve resolves top<i> on the shared resolver (calls are sequential).
func (s *sharedResolver) resolve(i int) (o obs) {
	defer func() {
		if p := recover(); p != nil {
			o = obs{Panic: fmt.Sprint(p)}
		}
	}()
	ctx, cancel := context.WithCancel(context.Background())
	defer cancel()
	s.cc.n.Store(0)
	s.cc.cancel = cancel
	n := fmt.Sprint(i)
	g, err := s.res.Resolve(ctx, vk("top"+n, "1.0", resolve.Concrete))
	if s.cc.n.Load() > s.cc.max {
		return obs{Budget: true}
	}
	if err != nil {
		return obs{Err: err.Error()}
	}
	if g.Error != "" {
		return obs{Err: "graph: " + g.Error}
	}
	return edgeObs(g, "root"+n, "dep"+n)
}

// probeCandidates are values the probe tries besides the one in env.gen.go.
var probeCandidates = map[string][]string{
	"os_name":                        {"posix", "nt", "java"},
	"sys_platform":                   {"linux", "linux2", "win32", "darwin", "cygwin"},
	"platform_machine":               {"x86_64", "amd64", "AMD64", "arm64", "aarch64", "i686"},
	"platform_python_implementation": {"CPython", "PyPy", "Jython", "IronPython", "cpython"},
	"platform_release":               {"", "5.10.0", "6.9.10"},
	"platform_system":                {"Linux", "Windows", "Darwin", "Java", "linux"},
	"platform_version":               {"", "#1 SMP"},
	"python_version":                 {"2.7", "3.6", "3.7", "3.8", "3.9", "3.10", "3.11", "3.12", "3.13", "3.9.6"},
	"python_full_version":            {"3.9", "3.9.0", "3.9.5", "3.9.6", "3.9.7", "3.10.0", "3.11.7"},
	"implementation_name":            {"cpython", "pypy", "CPython"},
	"implementation_version":         {"3.9", "3.9.0", "3.9.6", "3.9.7", "3.10.0"},
}

// probeEnv reads the environment from the running library: for every variable
// the marker `var === "cand"` is resolved for each candidate (=== is plain
// string equality on both sides of the comparison for identical strings), and
// the set of candidates followed must be exactly the value written in
// env.gen.go. A mismatch is a marker whose edge differs from packaging's
// answer in the documented environment, i.e. a violation.
func probeEnv(r *ev.Run, env map[string]string) bool {
	ok := true
	probed := map[string]string{}
	for _, v := range variables {
		cands := append([]string{env[v]}, probeCandidates[v]...)
		sort.Strings(cands)
		var hit []string
		seen := map[string]bool{}
		for _, c := range cands {
			if seen[c] || strings.ContainsAny(c, "'") {
				continue
			}
			seen[c] = true
			m := fmt.Sprintf("%s === '%s'", v, c)
			if strings.ContainsAny(c, " \t") || c == "" {
				// packaging's === token cannot hold spaces or be empty; use ==
				// between non-version strings instead (plain string equality).
				m = fmt.Sprintf("%s == '%s'", v, c)
			}
			o := resolveMarker(m, nil, true)
			r.Count("probe_resolutions", 1)
			if o.Edge {
				hit = append(hit, c)
			} else if o.String() != "no edge" {
				r.Violation("C16:marker:env-probe", fmt.Sprintf("probe marker %s: %s", m, o), Case{Kind: "marker", Marker: m})
				ok = false
			}
		}
		if len(hit) != 1 || hit[0] != env[v] {
			r.Violation("C16:marker:env-probe", fmt.Sprintf("probing %s through the resolver follows the dependency for %q, env.gen.go says %q", v, hit, env[v]),
				Case{Kind: "marker", Marker: fmt.Sprintf("%s === '%s'", v, env[v])})
			ok = false
			continue
		}
		probed[v] = hit[0]
	}
	r.Set("probed_environment", probed)
	return ok
}
