// Package c16 monitors property C16: Python requirement strings and
// environment markers follow PEP 508 as implemented by pip's packaging.
//
// Two sub-monitors:
//
//	(a) requirement strings: pypi.ParseDependency / pypi.CanonPackageName
//	    against packaging's Requirement / canonicalize_name;
//	(b) marker semantics observed through the PyPI resolver: a dependency
//	    guarded by a marker is followed exactly when packaging evaluates the
//	    marker to true in the library's fixed target environment.
package c16

import (
	"encoding/json"
	"fmt"
	"os"
	"strings"
	"sync"

	"verif/harness/ev"
	"verif/harness/ref"
)

// Case is what a replay file and a witness line hold.
type Case struct {
	Kind   string   `json:"kind"`             // "req", "name", "marker"
	S      string   `json:"s,omitempty"`      // requirement string or name
	Marker string   `json:"marker,omitempty"` // marker text (kind marker)
	Extras []string `json:"extras,omitempty"` // requested extras (kind marker)
	Before []string `json:"before,omitempty"` // markers resolved earlier on the same resolver (kind marker)
	Note   string   `json:"note,omitempty"`
	// Observations recorded at violation time (informational).
	Lib string `json:"lib,omitempty"`
	Ref string `json:"ref,omitempty"`
}

var (
	outMu      sync.Mutex
	outSamples = map[string][]string{}
)

// outOfDomain counts a generated case the monitor does not judge and keeps a
// few examples per reason for the evidence file.
func outOfDomain(r *ev.Run, reason, text string) {
	r.Count(reason, 1)
	outMu.Lock()
	if len(outSamples[reason]) < 4 {
		outSamples[reason] = append(outSamples[reason], text)
	}
	outMu.Unlock()
}

func jq(op string, args ...string) string {
	parts := []string{"j:" + op}
	for _, a := range args {
		b, _ := json.Marshal(a)
		parts = append(parts, string(b))
	}
	return strings.Join(parts, "\t")
}

func repoRoot() string {
	if r := os.Getenv("VERIF_REPO"); r != "" {
		return r
	}
	return "/repo"
}

var selfTest = [][2]string{
	{ref.Q("name", "Foo__.Bar"), "foo-bar"},
	{ref.Q("markerstr", "os_name=='posix' and (python_version<'3' or extra=='x')"), `os_name == "posix" and (python_version < "3" or extra == "x")`},
	{jq("req", "A.b [x]\t(>=1 , <2);os_name=='nt'"), `{"name": "a-b", "extras": ["x"], "spec": ["<2", ">=1"], "marker": "os_name == \"nt\"", "url": ""}`},
	{ref.Q("valid", "3.9"), "3.9"},
	{ref.Q("valid", "linux"), "E"},
}

func Run(r *ev.Run, replay string) {
	r.MaxSamples = 16
	r.Rule = "(a) seeded PEP 508 grammar generator (names with mixed case and -_. runs, extras lists with odd spacing and duplicates, bare and parenthesised specifier lists incl. ===, markers, space/tab whitespace everywhere the grammar allows it); every string packaging 21.3 accepts as a non-URL requirement is parsed by pypi.ParseDependency and compared field by field (name vs canonicalize_name, extras as a set, specifier clauses as a set with whitespace removed, marker by packaging normal form of the library's marker text and by truth under 16 environments); CanonPackageName vs canonicalize_name and idempotence on generated names. Non-trivial = distinct accepted string carrying at least two of {extras, specifier, marker}. " +
		"(b) marker expressions (and/or/parentheses to depth 4, all eleven variables + extra, both operand orders, every operator, literals straddling the variable's actual value) placed on the single dependency root->dep of a three-package universe in a resolve.LocalClient; top requests root with the extras under test; resolved with the PyPI resolver under a client-call budget; observable = presence of the edge root->dep, oracle = Marker.evaluate in the environment read from env.gen.go and confirmed by probing the resolver. Every in-domain marker is resolved twice more or less: on a fresh resolver (via top, and from root itself when no extras are requested) and, in a seeded order together with the other markers of its batch, on ONE shared resolver object whose verdict must equal the fresh one. A quarter of each batch are families: a base (often pivoting on the exact text of a literal) and members differing only in blanks outside literals, blanks inside one literal, the case of one literal, quote style or operand order, each judged against packaging on its own. Non-trivial = distinct in-domain marker with >=2 atoms whose truth is not constant over the probe environments."
	r.Assumptions = []string{
		"reference: pip._vendor.packaging 21.3 (the generation the library mirrors), trusted after a start-up self-test",
		"requirement strings use only space and tab as whitespace (PEP 508 wsp); strings packaging rejects or parses as URL requirements are outside the domain",
		"an arbitrary-equality clause (===v) is always followed by whitespace before ',' ';' or ')': packaging's === token swallows any non-space characters, which the PEP 508 grammar the property quantifies over does not allow",
		"specifier clauses are compared as sets under packaging's own clause identity (>=1.0 and >=1.0.0 are one element of a SpecifierSet); every clause packaging reports must occur literally (whitespace removed) in the library's text",
		"'not in' is written with exactly one space: packaging 21.3 recognises no other spelling (and, through pyparsing's tab expansion, accepts not<TAB>in only at some columns); string literals carry no tabs (pyparsing expands them inside literals); blanks inside literals are generated",
		"marker atom domain: markers packaging rejects or whose evaluation raises UndefinedComparison/UndefinedEnvironmentName (literal against literal, ~= on non-versions) are outside the domain",
		"marker atom domain: atoms whose left value is not a PEP 440 version while operator+right value is a valid specifier are not judged (packaging 21.3 coerces the left side to LegacyVersion, later generations compare strings or refuse); this covers === on string-valued variables",
		"marker atom domain: where the left value goes through Version() two more 21.3-only behaviours are not judged: === with a left literal that is not in normal form (21.3 compares str(Version(left))), and a pre/dev-release literal on the left of a version comparison (21.3 drops pre-releases in Specifier.contains, later generations pass prereleases=True)",
		"version literals are written in PEP 440 normal form, with a leading v/V or with a leading zero, without epoch or local segment (as C03 restricts its ranges): the remaining spellings (3.9_post2, 1!3.9, 3.9+l) probe the version and range parsers of util/semver (C02/C03), not the marker evaluator; a literal padded with blanks (\" 3.9\") is a version for packaging and a string for the library and is not generated",
		"~= with a right literal that is not in normal form (v3.9, 03.9) is not judged: packaging 21.3 derives the prefix from the specifier text and never matches, later generations (and the library) work on the parsed version",
		"the shared-resolver pass issues Resolve calls sequentially (concurrent use of one resolver is C05/C18's subject)",
		"extra is compared with == only (both operand orders) against non-empty names: the library documents and tests that any other operator on extra is rejected, as setuptools never emits one",
		"a resolution requests several extras at once only when the marker mentions at most one distinct extra literal: packaging evaluates one extra at a time and pip takes the disjunction over the requested extras, whereas the library looks every extra atom up in the union; on the restricted domain the two readings coincide",
		"the target environment is the Markers table of util/resolve/pypi/internal/env.gen.go read as text (the package is internal); every value is confirmed by probing the resolver with `var === \"candidate\"` markers before it is used",
	}
	ver, err := ref.Py.SelfTest(selfTest)
	if err != nil {
		r.Inconclusive(err.Error())
		return
	}
	if !strings.Contains(ver, "21.3") {
		r.Inconclusive("packaging adapter is " + ver + ", want pip._vendor.packaging 21.3")
		return
	}
	r.Set("reference_mode", "live: "+ver)

	env, err := readEnvGen(repoRoot())
	if err != nil {
		r.Inconclusive("env.gen.go: " + err.Error())
		return
	}
	r.Set("target_environment", env)

	if replay != "" {
		var c struct {
			Case Case `json:"case"`
		}
		if err := ev.ReadJSON(replay, &c); err != nil {
			r.Inconclusive("replay unreadable: " + err.Error())
			return
		}
		runCases(r, env, []Case{c.Case}, "replay", r.Violation)
		return
	}

	var wit []Case
	if err := ev.ReadJSON(ev.Root+"/witnesses/C16.json", &wit); err != nil {
		r.Inconclusive("witnesses/C16.json: " + err.Error())
	}
	runCases(r, env, wit, "witness", r.Violation)
	r.Count("witness_cases", int64(len(wit)))
	// Open known findings: does the recorded witness still fail, in its class?
	for _, f := range r.OpenFindings() {
		var c Case
		if len(f.Witness) == 0 || json.Unmarshal(f.Witness, &c) != nil {
			r.Inconclusive("known finding " + f.ID + " has no usable witness")
			continue
		}
		fails := false
		runCases(r, env, []Case{c}, "known-finding", func(class, what string, detail any) {
			if class == f.Class {
				fails = true
			} else {
				r.Violation(class, what, detail)
			}
		})
		r.KnownWitness(f.ID, fails)
	}

	if !probeEnv(r, env) {
		return
	}
	runRequirements(r, env)
	runMarkers(r, env)
	outMu.Lock()
	r.Set("out_of_domain_samples", outSamples)
	outMu.Unlock()
}

// reporter receives a refuting observation (normally r.Violation).
type reporter func(class, what string, detail any)

// runCases executes explicit cases (witnesses, replay).
func runCases(r *ev.Run, env map[string]string, cs []Case, origin string, report reporter) {
	var reqs, names []string
	var ms []markerCase
	for _, c := range cs {
		switch c.Kind {
		case "req":
			reqs = append(reqs, c.S)
		case "name":
			names = append(names, c.S)
		case "marker":
			for _, b := range c.Before {
				ms = append(ms, markerCase{Marker: b, Extras: c.Extras})
			}
			ms = append(ms, markerCase{Marker: c.Marker, Extras: c.Extras})
		default:
			r.Inconclusive(fmt.Sprintf("%s: unknown case kind %q", origin, c.Kind))
		}
	}
	if len(reqs) > 0 {
		checkReqs(r, reqs, origin, report)
	}
	if len(names) > 0 {
		checkNames(r, names, origin, report)
	}
	if len(ms) > 0 {
		checkMarkers(r, env, ms, origin, report, nil)
	}
}
