package main

import (
	"fmt"
	"math/rand"
	"strings"
	"sync"

	"deps.dev/util/semver"
	xsemver "golang.org/x/mod/semver"
	"verif/harness/ev"
	"verif/harness/gen"
	"verif/harness/model"
	"verif/harness/ref"
)

func init() { register("C02", c02) }

// refOrder is one ecosystem's reference: validity/normal form and comparison,
// answered in batches.
type refOrder struct {
	name  string
	sys   semver.System
	gen   func(*rand.Rand) string
	valid func(ss []string) ([]string, error)       // normal form or "E"
	cmp   func(pairs [][2]string) ([]string, error) // "-1","0","1" or "E"
	self  func() (string, error)
	// normalised reports whether the reference's normal form is a version
	// syntax the acceptance clause applies to.
	normalised bool
}

func adapterOrder(name string, sys semver.System, g func(*rand.Rand) string, a *ref.Adapter, normalised bool, selftest [][2]string) refOrder {
	return refOrder{
		name: name, sys: sys, gen: g, normalised: normalised,
		valid: func(ss []string) ([]string, error) {
			qs := make([]string, len(ss))
			for i, s := range ss {
				qs[i] = ref.Q("valid", s)
			}
			return a.Batch(qs)
		},
		cmp: func(pairs [][2]string) ([]string, error) {
			qs := make([]string, len(pairs))
			for i, p := range pairs {
				qs[i] = ref.Q("cmp", p[0], p[1])
			}
			return a.Batch(qs)
		},
		self: func() (string, error) { return a.SelfTest(selftest) },
	}
}

func modelOrder(name string, sys semver.System, g func(*rand.Rand) string, valid func(string) bool, c1, c2 func(a, b string) (int, bool)) refOrder {
	return refOrder{
		name: name, sys: sys, gen: g,
		valid: func(ss []string) ([]string, error) {
			out := make([]string, len(ss))
			for i, s := range ss {
				if valid(s) {
					out[i] = s
				} else {
					out[i] = "E"
				}
			}
			return out, nil
		},
		cmp: func(pairs [][2]string) ([]string, error) {
			out := make([]string, len(pairs))
			for i, p := range pairs {
				x, ok := c1(p[0], p[1])
				y, ok2 := c2(p[0], p[1])
				if !ok || !ok2 || x != y {
					out[i] = "E" // The two formulations must agree before the model may accuse anyone.
					continue
				}
				out[i] = fmt.Sprint(x)
			}
			return out, nil
		},
		self: func() (string, error) { return "model " + name, nil },
	}
}

func c02Refs() []refOrder {
	goValid := func(ss []string) ([]string, error) {
		out := make([]string, len(ss))
		for i, s := range ss {
			if xsemver.IsValid(s) && strings.Count(strings.SplitN(strings.SplitN(s, "-", 2)[0], "+", 2)[0], ".") == 2 {
				out[i] = s // Canonical() drops build metadata; the full string is its own normal form.
			} else {
				out[i] = "E"
			}
		}
		return out, nil
	}
	goCmp := func(pairs [][2]string) ([]string, error) {
		out := make([]string, len(pairs))
		for i, p := range pairs {
			out[i] = fmt.Sprint(xsemver.Compare(p[0], p[1]))
		}
		return out, nil
	}
	return []refOrder{
		adapterOrder("npm", semver.NPM, gen.SemVerStrict(""), ref.Node, true, [][2]string{
			{ref.Q("cmp", "1.0.0-alpha", "1.0.0"), "-1"}, {ref.Q("cmp", "1.0.0-alpha.1", "1.0.0-alpha.beta"), "-1"},
			{ref.Q("cmp", "1.0.0+a", "1.0.0+b"), "0"}, {ref.Q("cmp", "2.0.0", "10.0.0"), "-1"}, {ref.Q("valid", "v1.2.3"), "1.2.3"}}),
		adapterOrder("cargo", semver.Cargo, gen.SemVerStrict(""), ref.Rust, true, [][2]string{
			{ref.Q("cmp", "1.0.0-alpha", "1.0.0"), "-1"}, {ref.Q("cmp", "1.0.0-alpha.1", "1.0.0-alpha.beta"), "-1"},
			{ref.Q("cmp", "1.0.0+a", "1.0.0+b"), "0"}, {ref.Q("cmp", "2.0.0", "10.0.0"), "-1"}}),
		{name: "go", sys: semver.Go, gen: gen.SemVerStrict("v"), valid: goValid, cmp: goCmp, normalised: true,
			self: func() (string, error) {
				if xsemver.Compare("v1.0.0-alpha", "v1.0.0") != -1 {
					return "", fmt.Errorf("x/mod self-test")
				}
				return "golang.org/x/mod/semver v0.22.0", nil
			}},
		adapterOrder("pypi", semver.PyPI, gen.PyPI, ref.Py, true, [][2]string{
			{ref.Q("cmp", "1.0a1", "1.0"), "-1"}, {ref.Q("cmp", "1.0.dev1", "1.0a1"), "-1"}, {ref.Q("cmp", "1.0", "1.0.post1"), "-1"},
			{ref.Q("cmp", "1!0.1", "2.0"), "1"}, {ref.Q("cmp", "1.0", "1.0.0"), "0"}, {ref.Q("valid", "1.0-ALPHA.1"), "1.0a1"}, {ref.Q("cmp", "1.0+a", "1.0+b"), "-1"}}),
		// Maven's canonical form is not a version syntax, so the original string is the normal form.
		adapterOrder("maven", semver.Maven, gen.MavenDomain, ref.Maven, false, [][2]string{
			{ref.Q("cmp", "1.0-alpha", "1.0"), "-1"}, {ref.Q("cmp", "1.0-rc1", "1.0-beta2"), "1"}, {ref.Q("cmp", "1.0", "1.0.0"), "0"},
			{ref.Q("cmp", "1.0-sp", "1.0"), "1"}, {ref.Q("cmp", "1.0-SNAPSHOT", "1.0"), "-1"}, {ref.Q("cmp", "2", "10"), "-1"}}),
		// The qualifier attached with a dot (4.1.0.Final): same reference, own
		// name, so that the open finding about this shape is identified by it.
		adapterOrder("maven-dot-qualifier", semver.Maven, gen.MavenDotQualifier, ref.Maven, false, [][2]string{
			{ref.Q("cmp", "1.0.Final", "1.0"), "0"}, {ref.Q("cmp", "1.0.0.RC1", "1.0-rc1"), "0"}}),
		modelOrder("rubygems", semver.RubyGems, gen.Gem, model.GemValid, model.GemCompare, model.GemCompare2),
		modelOrder("nuget", semver.NuGet, gen.NuGet, model.NuGetValid, model.NuGetCompare, model.NuGetCompare2),
	}
}

var (
	gapMu sync.Mutex
	gaps  []string // strings the reference accepts and the library rejects (recorded, not violations)
)

type c02case struct {
	Eco   string   `json:"eco"`
	Pair  []string `json:"pair,omitempty"`
	Lib   int      `json:"lib,omitempty"`
	Ref   string   `json:"ref,omitempty"`
	Other string   `json:"other,omitempty"`
}

func c02(r *ev.Run, replay string) {
	r.MaxSamples = 14
	r.Rule = "per ecosystem: pool of N distinct generated strings (with respelled variants) that the reference accepts; every ordered pair (a,b), a<=b by index, that the library also accepts is compared by the library ((*Version).Compare) and by the reference (node-semver 7.6.2, pip's packaging 21.3, Rust semver 1.0.28, x/mod/semver, Maven 3.8.7 ComparableVersion, models of Gem::Version and NuGet SemVer2 in two formulations); acceptance clause: the reference's normal form of every pool string must parse and compare equal to the original. Non-trivial = distinct pair the reference orders strictly."
	r.Assumptions = []string{"reference adapters are trusted after a start-up self-test", "Gem::Version and NuGet SemVer2 are models transcribed from the published algorithms; a verdict needs both formulations to agree", "Maven reference is 3.8.7; pool restricted to the quantifier's shape on which 3.8.7 is a total preorder"}
	refs := c02Refs()
	if replay != "" {
		var c struct {
			Case c02case `json:"case"`
		}
		if err := readJSON(replay, &c); err != nil {
			r.Inconclusive("replay unreadable")
			return
		}
		for _, ro := range refs {
			if ro.name == c.Case.Eco {
				c02Pool(r, ro, c.Case.Pair)
			}
		}
		return
	}
	var wit []c02case
	if err := readJSON(ev.Root+"/witnesses/C02.json", &wit); err != nil {
		r.Inconclusive("witnesses/C02.json: " + err.Error())
	}
	n := r.N(300, 800)
	shards := r.N(3, 16)
	var wg sync.WaitGroup
	sem := make(chan struct{}, 12)
	modes := map[string]string{}
	var mu sync.Mutex
	for _, ro := range refs {
		ver, err := ro.self()
		if err != nil {
			r.Inconclusive(err.Error())
			continue
		}
		mu.Lock()
		modes[ro.name] = "live: " + ver
		mu.Unlock()
		var wpool []string
		for _, w := range wit {
			if w.Eco == ro.name {
				wpool = append(wpool, w.Pair...)
			}
		}
		if len(wpool) > 0 {
			c02Pool(r, ro, dedup(wpool))
			r.Count("witness_strings", int64(len(wpool)))
		}
		// The regular pools and four more (a third as many at the thorough tier) built from
		// integer-edge families: strings that differ in one component only,
		// running over 0, 1 and numbers around 2^31, 2^32, 2^63 and 2^64.
		for sh := 0; sh < shards+max(4, shards/3); sh++ {
			wg.Add(1)
			sem <- struct{}{}
			go func(ro refOrder, sh int) {
				defer wg.Done()
				defer func() { <-sem }()
				defer func() {
					if p := recover(); p != nil {
						r.Violation("C02:"+ro.name+":panic", fmt.Sprint("panic: ", p), nil)
					}
				}()
				rng := r.Rand(fmt.Sprintf("%s/%d", ro.name, sh))
				accept := func(s string) bool {
					if ro.name == "maven-dot-qualifier" {
						return gen.MavenInDotDomain(s)
					}
					return ro.sys != semver.Maven || gen.MavenInDomain(s)
				}
				var cands []string
				if sh >= shards {
					cands = gen.ExtremeFamilies(rng, ro.gen, 2*n, accept)
					r.Count("extreme_family_pools:"+ro.name, 1)
				} else {
					cands = gen.PoolWithVariants(rng, ro.sys, ro.gen, 2*n, accept)
				}
				c02Pool(r, ro, cands[:min(len(cands), 2*n)], n)
			}(ro, sh)
		}
	}
	wg.Wait()
	r.Set("reference_mode", modes)
	r.Set("acceptance_gaps_sample", gaps)
	for _, ro := range refs {
		r.Gate("strict_pairs:"+ro.name, 10000)
	}
}

func dedup(ss []string) []string {
	seen := map[string]bool{}
	var out []string
	for _, s := range ss {
		if !seen[s] {
			seen[s] = true
			out = append(out, s)
		}
	}
	return out
}

// c02Pool filters cands through the reference, then compares all pairs.
func c02Pool(r *ev.Run, ro refOrder, cands []string, limit ...int) {
	nf, err := ro.valid(cands)
	if err != nil {
		r.Inconclusive(err.Error())
		return
	}
	var pool, norm []string
	for i, s := range cands {
		if nf[i] == "E" || strings.HasPrefix(nf[i], "E") && len(nf[i]) <= 3 {
			r.Count("ref_rejects:"+ro.name, 1)
			continue
		}
		pool = append(pool, s)
		norm = append(norm, nf[i])
		if len(limit) > 0 && len(pool) >= limit[0] {
			break
		}
	}
	// Library acceptance.
	var vs []*semver.Version
	var strs []string
	for i, s := range pool {
		v, err := ro.sys.Parse(s)
		if err != nil {
			r.Count("lib_rejects:"+ro.name, 1)
			if r.Counter("lib_rejects:"+ro.name) <= 5 {
				gapMu.Lock()
				gaps = append(gaps, ro.name+": "+s)
				gapMu.Unlock()
			}
			if ro.normalised && norm[i] == s {
				r.Violation("C02:"+ro.name+":reject-normal-form"+hugeSuffix(s), fmt.Sprintf("%s: %q is in the reference's normal form and is rejected: %v", ro.name, s, err), c02case{Eco: ro.name, Pair: []string{s}})
			}
			v = nil
		}
		if ro.normalised {
			nv, err := ro.sys.Parse(norm[i])
			r.Eval(1)
			if err != nil {
				r.Violation("C02:"+ro.name+":reject-normal-form"+hugeSuffix(norm[i]), fmt.Sprintf("%s: reference normal form %q of %q is rejected: %v", ro.name, norm[i], s, err), c02case{Eco: ro.name, Pair: []string{s}, Other: norm[i]})
			} else if v != nil && nv.Compare(v) != 0 {
				r.Violation("C02:"+ro.name+":normal-form-differs", fmt.Sprintf("%s: %q and its reference normal form %q compare %d", ro.name, s, norm[i], v.Compare(nv)), c02case{Eco: ro.name, Pair: []string{s}, Other: norm[i]})
			}
		}
		if v != nil {
			vs = append(vs, v)
			strs = append(strs, s)
		}
	}
	r.Count("pool:"+ro.name, int64(len(strs)))
	n := len(strs)
	pairs := make([][2]string, 0, n*(n+1)/2)
	for i := 0; i < n; i++ {
		for j := i; j < n; j++ {
			pairs = append(pairs, [2]string{strs[i], strs[j]})
		}
	}
	ans, err := ro.cmp(pairs)
	if err != nil {
		r.Inconclusive(err.Error())
		return
	}
	k := 0
	sampled := false
	for i := 0; i < n; i++ {
		for j := i; j < n; j++ {
			a := ans[k]
			k++
			if a != "-1" && a != "0" && a != "1" {
				r.Count("ref_undecided:"+ro.name, 1)
				continue
			}
			if ro.name == "npm" && (hasNumberFrom(strs[i], "9007199254740992") || hasNumberFrom(strs[j], "9007199254740992")) {
				// node-semver computes with doubles: beyond 2^53 its own order
				// is not exact (9223372036854775806 == 9223372036854775807).
				r.Count("ref_out_of_exact_range:npm", 1)
				continue
			}
			lib := vs[i].Compare(vs[j])
			r.Eval(1)
			if a != "0" {
				r.Nontrivial(ro.name + "\x00" + strs[i] + "\x00" + strs[j])
				r.Count("strict_pairs:"+ro.name, 1)
				if !sampled && i > 3 {
					sampled = true
					r.Sample(map[string]any{"eco": ro.name, "a": strs[i], "b": strs[j], "ref": a, "lib": lib})
				}
			} else {
				r.Count("equal_pairs:"+ro.name, 1)
			}
			// Difference is documented to return the result of Compare: the same
			// order through the second entry point, from both sides.
			if d, _ := vs[i].Difference(vs[j]); sign(d) != sign(lib) {
				r.Violation("C02:"+ro.name+":difference-vs-compare", fmt.Sprintf("%s: (%q).Difference(%q) orders them %d, Compare %d, reference %s", ro.name, strs[i], strs[j], d, lib, a),
					c02case{Eco: ro.name, Pair: []string{strs[i], strs[j]}, Lib: d, Ref: a})
			}
			if d, _, err := ro.sys.Difference(strs[j], strs[i]); err != nil || sign(d) != -sign(lib) {
				r.Violation("C02:"+ro.name+":difference-vs-compare", fmt.Sprintf("%s: System.Difference(%q,%q) = %d (%v), Compare the other way round %d, reference %s", ro.name, strs[j], strs[i], d, err, lib, a),
					c02case{Eco: ro.name, Pair: []string{strs[j], strs[i]}, Lib: d, Ref: a})
			}
			if fmt.Sprint(lib) != a {
				r.Violation("C02:"+ro.name+":order:"+c02Feature(ro.name, strs[i], strs[j]), fmt.Sprintf("%s: cmp(%q,%q): library %d, reference %s", ro.name, strs[i], strs[j], lib, a),
					c02case{Eco: ro.name, Pair: []string{strs[i], strs[j]}, Lib: lib, Ref: a})
			}
		}
	}
}

// c02Feature names the structural feature a disagreement hinges on; it is
// the handle by which an open known finding (if any) is identified.
func c02Feature(eco, a, b string) string {
	if hasNumberFrom(a, "9223372036854775807") || hasNumberFrom(b, "9223372036854775807") {
		return "int64-overflow" // a component at or beyond 2^63-1, the library's infinity marker
	}
	return "generic"
}

// hasNumberFrom reports whether s contains a run of digits whose value is at
// least min (a decimal number without leading zeros).
func hasNumberFrom(s, min string) bool {
	for i := 0; i < len(s); {
		if s[i] < '0' || s[i] > '9' {
			i++
			continue
		}
		j := i
		for j < len(s) && s[j] >= '0' && s[j] <= '9' {
			j++
		}
		d := strings.TrimLeft(s[i:j], "0")
		if len(d) > len(min) || len(d) == len(min) && d >= min {
			return true
		}
		i = j
	}
	return false
}

func hugeSuffix(s string) string {
	if hasNumberFrom(s, "9223372036854775807") {
		return ":int64-overflow"
	}
	return ""
}

func sign(x int) int {
	switch {
	case x < 0:
		return -1
	case x > 0:
		return 1
	}
	return 0
}
