# pip's packaging reference adapter. TSV lines on stdin, one answer per line.
#   ver | cmp a b | valid a | sat spec v [pre] | spec s | req s | name s | marker m extra(csv or -) 
#   setenvs json-list-of-envs | markerenvs m  -> one char per env (1/0/U) | reqenvs s -> same for the requirement's marker ('-' if none)
#   verinfo v -> {"norm","pre"} | spec1 s -> str(Specifier(s)) (one clause, exact)
#   reqx s -> req plus canonical clause keys and truth over ENVS | speccanon s -> canonical clause keys of SpecifierSet(s)
#   markerx m [json list of extras] -> {"str", "envs", "truth"} (truth: one char per extra under ENV)
#   an op written "j:<op>" takes every argument JSON-encoded (strings with tabs)
import sys, json
try:
    from pip._vendor import packaging as _p
    from pip._vendor.packaging.version import Version, InvalidVersion
    from pip._vendor.packaging.specifiers import SpecifierSet, Specifier, InvalidSpecifier
    from pip._vendor.packaging.requirements import Requirement, InvalidRequirement
    from pip._vendor.packaging.markers import Marker, InvalidMarker, UndefinedComparison, UndefinedEnvironmentName
    from pip._vendor.packaging.utils import canonicalize_name
    SRC = "pip._vendor.packaging " + _p.__version__
except ImportError:
    import packaging as _p
    from packaging.version import Version, InvalidVersion
    from packaging.specifiers import SpecifierSet, Specifier, InvalidSpecifier
    from packaging.requirements import Requirement, InvalidRequirement
    from packaging.markers import Marker, InvalidMarker, UndefinedComparison, UndefinedEnvironmentName
    from packaging.utils import canonicalize_name
    SRC = "packaging " + _p.__version__

ENV = None
ENVS = []
def envs_truth(m):
    o = []
    for e in ENVS:
        try:
            o.append('1' if m.evaluate(dict(e)) else '0')
        except (UndefinedComparison, UndefinedEnvironmentName):
            o.append('U')
    return ''.join(o) or '-'
def canon_clause(sp):
    # the key packaging itself uses for Specifier equality / hashing
    o, v = sp._canonical_spec
    return o + v
def env(extra):
    e = dict(ENV)
    e["extra"] = extra
    return e

out = []
for line in sys.stdin.read().split('\n'):
    if not line:
        continue
    p = line.split('\t')
    try:
        op = p[0]
        if op.startswith('j:'):
            op = op[2:]
            p = [op] + [json.loads(x) for x in p[1:]]
        if op == 'ver':
            out.append(SRC)
        elif op == 'cmp':
            a = Version(p[1]); b = Version(p[2]); out.append(str((a > b) - (a < b)))
        elif op == 'valid':
            out.append(str(Version(p[1])))
        elif op == 'sat':
            try:
                s = SpecifierSet(p[1])
            except InvalidSpecifier:
                out.append('ER'); continue
            try:
                v = Version(p[2])
            except InvalidVersion:
                out.append('EV'); continue
            # packaging keeps the clauses in a set whose equality canonicalises
            # versions (trailing zeros stripped): '~=0.2' and '~=0.2.0.0' collapse
            # into one clause although they mean different things. Such a
            # specifier list is not answered (out of the differential's domain).
            clauses = set(c.strip().replace(' ', '') for c in p[1].split(',') if c.strip())
            if len(s._specs) < len(clauses):
                out.append('EQ'); continue
            pre = None
            if len(p) > 3 and p[3] == 'pre':
                pre = True
            out.append('1' if s.contains(v, prereleases=pre) else '0')
        elif op == 'spec':
            out.append(str(SpecifierSet(p[1])) or '<*>')
        elif op == 'req':
            r = Requirement(p[1])
            out.append(json.dumps({"name": canonicalize_name(r.name), "extras": sorted(r.extras), "spec": sorted(str(s) for s in r.specifier), "marker": str(r.marker) if r.marker else "", "url": r.url or ""}))
        elif op == 'name':
            out.append(canonicalize_name(p[1]))
        elif op == 'setenv':
            ENV = json.loads(p[1]); out.append('ok')
        elif op == 'marker':
            m = Marker(p[1])
            extra = p[2] if len(p) > 2 and p[2] != '-' else ''
            out.append('1' if m.evaluate(env(extra)) else '0')
        elif op == 'markerstr':
            out.append(str(Marker(p[1])))
        elif op == 'verinfo':
            v = Version(p[1]); out.append(json.dumps({"norm": str(v), "pre": bool(v.is_prerelease), "post": v.post is not None, "dev": v.dev is not None,
                                                      "prekind": v.pre is not None, "local": v.local or "", "epoch": v.epoch, "release": list(v.release)}))
        elif op == 'spec1':
            out.append(str(Specifier(p[1])))
        elif op == 'reqx':
            r = Requirement(p[1])
            out.append(json.dumps({"name": canonicalize_name(r.name), "extras": sorted(r.extras), "spec": sorted(str(s) for s in r.specifier),
                                   "canon": sorted(set(canon_clause(s) for s in r.specifier)), "marker": str(r.marker) if r.marker else "",
                                   "url": r.url or "", "envs": envs_truth(r.marker) if r.marker else "-"}))
        elif op == 'speccanon':
            out.append(json.dumps(sorted(set(canon_clause(s) for s in SpecifierSet(p[1])))))
        elif op == 'markerx':
            m = Marker(p[1])
            extras = p[2] if len(p) > 2 else []
            if isinstance(extras, str):
                extras = json.loads(extras)
            truth = []
            for x in ((extras or ['']) if ENV is not None else []):
                try:
                    truth.append('1' if m.evaluate(env(x)) else '0')
                except (UndefinedComparison, UndefinedEnvironmentName):
                    truth.append('U')
            out.append(json.dumps({"str": str(m), "envs": envs_truth(m), "truth": ''.join(truth)}))
        elif op == 'setenvs':
            ENVS = json.loads(p[1]) if isinstance(p[1], str) else p[1]; out.append('ok')
        elif op == 'markerenvs':
            out.append(envs_truth(Marker(p[1])))
        elif op == 'reqenvs':
            r = Requirement(p[1])
            out.append(envs_truth(r.marker) if r.marker else '-')
        else:
            out.append('?')
    except (InvalidVersion, InvalidSpecifier, InvalidRequirement, InvalidMarker):
        out.append('E')
    except (UndefinedComparison, UndefinedEnvironmentName) as e:
        out.append('EU')
    except Exception as e:
        out.append('EX ' + type(e).__name__)
sys.stdout.write('\n'.join(out) + '\n')
