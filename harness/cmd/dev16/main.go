package main

import (
	"fmt"
	"os"
	"strings"

	"verif/harness/ev"
	"verif/harness/mon/c16"
)

func main() {
	r := ev.New("C16")
	replay := ""
	for i := 1; i < len(os.Args); i++ {
		switch os.Args[i] {
		case "quick", "thorough":
			r.Tier = os.Args[i]
		case "observe": // dev16 observe <marker> [extra,extra]
			var ex []string
			if i+2 < len(os.Args) && os.Args[i+2] != "" {
				ex = strings.Split(os.Args[i+2], ",")
			}
			fmt.Println(c16.Observe(os.Args[i+1], ex))
			return
		case "--replay":
			replay = os.Args[i+1]
			i++
		}
	}
	c16.Run(r, replay)
	r.Finish()
}
