// Package c13 monitors property C13: (*resolve.Graph).Canon yields one
// representative per isomorphism class of rooted graphs (relabelling
// metamorphism, idempotence, conservation of root, nodes and edges).
package c13

import (
	"encoding/json"
	"fmt"
	"runtime"
	"runtime/debug"
	"sync"

	"verif/harness/ev"
)

type monitor struct {
	r       *ev.Run
	workers int

	mu         sync.Mutex
	classSeen  map[string]int
	reported   int64
	canonCalls int64
	graphs     int64
	nontrivial int64
}

// report files one violation. The first few of each class are shrunk first so
// that the replay file is readable; later ones are only counted.
func (m *monitor) report(ck *checker, v *verdict, cs Case, origin string) {
	m.mu.Lock()
	m.classSeen[v.class]++
	seen := m.classSeen[v.class]
	m.reported++
	m.mu.Unlock()
	if seen > 3 {
		m.r.Violation(v.class, v.what, nil) // counted; ev keeps only the first 3 per class anyway
		return
	}
	small := ck.shrink(cs, v.class)
	small.Note = origin
	what := v.what
	if v2 := ck.checkCase(&small); v2 != nil && v2.class == v.class {
		what = v2.what
	} else {
		small = explicit(cloneCase(cs))
		small.Note = origin + " (unshrunk)"
	}
	m.r.Violation(v.class, what, small)
}

func Run(r *ev.Run, replay string) {
	r.Rule = "G = rooted graph description (node 0 root); relabel(G) = non-root ids permuted, edge list and per-node error lists reordered. " +
		"For each G: a fresh resolve.Graph is built through AddNode/AddError/AddEdge for every Canon call. Checked: Canon(G) and Canon(relabel(G)) both fail or both succeed with deep-equal graphs " +
		"(nodes in order with version key and errors, edges in order with from/to/requirement and the type read attribute by attribute); Canon(Canon(G)) succeeds and equals Canon(G); " +
		"root, multiset of (version key, error multiset) nodes and multiset of (from node, to node, requirement, type) edges equal the input's, computed from the harness' own description. " +
		"(a) exhaustive space E(n,K) (see exhaustive_space) with all (n-1)! renumberings; (b) random graphs of 1..40 nodes over small name/version alphabets (duplicates), parallel edges of other type/requirement, self loops, cycles, unreachable nodes, node errors; 20 random relabelings each. " +
		"Non-trivial = graph with >=1 pair of nodes with equal version key or >=1 pair of parallel edges; exhaustive descriptions are distinct by construction, random ones are counted by hash of the description."
	r.Assumptions = []string{
		"node equality inside a graph is (version key, error multiset), the edge multiset is compared with end nodes described that way: a canonical form is an isomorphic copy, so this is implied by 'preserves every edge'",
		"after a Canon call that returns an error the root/node/edge conservation is still demanded (class C13:conservation-after-failure:*) because Canon documents 'If it fails then the graph is still valid'",
		"the graph-wide Error string and Duration are left empty; systems other than NPM are not generated (Canon does not look at the system beyond VersionKey.Compare)",
	}
	m := &monitor{r: r, workers: 16, classSeen: map[string]int{}}

	// Every Canon call works on a freshly built small graph, so the run
	// allocates fast over a tiny live heap; with the default pacing the
	// collector would run thousands of cycles per second and serialise the
	// workers. An untouched ballast (address space only, never resident) and a
	// larger GOGC make it collect about once per GiB allocated instead.
	ballast := make([]byte, 256<<20)
	defer runtime.KeepAlive(ballast)
	defer debug.SetGCPercent(debug.SetGCPercent(300))

	if replay != "" {
		m.replay(replay)
		return
	}
	m.witnesses()

	// (a) exhaustive.
	spaces := []spaceDef{
		{N: 1, KMin: 0, KMax: 1}, {N: 2, KMin: 0, KMax: 4}, {N: 3, KMin: 0, KMax: 9},
		{N: 4, KMin: 0, KMax: 4}, {N: 4, KMin: 5, KMax: 5, Additive: true},
	}
	if r.Thorough() {
		spaces = []spaceDef{
			{N: 1, KMin: 0, KMax: 1}, {N: 2, KMin: 0, KMax: 4}, {N: 3, KMin: 0, KMax: 9},
			{N: 4, KMin: 0, KMax: 5}, {N: 4, KMin: 6, KMax: 7, Additive: true},
			{N: 5, KMin: 0, KMax: 4, Additive: true},
		}
	}
	m.exhaustive(r, spaces)

	// (b) random.
	m.random(r, r.N(20000, 1000000), 20)

	// The type alphabet is shared by all built graphs; Canon must not have touched it.
	for i, t := range typeVals {
		if t.String() != typeStrs[i] {
			r.Violation("C13:type-mutated", fmt.Sprintf("dep.Type %q of an input edge reads %q after the run", typeStrs[i], t.String()), nil)
		}
	}

	r.Count("canon_calls", m.canonCalls)
	r.Count("graphs", m.graphs)
	r.Count("nontrivial_graphs", m.nontrivial)
	r.Gate("nontrivial_graphs", (m.graphs+1)/2)
	r.Gate("random:nontrivial_graphs", (r.Counter("random:graphs")+1)/2)
	r.Gate("random:canon_ok_with_equal_nodes", r.Counter("random:graphs")/20)
	r.Gate("random:canon_err", r.Counter("random:graphs")/20)
	r.Gate("random:with_parallel_edge", r.Counter("random:graphs")/10)
	r.Gate("random:with_unreachable", r.Counter("random:graphs")/50)
	r.Gate("random:with_self_loop", r.Counter("random:graphs")/20)
	r.Gate("random:with_multi_error_node", r.Counter("random:graphs")/20)
	r.Gate("random:nodes>12", r.Counter("random:graphs")/10)
	r.Gate("witness_cases", 1)
}

func (m *monitor) witnesses() {
	var ws []Case
	if err := ev.ReadJSON(ev.Root+"/witnesses/C13.json", &ws); err != nil {
		m.r.Inconclusive("witnesses/C13.json: " + err.Error())
		return
	}
	ck := newChecker()
	for i := range ws {
		w := ws[i]
		if err := w.validate(); err != nil {
			m.r.Inconclusive(fmt.Sprintf("witnesses/C13.json entry %d: %v", i, err))
			continue
		}
		m.r.Count("witness_cases", 1)
		m.r.Eval(2)
		if v := ck.checkCase(&w); v != nil {
			m.r.Count("witness_cases_failing", 1)
			m.r.Violation(v.class, "witness ["+w.Note+"]: "+v.what, explicit(w))
		}
		if i == 0 {
			m.r.Sample(w)
		}
	}
	m.canonCalls += ck.calls
}

func (m *monitor) replay(path string) {
	var f struct {
		Class string          `json:"class"`
		Case  json.RawMessage `json:"case"`
	}
	if err := ev.ReadJSON(path, &f); err != nil {
		m.r.Inconclusive("replay unreadable: " + err.Error())
		return
	}
	var cs Case
	if err := json.Unmarshal(f.Case, &cs); err != nil || len(cs.G.Nodes) == 0 {
		m.r.Inconclusive(fmt.Sprintf("replay file has no C13 case (violations beyond the third of a class are stored without one): %v", err))
		return
	}
	if err := cs.validate(); err != nil {
		m.r.Inconclusive("replay case malformed: " + err.Error())
		return
	}
	ck := newChecker()
	m.r.Eval(2)
	m.r.Sample(cs)
	if v := ck.checkCase(&cs); v != nil {
		m.r.Violation(v.class, v.what, cs)
	}
	m.r.Count("canon_calls", ck.calls)
}
