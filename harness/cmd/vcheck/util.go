package main

import (
	"encoding/json"
	"os"
)

func readJSON(path string, v any) error {
	b, err := os.ReadFile(path)
	if err != nil {
		return err
	}
	return json.Unmarshal(b, v)
}
