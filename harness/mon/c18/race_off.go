//go:build !race

package c18

// raceEnabled reports whether this binary was built with -race.
const raceEnabled = false
