package main

import (
	"bytes"
	"io"
	"os"
	"os/exec"
	"os/signal"
	"strings"
	"sync"
	"syscall"

	"verif/harness/ev"
)

// concurrencyProps are the properties whose statement covers concurrent use,
// so that the Go runtime killing the process for unsynchronised map access
// inside deps.dev code is a refutation rather than a lost run.
var concurrencyProps = map[string]bool{"C05": true, "C18": true, "C19": true}

// headWriter keeps the first max bytes written to it.
type headWriter struct {
	mu  sync.Mutex
	buf bytes.Buffer
	max int
}

func (h *headWriter) Write(p []byte) (int, error) {
	h.mu.Lock()
	if room := h.max - h.buf.Len(); room > 0 {
		if len(p) < room {
			room = len(p)
		}
		h.buf.Write(p[:room])
	}
	h.mu.Unlock()
	return len(p), nil
}

// crashInRepo reports whether a Go runtime "fatal error: concurrent map ..."
// report's faulting goroutine was executing deps.dev code (the first frame
// outside the runtime belongs to a deps.dev package).
func crashInRepo(stderr string) (fatal string, top string, in bool) {
	i := strings.Index(stderr, "fatal error: concurrent map")
	if i < 0 {
		return "", "", false
	}
	rest := stderr[i:]
	fatal = rest
	if j := strings.IndexByte(rest, '\n'); j >= 0 {
		fatal = rest[:j]
	}
	g := strings.Index(rest, "\ngoroutine ")
	if g < 0 {
		return fatal, "", false
	}
	block := rest[g+1:]
	if e := strings.Index(block, "\n\n"); e >= 0 {
		block = block[:e]
	}
	for _, ln := range strings.Split(block, "\n")[1:] {
		if strings.HasPrefix(ln, "\t") || ln == "" {
			continue
		}
		fn := ln
		if k := strings.LastIndexByte(fn, '('); k > 0 {
			fn = fn[:k]
		}
		if strings.HasPrefix(fn, "runtime.") || strings.HasPrefix(fn, "internal/") || strings.HasPrefix(fn, "sync.") || strings.HasPrefix(fn, "maps.") {
			continue
		}
		return fatal, fn, strings.HasPrefix(fn, "deps.dev/")
	}
	return fatal, "", false
}

// supervise runs the monitor in a child process so that a runtime crash that
// recover() cannot see (concurrent map access is process-fatal) still ends in
// a verdict: violated when the property covers concurrent use and the crash
// was in deps.dev code, inconclusive otherwise.
func supervise(id string, args []string) {
	self, err := os.Executable()
	if err != nil {
		return // run in process
	}
	cmd := exec.Command(self, args...)
	cmd.Env = append(os.Environ(), "VERIF_INPROC=1")
	head := &headWriter{max: 1 << 20}
	cmd.Stdin = os.Stdin
	cmd.Stdout = os.Stdout
	cmd.Stderr = io.MultiWriter(os.Stderr, head)
	cmd.SysProcAttr = &syscall.SysProcAttr{Pdeathsig: syscall.SIGKILL}
	if err = cmd.Start(); err == nil {
		sig := make(chan os.Signal, 4)
		signal.Notify(sig, syscall.SIGQUIT, syscall.SIGTERM, syscall.SIGINT)
		go func() {
			for s := range sig {
				cmd.Process.Signal(s) // a watchdog's signal reaches the process doing the work
			}
		}()
		err = cmd.Wait()
		signal.Stop(sig)
	}
	code := 0
	if err != nil {
		code = 2
		if ee, ok := err.(*exec.ExitError); ok {
			code = ee.ExitCode()
			if code < 0 {
				code = 2
			}
		}
	}
	if code == 0 || code == 1 {
		os.Exit(code)
	}
	fatal, top, in := crashInRepo(head.buf.String())
	if fatal == "" {
		os.Exit(code)
	}
	r := ev.New(id)
	for _, a := range args[1:] {
		if a == "quick" || a == "thorough" {
			r.Tier = a
		}
	}
	r.Set("supervisor", "the monitor process was killed by the Go runtime; this record was written by its parent")
	stack := head.buf.String()
	if len(stack) > 6000 {
		stack = stack[:6000]
	}
	if in && concurrencyProps[id] {
		r.Eval(1)
		r.NontrivialAdd(1)
		r.Violation(id+":crash:concurrent-map-access", fatal+" in "+top+" while the workload used the documented one-resolver-per-goroutine discipline", map[string]any{"stderr_head": stack})
	} else {
		r.Inconclusive("monitor process crashed: " + fatal + " (top frame " + top + ")")
	}
	r.Finish()
}
