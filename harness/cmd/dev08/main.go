package main

import (
	"os"

	"verif/harness/ev"
	"verif/harness/mon/c08"
)

func main() {
	r := ev.New("C08")
	replay := ""
	for i := 1; i < len(os.Args); i++ {
		switch os.Args[i] {
		case "quick", "thorough":
			r.Tier = os.Args[i]
		case "--replay":
			replay = os.Args[i+1]
			i++
		}
	}
	c08.Run(r, replay)
	r.Finish()
}
