package main

import (
	"os"
	"runtime/pprof"
)

func init() {
	if p := os.Getenv("C13_PROF"); p != "" {
		f, _ := os.Create(p)
		pprof.StartCPUProfile(f)
		stopProf = pprof.StopCPUProfile
	}
}
