package main

import (
	"os"

	"verif/harness/ev"
	"verif/harness/mon/c15"
)

func main() {
	r := ev.New("C15")
	replay := ""
	for i := 1; i < len(os.Args); i++ {
		switch os.Args[i] {
		case "quick", "thorough":
			r.Tier = os.Args[i]
		case "--shrink":
			c15.Shrink(r, os.Args[i+1])
			return
		case "--replay":
			replay = os.Args[i+1]
			i++
		}
	}
	c15.Run(r, replay)
	r.Finish()
}
