package c04

import (
	"bytes"
	"encoding/base64"
	"fmt"
	"math/rand"
	"strings"

	"verif/harness/gen"
)

func b64(b []byte) string { return base64.StdEncoding.EncodeToString(b) }

type genCtx struct {
	r *rand.Rand
}

// hostileTokens is the punctuation-heavy alphabet of the random source: every
// operator character of the nine constraint languages, brackets, NUL, 0xFF,
// the infinity sign the set syntax uses, multi-byte runes, a truncated
// multi-byte rune, Unicode digits and separators.
var hostileTokens = []string{
	"0", "1", "2", "9", "10", "00", "01", ".", ".", ".", "-", "-", "+", "a", "b", "x", "X", "v", "V", "*", "^", "~", "<", ">", "=", "!",
	"|", "||", ",", "(", ")", "[", "]", "{", "}", " ", " ", "_", ":", ";", "@", "$", "#", "'", "\"", "\\", "/", "&", "%", "?",
	"\x00", "\xff", "\xc0", "\xe2\x88", "∞", "é", "💥", "١", " ", " ", "\t", "\n", "\r", "\x1e",
	">=", "<=", "~>", "~=", "==", "!=", "===", " - ", ".*", ".x", "-rc", ".dev", ".post", "<empty>", "${", "}", "${a}",
	"rc", "dev", "post", "alpha", "beta", "SNAPSHOT", "latest", "and", "or", "in", "not", "extra", "python_version", "ERROR:", ": ", "ATTR:",
	"18446744073709551616", "9223372036854775807", "9223372036854775808", "-1", "1e9", "0x10",
}

// hostile draws a short random string over the hostile alphabet (length
// mostly below 16 tokens, at most 64 bytes unless a long token was drawn).
func hostile(r *rand.Rand) []byte {
	n := r.Intn(12)
	if r.Intn(8) == 0 {
		n = r.Intn(40)
	}
	var b []byte
	for i := 0; i < n && len(b) < 64; i++ {
		switch r.Intn(8) {
		case 0:
			b = append(b, byte(r.Intn(256)))
		case 1:
			b = append(b, fmt.Sprint(r.Intn(30))...)
		default:
			b = append(b, hostileTokens[r.Intn(len(hostileTokens))]...)
		}
	}
	return b
}

// mutate applies 1..4 byte-level edits: flip, delete, insert a hostile token
// or a dictionary token, truncate, duplicate a stretch, swap two bytes.
func mutate(r *rand.Rand, s []byte, dict []string) []byte {
	b := append([]byte(nil), s...)
	for k := 1 + r.Intn(4); k > 0; k-- {
		if len(b) == 0 {
			b = append(b, hostile(r)...)
			continue
		}
		i := r.Intn(len(b))
		switch r.Intn(9) {
		case 0: // flip to a hostile byte
			t := hostileTokens[r.Intn(len(hostileTokens))]
			b[i] = t[0]
		case 1: // random byte
			b[i] = byte(r.Intn(256))
		case 2: // delete
			b = append(b[:i], b[i+1:]...)
		case 3: // insert hostile token
			t := hostileTokens[r.Intn(len(hostileTokens))]
			b = append(b[:i], append([]byte(t), b[i:]...)...)
		case 4: // insert dictionary token
			if len(dict) > 0 {
				t := dict[r.Intn(len(dict))]
				b = append(b[:i], append([]byte(t), b[i:]...)...)
			}
		case 5: // truncate
			b = b[:i]
		case 6: // duplicate a stretch
			j := i + 1 + r.Intn(min(len(b)-i, 24))
			seg := append([]byte(nil), b[i:j]...)
			times := 1 + r.Intn(3)
			for t := 0; t < times && len(b) < 4096; t++ {
				b = append(b[:j], append(seg, b[j:]...)...)
			}
		case 7: // swap
			j := r.Intn(len(b))
			b[i], b[j] = b[j], b[i]
		case 8: // bit flip
			b[i] ^= 1 << uint(r.Intn(8))
		}
	}
	return b
}

func join(parts ...[]byte) []byte { return bytes.Join(parts, []byte{sep}) }

func splitN(in []byte, n int) [][]byte {
	p := bytes.SplitN(in, []byte{sep}, n)
	for len(p) < n {
		p = append(p, p[len(p)-1])
	}
	return p
}

// ---- grammar sentences for the nine semver systems -----------------------

var sysNames = []string{"Default", "Cargo", "Go", "Maven", "NPM", "NuGet", "PyPI", "RubyGems", "Composer"}

func versionSentence(r *rand.Rand, sys string) string {
	switch sys {
	case "Default", "NPM", "Composer":
		return gen.Loose(r)
	case "Cargo":
		return gen.SemVerStrict("")(r)
	case "Go":
		return gen.SemVerStrict("v")(r)
	case "Maven":
		if r.Intn(3) == 0 {
			return gen.MavenLoose(r)
		}
		return gen.MavenDomain(r)
	case "NuGet":
		return gen.NuGet(r)
	case "PyPI":
		return gen.PyPI(r)
	case "RubyGems":
		return gen.Gem(r)
	}
	return gen.Loose(r)
}

func gemReq(r *rand.Rand) string {
	n := 1 + r.Intn(3)
	parts := make([]string, n)
	for i := range parts {
		parts[i] = gen.Pick(r, "", "= ", "!= ", "> ", "< ", ">= ", "<= ", "~> ", "~>", ">=") + gen.Gem(r)
	}
	return strings.Join(parts, gen.Pick(r, ", ", ","))
}

func constraintSentence(r *rand.Rand, sys string) string {
	switch sys {
	case "Default":
		switch r.Intn(3) {
		case 0:
			return gen.CargoReq(r)
		case 1:
			return gen.NPMRange(r)
		}
		return gen.NPMRange(r) + ", " + gen.CargoReq(r)
	case "NPM", "Composer":
		return gen.NPMRange(r)
	case "Cargo":
		return gen.CargoReq(r)
	case "Go":
		return gen.SemVerStrict("v")(r)
	case "Maven":
		return gen.MavenSpec(r)
	case "NuGet":
		return gen.NuGetRange(r)
	case "PyPI":
		return gen.PyPISpec(r)
	case "RubyGems":
		return gemReq(r)
	}
	return gen.NPMRange(r)
}

// setSentence writes the documented system-independent set syntax by hand:
// {span,span,...}; span = <empty> | version | [v:v] with ( ) for open ends
// and the infinity sign in place of numbers on the right.
func setSentence(r *rand.Rand, sys string) string {
	n := r.Intn(4)
	spans := make([]string, n)
	v := func() string {
		s := versionSentence(r, sys)
		if r.Intn(3) > 0 { // plain three-number versions keep most sets parsable
			s = gen.SemFull(r, r.Intn(4) == 0)
			if sys == "Go" {
				s = "v" + s
			}
		}
		return s
	}
	for i := range spans {
		switch r.Intn(8) {
		case 0:
			spans[i] = "<empty>"
		case 1, 2:
			spans[i] = v()
		default:
			hi := v()
			switch r.Intn(5) {
			case 0:
				hi = "∞.∞.∞"
			case 1:
				hi = gen.Pick(r, "1", "2", "3") + ".∞.∞"
			case 2:
				hi = gen.Pick(r, "1", "2") + "." + gen.Pick(r, "0", "4") + ".∞"
			}
			if sys == "Go" && hi[0] != 'v' {
				hi = "v" + hi
			}
			spans[i] = gen.Pick(r, "[", "(") + v() + ":" + hi + gen.Pick(r, "]", ")")
		}
	}
	return "{" + strings.Join(spans, ",") + "}"
}

// constraintOrSet is the prerequisite of the drivers that need a parsed
// constraint: mostly a constraint sentence, sometimes set syntax (the only
// way to a Constraint for a system whose ParseConstraint fails).
func constraintOrSet(r *rand.Rand, sys string) string {
	if r.Intn(4) == 0 {
		return setSentence(r, sys)
	}
	return constraintSentence(r, sys)
}

// otherSys picks a different system for token splicing.
func otherSys(r *rand.Rand, sys string) string {
	for {
		s := sysNames[r.Intn(len(sysNames))]
		if s != sys {
			return s
		}
	}
}

// ---- the long stratum -----------------------------------------------------

// longShape builds one long input part.
type longShape struct {
	name string
	ns   []int
	f    func(n int) string
}

func rep(pre, unit string, post string) func(int) string {
	return func(n int) string { return pre + strings.Repeat(unit, n) + post }
}

// genericLong are shapes every text entry point gets: one giant number, very
// many dots, brackets, alternatives, hyphens, spaces, non-ASCII.
//
// Sizes are calibrated: several entry points are quadratic in the number of
// tokens (Maven version parsing in the number of separators, PyPI/RubyGems
// constraint parsing in the number of != clauses, pypi.SdistVersion in the
// number of hyphens, schema's art-prefix replacement in the indentation). A
// polynomial running time is not a refutation of "terminates", so the shapes
// that trigger them are kept at sizes where the slowest observed call takes a
// few seconds, two orders below the solo budget; the 120 s bound is there to
// catch non-termination, not to grade complexity.
var genericLong = []longShape{
	{"digits", []int{1000, 100000, 1000000}, rep("", "9", "")},
	{"zeros", []int{100000}, rep("1.", "0", "")},
	{"dots", []int{100000}, rep("", ".", "")},
	{"num-dots", []int{1000, 100000, 500000}, rep("1", ".1", "")},
	{"lparens", []int{100000, 1000000}, rep("", "(", "")},
	{"lbrackets", []int{100000}, rep("", "[", "")},
	{"lbraces", []int{100000}, rep("", "{", "")},
	{"parens-balanced", []int{100000}, func(n int) string { return strings.Repeat("(", n) + "1" + strings.Repeat(")", n) }},
	{"brackets-balanced", []int{100000}, func(n int) string { return strings.Repeat("[", n) + "1" + strings.Repeat("]", n) }},
	{"or-alternatives", []int{10000}, rep("1", " || 1", "")},
	{"or-alternatives-ranges", []int{3000}, func(n int) string {
		var b strings.Builder
		for i := 0; i < n; i++ {
			if i > 0 {
				b.WriteString(" || ")
			}
			fmt.Fprintf(&b, ">=%d.0.0 <%d.5.0", i, i)
		}
		return b.String()
	}},
	{"comma-list", []int{10000}, rep(">=1", ",>=1", "")},
	{"comma-list-distinct", []int{2000}, func(n int) string {
		var b strings.Builder
		for i := 0; i < n; i++ {
			if i > 0 {
				b.WriteString(",")
			}
			fmt.Fprintf(&b, "!=%d.0", i)
		}
		return b.String()
	}},
	{"maven-union", []int{10000}, func(n int) string {
		var b strings.Builder
		for i := 0; i < n; i++ {
			if i > 0 {
				b.WriteString(",")
			}
			fmt.Fprintf(&b, "[%d.0,%d.5)", i, i)
		}
		return b.String()
	}},
	{"set-spans", []int{3000}, func(n int) string {
		var b strings.Builder
		b.WriteString("{")
		for i := 0; i < n; i++ {
			if i > 0 {
				b.WriteString(",")
			}
			fmt.Fprintf(&b, "[%d.0.0:%d.5.0)", i, i)
		}
		b.WriteString("}")
		return b.String()
	}},
	{"hyphens", []int{10000}, rep("", "-", "")},
	{"prerelease-idents", []int{100000}, rep("1.0.0-a", ".a", "")},
	{"prerelease-numbers", []int{100000}, rep("1.0.0-1", ".1", "")},
	{"build-idents", []int{100000}, rep("1.0.0+a", ".a", "")},
	{"qualifiers", []int{10000}, rep("1", "-rc1", "")},
	{"letters", []int{1000000}, rep("1.", "a", "")},
	{"spaces", []int{200000}, rep("", " ", "1")},
	{"vs", []int{100000}, rep("", "v", "1")},
	{"stars", []int{100000}, rep("1", ".*", "")},
	{"carets", []int{100000}, rep("", "^", "1")},
	{"operators", []int{100000}, rep("", ">=", "1")},
	{"epochs", []int{100000}, rep("1", "!1", "")},
	{"infinity", []int{100000}, rep("{[1:", "∞.", "∞]}")},
	{"bytes-ff", []int{100000}, rep("", "\xff", "")},
	{"nul", []int{100000}, rep("", "\x00", "")},
	{"newlines", []int{100000}, rep("", "\n", "")},
	{"tabs", []int{100000}, rep("", "\t", "a 1")},
	{"post-dev", []int{100000}, rep("1", ".post1.dev1", "")},
	{"hyphen-ranges", []int{5000}, rep("1", " - 2", "")},
	{"placeholders", []int{100000}, rep("", "${a}", "")},
	{"open-placeholders", []int{100000}, rep("", "${", "}")},
	{"quotes", []int{100000}, rep("", "\"", "")},
	{"at-signs", []int{100000}, rep("a", "@", "1")},
	{"pipes", []int{100000}, rep("a", "|", "b@1 1")},
	{"semicolons", []int{100000}, rep("a", ";", "")},
}

func genericLongByName(name string) *longShape {
	for i := range genericLong {
		if genericLong[i].name == name {
			return &genericLong[i]
		}
	}
	return nil
}

// longInput rebuilds a long-stratum input from its name. Names are
// "<part>/<shape>" for generic shapes placed in one part of the driver's
// simple valid input, or a driver-specific name.
func longInput(d *driver, sys, shape string, n int) ([]byte, error) {
	if n < 0 || n > 2_000_000 {
		return nil, fmt.Errorf("long size %d out of range", n)
	}
	if f, ok := d.long[shape]; ok {
		return f(sys, n), nil
	}
	var part int
	var name string
	if _, err := fmt.Sscanf(strings.Replace(shape, "/", " ", 1), "%d %s", &part, &name); err != nil {
		return nil, fmt.Errorf("unknown long shape %q for %s", shape, d.name)
	}
	ls := genericLongByName(name)
	if ls == nil {
		return nil, fmt.Errorf("unknown long shape %q", shape)
	}
	parts := d.simple(sys)
	if part < 0 || part >= len(parts) {
		return nil, fmt.Errorf("long shape %q: %s has %d parts", shape, d.name, len(parts))
	}
	parts[part] = []byte(ls.f(n))
	return join(parts...), nil
}
