package c07

import (
	"strings"
	"sync"
	"sync/atomic"

	"deps.dev/util/semver"
	"verif/harness/ref"
	"verif/harness/uni"
)

// ranges answers "is this requirement text a range" and "does version v lie
// inside range t" from Maven's own VersionRange (one JVM call per batch of
// universes); the repository's parser is consulted only where the adapter
// rejects the text or was not asked.
type ranges struct {
	mu       sync.RWMutex
	kind     map[string]bool // text -> is a range
	kindSrc  map[string]bool // text -> answered by the adapter
	sat      map[[2]string]bool
	fallback atomic.Int64
	asked    atomic.Int64
}

func newRanges() *ranges {
	return &ranges{kind: map[string]bool{}, kindSrc: map[string]bool{}, sat: map[[2]string]bool{}}
}

// prepare asks the adapter everything the given universes can need: the kind
// of every requirement text and (text, version) for every version of the
// package the text is about.
func (o *ranges) prepare(us ...*uni.Universe) error {
	var texts []string
	var pairs [][2]string
	seenT := map[string]bool{}
	seenP := map[[2]string]bool{}
	o.mu.RLock()
	for _, u := range us {
		byName := map[string][]string{}
		for _, v := range u.Versions {
			byName[v.Name] = append(byName[v.Name], v.Version)
		}
		for _, v := range u.Versions {
			for _, q := range v.Reqs {
				if _, ok := o.kind[q.Req]; !ok && !seenT[q.Req] {
					seenT[q.Req] = true
					texts = append(texts, q.Req)
				}
				for _, w := range byName[q.Name] {
					p := [2]string{q.Req, w}
					if _, ok := o.sat[p]; !ok && !seenP[p] {
						seenP[p] = true
						pairs = append(pairs, p)
					}
				}
			}
		}
	}
	o.mu.RUnlock()
	if len(texts)+len(pairs) == 0 {
		return nil
	}
	qs := make([]string, 0, len(texts)+len(pairs))
	for _, t := range texts {
		qs = append(qs, ref.Q("range", t))
	}
	for _, p := range pairs {
		qs = append(qs, ref.Q("sat", p[0], p[1]))
	}
	ans, err := ref.Maven.Batch(qs)
	if err != nil {
		return err
	}
	o.asked.Add(int64(len(qs)))
	o.mu.Lock()
	defer o.mu.Unlock()
	for i, t := range texts {
		switch a := ans[i]; a {
		case "soft":
			o.kind[t], o.kindSrc[t] = false, true
		case "E", "?", "":
			o.kind[t] = repoIsRange(t)
			o.fallback.Add(1)
		default:
			o.kind[t], o.kindSrc[t] = true, true
		}
	}
	for i, p := range pairs {
		switch ans[len(texts)+i] {
		case "1":
			o.sat[p] = true
		case "0":
			o.sat[p] = false
		default:
			o.sat[p] = repoSat(p[0], p[1])
			o.fallback.Add(1)
		}
	}
	return nil
}

func repoIsRange(t string) bool {
	c, err := semver.Maven.ParseConstraint(t)
	return err == nil && !c.IsSimple()
}

func repoSat(t, v string) bool {
	if in, ok := intervalSat(t, v); ok {
		return in
	}
	c, err := semver.Maven.ParseConstraint(t)
	return err == nil && c.Match(v)
}

// intervalSat decides membership for a union of bracketed intervals whose
// bounds and candidate are all of the generator's single-digit "x.y" form,
// where string order is version order. It is what answers for the texts
// Maven's own parser refuses, such as "[1.0,1.0)" (identical boundaries) or
// "[3.0,4.0],[1.0,2.0]" (a union written in descending order): by interval
// arithmetic a version is inside iff it is inside one of the intervals,
// whatever the repository's parser makes of the text.
func intervalSat(t, v string) (in, ok bool) {
	xy := func(s string) bool {
		return len(s) == 3 && s[0] >= '0' && s[0] <= '9' && s[1] == '.' && s[2] >= '0' && s[2] <= '9'
	}
	if len(t) < 5 || !xy(v) {
		return false, false
	}
	rest := t
	for rest != "" {
		if rest[0] != '[' && rest[0] != '(' {
			return false, false
		}
		end := strings.IndexAny(rest, "])")
		if end < 0 {
			return false, false
		}
		one := rest[:end+1]
		rest = rest[end+1:]
		if rest != "" {
			if rest[0] != ',' {
				return false, false
			}
			rest = rest[1:]
			if rest == "" {
				return false, false
			}
		}
		open, close := one[0], one[len(one)-1]
		body := one[1 : len(one)-1]
		i := strings.IndexByte(body, ',')
		var lo, hi string
		if i < 0 {
			// "[v]": exactly v (only with closed brackets).
			if open != '[' || close != ']' || !xy(body) {
				return false, false
			}
			lo, hi = body, body
		} else {
			lo, hi = body[:i], body[i+1:]
			if strings.IndexByte(hi, ',') >= 0 || (lo != "" && !xy(lo)) || (hi != "" && !xy(hi)) {
				return false, false
			}
		}
		inside := true
		if lo != "" && (v < lo || (v == lo && open == '(')) {
			inside = false
		}
		if hi != "" && (v > hi || (v == hi && close == ')')) {
			inside = false
		}
		if inside {
			in = true
		}
	}
	return in, true
}

func (o *ranges) isRange(t string) bool {
	o.mu.RLock()
	k, ok := o.kind[t]
	o.mu.RUnlock()
	if !ok {
		o.fallback.Add(1)
		return repoIsRange(t)
	}
	return k
}

func (o *ranges) inRange(t, v string) bool {
	o.mu.RLock()
	k, ok := o.sat[[2]string{t, v}]
	o.mu.RUnlock()
	if !ok {
		o.fallback.Add(1)
		return repoSat(t, v)
	}
	return k
}
