package c18

import (
	"context"
	"errors"
	"fmt"
	"hash/fnv"
	"math/rand"
	"runtime"
	"sort"
	"strings"
	"sync"
	"sync/atomic"
	"time"

	"deps.dev/util/resolve"
	"github.com/anishathalye/porcupine"
	"verif/harness/uni"
)

// Sub-monitor (d): G goroutines share one APIClient. Every client call — the
// scripted ones and the ones a whole resolution makes — is recorded at the
// client boundary with call and return stamps from one atomic counter.
//
// Value check: every result equals what a client used by one goroutine
// answers for that call once every holder's Requirements has been asked (a
// read of a bundled name may instead say "not found": whether it may is the
// history check's business).
//
// History check (porcupine): the documented contract of APIClient is that
// bundled versions "will be inaccessible until [the bundling version's
// Requirements] is called at which point the client will store them". So per
// bundling version p the sequential specification is one bit: Requirements(p)
// sets it; a read (any of the four calls) of a bundled name below p finds the
// package iff the bit is set; a name that is not in p's response is never
// found. Histories are partitioned by p.

// Step is one scripted client call or a whole resolution.
type Step struct {
	Op      string `json:"op"` // Version | Versions | Requirements | MatchingVersions | Resolve
	Name    string `json:"name"`
	Version string `json:"version,omitempty"`
	Req     bool   `json:"req,omitempty"` // the key is a requirement, not a concrete version
}

func (s Step) key() resolve.VersionKey {
	t := resolve.Concrete
	if s.Req {
		t = resolve.Requirement
	}
	return npmVK(s.Name, s.Version, t)
}

// ConcCase is one concurrent scenario: script i is run by goroutine i.
type ConcCase struct {
	G       int      `json:"g"`
	Scripts [][]Step `json:"scripts"`
}

type record struct {
	G     int    `json:"g"`
	Op    string `json:"op"`
	Key   string `json:"key"`
	Call  int64  `json:"call"`
	Ret   int64  `json:"ret"`
	Class string `json:"class"` // ok | notfound | error
	value string
	name  string // package name of the key
	pkgOp bool   // Versions (keyed by package)
	vk    resolve.VersionKey
}

type recorder struct {
	ctr atomic.Int64
	per [][]record
}

// recClient is the client boundary of goroutine g.
type recClient struct {
	c   resolve.Client
	rec *recorder
	g   int
}

func classOf(err error) string {
	switch {
	case err == nil:
		return "ok"
	case errors.Is(err, resolve.ErrNotFound):
		return "notfound"
	}
	return "error"
}

func (c *recClient) note(op string, vk resolve.VersionKey, pkgOp bool, call int64, err error, value string) {
	ret := c.rec.ctr.Add(1)
	cl := classOf(err)
	if err != nil {
		value = ""
		if cl == "error" {
			value = err.Error()
		}
	}
	key := vkStr(vk)
	if pkgOp {
		key = vk.PackageKey.String()
	}
	c.rec.per[c.g] = append(c.rec.per[c.g], record{G: c.g, Op: op, Key: key, Call: call, Ret: ret, Class: cl, value: value, name: vk.Name, pkgOp: pkgOp, vk: vk})
}

func (c *recClient) Version(ctx context.Context, vk resolve.VersionKey) (resolve.Version, error) {
	call := c.rec.ctr.Add(1)
	v, err := c.c.Version(ctx, vk)
	c.note("Version", vk, false, call, err, verStr(v))
	return v, err
}

func (c *recClient) Versions(ctx context.Context, pk resolve.PackageKey) ([]resolve.Version, error) {
	call := c.rec.ctr.Add(1)
	vs, err := c.c.Versions(ctx, pk)
	c.note("Versions", resolve.VersionKey{PackageKey: pk}, true, call, err, versStr(vs))
	return vs, err
}

func (c *recClient) Requirements(ctx context.Context, vk resolve.VersionKey) ([]resolve.RequirementVersion, error) {
	call := c.rec.ctr.Add(1)
	rs, err := c.c.Requirements(ctx, vk)
	c.note("Requirements", vk, false, call, err, reqsStr(rs, false))
	return rs, err
}

func (c *recClient) MatchingVersions(ctx context.Context, vk resolve.VersionKey) ([]resolve.Version, error) {
	call := c.rec.ctr.Add(1)
	vs, err := c.c.MatchingVersions(ctx, vk)
	c.note("MatchingVersions", vk, false, call, err, versStr(vs))
	return vs, err
}

// oracle answers "what does a client used by one goroutine return for this
// call once every Requirements has been asked".
type oracle struct {
	c      resolve.Client
	budget int64
	memo   map[string][2]string
	res    map[string]outcome
}

func newOracle(c resolve.Client, reg *Registry, budget int64) (*oracle, error) {
	o := &oracle{c: c, budget: budget, memo: map[string][2]string{}, res: map[string]outcome{}}
	for _, k := range reg.roots() {
		if _, err := c.Requirements(context.Background(), npmVK(k[0], k[1], resolve.Concrete)); err != nil {
			return nil, fmt.Errorf("sequential Requirements(%s@%s): %w", k[0], k[1], err)
		}
	}
	return o, nil
}

func (o *oracle) want(rc record) (class, value string) {
	k := rc.Op + " " + rc.Key
	if w, ok := o.memo[k]; ok {
		return w[0], w[1]
	}
	tmp := &recorder{per: make([][]record, 1)}
	c := &recClient{c: o.c, rec: tmp, g: 0}
	ctx := context.Background()
	switch rc.Op {
	case "Version":
		c.Version(ctx, rc.vk)
	case "Versions":
		c.Versions(ctx, rc.vk.PackageKey)
	case "Requirements":
		c.Requirements(ctx, rc.vk)
	case "MatchingVersions":
		c.MatchingVersions(ctx, rc.vk)
	}
	got := tmp.per[0][0]
	o.memo[k] = [2]string{got.Class, got.value}
	return got.Class, got.value
}

func (o *oracle) resolution(root [2]string) outcome {
	k := root[0] + "@" + root[1]
	if w, ok := o.res[k]; ok {
		return w
	}
	w := resolveOnce(o.c, o.budget, npmVK(root[0], root[1], resolve.Concrete))
	o.res[k] = w
	return w
}

// bundleInfo says, for every bundled name of the registry, who holds it.
type bundleInfo struct {
	holderOf map[string]string // mangled name -> "root>version"
	holders  map[string]bool   // "root>version" of versions with bundles
}

func newBundleInfo(reg *Registry) *bundleInfo {
	bi := &bundleInfo{holderOf: map[string]string{}, holders: map[string]bool{}}
	for _, p := range reg.Pkgs {
		for _, v := range p.Versions {
			if len(v.Bundled) == 0 {
				continue
			}
			h := p.Name + ">" + v.Version
			bi.holders[h] = true
			walkBundles(v.Bundled, nil, func(_ *Bundle, path []string) { bi.holderOf[Mangle(p.Name, v.Version, path)] = h })
		}
	}
	return bi
}

// histIn is the input of one history operation.
type histIn struct {
	holder string
	write  bool // Requirements(holder)
	exists bool // read: the name is in the holder's response
}

// classify maps a record to its history operation; ok=false: not part of any history.
func (bi *bundleInfo) classify(rc record) (in histIn, ok bool) {
	if strings.Contains(rc.name, ">") {
		if h, known := bi.holderOf[rc.name]; known {
			return histIn{holder: h, exists: true}, true
		}
		// A mangled name no response contains: held by whatever its first two parts say.
		parts := strings.SplitN(rc.name, ">", 3)
		if len(parts) == 3 {
			return histIn{holder: parts[0] + ">" + parts[1]}, true
		}
		return histIn{}, false
	}
	if rc.Op == "Requirements" && rc.vk.VersionType == resolve.Concrete && bi.holders[rc.name+">"+rc.vk.Version] {
		return histIn{holder: rc.name + ">" + rc.vk.Version, write: true}, true
	}
	return histIn{}, false
}

var histModel = porcupine.Model{
	Partition: func(h []porcupine.Operation) [][]porcupine.Operation {
		m := map[string][]porcupine.Operation{}
		var keys []string
		for _, op := range h {
			k := op.Input.(histIn).holder
			if _, ok := m[k]; !ok {
				keys = append(keys, k)
			}
			m[k] = append(m[k], op)
		}
		sort.Strings(keys)
		out := make([][]porcupine.Operation, len(keys))
		for i, k := range keys {
			out[i] = m[k]
		}
		return out
	},
	Init: func() interface{} { return false },
	Step: func(state, input, output interface{}) (bool, interface{}) {
		in, stored, found := input.(histIn), state.(bool), output.(bool)
		switch {
		case in.write:
			// A successful Requirements stores the bundles; a failed one stores nothing.
			return true, stored || found
		case !in.exists:
			return !found, stored
		}
		return found == stored, stored
	},
	Equal: func(a, b interface{}) bool { return a.(bool) == b.(bool) },
	DescribeOperation: func(input, output interface{}) string {
		in := input.(histIn)
		if in.write {
			return fmt.Sprintf("Requirements(%s) ok=%v", in.holder, output)
		}
		return fmt.Sprintf("read below %s (exists=%v) found=%v", in.holder, in.exists, output)
	},
}

// concStats collects what the concurrent workload observed. It is printed by
// the -race child and folded into the run record by the parent.
type concStats struct {
	mu           sync.Mutex
	Counts       map[string]int64 `json:"counts"`
	Violations   []concViolation  `json:"violations,omitempty"`
	Inconclusive []string         `json:"inconclusive,omitempty"`
	Samples      []string         `json:"samples,omitempty"`
	perClass     map[string]int
	hashes       map[int]map[uint64]bool
}

type concViolation struct {
	Class string `json:"class"`
	What  string `json:"what"`
	Case  Case   `json:"case"`
}

func newConcStats() *concStats {
	return &concStats{Counts: map[string]int64{}, perClass: map[string]int{}, hashes: map[int]map[uint64]bool{}}
}

func (s *concStats) count(k string, n int64) { s.mu.Lock(); s.Counts[k] += n; s.mu.Unlock() }

func (s *concStats) max(k string, n int64) {
	s.mu.Lock()
	if n > s.Counts[k] {
		s.Counts[k] = n
	}
	s.mu.Unlock()
}

func (s *concStats) violation(class, what string, c Case) {
	s.mu.Lock()
	defer s.mu.Unlock()
	s.Counts["violations:"+class]++
	s.perClass[class]++
	if s.perClass[class] <= 2 && len(s.Violations) < 8 {
		s.Violations = append(s.Violations, concViolation{class, what, c})
	}
}

func (s *concStats) inconclusive(why string) {
	s.mu.Lock()
	if len(s.Inconclusive) < 10 {
		s.Inconclusive = append(s.Inconclusive, why)
	}
	s.mu.Unlock()
}

func (s *concStats) interleaving(g int, h uint64) {
	s.mu.Lock()
	if s.hashes[g] == nil {
		s.hashes[g] = map[uint64]bool{}
	}
	s.hashes[g][h] = true
	s.Counts[fmt.Sprintf("conc:G=%d:distinct-interleavings", g)] = int64(len(s.hashes[g]))
	s.mu.Unlock()
}

// jitter is the seeded source of yields on the client side and at the H2 sites.
type jitter struct {
	mu  sync.Mutex
	rng *rand.Rand
	n   atomic.Int64
}

func (j *jitter) pause() {
	j.n.Add(1)
	j.mu.Lock()
	k := j.rng.Intn(100)
	n := j.rng.Intn(4)
	j.mu.Unlock()
	switch {
	case k < 40:
	case k < 96:
		for i := 0; i <= n; i++ {
			runtime.Gosched()
		}
	default:
		time.Sleep(time.Duration(10+40*n) * time.Microsecond)
	}
}

// genScripts draws the scripts of one scenario around a few "hot" bundling
// versions so that reads race with the Requirements call that enables them.
func genScripts(rng *rand.Rand, reg *Registry, g int, resolvable func(root [2]string) bool) *ConcCase {
	type holder struct {
		name, ver string
		names     []string // mangled names below it
		vers      []string
	}
	var hs []holder
	for _, p := range reg.Pkgs {
		for _, v := range p.Versions {
			if len(v.Bundled) == 0 {
				continue
			}
			h := holder{name: p.Name, ver: v.Version}
			walkBundles(v.Bundled, nil, func(b *Bundle, path []string) {
				h.names = append(h.names, Mangle(p.Name, v.Version, path))
				h.vers = append(h.vers, b.Version)
			})
			hs = append(hs, h)
		}
	}
	if len(hs) == 0 {
		return nil
	}
	rng.Shuffle(len(hs), func(i, j int) { hs[i], hs[j] = hs[j], hs[i] })
	// Deep trees first among the hot ones.
	sort.SliceStable(hs, func(i, j int) bool { return len(hs[i].names) > len(hs[j].names) })
	hot := hs
	if n := 1 + rng.Intn(3); len(hot) > n {
		hot = hot[:n]
	}
	roots := reg.roots()
	steps := map[int]int{2: 16, 8: 7, 16: 5}[g]
	if steps == 0 {
		steps = 6
	}
	ops := []string{"Version", "Versions", "Requirements", "MatchingVersions"}
	cc := &ConcCase{G: g}
	for i := 0; i < g; i++ {
		var sc []Step
		for k := 0; k < steps; k++ {
			h := hot[rng.Intn(len(hot))]
			switch p := rng.Intn(100); {
			case p < 25:
				sc = append(sc, Step{Op: "Requirements", Name: h.name, Version: h.ver})
			case p < 78:
				j := rng.Intn(len(h.names))
				st := Step{Op: ops[rng.Intn(4)], Name: h.names[j], Version: h.vers[j]}
				st.Req = st.Op == "MatchingVersions"
				switch q := rng.Intn(20); {
				case q == 0:
					st.Name += "-absent" // a name the holder's response does not contain
				case q == 1 && st.Op == "MatchingVersions":
					st.Version = "0.0.1" // a requirement the bundled version does not meet
				}
				sc = append(sc, st)
			default:
				r := roots[rng.Intn(len(roots))]
				st := Step{Op: ops[rng.Intn(4)], Name: r[0], Version: r[1]}
				switch rng.Intn(8) {
				case 0:
					st.Version = "7.7.7" // absent version
				case 1:
					st.Name = "absent-package"
				}
				if st.Op == "MatchingVersions" {
					st.Req = true
					st.Version = uni.Pick(rng, "*", "^"+st.Version, ">=1.0.0", "latest", st.Version)
				}
				sc = append(sc, st)
			}
		}
		cc.Scripts = append(cc.Scripts, sc)
	}
	// Whole resolutions: at most two per scenario (each is some tens of client
	// calls), mostly of a hot bundling version, placed at random positions.
	for k, n := 0, 1+rng.Intn(2); k < n; k++ {
		h := hot[rng.Intn(len(hot))]
		r := [2]string{h.name, h.ver}
		if rng.Intn(3) == 0 {
			r = roots[rng.Intn(len(roots))]
		}
		if !resolvable(r) {
			continue
		}
		i := rng.Intn(g)
		at := rng.Intn(len(cc.Scripts[i]) + 1)
		sc := append([]Step(nil), cc.Scripts[i][:at]...)
		sc = append(sc, Step{Op: "Resolve", Name: r[0], Version: r[1]})
		cc.Scripts[i] = append(sc, cc.Scripts[i][at:]...)
	}
	return cc
}

// runScenario executes one scenario on a fresh APIClient and returns the
// records of every goroutine plus the outcomes of the whole resolutions.
type resolutionResult struct {
	g    int
	root [2]string
	out  outcome
}

func runScenario(e *env, cc *ConcCase, budget int64, jit *jitter) (*recorder, []resolutionResult) {
	ac := resolve.NewAPIClient(e.cli)
	rec := &recorder{per: make([][]record, cc.G)}
	results := make([][]resolutionResult, cc.G)
	start := make(chan struct{})
	var wg sync.WaitGroup
	for g := 0; g < cc.G; g++ {
		wg.Add(1)
		go func(g int) {
			defer wg.Done()
			c := &recClient{c: ac, rec: rec, g: g}
			ctx := context.Background()
			defer func() {
				if p := recover(); p != nil {
					results[g] = append(results[g], resolutionResult{g: g, root: [2]string{"(scripted call)", ""}, out: outcome{panicked: fmt.Sprint(p)}})
				}
			}()
			<-start
			for _, st := range cc.Scripts[g] {
				if jit != nil {
					jit.pause()
				}
				switch st.Op {
				case "Version":
					c.Version(ctx, st.key())
				case "Versions":
					c.Versions(ctx, st.key().PackageKey)
				case "Requirements":
					c.Requirements(ctx, st.key())
				case "MatchingVersions":
					c.MatchingVersions(ctx, st.key())
				case "Resolve":
					results[g] = append(results[g], resolutionResult{g, [2]string{st.Name, st.Version}, resolveOnce(c, budget, st.key())})
				}
			}
		}(g)
	}
	close(start)
	wg.Wait()
	var all []resolutionResult
	for _, rs := range results {
		all = append(all, rs...)
	}
	return rec, all
}

// judgeScenario applies the value check and the history check to one run.
func judgeScenario(st *concStats, cs Case, rec *recorder, res []resolutionResult, orc *oracle, bi *bundleInfo) (order uint64) {
	cc := cs.Conc
	var all []record
	for _, p := range rec.per {
		all = append(all, p...)
	}
	sort.Slice(all, func(i, j int) bool { return all[i].Call < all[j].Call })
	h := fnv.New64a()
	for _, rc := range all {
		fmt.Fprintf(h, "%d|%s|%s\n", rc.G, rc.Op, rc.Key)
	}
	order = h.Sum64()
	st.interleaving(cc.G, order)
	st.count(fmt.Sprintf("conc:G=%d:runs", cc.G), 1)
	st.count("conc:client-calls-recorded", int64(len(all)))

	// value check
	var ops []porcupine.Operation
	for _, rc := range all {
		in, hist := bi.classify(rc)
		wc, wv := orc.want(rc)
		st.count("conc:value-checks", 1)
		read := hist && !in.write
		switch {
		case read && rc.Class == "notfound":
			// admissible by value; the history decides
		case rc.Class != wc || rc.value != wv:
			st.violation("conc:value:"+rc.Op, fmt.Sprintf("goroutine %d, %s(%s) under concurrency returned class %s value %s; the same call on a client used sequentially returns class %s value %s", rc.G, rc.Op, rc.Key, rc.Class, clip(rc.value, 600), wc, clip(wv, 600)), cs)
		}
		if hist {
			if rc.Class == "error" {
				continue // reported by the value check; nothing to learn for the history
			}
			ops = append(ops, porcupine.Operation{ClientId: rc.G, Input: in, Call: rc.Call, Output: rc.Class == "ok", Return: rc.Ret})
			if in.write {
				st.count("conc:history:writes", 1)
			} else if rc.Class == "ok" {
				st.count("conc:history:reads-found", 1)
			} else {
				st.count("conc:history:reads-notfound", 1)
			}
		}
	}
	for _, rr := range res {
		if rr.out.panicked != "" {
			st.violation("conc:panic", fmt.Sprintf("goroutine %d: %s@%s panicked on the shared client: %s", rr.g, rr.root[0], rr.root[1], rr.out.panicked), cs)
			continue
		}
		want := orc.resolution(rr.root)
		st.count("conc:resolutions", 1)
		if rr.out.bundled > 0 {
			st.count("conc:resolutions-with-bundled-nodes", 1)
		}
		if rr.out.enc != want.enc {
			st.violation("conc:value:Resolve", fmt.Sprintf("goroutine %d: resolution of %s@%s on the shared client differs from the sequential one.\nshared:\n%s\nsequential:\n%s", rr.g, rr.root[0], rr.root[1], clip(rr.out.enc, 3000), clip(want.enc, 3000)), cs)
		}
	}

	// history check
	if len(ops) == 0 {
		return
	}
	st.count("conc:histories-checked", 1)
	st.count("conc:history-ops", int64(len(ops)))
	st.max("conc:history-ops-max", int64(len(ops)))
	if len(ops) > 200 {
		st.count("conc:histories-over-200-ops", 1)
	}
	parts := histModel.Partition(ops)
	st.count("conc:history-partitions", int64(len(parts)))
	st.mu.Lock()
	if len(st.Samples) < 1 && len(ops) >= 12 && len(ops) <= 60 {
		var lines []string
		for _, op := range ops {
			lines = append(lines, fmt.Sprintf("g%d [%d,%d] %s", op.ClientId, op.Call, op.Return, histModel.DescribeOperation(op.Input, op.Output)))
		}
		st.Samples = append(st.Samples, fmt.Sprintf("G=%d, %d recorded client calls, history of %d operations in %d partitions: %s", cc.G, len(all), len(ops), len(parts), strings.Join(lines, "; ")))
	}
	st.mu.Unlock()
	switch porcupine.CheckOperationsTimeout(histModel, ops, 30*time.Second) {
	case porcupine.Ok:
	case porcupine.Unknown:
		st.inconclusive(fmt.Sprintf("history checker timed out on a history of %d operations", len(ops)))
	case porcupine.Illegal:
		what := "the recorded history has no linearization under the documented contract (a bundled name is found iff its holder's Requirements has taken effect)"
		for _, p := range parts {
			if porcupine.CheckOperationsTimeout(histModel, p, 30*time.Second) == porcupine.Illegal {
				var lines []string
				for _, op := range p {
					lines = append(lines, fmt.Sprintf("  g%d [%d,%d] %s", op.ClientId, op.Call, op.Return, histModel.DescribeOperation(op.Input, op.Output)))
				}
				what += "\npartition " + p[0].Input.(histIn).holder + ":\n" + clip(strings.Join(lines, "\n"), 4000)
				break
			}
		}
		st.violation("conc:history-not-linearizable", what, cs)
	}
	return order
}

func clip(s string, n int) string {
	if len(s) > n {
		return s[:n] + fmt.Sprintf("... (%d bytes more)", len(s)-n)
	}
	return s
}

// oracleBudget bounds the client calls of a whole resolution used in a
// scenario: only roots that the sequential client resolves within it are used.
const oracleBudget = 250

// concurrentWorkload generates registries and scenarios and judges them.
// scenarios is the number of scenarios per G; every scenario is run reps times
// (same scripts, fresh client): equal scripts with different recorded call
// orders are what "distinct interleavings" counts. Scenarios of different
// registries run side by side on separate services (workers).
func concurrentWorkload(seed *rand.Rand, scenarios, reps int, st *concStats) {
	jit := &jitter{rng: rand.New(rand.NewSource(seed.Int63()))}
	if setYield != nil {
		var sites sync.Map
		setYield(func(site string) {
			if _, seen := sites.LoadOrStore(site, true); !seen {
				st.count("hook:h2-site:"+site, 1)
			}
			jit.pause()
			st.count("hook:h2-yields", 1)
		})
		defer setYield(nil)
		st.count("hook:h2-present", 1)
	}
	const workers = 4
	var wg sync.WaitGroup
	for w := 0; w < workers; w++ {
		rng := rand.New(rand.NewSource(seed.Int63()))
		wg.Add(1)
		go func(w int) {
			defer wg.Done()
			e, err := newEnv(rand.New(rand.NewSource(rng.Int63())))
			if err != nil {
				st.inconclusive("concurrent workload: cannot set up the in-process service: " + err.Error())
				return
			}
			defer e.close()
			for _, g := range []int{2, 8, 16} {
				quota := scenarios / workers
				if w < scenarios%workers {
					quota++
				}
				for s := 0; s < quota; {
					reg := Generate(rng, 3)
					orderSeed := rng.Int63() | 1
					e.svc.jitter.Store(false)
					e.serve(reg, orderSeed)
					orc, err := newOracle(resolve.NewAPIClient(e.cli), reg, oracleBudget)
					if err != nil {
						st.inconclusive(err.Error())
						return
					}
					bi := newBundleInfo(reg)
					resolvable := func(root [2]string) bool {
						o := orc.resolution(root)
						return !o.exhausted && o.panicked == ""
					}
					// A few scenarios per registry.
					for k := 0; k < 4 && s < quota; k++ {
						cc := genScripts(rng, reg, g, resolvable)
						if cc == nil {
							break
						}
						s++
						cs := Case{Kind: "conc", Registry: reg, OrderSeed: orderSeed, Conc: cc}
						st.count(fmt.Sprintf("conc:G=%d:scenarios", g), 1)
						orders := map[uint64]bool{}
						for rep := 0; rep < reps; rep++ {
							e.svc.jitter.Store(true)
							rec, res := runScenario(e, cc, 4*oracleBudget, jit)
							e.svc.jitter.Store(false)
							orders[judgeScenario(st, cs, rec, res, orc, bi)] = true
						}
						if len(orders) > 1 {
							st.count(fmt.Sprintf("conc:G=%d:scenarios-whose-reruns-interleaved-differently", g), 1)
						}
					}
				}
			}
			st.count("service:calls", e.svc.calls.Load())
		}(w)
	}
	wg.Wait()
}

// replayConc re-runs one recorded scenario many times (its verdict depends on
// the schedule).
func replayConc(cs Case, reps int, st *concStats) {
	e, err := newEnv(rand.New(rand.NewSource(cs.OrderSeed)))
	if err != nil {
		st.inconclusive("cannot set up the in-process service: " + err.Error())
		return
	}
	defer e.close()
	jit := &jitter{rng: rand.New(rand.NewSource(cs.OrderSeed + 1))}
	if setYield != nil {
		setYield(func(string) { jit.pause() })
		defer setYield(nil)
	}
	e.serve(cs.Registry, cs.OrderSeed)
	budget := int64(4 * oracleBudget)
	orc, err := newOracle(resolve.NewAPIClient(e.cli), cs.Registry, oracleBudget)
	if err != nil {
		st.inconclusive(err.Error())
		return
	}
	bi := newBundleInfo(cs.Registry)
	for rep := 0; rep < reps; rep++ {
		e.svc.jitter.Store(true)
		rec, res := runScenario(e, cs.Conc, budget, jit)
		e.svc.jitter.Store(false)
		judgeScenario(st, cs, rec, res, orc, bi)
	}
}
