package c15

import (
	"fmt"
	"math/rand"
	"os"
	"path/filepath"
	"sort"
	"strings"
)

// A lineage is a set of POM files: Poms[0] is the project, followed by its
// ancestors, the imported BOMs and their ancestors. Everything is plain data so
// that a failing lineage can be written into a replay file and re-executed.

type Dep struct {
	G          string      `json:"g"`
	A          string      `json:"a"`
	V          string      `json:"v,omitempty"`
	Type       string      `json:"type,omitempty"`
	Classifier string      `json:"classifier,omitempty"`
	Scope      string      `json:"scope,omitempty"`
	Optional   string      `json:"optional,omitempty"`
	Excl       [][2]string `json:"excl,omitempty"`
}

type OS struct {
	Name    string `json:"name,omitempty"`
	Family  string `json:"family,omitempty"`
	Arch    string `json:"arch,omitempty"`
	Version string `json:"version,omitempty"`
}

type Profile struct {
	ID      string      `json:"id"`
	Default string      `json:"default,omitempty"` // <activeByDefault>
	JDK     string      `json:"jdk,omitempty"`
	OS      *OS         `json:"os,omitempty"`
	Props   [][2]string `json:"props,omitempty"`
	Mgmt    []Dep       `json:"mgmt,omitempty"`
	Deps    []Dep       `json:"deps,omitempty"`
}

type Pom struct {
	// Dir is the effective (groupId, artifactId, version): where the file lives.
	Dir [3]string `json:"dir"`
	// G and V as written in the file; empty = inherited from <parent>.
	G         string      `json:"g,omitempty"`
	A         string      `json:"a"`
	V         string      `json:"v,omitempty"`
	Parent    *[3]string  `json:"parent,omitempty"`
	Packaging string      `json:"packaging,omitempty"`
	Props     [][2]string `json:"props,omitempty"`
	Mgmt      []Dep       `json:"mgmt,omitempty"`
	Deps      []Dep       `json:"deps,omitempty"`
	Profiles  []Profile   `json:"profiles,omitempty"`
}

type Lineage struct {
	Poms []Pom `json:"poms"`
	// Feature tags computed by the generator (coverage only, never the oracle).
	Feat []string `json:"feat,omitempty"`
}

// ---------------------------------------------------------------- rendering

func esc(s string) string {
	s = strings.ReplaceAll(s, "&", "&amp;")
	s = strings.ReplaceAll(s, "<", "&lt;")
	return strings.ReplaceAll(s, ">", "&gt;")
}

func el(b *strings.Builder, ind, name, val string) {
	if val != "" {
		fmt.Fprintf(b, "%s<%s>%s</%s>\n", ind, name, esc(val), name)
	}
}

func renderDeps(b *strings.Builder, ind string, ds []Dep) {
	if len(ds) == 0 {
		return
	}
	fmt.Fprintf(b, "%s<dependencies>\n", ind)
	for _, d := range ds {
		fmt.Fprintf(b, "%s  <dependency>\n", ind)
		i2 := ind + "    "
		el(b, i2, "groupId", d.G)
		el(b, i2, "artifactId", d.A)
		el(b, i2, "version", d.V)
		el(b, i2, "type", d.Type)
		el(b, i2, "classifier", d.Classifier)
		el(b, i2, "scope", d.Scope)
		el(b, i2, "optional", d.Optional)
		if len(d.Excl) > 0 {
			fmt.Fprintf(b, "%s<exclusions>\n", i2)
			for _, e := range d.Excl {
				fmt.Fprintf(b, "%s  <exclusion><groupId>%s</groupId><artifactId>%s</artifactId></exclusion>\n", i2, esc(e[0]), esc(e[1]))
			}
			fmt.Fprintf(b, "%s</exclusions>\n", i2)
		}
		fmt.Fprintf(b, "%s  </dependency>\n", ind)
	}
	fmt.Fprintf(b, "%s</dependencies>\n", ind)
}

func renderBase(b *strings.Builder, ind string, props [][2]string, mgmt, deps []Dep) {
	if len(props) > 0 {
		fmt.Fprintf(b, "%s<properties>\n", ind)
		for _, p := range props {
			fmt.Fprintf(b, "%s  <%s>%s</%s>\n", ind, p[0], esc(p[1]), p[0])
		}
		fmt.Fprintf(b, "%s</properties>\n", ind)
	}
	if len(mgmt) > 0 {
		fmt.Fprintf(b, "%s<dependencyManagement>\n", ind)
		renderDeps(b, ind+"  ", mgmt)
		fmt.Fprintf(b, "%s</dependencyManagement>\n", ind)
	}
	renderDeps(b, ind, deps)
}

// XML renders the pom.xml text.
func (p *Pom) XML() string {
	var b strings.Builder
	b.WriteString("<?xml version=\"1.0\" encoding=\"UTF-8\"?>\n<project xmlns=\"http://maven.apache.org/POM/4.0.0\">\n  <modelVersion>4.0.0</modelVersion>\n")
	if p.Parent != nil {
		b.WriteString("  <parent>\n")
		el(&b, "    ", "groupId", p.Parent[0])
		el(&b, "    ", "artifactId", p.Parent[1])
		el(&b, "    ", "version", p.Parent[2])
		b.WriteString("  </parent>\n")
	}
	el(&b, "  ", "groupId", p.G)
	el(&b, "  ", "artifactId", p.A)
	el(&b, "  ", "version", p.V)
	el(&b, "  ", "packaging", p.Packaging)
	renderBase(&b, "  ", p.Props, p.Mgmt, p.Deps)
	if len(p.Profiles) > 0 {
		b.WriteString("  <profiles>\n")
		for _, pr := range p.Profiles {
			b.WriteString("    <profile>\n")
			el(&b, "      ", "id", pr.ID)
			if pr.Default != "" || pr.JDK != "" || pr.OS != nil {
				b.WriteString("      <activation>\n")
				el(&b, "        ", "activeByDefault", pr.Default)
				el(&b, "        ", "jdk", pr.JDK)
				if pr.OS != nil {
					b.WriteString("        <os>\n")
					el(&b, "          ", "name", pr.OS.Name)
					el(&b, "          ", "family", pr.OS.Family)
					el(&b, "          ", "arch", pr.OS.Arch)
					el(&b, "          ", "version", pr.OS.Version)
					b.WriteString("        </os>\n")
				}
				b.WriteString("      </activation>\n")
			}
			renderBase(&b, "      ", pr.Props, pr.Mgmt, pr.Deps)
			b.WriteString("    </profile>\n")
		}
		b.WriteString("  </profiles>\n")
	}
	b.WriteString("</project>\n")
	return b.String()
}

// Write puts every file of the lineage under repo/<g>/<a>/<v>/pom.xml and
// returns the path of the project's own pom.
func (l *Lineage) Write(repo string) (string, error) {
	root := ""
	for i := range l.Poms {
		p := &l.Poms[i]
		dir := filepath.Join(repo, p.Dir[0], p.Dir[1], p.Dir[2])
		if err := os.MkdirAll(dir, 0o755); err != nil {
			return "", err
		}
		f := filepath.Join(dir, "pom.xml")
		if err := os.WriteFile(f, []byte(p.XML()), 0o644); err != nil {
			return "", err
		}
		if i == 0 {
			root = f
		}
	}
	return root, nil
}

// ---------------------------------------------------------------- generator

var (
	extArtifacts = [][2]string{
		{"org.ext", "lib-a"}, {"org.ext", "lib-b"}, {"org.ext", "lib-c"}, {"com.acme", "core"},
		{"com.acme", "util"}, {"io.net", "codec"}, {"io.net", "transport"}, {"org.ext", "lib-d"},
	}
	versions    = []string{"1.0", "1.2.3", "2.0.0", "2.1", "3.0.0-rc1", "0.9.5", "4.5.6.Final", "1.0-SNAPSHOT", "[1.0,2.0)", "7"}
	scopes      = []string{"", "", "", "compile", "test", "runtime", "provided"}
	types       = []string{"", "", "", "", "jar", "test-jar", "war", "pom"}
	classifiers = []string{"", "", "", "", "sources", "tests", "jdk11"}
	optionals   = []string{"", "", "", "true", "false"}
	propNames   = []string{"v.a", "v.b", "ver.c", "dep.d.version", "e.version", "vf"}

	jdkSpecs = []string{"11", "11.0", "11.0.8", "1.8", "17", "12", "10", "11", "1.8", "11.0", "11.0.9", "1.1", "[1.8,)", "[11,12)", "[1.8,11)", "(,11]", "[11.0.8,)", "[12,)", "(11,)", "(1.8,17]", "[9,11.0.8]"}
	// Plain versions that are no component-wise prefix, and negated versions.
	jdkRare = []string{"11.0.1", "1", "!1.8", "!11", "!17", "11.0.7", "!11.0.8"}
	// Shape of an open finding (family names plexus does not know), generated rarely.
	osRare  = []OS{{Family: "linux"}, {Family: "!linux"}, {Family: "Linux", Arch: "amd64"}}
	osSpecs = []OS{
		{Name: "linux"}, {Name: "Linux"}, {Name: "windows"}, {Name: "!windows"}, {Name: "!linux"},
		{Family: "unix"}, {Family: "windows"}, {Family: "!windows"}, {Family: "mac"}, {Family: "!unix"}, {Family: "Unix"},
		{Arch: "amd64"}, {Arch: "!amd64"}, {Arch: "aarch64"}, {Arch: "x86"}, {Arch: "AMD64"},
		{Version: "5.10.0-26-cloud-amd64"}, {Version: "!5.10.0-26-cloud-amd64"}, {Version: "4.19.0"},
		{Family: "unix", Arch: "amd64"}, {Family: "unix", Name: "linux", Arch: "amd64"}, {Family: "unix", Arch: "aarch64"}, {Name: "linux", Version: "!4.19.0"},
		{Family: "!mac", Name: "!windows"}, {Family: "dos"}, {Family: "!dos"},
	}
)

func pick(rng *rand.Rand, ss []string) string { return ss[rng.Intn(len(ss))] }

// Opts narrows the generator (used to keep it inside the supported subset and
// to switch features off while investigating).
type Opts struct {
	NoDupInFile bool
	// DefaultProfilesOnly: every profile is activated by <activeByDefault>
	// (true, sometimes false) and by nothing else: the stratum of the API pass,
	// whose entry point knows neither a JDK nor an OS.
	DefaultProfilesOnly bool
}

type chain struct {
	files    []int    // indices into Lineage.Poms, leaf first
	hasPar   bool     // the leaf has a <parent>
	bom      bool     // an imported BOM's chain
	shadow   []string // placeholders ${name} of properties named like a built-in, declared in this chain
	defined  []string // property names with an unconditional definition somewhere in the chain
	props    []string // ordered table: a value may only mention earlier names
	multiDef map[string]bool
}

type genState struct {
	rng *rand.Rand
	l   *Lineage
	opt Opts
	// keys managed somewhere unconditionally (main sections), by chain root
	feat map[string]bool
}

func (g *genState) tag(s string) { g.feat[s] = true }

// Generate builds one lineage.
func Generate(rng *rand.Rand, opt Opts) *Lineage {
	g := &genState{rng: rng, l: &Lineage{}, opt: opt, feat: map[string]bool{}}
	depth := []int{0, 1, 1, 2, 2, 3, 4}[rng.Intn(7)]
	root := g.newChain("org.proj", "app", depth, false)
	nb := []int{0, 1, 1, 2, 2, 3}[rng.Intn(6)]
	var boms []*chain
	for i := 0; i < nb; i++ {
		boms = append(boms, g.newChain(fmt.Sprintf("org.bom%d", i), fmt.Sprintf("bom%d", i), rng.Intn(3), true))
	}
	g.tag(fmt.Sprintf("parent-depth:%d", depth))
	g.tag(fmt.Sprintf("boms:%d", nb))
	// Property tables first (values may be mentioned by every later piece).
	g.fillProps(root)
	for _, b := range boms {
		g.fillProps(b)
	}
	// Managed entries in BOM chains, then nested imports, then the root chain.
	for _, b := range boms {
		g.fillMgmt(b, true)
	}
	nested := map[int]bool{}
	for i, b := range boms {
		if i+1 < len(boms) && rng.Intn(4) == 0 {
			// BOM i imports BOM i+1 (acyclic by index).
			g.addImport(b, boms[i+1])
			g.tag("import:nested")
			nested[i+1] = true
		}
	}
	g.fillMgmt(root, false)
	for i, b := range boms {
		// Every BOM is imported from the root chain, except (sometimes) one that another BOM imports.
		if nested[i] && rng.Intn(2) == 0 {
			continue
		}
		g.addImport(root, b)
	}
	managed := g.reachableKeys(root, boms)
	g.fillDeps(root, managed, false)
	for _, b := range boms {
		if rng.Intn(5) == 0 {
			g.fillDeps(b, nil, true)
		}
	}
	if !opt.NoDupInFile && rng.Intn(5) == 0 {
		g.addDuplicate(root, boms, false)
	}
	if !opt.NoDupInFile && rng.Intn(16) == 0 {
		// Duplicates in a managed list are the shape of an open finding: rarer.
		g.addDuplicate(root, boms, true)
	}
	for t := range g.feat {
		g.l.Feat = append(g.l.Feat, t)
	}
	sort.Strings(g.l.Feat)
	return g.l
}

// newChain creates leaf + depth ancestors; returns the chain.
func (g *genState) newChain(group, name string, depth int, bom bool) *chain {
	rng := g.rng
	c := &chain{hasPar: depth > 0, bom: bom, multiDef: map[string]bool{}}
	// Coordinates top-down so that children can inherit groupId / version.
	type gav = [3]string
	keys := make([]gav, depth+1)
	for i := depth; i >= 0; i-- {
		a := name
		if i > 0 {
			a = fmt.Sprintf("%s-parent%d", name, i)
		}
		grp := group
		if i > 0 && rng.Intn(3) == 0 {
			grp = group + ".build"
		}
		keys[i] = gav{grp, a, pick(rng, []string{"1.0", "2.5.1", "3.1.0-SNAPSHOT", "0.4", "10.2"})}
		if i < depth && rng.Intn(2) == 0 {
			keys[i][0] = keys[i+1][0]
		}
		if i < depth && rng.Intn(2) == 0 {
			keys[i][2] = keys[i+1][2]
		}
	}
	for i := 0; i <= depth; i++ {
		p := Pom{Dir: keys[i], G: keys[i][0], A: keys[i][1], V: keys[i][2]}
		if i < depth {
			par := keys[i+1]
			p.Parent = &par
			// Inherit groupId / version by omission when they equal the parent's.
			if p.G == par[0] && rng.Intn(2) == 0 {
				p.G = ""
				g.tag("inherit:groupId")
			}
			if p.V == par[2] && rng.Intn(2) == 0 {
				p.V = ""
				g.tag("inherit:version")
			}
		}
		if i > 0 || bom {
			p.Packaging = "pom"
		} else {
			p.Packaging = pick(rng, []string{"", "jar", "jar", "pom", "war"})
		}
		c.files = append(c.files, len(g.l.Poms))
		g.l.Poms = append(g.l.Poms, p)
	}
	return c
}

// builtins that every chain can resolve; parent.* only when the leaf has a parent
// (they are evaluated against the leaf's <parent>).
func (g *genState) builtin(c *chain) string {
	bs := []string{"${project.version}", "${project.version}", "${project.groupId}", "${pom.version}", "${version}", "${pom.groupId}", "${groupId}"}
	if c.hasPar {
		if c.bom {
			g.tag("bom:parent-builtin")
		}
		bs = append(bs, "${project.parent.version}", "${project.parent.version}", "${project.parent.groupId}", "${parent.version}", "${pom.parent.version}")
	}
	return pick(g.rng, bs)
}

func (g *genState) propValue(c *chain, idx int) string {
	rng := g.rng
	switch k := rng.Intn(10); {
	case k < 4 || idx == 0 && k < 7:
		return pick(rng, versions[:8])
	case k < 7:
		g.tag("prop:chained")
		return "${" + c.props[rng.Intn(idx)] + "}"
	case k < 8:
		g.tag("prop:builtin-in-value")
		return g.builtin(c)
	case k < 9 && idx > 0:
		g.tag("prop:composite")
		return fmt.Sprintf("%d.${%s}", rng.Intn(9), c.props[rng.Intn(idx)])
	default:
		if idx > 1 {
			g.tag("prop:composite")
			return fmt.Sprintf("${%s}-${%s}", c.props[rng.Intn(idx)], c.props[rng.Intn(idx)])
		}
		return pick(rng, versions[:8])
	}
}

func (g *genState) newProfile(c *chain, fileIdx int) *Profile {
	rng := g.rng
	p := &g.l.Poms[fileIdx]
	pr := Profile{ID: fmt.Sprintf("p%d", len(p.Profiles))}
	if g.opt.DefaultProfilesOnly {
		pr.Default = "true"
		g.tag("profile:default")
		switch rng.Intn(6) {
		case 0:
			pr.Default = "false"
			g.tag("profile:default-false")
		case 1:
			// No <activation> element at all: never active.
			pr.Default = ""
			g.tag("profile:no-activation")
		}
		p.Profiles = append(p.Profiles, pr)
		return &p.Profiles[len(p.Profiles)-1]
	}
	switch rng.Intn(8) {
	case 0, 1:
		pr.Default = "true"
		g.tag("profile:default")
	case 2, 3, 4:
		pr.JDK = pick(rng, jdkSpecs)
		g.tag("profile:jdk")
		if strings.ContainsAny(pr.JDK, "[(") {
			g.tag("profile:jdk-range")
		}
	case 5, 6:
		o := osSpecs[rng.Intn(len(osSpecs))]
		pr.OS = &o
		g.tag("profile:os")
	default:
		pr.JDK = pick(rng, jdkSpecs)
		o := osSpecs[rng.Intn(len(osSpecs))]
		pr.OS = &o
		if rng.Intn(2) == 0 {
			pr.Default = pick(rng, []string{"true", "false"})
		}
		g.tag("profile:combined")
	}
	if pr.JDK != "" && rng.Intn(8) == 0 {
		pr.JDK = pick(rng, jdkRare)
		g.tag("profile:jdk-rare")
	}
	if pr.OS != nil && rng.Intn(30) == 0 {
		o := osRare[rng.Intn(len(osRare))]
		pr.OS = &o
		g.tag("profile:os-rare")
	}
	p.Profiles = append(p.Profiles, pr)
	return &p.Profiles[len(p.Profiles)-1]
}

// profileFor returns a profile of the file (creating one when there is none, or sometimes a further one).
func (g *genState) profileFor(c *chain, fileIdx int) *Profile {
	p := &g.l.Poms[fileIdx]
	if len(p.Profiles) == 0 || len(p.Profiles) < 3 && g.rng.Intn(3) == 0 {
		return g.newProfile(c, fileIdx)
	}
	return &p.Profiles[g.rng.Intn(len(p.Profiles))]
}

func (g *genState) fillProps(c *chain) {
	rng := g.rng
	n := rng.Intn(len(propNames) + 1)
	perm := rng.Perm(len(propNames))
	for i := 0; i < n; i++ {
		name := propNames[perm[i]]
		c.props = append(c.props, name)
		// One unconditional definition.
		f := c.files[rng.Intn(len(c.files))]
		g.l.Poms[f].Props = append(g.l.Poms[f].Props, [2]string{name, g.propValue(c, i)})
		// Overrides: in another file of the chain, or in a profile.
		for rng.Intn(3) == 0 {
			c.multiDef[name] = true
			if rng.Intn(2) == 0 {
				f2 := c.files[rng.Intn(len(c.files))]
				val := g.propValue(c, i)
				if rng.Intn(6) == 0 {
					// An empty element: in Maven it still replaces the inherited value.
					val = ""
					g.tag("prop:override-empty")
				}
				g.l.Poms[f2].Props = append(g.l.Poms[f2].Props, [2]string{name, val})
				if f2 == f {
					g.tag("prop:dup-in-file")
				} else {
					g.tag("prop:override-in-chain")
				}
			} else {
				pr := g.profileFor(c, c.files[rng.Intn(len(c.files))])
				pr.Props = append(pr.Props, [2]string{name, g.propValue(c, i)})
				g.tag("prop:override-in-profile")
			}
		}
	}
	// Properties named like built-in expressions, in about a third of the chains.
	if rng.Intn(3) == 0 {
		for k := 1 + rng.Intn(2); k > 0; k-- {
			g.addBuiltinNamedProp(c)
		}
	}
	// A child with five to seven properties over ancestors with a few: a
	// list decoded element by element then has spare capacity (8) for all of
	// the parent's, the case in which merging could reuse the child's storage.
	if len(c.files) >= 2 && rng.Intn(5) == 0 {
		f := c.files[0]
		want := 5 + rng.Intn(3)
		for k := 0; len(g.l.Poms[f].Props) < want; k++ {
			g.l.Poms[f].Props = append(g.l.Poms[f].Props, [2]string{fmt.Sprintf("pad.%d", k), "x"})
		}
		g.tag("prop:child-padded")
	}
}

// Property names that coincide with built-in expressions. Maven (asked: see
// witnesses) looks project.* / pom.* up in the model first, so a property of
// such a name never shadows the built-in unless the model has no value (no
// <parent>); the bare names are ordinary properties and do shadow.
var (
	builtinNamesPrefixed = []string{"project.version", "project.groupId", "pom.version", "pom.groupId", "project.parent.version", "project.parent.groupId", "pom.parent.version"}
	builtinNamesBare     = []string{"version", "groupId", "parent.version", "parent.groupId"}
)

// addBuiltinNamedProp declares, somewhere in the chain (a main section or a
// profile), a property whose name is a built-in expression, and remembers the
// placeholder so that dependency versions of the chain use it.
func (g *genState) addBuiltinNamedProp(c *chain) {
	rng := g.rng
	name, kind := pick(rng, builtinNamesPrefixed), "prefixed"
	if rng.Intn(3) == 0 {
		name, kind = pick(rng, builtinNamesBare), "bare"
	}
	val := pick(rng, []string{"0.0.1-LEGACY", "99", "8.8.8", "shadow.g", "6.6-x"})
	f := c.files[rng.Intn(len(c.files))]
	// parent.* without a <parent> has no built-in value: only an unconditional
	// declaration keeps the placeholder resolvable.
	needMain := strings.Contains(name, "parent.") && !c.hasPar
	if !needMain && rng.Intn(3) == 0 {
		pr := g.profileFor(c, f)
		pr.Props = append(pr.Props, [2]string{name, val})
		g.tag("prop:named-like-builtin:in-profile")
	} else {
		g.l.Poms[f].Props = append(g.l.Poms[f].Props, [2]string{name, val})
		if f != c.files[0] {
			g.tag("prop:named-like-builtin:in-ancestor")
		}
	}
	if c.bom {
		g.tag("prop:named-like-builtin:in-bom")
	}
	g.tag("prop:named-like-builtin:" + kind)
	c.shadow = append(c.shadow, "${"+name+"}\x00"+kind)
}

func (g *genState) version(c *chain) string {
	rng := g.rng
	if len(c.shadow) > 0 && rng.Intn(4) == 0 {
		ph, kind, _ := strings.Cut(pick(rng, c.shadow), "\x00")
		g.tag("prop:named-like-builtin:" + kind + "-used")
		return ph
	}
	switch k := rng.Intn(10); {
	case k < 4 && len(c.props) > 0:
		g.tag("version:property")
		return "${" + pick(rng, c.props) + "}"
	case k < 5:
		g.tag("version:builtin")
		return g.builtin(c)
	default:
		return pick(rng, versions)
	}
}

func (g *genState) exclusions() [][2]string {
	rng := g.rng
	if rng.Intn(4) != 0 {
		return nil
	}
	g.tag("exclusions")
	var out [][2]string
	for n := 1 + rng.Intn(2); n > 0; n-- {
		e := extArtifacts[rng.Intn(len(extArtifacts))]
		if rng.Intn(4) == 0 {
			e[1] = "*"
		}
		out = append(out, e)
	}
	return out
}

func (g *genState) artifact(c *chain) Dep {
	rng := g.rng
	e := extArtifacts[rng.Intn(len(extArtifacts))]
	d := Dep{G: e[0], A: e[1], Type: pick(rng, types), Classifier: pick(rng, classifiers)}
	if rng.Intn(12) == 0 {
		// A sibling module addressed through the project's own groupId.
		d.G, d.A = "${project.groupId}", pick(rng, []string{"mod-x", "mod-y"})
		g.tag("groupId:builtin")
	}
	if d.Classifier != "" {
		g.tag("classifier")
	}
	if d.Type != "" && d.Type != "jar" {
		g.tag("type")
	}
	return d
}

func hasKey(list []Dep, d Dep) bool {
	for _, x := range list {
		if depKey(x) == depKey(d) {
			return true
		}
	}
	return false
}

func (g *genState) fillMgmt(c *chain, bom bool) {
	rng := g.rng
	for _, f := range c.files {
		n := rng.Intn(4)
		if bom && f == c.files[0] {
			n = 1 + rng.Intn(4)
		}
		for ; n > 0; n-- {
			d := g.artifact(c)
			d.V = g.version(c)
			d.Scope = pick(rng, scopes)
			d.Optional = pick(rng, optionals[1:])
			d.Excl = g.exclusions()
			if rng.Intn(6) == 0 {
				if pr := g.profileFor(c, f); !hasKey(pr.Mgmt, d) {
					pr.Mgmt = append(pr.Mgmt, d)
					g.tag("mgmt:in-profile")
				}
			} else if !hasKey(g.l.Poms[f].Mgmt, d) {
				// Same-list duplicates are made on purpose by addDuplicate only.
				g.l.Poms[f].Mgmt = append(g.l.Poms[f].Mgmt, d)
			}
		}
	}
}

func (g *genState) addImport(from, bom *chain) {
	rng := g.rng
	key := g.l.Poms[bom.files[0]].Dir
	d := Dep{G: key[0], A: key[1], V: key[2], Type: "pom", Scope: "import"}
	f := from.files[rng.Intn(len(from.files))]
	p := &g.l.Poms[f]
	g.tag("import")
	if f != from.files[0] {
		g.tag("import:from-ancestor")
	}
	if rng.Intn(8) == 0 {
		pr := g.profileFor(from, f)
		pr.Mgmt = append(pr.Mgmt, d)
		g.tag("import:in-profile")
		return
	}
	// Random position among the file's managed entries.
	at := rng.Intn(len(p.Mgmt) + 1)
	p.Mgmt = append(p.Mgmt[:at:at], append([]Dep{d}, p.Mgmt[at:]...)...)
}

func depKey(d Dep) string {
	t := d.Type
	if t == "" {
		t = "jar"
	}
	return d.G + ":" + d.A + ":" + t + ":" + d.Classifier
}

// reachableKeys lists artifacts with a managed entry in a main section of the
// root chain or of a BOM chain (candidates for version-less dependencies).
func (g *genState) reachableKeys(root *chain, boms []*chain) []Dep {
	var out []Dep
	seen := map[string]bool{}
	add := func(c *chain) {
		for _, f := range c.files {
			for _, d := range g.l.Poms[f].Mgmt {
				if d.Scope == "import" || strings.Contains(d.G, "${") {
					continue
				}
				if k := depKey(d); !seen[k] {
					seen[k] = true
					out = append(out, Dep{G: d.G, A: d.A, Type: d.Type, Classifier: d.Classifier})
				}
			}
		}
	}
	add(root)
	for _, b := range boms {
		add(b)
	}
	return out
}

func (g *genState) fillDeps(c *chain, managed []Dep, bom bool) {
	rng := g.rng
	for i, f := range c.files {
		n := rng.Intn(4)
		if i == 0 && !bom {
			n = 1 + rng.Intn(5)
		}
		for ; n > 0; n-- {
			var d Dep
			if len(managed) > 0 && rng.Intn(10) < 6 {
				d = managed[rng.Intn(len(managed))]
				if rng.Intn(5) == 0 {
					d.V = g.version(c) // own version beats the managed one
				}
				g.tag("dep:managed-key")
			} else {
				d = g.artifact(c)
				d.V = g.version(c)
				if !bom && rng.Intn(25) == 0 {
					d.V = "" // possibly unmanaged: Maven rejects, counted as discarded
				}
			}
			d.Scope = pick(rng, scopes)
			d.Optional = pick(rng, optionals)
			if rng.Intn(12) == 0 {
				// <optional> given through a property whose name has capitals
				// (property names are case sensitive), defined in this file.
				name := pick(rng, []string{"bindingIsOptional", "isOptional", "OPT"})
				has := false
				for _, kv := range g.l.Poms[f].Props {
					has = has || kv[0] == name
				}
				if !has {
					g.l.Poms[f].Props = append(g.l.Poms[f].Props, [2]string{name, pick(rng, []string{"true", "false"})})
				}
				d.Optional = "${" + name + "}"
				g.tag("dep:optional-by-property")
			}
			d.Excl = g.exclusions()
			if !bom && rng.Intn(6) == 0 {
				if pr := g.profileFor(c, f); !hasKey(pr.Deps, d) {
					pr.Deps = append(pr.Deps, d)
					g.tag("deps:in-profile")
				}
			} else if !hasKey(g.l.Poms[f].Deps, d) {
				g.l.Poms[f].Deps = append(g.l.Poms[f].Deps, d)
			}
		}
	}
}

// addDuplicate repeats one declaration inside the list that already holds it,
// with different content (the "duplicate declarations" of the quantifier).
func (g *genState) addDuplicate(root *chain, boms []*chain, managed bool) {
	rng := g.rng
	c := root
	if len(boms) > 0 && rng.Intn(4) == 0 {
		c = boms[rng.Intn(len(boms))]
	}
	f := c.files[rng.Intn(len(c.files))]
	p := &g.l.Poms[f]
	mutate := func(d Dep) Dep {
		d.V = g.version(c)
		d.Scope = pick(rng, scopes)
		d.Excl = g.exclusions()
		if d.Type == "" && rng.Intn(2) == 0 {
			d.Type = "jar" // same key, spelled differently
		}
		return d
	}
	if !managed {
		if c.bom {
			f = root.files[rng.Intn(len(root.files))]
			p = &g.l.Poms[f]
			c = root
		}
		if len(p.Deps) > 0 {
			d := mutate(p.Deps[rng.Intn(len(p.Deps))])
			p.Deps = append(p.Deps, d)
			g.tag("dup-in-file:deps")
		}
		return
	}
	var cand []Dep
	for _, d := range p.Mgmt {
		if d.Scope != "import" {
			cand = append(cand, d)
		}
	}
	if len(cand) > 0 {
		d := mutate(cand[rng.Intn(len(cand))])
		p.Mgmt = append(p.Mgmt, d)
		g.tag("dup-in-file:mgmt")
	}
}
