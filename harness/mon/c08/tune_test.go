package c08

import (
	"fmt"
	"testing"

	"verif/harness/ev"
	"verif/harness/uni"
)

func TestTune(t *testing.T) {
	r := ev.New("C08T")
	rn := &runner{r: r, cache: newRefCache(), dropped: map[string]bool{}, shrunk: map[string]int{"C08:P3:prerelease-unjustified:upper-bound-only": 9, "C08:P3:unsatisfied": 9, "C08:P3:prerelease-unjustified": 9, "C08:P2:extra-requirement-without-edge": 9, "C08:P4:unrequested-extra-edge": 9}}
	rng := r.Rand("tune")
	us := make([]*uni.Universe, 400)
	for i := range us {
		us[i] = Generate(rng)
	}
	rn.batch(us, nil)
	tot, free := r.Counter("resolutions"), r.Counter("error_free")
	fmt.Printf("tot %d free %d (%.0f%% err) single %d%% nontrivial %d (%.1f%%) aband %d refetch %d\n", tot, free, 100*float64(tot-free)/float64(tot), 100*r.Counter("nodes:1")/free, r.Counter("nontrivial"), 100*float64(r.Counter("nontrivial"))/float64(free), r.Counter("feature:abandoned-candidate"), r.Counter("feature:refetched-candidate"))
	for _, k := range []string{"violations:C08:P3:prerelease-unjustified:upper-bound-only", "violations:C08:P3:unsatisfied", "violations:C08:P3:prerelease-unjustified", "violations:C08:P2:extra-requirement-without-edge", "violations:C08:P4:unrequested-extra-edge", "feature:edge-without-requirement", "feature:cycle-through-root", "feature:prerelease-selected:named", "feature:marker-extra-true", "graph-error:no candidates", "graph-error:requirements conflict:"} {
		fmt.Println("  ", k, r.Counter(k))
	}
}
