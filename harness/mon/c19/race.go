package c19

import (
	"context"
	"fmt"
	"math/rand"
	"os"
	"os/exec"
	"path/filepath"
	"sort"
	"strings"
	"sync"
	"time"

	"verif/harness/ev"
)

// The race sub-workload: clone a value, then use original and clone from two
// goroutines at once, each mutating and reading only its own. With a deep copy
// the two never touch the same memory; a shared backing store is a data race
// (reported by the -race runtime) or a "concurrent map writes" fatal error.

const raceMarker = "C19-RACE-CHILD"

type raceOp struct {
	kind int // 0 set, 1 read-all, 2 string, 3 self-compare, 4 clone-own
	k    int
	v    string
}

func planRaceOps(rng *rand.Rand, kd *kind, n int) []raceOp {
	ops := make([]raceOp, n)
	for i := range ops {
		switch p := rng.Intn(10); {
		case p < 5:
			ops[i] = raceOp{kind: 0, k: rng.Intn(len(kd.keys)), v: pickValue(rng)}
		default:
			ops[i] = raceOp{kind: 1 + rng.Intn(4)}
		}
	}
	return ops
}

func runRaceOps(kd *kind, v value, m *model, ops []raceOp) {
	for _, o := range ops {
		switch o.kind {
		case 0:
			v.Set(o.k, o.v)
			m.set(kd, o.k, o.v)
		case 1:
			for k := range kd.keys {
				v.Get(k)
				v.Has(k)
			}
			v.Empty()
			if kd.hasEach {
				v.Each()
			}
		case 2:
			_ = v.String()
		case 3:
			v.Equal(v)
			if kd.hasCompare {
				v.Compare(v)
			}
		case 4:
			_ = v.Clone()
		}
	}
}

// raceWorkload runs in the -race child. It returns the number of iterations and
// the divergences from the model seen after the concurrent phase.
func raceWorkload(r *ev.Run) (int, []string) {
	rng := r.Rand("race")
	n := r.N(3000, 30000)
	var bad []string
	for it := 0; it < n; it++ {
		kd := depKind
		if it%2 == 1 {
			kd = verKind
		}
		s := kd.zero()
		var ms model
		for i, k := 0, rng.Intn(6); i < k; i++ {
			key, val := rng.Intn(len(kd.keys)), pickValue(rng)
			s.Set(key, val)
			ms.set(kd, key, val)
		}
		var c value
		if it%4 < 2 {
			c = s.Clone()
		} else {
			c = s.Alias().Clone() // clone taken through a plain assignment copy
		}
		mc := ms
		opsA, opsB := planRaceOps(rng, kd, 4+rng.Intn(20)), planRaceOps(rng, kd, 4+rng.Intn(20))
		var wg sync.WaitGroup
		wg.Add(2)
		go func() { defer wg.Done(); runRaceOps(kd, s, &ms, opsA) }()
		go func() { defer wg.Done(); runRaceOps(kd, c, &mc, opsB) }()
		wg.Wait()
		for _, p := range []struct {
			n string
			v value
			m *model
		}{{"original", s, &ms}, {"clone", c, &mc}} {
			if d := diffModel(kd, p.v, p.m); d != "" && len(bad) < 5 {
				bad = append(bad, fmt.Sprintf("iteration %d (%s) %s: %s; model %s real %s", it, kd.name, p.n, d, p.m.canon(kd), p.v.String()))
			}
		}
	}
	return n, bad
}

// childMain is Run in the child process: race sub-workload only, no evidence.
func childMain(r *ev.Run) {
	n, bad := raceWorkload(r)
	for _, b := range bad {
		fmt.Printf("%s mismatch %s\n", raceMarker, b)
	}
	fmt.Printf("%s done iterations=%d mismatches=%d race_build=%v\n", raceMarker, n, len(bad), raceEnabled)
	os.Exit(0)
}

func findRaceBinary() (path string, args []string) {
	if raceEnabled {
		if exe, err := os.Executable(); err == nil {
			return exe, nil
		}
	}
	b := os.Getenv("VERIF_BUILD")
	if b == "" {
		return "", nil
	}
	cands := []string{"vcheck-race", "dev19-race"}
	if strings.HasPrefix(filepath.Base(os.Args[0]), "dev19") {
		cands = []string{"dev19-race", "vcheck-race"}
	}
	for _, c := range cands {
		p := filepath.Join(b, c)
		if st, err := os.Stat(p); err == nil && !st.IsDir() {
			return p, nil
		}
	}
	return "", nil
}

// raceBlock is one report of the race runtime.
type raceBlock struct {
	text    string
	lib     []string // function frames in deps.dev/...
	harness int      // function frames in verif/harness/...
}

func parseRaceLogs(dir string) []raceBlock {
	files, _ := filepath.Glob(filepath.Join(dir, "race.*"))
	sort.Strings(files)
	var out []raceBlock
	for _, f := range files {
		b, err := os.ReadFile(f)
		if err != nil {
			continue
		}
		var cur *raceBlock
		flush := func() {
			if cur != nil {
				out = append(out, *cur)
				cur = nil
			}
		}
		for _, line := range strings.Split(string(b), "\n") {
			t := strings.TrimSpace(line)
			if strings.HasPrefix(t, "WARNING: DATA RACE") {
				flush()
				cur = &raceBlock{}
			}
			if cur == nil {
				continue
			}
			if strings.HasPrefix(t, "==================") {
				flush()
				continue
			}
			cur.text += line + "\n"
			if strings.HasSuffix(t, ")") && !strings.HasPrefix(t, "/") {
				switch {
				case strings.HasPrefix(t, "deps.dev/"):
					fn := t
					if i := strings.LastIndex(fn, "("); i > 0 {
						fn = fn[:i]
					}
					cur.lib = append(cur.lib, fn)
				case strings.HasPrefix(t, "verif/harness/"):
					cur.harness++
				}
			}
		}
		flush()
	}
	return out
}

// runRaceChild spawns the -race binary for the race sub-workload and turns its
// reports into violations.
func runRaceChild(r *ev.Run) {
	bin, _ := findRaceBinary()
	if bin == "" {
		r.Count("race_subworkload_skipped", 1)
		r.Set("race_subworkload", "skipped: no -race binary ($VERIF_BUILD/vcheck-race or dev19-race)")
		return
	}
	if why := staleRaceBinary(bin); why != "" {
		r.Count("race_subworkload_skipped", 1)
		r.Set("race_subworkload", "skipped: "+why)
		return
	}
	args := []string{r.Tier}
	if strings.HasPrefix(filepath.Base(bin), "vcheck") {
		args = []string{"C19", r.Tier}
	}
	base := os.Getenv("VERIF_BUILD")
	if base == "" {
		base = filepath.Join(ev.Root, "build")
	}
	dir := filepath.Join(base, "race", fmt.Sprintf("C19-%d-%d", r.Seed, os.Getpid()))
	os.RemoveAll(dir)
	if err := os.MkdirAll(dir, 0o755); err != nil {
		r.Inconclusive("race log dir: " + err.Error())
		return
	}
	defer os.RemoveAll(dir)
	// Outer watchdog only; its firing is inconclusive.
	ctx, cancel := context.WithTimeout(context.Background(), 10*time.Minute)
	defer cancel()
	cmd := exec.CommandContext(ctx, bin, args...)
	for _, e := range os.Environ() {
		if strings.HasPrefix(e, "GORACE=") || strings.HasPrefix(e, "C19_RACE_ONLY=") {
			continue
		}
		cmd.Env = append(cmd.Env, e)
	}
	cmd.Env = append(cmd.Env, "C19_RACE_ONLY=1",
		"GORACE=halt_on_error=0 log_path="+filepath.Join(dir, "race"),
		fmt.Sprintf("VERIF_SEED=%d", r.Seed), "VERIF_TIER="+r.Tier)
	out, err := cmd.CombinedOutput()
	text := string(out)
	if ctx.Err() != nil {
		r.Inconclusive("race child: watchdog fired")
		return
	}
	ran := false
	for _, line := range strings.Split(text, "\n") {
		if strings.HasPrefix(line, raceMarker+" mismatch ") {
			r.Violation("C19:race:divergence", "original/clone diverged from the model after concurrent use: "+strings.TrimPrefix(line, raceMarker+" mismatch "), nil)
		}
		if strings.HasPrefix(line, raceMarker+" done ") {
			ran = true
			var n, mm int
			var rb bool
			fmt.Sscanf(strings.TrimPrefix(line, raceMarker+" done "), "iterations=%d mismatches=%d race_build=%t", &n, &mm, &rb)
			r.Count("race_iterations", int64(n))
			r.Eval(int64(2 * n))
			if !rb {
				r.Inconclusive("race child binary " + bin + " is not a -race build")
			}
		}
	}
	if strings.Contains(text, "fatal error: concurrent map") {
		r.Violation("C19:race:concurrent-map-access", "runtime fatal error in the race child: original and clone share a map", tail(text, 1500))
		ran = true
	} else if err != nil && !ran {
		if strings.Contains(text, "unknown property") {
			// a vcheck-race built before C19 was registered
			r.Count("race_subworkload_skipped", 1)
			r.Set("race_subworkload", "skipped: "+bin+" does not contain C19")
			return
		}
		r.Inconclusive(fmt.Sprintf("race child %s failed: %v: %s", bin, err, tail(text, 400)))
		return
	}
	blocks := parseRaceLogs(dir)
	seen := map[string]bool{}
	harnessOnly := 0
	for _, b := range blocks {
		if len(b.lib) == 0 {
			harnessOnly++
			continue
		}
		r.Count("race_reports_in_library", 1)
		sig := strings.Join(uniqSorted(b.lib), " ")
		if seen[sig] {
			continue
		}
		seen[sig] = true
		r.Violation("C19:race:data-race", "data race between an attribute set and its clone used from two goroutines; library frames: "+sig, tail(b.text, 3000))
	}
	if harnessOnly > 0 {
		r.Inconclusive(fmt.Sprintf("%d race reports with harness frames only (monitor-induced)", harnessOnly))
	}
	r.Count("race_reports_total", int64(len(blocks)))
	r.Set("race_subworkload", fmt.Sprintf("ran in %s: %d reports (%d distinct in deps.dev/ code)", filepath.Base(bin), len(blocks), len(seen)))
}

func uniqSorted(s []string) []string {
	m := map[string]bool{}
	var out []string
	for _, x := range s {
		if !m[x] {
			m[x] = true
			out = append(out, x)
		}
	}
	sort.Strings(out)
	return out
}

func tail(s string, n int) string {
	if len(s) > n {
		return "..." + s[len(s)-n:]
	}
	return s
}

// staleRaceBinary guards against a -race binary that was built from another
// state of the code under test (./check dev does not rebuild it): the binary
// must not be older than any source file of the packages it exercises. This
// reads file metadata only; when in doubt the sub-workload is skipped, never
// trusted.
func staleRaceBinary(bin string) string {
	if raceEnabled {
		return "" // we are that binary
	}
	st, err := os.Stat(bin)
	if err != nil {
		return err.Error()
	}
	repo := os.Getenv("VERIF_REPO")
	if repo == "" {
		repo = "/repo"
	}
	for _, d := range []string{"", "dep", "version", "schema", "internal/attr", "internal/deptest", "internal/versiontest"} {
		files, _ := filepath.Glob(filepath.Join(repo, "util/resolve", d, "*.go"))
		for _, f := range files {
			if fs, err := os.Stat(f); err == nil && fs.ModTime().After(st.ModTime()) {
				return fmt.Sprintf("%s is older than %s (built from another state of the tree); rebuild it with ./check devrace 19 or ./check setup", bin, f)
			}
		}
	}
	return ""
}
