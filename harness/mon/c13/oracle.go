package c13

import (
	"fmt"

	"deps.dev/util/resolve"
)

// verdict is one refuting observation.
type verdict struct {
	class string
	what  string
}

// canonCall runs the code under test, turning a panic into a value.
func canonCall(g *resolve.Graph) (err error, pan any) {
	defer func() {
		if p := recover(); p != nil {
			pan = p
		}
	}()
	return g.Canon(), nil
}

// checker holds per-goroutine scratch space.
type checker struct {
	nhIn  []uint64
	nhOut []uint64
	calls int64 // Canon calls made
}

func newChecker() *checker {
	return &checker{nhIn: make([]uint64, 64), nhOut: make([]uint64, 64)}
}

// baseResult is what is known about Canon(G) for the unrelabelled G.
type baseResult struct {
	fp    fingerprint
	canon *resolve.Graph // nil when Canon failed
	err   error
}

// conserved compares a graph that went through Canon with the input
// fingerprint. failed tells whether that Canon call returned an error (its
// documentation promises the graph is then still valid).
func (c *checker) conserved(g *resolve.Graph, in fingerprint, failed bool) *verdict {
	pre := "C13:conservation:"
	when := "after a successful Canon"
	if failed {
		pre = "C13:conservation-after-failure:"
		when = "after a failed Canon"
	}
	out, ok := fpGraph(g, c.nhOut)
	switch {
	case !ok:
		return &verdict{pre + "malformed", fmt.Sprintf("%s the graph has %d nodes (input %d) or an edge end outside the node list: %s", when, len(g.Nodes), in.nn, render(g))}
	case out.root != in.root:
		return &verdict{pre + "root", fmt.Sprintf("%s node 0 is %s@%s with other version key or errors than the input root: %s", when, g.Nodes[0].Version.Name, g.Nodes[0].Version.Version, render(g))}
	case out.nn != in.nn || out.nodes != in.nodes:
		return &verdict{pre + "nodes", fmt.Sprintf("%s the multiset of (version key, errors) nodes differs from the input's (%d nodes in, %d out): %s", when, in.nn, out.nn, render(g))}
	case out.ne != in.ne || out.edges != in.edges:
		return &verdict{pre + "edges", fmt.Sprintf("%s the multiset of (from node, to node, requirement, type) edges differs from the input's (%d edges in, %d out): %s", when, in.ne, out.ne, render(g))}
	}
	return nil
}

// base canonicalises G itself and checks what concerns one graph alone:
// no panic, conservation, idempotence.
func (c *checker) base(s *Graph) (baseResult, *verdict) {
	n := len(s.Nodes)
	if n > len(c.nhIn) {
		c.nhIn = make([]uint64, 2*n)
		c.nhOut = make([]uint64, 2*n)
	}
	var res baseResult
	res.fp = fpSpec(s, c.nhIn)
	g := build(s, nil)
	err, pan := canonCall(g)
	c.calls++
	if pan != nil {
		return res, &verdict{"C13:panic", fmt.Sprint("Canon panicked: ", pan)}
	}
	res.err = err
	if v := c.conserved(g, res.fp, err != nil); v != nil {
		return res, v
	}
	if err != nil {
		return res, nil
	}
	res.canon = snapshot(g)
	err2, pan := canonCall(g)
	c.calls++
	if pan != nil {
		return res, &verdict{"C13:panic", fmt.Sprint("Canon of a canonical graph panicked: ", pan)}
	}
	if err2 != nil {
		return res, &verdict{"C13:idempotence:second-call-fails", fmt.Sprintf("Canon succeeded, Canon of its result fails with %q; first result: %s", err2, render(res.canon))}
	}
	if !sameGraph(res.canon, g) {
		return res, &verdict{"C13:idempotence:changed", fmt.Sprintf("Canon(Canon(G)) != Canon(G): first %s ; second %s", render(res.canon), render(g))}
	}
	return res, nil
}

// relabelled canonicalises relabel(G) and compares with Canon(G).
func (c *checker) relabelled(s *Graph, res *baseResult, rel *Relabel) *verdict {
	h := build(s, rel)
	err, pan := canonCall(h)
	c.calls++
	if pan != nil {
		return &verdict{"C13:panic", fmt.Sprint("Canon of the relabelled graph panicked: ", pan)}
	}
	if v := c.conserved(h, res.fp, err != nil); v != nil {
		return v
	}
	if (err == nil) != (res.err == nil) {
		if err != nil {
			return &verdict{"C13:relabel:one-sided-error", fmt.Sprintf("Canon(G) succeeds (%s) but Canon(relabel(G)) fails: %v", render(res.canon), err)}
		}
		return &verdict{"C13:relabel:one-sided-error", fmt.Sprintf("Canon(G) fails (%v) but Canon(relabel(G)) succeeds: %s", res.err, render(h))}
	}
	if err == nil && !sameGraph(res.canon, h) {
		return &verdict{"C13:relabel:different-canon", fmt.Sprintf("Canon(G) = %s ; Canon(relabel(G)) = %s", render(res.canon), render(h))}
	}
	return nil
}

// checkCase evaluates one stored (graph, relabelling) pair completely.
func (c *checker) checkCase(cs *Case) *verdict {
	res, v := c.base(&cs.G)
	if v != nil {
		return v
	}
	return c.relabelled(&cs.G, &res, &cs.Rel)
}

// ---- shrinking

func identityRel(g *Graph) Relabel {
	r := Relabel{Perm: make([]int, len(g.Nodes)), EdgeOrder: make([]int, len(g.Edges)), ErrOrder: make([][]int, len(g.Nodes))}
	for i := range r.Perm {
		r.Perm[i] = i
	}
	for i := range r.EdgeOrder {
		r.EdgeOrder[i] = i
	}
	for i := range g.Nodes {
		r.ErrOrder[i] = make([]int, len(g.Nodes[i].Errs))
		for j := range r.ErrOrder[i] {
			r.ErrOrder[i][j] = j
		}
	}
	return r
}

// explicit rewrites a Reverse relabelling into explicit orders.
func explicit(cs Case) Case {
	if !cs.Rel.Reverse {
		return cs
	}
	r := identityRel(&cs.G)
	copy(r.Perm, cs.Rel.Perm)
	for i, m := 0, len(r.EdgeOrder); i < m; i++ {
		r.EdgeOrder[i] = m - 1 - i
	}
	for _, eo := range r.ErrOrder {
		for j, m := 0, len(eo); j < m; j++ {
			eo[j] = m - 1 - j
		}
	}
	cs.Rel = r
	return cs
}

func cloneCase(cs Case) Case {
	out := Case{Note: cs.Note}
	out.G.Nodes = make([]Node, len(cs.G.Nodes))
	for i, n := range cs.G.Nodes {
		out.G.Nodes[i] = Node{Name: n.Name, Ver: n.Ver, Errs: append([]NodeErr(nil), n.Errs...)}
	}
	out.G.Edges = append([]Edge{}, cs.G.Edges...)
	out.Rel.Perm = append([]int(nil), cs.Rel.Perm...)
	out.Rel.Reverse = cs.Rel.Reverse
	out.Rel.EdgeOrder = append([]int(nil), cs.Rel.EdgeOrder...)
	out.Rel.ErrOrder = make([][]int, len(cs.Rel.ErrOrder))
	for i, eo := range cs.Rel.ErrOrder {
		out.Rel.ErrOrder[i] = append([]int{}, eo...)
	}
	return out
}

// dropIndex removes position value k from an order (a permutation of 0..m-1),
// renumbering the larger values.
func dropIndex(order []int, k int) []int {
	out := make([]int, 0, len(order))
	for _, x := range order {
		switch {
		case x == k:
		case x > k:
			out = append(out, x-1)
		default:
			out = append(out, x)
		}
	}
	return out
}

func dropEdge(cs Case, j int) Case {
	c := cloneCase(cs)
	c.G.Edges = append(c.G.Edges[:j:j], c.G.Edges[j+1:]...)
	c.Rel.EdgeOrder = dropIndex(c.Rel.EdgeOrder, j)
	return c
}

func dropErr(cs Case, i, k int) Case {
	c := cloneCase(cs)
	c.G.Nodes[i].Errs = append(c.G.Nodes[i].Errs[:k:k], c.G.Nodes[i].Errs[k+1:]...)
	c.Rel.ErrOrder[i] = dropIndex(c.Rel.ErrOrder[i], k)
	return c
}

func dropNode(cs Case, v int) Case {
	c := cloneCase(cs)
	for j := len(c.G.Edges) - 1; j >= 0; j-- {
		if e := c.G.Edges[j]; e.From == v || e.To == v {
			c.G.Edges = append(c.G.Edges[:j:j], c.G.Edges[j+1:]...)
			c.Rel.EdgeOrder = dropIndex(c.Rel.EdgeOrder, j)
		}
	}
	for j := range c.G.Edges {
		if c.G.Edges[j].From > v {
			c.G.Edges[j].From--
		}
		if c.G.Edges[j].To > v {
			c.G.Edges[j].To--
		}
	}
	c.G.Nodes = append(c.G.Nodes[:v:v], c.G.Nodes[v+1:]...)
	c.Rel.ErrOrder = append(c.Rel.ErrOrder[:v:v], c.Rel.ErrOrder[v+1:]...)
	pv := c.Rel.Perm[v]
	perm := make([]int, 0, len(c.Rel.Perm)-1)
	for i, x := range c.Rel.Perm {
		if i == v {
			continue
		}
		if x > pv {
			x--
		}
		perm = append(perm, x)
	}
	c.Rel.Perm = perm
	return c
}

// shrink greedily drops nodes, edges and errors and simplifies the
// relabelling while the case keeps failing with the same class. It is bounded
// by a count of oracle evaluations, not by time.
func (c *checker) shrink(cs Case, class string) Case {
	cur := explicit(cloneCase(cs))
	budget := 3000
	fails := func(x Case) bool {
		if budget <= 0 {
			return false
		}
		budget--
		if x.validate() != nil {
			return false
		}
		v := c.checkCase(&x)
		return v != nil && v.class == class
	}
	if !fails(cur) {
		return cs // not reproducible in explicit form; keep the original
	}
	for progress := true; progress && budget > 0; {
		progress = false
		for v := len(cur.G.Nodes) - 1; v >= 1; v-- {
			if x := dropNode(cur, v); fails(x) {
				cur, progress = x, true
			}
		}
		for j := len(cur.G.Edges) - 1; j >= 0; j-- {
			if x := dropEdge(cur, j); fails(x) {
				cur, progress = x, true
			}
		}
		for i := range cur.G.Nodes {
			for k := len(cur.G.Nodes[i].Errs) - 1; k >= 0; k-- {
				if x := dropErr(cur, i, k); fails(x) {
					cur, progress = x, true
				}
			}
		}
		// Simplify the relabelling: identity orders, identity permutation.
		id := identityRel(&cur.G)
		try := func(mod func(x *Case)) {
			x := cloneCase(cur)
			mod(&x)
			if fmt.Sprint(x.Rel) != fmt.Sprint(cur.Rel) && fails(x) {
				cur, progress = x, true
			}
		}
		try(func(x *Case) { x.Rel.EdgeOrder = id.EdgeOrder })
		try(func(x *Case) { x.Rel.ErrOrder = id.ErrOrder })
		try(func(x *Case) { x.Rel.Perm = id.Perm })
		// Simplify edge labels.
		for j := range cur.G.Edges {
			if cur.G.Edges[j].Type != "reg" {
				j := j
				try2 := cloneCase(cur)
				try2.G.Edges[j].Type = "reg"
				if fails(try2) {
					cur, progress = try2, true
				}
			}
		}
	}
	return cur
}
