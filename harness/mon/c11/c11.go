// Package c11 monitors the round trip Constraint -> Set.String() ->
// ParseSetConstraint.
package c11

import (
	"fmt"
	"math/rand"
	"strings"
	"sync"

	"deps.dev/util/semver"
	"verif/harness/ev"
	"verif/harness/gen"
)

type Case struct {
	Sys   string   `json:"sys"`
	C     string   `json:"c"`
	Cands []string `json:"cands,omitempty"`
}

type sysgen struct {
	name string
	sys  semver.System
	gen  func(*rand.Rand) string
	cand func(*rand.Rand) string
	pfx  string
	maxN int
}

func systems() []sysgen {
	full := func(r *rand.Rand) string { return gen.SemFull(r, true) }
	return []sysgen{
		{"Default", semver.DefaultSystem, gen.SmallEdges(gen.SameLower(gen.NPMRange, " ")), full, "", 3},
		{"NPM", semver.NPM, gen.SmallEdges(gen.SameLower(gen.NPMRange, " ")), full, "", 3},
		{"Cargo", semver.Cargo, gen.SmallEdges(gen.SameLower(gen.CargoReq, ", ")), full, "", 3},
		{"Go", semver.Go, func(r *rand.Rand) string { return "v" + gen.SemFull(r, true) }, func(r *rand.Rand) string { return "v" + gen.SemFull(r, true) }, "v", 3},
		{"NuGet", semver.NuGet, gen.SmallEdges(gen.NuGetRange), gen.NuGet, "", 4},
	}
}

func Run(r *ev.Run, replay string) {
	r.MaxSamples = 10
	r.Rule = "per system (Default, NPM, Cargo, Go, NuGet): generated constraints C accepted by ParseConstraint; s=C.Set().String(); ParseSetConstraint(s) must succeed, print s again, and agree with C under MatchVersionPrerelease on every candidate (bounds printed in s, their successors/predecessors in each position, -0/-alpha variants, 60 random versions). Non-trivial = distinct constraint whose set has >=2 spans, an infinity component, a prerelease bound or is empty."
	if replay != "" {
		var c struct {
			Case Case `json:"case"`
		}
		if err := ev.ReadJSON(replay, &c); err != nil {
			r.Inconclusive("replay unreadable")
			return
		}
		for _, sg := range systems() {
			if sg.name == c.Case.Sys {
				one(r, sg, c.Case.C, c.Case.Cands)
			}
		}
		return
	}
	var wit []Case
	if err := ev.ReadJSON(ev.Root+"/witnesses/C11.json", &wit); err != nil {
		r.Inconclusive("witnesses/C11.json: " + err.Error())
	}
	n := r.N(30000, 1500000)
	var wg sync.WaitGroup
	for _, sg := range systems() {
		for _, w := range wit {
			if w.Sys == sg.name {
				one(r, sg, w.C, w.Cands)
				r.Count("witness_cases", 1)
			}
		}
		// Fixed cases next to the generated ones: constraints that are white
		// space only (they mean "everything"), and numbers just below the
		// largest a version can hold, in every position and under every
		// operator that computes a bound from them (the successor of the
		// largest but one is the recorded max-int-component finding).
		{
			bg := []string{sg.pfx + "1.0.0", sg.pfx + "0.0.0", sg.pfx + "9223372036854775800.0.0"}
			for _, ws := range []string{"", " ", "\t", " \t ", "\n", "\t\t", " \r\n "} {
				one(r, sg, ws, bg)
				r.Count("fixed_cases:"+sg.name, 1)
			}
			for k := int64(1); k <= 8; k++ {
				n := fmt.Sprint(int64(9223372036854775807) - k)
				for _, c := range []string{">" + n, ">=" + n, "<" + n, "<=" + n, "^" + n, "~" + n, n, n + ".x", ">1.2." + n, "1." + n + ".3", ">1." + n, "<=0.0." + n, "^0." + n + ".1", "~1." + n, sg.pfx + n + ".1.2", sg.pfx + "1." + n + ".2-pre", "[" + n + ", )", "(, 1." + n + "]", "[1.2." + n + "]"} {
					one(r, sg, c, bg)
					r.Count("fixed_cases:"+sg.name, 1)
				}
			}
		}
		for sh := 0; sh < 4; sh++ {
			wg.Add(1)
			go func(sg sysgen, sh int) {
				defer wg.Done()
				rng := r.Rand(fmt.Sprintf("%s/%d", sg.name, sh))
				if sh == 3 {
					// Numbers at the edges of the integer ranges: the bound after
					// the largest number a version can hold is infinity, followed by
					// finite numbers.
					sg.gen = gen.Extreme(sg.gen)
				}
				var bg []string
				for i := 0; i < 60; i++ {
					bg = append(bg, sg.cand(rng))
				}
				seen := map[string]bool{}
				for i := 0; i < n/3; i++ {
					c := sg.gen(rng)
					if seen[c] {
						continue
					}
					seen[c] = true
					one(r, sg, c, bg)
				}
			}(sg, sh)
		}
	}
	wg.Wait()
	for _, sg := range systems() {
		if sg.name == "Go" { // Small space: distinct three-number versions over the generator's alphabet.
			r.Gate("constraints:"+sg.name, 1000)
		} else {
			r.Gate("constraints:"+sg.name, int64(n/12))
		}
		for _, f := range []string{"multi-span", "infinity", "prerelease-bound"} {
			if sg.name == "Go" && f != "prerelease-bound" || (sg.name == "NuGet" || sg.name == "Cargo") && f == "multi-span" {
				continue
			}
			r.Gate("feature:"+f+":"+sg.name, 20)
		}
	}
	r.Gate("feature:empty:NPM", 5)
}

var sampled sync.Map

func one(r *ev.Run, sg sysgen, cs string, extra []string) {
	cc := Case{Sys: sg.name, C: cs}
	defer func() {
		if p := recover(); p != nil {
			r.Violation("C11:"+sg.name+":panic", fmt.Sprintf("%s: panic on %q: %v", sg.name, cs, p), cc)
		}
	}()
	c, err := sg.sys.ParseConstraint(cs)
	if err != nil {
		return
	}
	r.Count("constraints:"+sg.name, 1)
	s := c.Set().String()
	r.Eval(1)
	c2, err := sg.sys.ParseSetConstraint(s)
	if err != nil {
		class := "unparsable"
		if strings.Contains(cs, "9223372036854775806") {
			class = "unparsable:max-int-component" // recorded finding: the successor of MaxInt64-1 is the infinity marker
		}
		r.Violation("C11:"+sg.name+":"+class, fmt.Sprintf("%s: set of %q prints as %s which ParseSetConstraint rejects: %v", sg.name, cs, s, err), cc)
		return
	}
	if s2 := c2.Set().String(); s2 != s {
		r.Violation("C11:"+sg.name+":prints-differently", fmt.Sprintf("%s: set of %q prints as %s, re-parsed prints as %s", sg.name, cs, s, s2), cc)
	}
	feats := features(s)
	for _, f := range feats {
		r.Count("feature:"+f+":"+sg.name, 1)
	}
	if len(feats) > 0 {
		r.Nontrivial(sg.name + "\x00" + cs)
		if _, d := sampled.LoadOrStore(sg.name+feats[0], true); !d {
			r.Sample(map[string]string{"sys": sg.name, "constraint": cs, "set": s})
		}
	}
	pre := []string{"-0", "-alpha"}
	if sg.name == "NuGet" { // labels compare case-insensitively there
		pre = []string{"-0", "-alpha", "-beta", "-RC", "-rc.1", "-Zeta"}
	}
	cands := gen.Boundary(s, 3, sg.maxN, pre)
	if sg.pfx != "" {
		for k := range cands {
			cands[k] = sg.pfx + cands[k]
		}
	}
	cands = append(cands, extra...)
	for _, vs := range cands {
		v, err := sg.sys.Parse(vs)
		if err != nil || v.IsWildcard() {
			continue
		}
		r.Eval(1)
		if a, b := c.MatchVersionPrerelease(v), c2.MatchVersionPrerelease(v); a != b {
			cc.Cands = []string{vs}
			r.Violation("C11:"+sg.name+":matches-differently", fmt.Sprintf("%s: %q (set %s) matches %s prerelease-inclusively: %v; the re-parsed set: %v", sg.name, cs, s, vs, a, b), cc)
			return
		}
	}
}

func features(set string) []string {
	var f []string
	depth, spans := 0, 0
	for _, c := range set {
		switch c {
		case '[', '(':
			depth++
		case ']', ')':
			depth--
		case ',':
			if depth == 0 {
				spans++
			}
		}
	}
	if spans > 0 {
		f = append(f, "multi-span")
	}
	for _, c := range set {
		if c == '∞' {
			f = append(f, "infinity")
			break
		}
	}
	for i := 0; i+1 < len(set); i++ {
		if set[i] == '-' && set[i+1] != '>' {
			f = append(f, "prerelease-bound")
			break
		}
	}
	if set == "{<empty>}" || set == "{}" {
		f = append(f, "empty")
	}
	return f
}
