#!/usr/bin/env python3
"""Regenerates /verif/MANIFEST.json from the table below."""
import json, os
ROOT = os.path.dirname(os.path.dirname(os.path.abspath(__file__)))
ALL = ["C%02d" % i for i in range(1, 20)]

# id -> (technique, level text, level note, design_ref)
CHECKS = {
 "C01": ("runtime monitor: order-law oracle over full comparison matrices of generated version pools (all triples), history/permutation metamorphism",
         "Exploration: every triple of each generated pool (9 systems, pools with respelled variants so equal pairs are common) is checked against the order laws on the live comparator; build-metadata, history-independence and sort-invariance observed on the same objects. Held-on-what-was-observed, not a proof.",
         "Generators decide reach; Maven pool restricted to the quantifier's Maven-Central shape.", "§6 C01"),
 "C02": ("runtime differential monitor: all pairs of generated version pools compared by the library and by the ecosystem's own implementation (node-semver, pip packaging, Rust semver, x/mod, Maven ComparableVersion; two-formulation models for Gem::Version/NuGet)",
         "Exploration: the live comparator is observed on every pair of reference-accepted pools and must give the reference's sign; the reference's normal form of every pool string must parse and compare equal. Reach = generators (respelled variants, hyphen/number/case/leading-zero identifiers, all PEP 440 spellings).",
         "Adapters trusted after self-test; Gem/NuGet are transcribed models; Maven reference is 3.8.7 on the quantifier's shape (qualifier+0 and dot-introduced qualifiers excluded, see DESIGN §3).", "§6 C02"),
 "C03": ("runtime differential monitor: generated requirement strings x boundary-biased candidates answered by the library (Match, MatchVersion, resolve.MatchRequirement) and by node-semver / Rust VersionReq / packaging SpecifierSet / Maven VersionRange",
         "Exploration: every (requirement, candidate) pair observed must get the reference's answer and no reference-non-empty requirement may be rejected; candidates are derived from the literals of each requirement (successor/predecessor in every position, prerelease variants). Five recorded divergences are identified by reduction-based class predicates (known_findings.json) and everything else is a fresh violation.",
         "Adapters trusted after self-test; domain per the property's quantifier (PyPI final non-zero candidates, Maven candidates >= 0; Maven open-lower/below-zero upper bounds only as witness).", "§6 C03"),
 "C17": ("runtime descriptor monitor: complete walk of the live protoreflect descriptors of api/v3 against api/v3alpha, own proto3 parser vs embedded descriptors (self-tested on protoc output), and seeded gRPC round trips v3 client -> v3alpha server over bufconn",
         "Enumerates every v3 descriptor element (rpcs, http bindings, messages, fields, enums, values) and every declaration of both .proto files completely (exhaustive: true), and observes real wire exchanges in which every reachable v3 field/enum value/oneof arm is populated; resolver System constants compared with the enum.",
         "The proto3 declaration parser is validated at start-up against three protoc-generated descriptors; a construct it does not understand is inconclusive, never a pass.", "§6 C17"),
 "C09": ("runtime law monitor: Union/Intersect results compared pointwise with the library's own matching of freshly parsed operands on boundary candidates; operand-order and span-order metamorphism",
         "Exploration: for every generated pair the union/intersection laws, Empty() and order independence are evaluated on every bound of the operands and of the result (+-1 in each position, prerelease variants) and on random versions, in both release and prerelease-inclusive matching.",
         "Oracle = the library's own Match on the operands; one recorded divergence (adjoining spans joined by canonicalisation admit the prereleases in the seam under interval matching) is identified by a reduction predicate.", "§6 C09"),
 "C10": ("runtime law monitor: canonical string must parse, compare equal and be a fixed point; versions grouped by canonical string must compare equal",
         "Exploration over generated and respelled version strings of nine systems (RubyGems release-only), Canon(true), Canon(false) and pypi.CanonVersion.",
         "Wildcard patterns (1.x) are treated as non-versions.", "§6 C10"),
 "C11": ("runtime round-trip monitor: Constraint -> Set.String() -> ParseSetConstraint, equality of print form and of prerelease-inclusive matching on boundary candidates",
         "Exploration over generated constraints of Default, NPM, Cargo, Go and NuGet with forced coverage of multi-span sets, infinity components, prerelease bounds and the empty set.",
         "Candidates are derived from the printed bounds; agreement elsewhere is not observed.", "§6 C11"),
 "C19": ("runtime model monitor: operation sequences on dep.Type / version.AttrSet replayed against a {flags, key->value} model, order laws over all triples, clone-independence re-verified after every operation, text round trips through the public schema API; race-detector build of a concurrent clone workload",
         "Exploration: every live value is re-checked against its model after every operation of every generated sequence; Compare/Equal matrices against model equality and the order laws; six text forms through schema.ParseResolve, Graph.String and schema.New; a -race child uses original and clone from two goroutines.",
         "Values a text form cannot spell (listed in evidence: e.g. '|' on a graph line) are replaced before writing; the race detector reports only executed races.", "§6 C19"),
 "C12": ("runtime model + metamorphic monitor: MatchRequirement on fresh copies of 12 permutations of each generated list, directly and through LocalClient, against single-version membership and the stated order",
         "Exploration: membership (== versions matching on their own), order (model of the stated ecosystem order incl. npm latest/unparsable rules) and permutation invariance observed on every generated (requirement, list).",
         "Membership/order oracles reuse the library's single-version matching and comparison, themselves compared with the ecosystems' tools by C03/C02.", "§6 C12"),
 "C14": ("runtime history monitor: AddVersion/read histories on a live LocalClient replayed against a map-based reference model, every read compared at read time",
         "Exploration over generated histories (new keys, re-added keys with changed tags/flags/requirements, deleted-flagged adds, moving latest tag, reads of present/absent/merely-required packages).",
         "Model order = library comparison + stated npm rules; at most one latest holder per package.", "§6 C14"),
 "C16": ("runtime differential monitor: generated PEP 508 requirement strings parsed by the library and by pip's packaging; generated marker expressions observed through the PyPI resolver (edge present or not) against packaging's Marker.evaluate in the library's own target environment",
         "Exploration: name/extras/specifier/marker fields compared for every generated requirement packaging accepts; every marker (and/or/parentheses to depth 4 over all variables and operators, both operand orders, a sweep of single atoms) is placed on a dependency of a three-package universe and the resolver's decision compared with packaging's; the environment is read from the library by probing and cross-checked with env.gen.go.",
         "pip._vendor.packaging 21.3 is the oracle; atoms whose meaning differs between packaging generations are excluded and listed in evidence; one recorded divergence ('!=' with a post-release literal on the left, root cause in util/semver) is identified by a rewrite-and-re-resolve predicate.", "§6 C16"),
 "C06": ("runtime invariant monitor on every graph returned by the npm resolver over generated universes, and on the final install tree handed out by hook H1 (build tag verif): requirement-to-edge matching, satisfaction (node-semver), completeness, reachability, reference pick, one-name-per-directory, Node's walk-up lookup",
         "Exploration: every version of every generated universe (base, alias-collision and bundled strata) is resolved through a step-budgeted client and the returned graph plus install tree are checked against G1-G4/T1-T2; violating universes are shrunk before being reported.",
         "node-semver adapter trusted after self-test; tree clauses only without bundled packages and outside the alias-collision stratum; resolutions exhausting the step budget belong to C04.", "§6 C06"),
 "C07": ("runtime invariant monitor on every graph returned by the Maven resolver over generated universes, with a tracing client that observes the resolver's retry passes: one version per artifact, nearest-wins (strict on single-pass, trace-based on multi-pass), range containment (Maven VersionRange), management, exclusions, root-only scopes, war/ear/rar",
         "Exploration: every version of every generated universe is resolved through a step-budgeted tracing client; clauses M1-M7 are evaluated on the returned graph and the trace; violating universes are shrunk.",
         "Maven 3.8.7 VersionRange answers range questions (batched); nearest-wins is asserted only in the forms that the accumulated-requirements retry loop satisfies (DESIGN §6 C07).", "§6 C07"),
 "C13": ("runtime metamorphic monitor: Canon on a graph and on its relabelings (node renumbering, edge/error shuffles) must agree or both fail; idempotence and conservation of nodes, errors, edges; a defined small space enumerated completely plus random graphs",
         "Enumerates a precisely defined sub-space of small rooted graphs (all labelings over {a@1,a@2}, edge sets, optional parallel edge and node error, all (n-1)! relabelings) completely (exhaustive: true, size cross-checked against a closed formula) and 20 relabelings each of random graphs up to 40 nodes.",
         "Fresh graphs are built for every Canon call; conservation fingerprints are computed by the harness from its own description of the input.", "§6 C13"),
 "C08": ("runtime invariant monitor on every error-free graph returned by the PyPI resolver over generated universes: one version per package, every true-by-construction requirement represented by an edge to a version satisfying its specifier (packaging SpecifierSet) under pip's prerelease rule, false markers contribute nothing, reachability, root not replaced",
         "Exploration: every version of every generated universe (all operators, prereleases, markers with truth known by construction and verified by probing the library, extras, cycles through the root, conflicts forcing backtracking) is resolved through a step-budgeted client; P1-P5 are evaluated on the returned graph; violating universes are shrunk.",
         "packaging 21.3 answers specifier questions (batched); three recorded divergences (interval matching of '<V' / '!=V.*' against V's own prereleases, stale extras of abandoned candidates) are identified by class predicates with witnesses.", "§6 C08"),
 "C05": ("runtime metamorphic monitor + race detector: repeated / history / insertion-order / defensive-copy-client resolutions compared with a fresh-client baseline, client state dumped before and after every resolution, and a -race-built child running 2/4/16 concurrent resolutions on shared resolver and client with seeded yields at the client boundary",
         "Exploration over the npm, Maven and PyPI universe generators of C06-C08: every compared resolution must encode identically to the baseline, the client must report identically before and after, and no race report may carry a deps.dev frame; distinct completion orders of the concurrent runs are counted.",
         "Graphs are compared through an order-independent encoding, not Graph.Canon; the race detector only sees executed interleavings (counts of resolutions and distinct completion orders are in evidence).", "§6 C05"),
 "C15": ("runtime differential monitor: generated POM lineages written to disk, effective dependencies computed by the library's documented pipeline (the example's own mergeParents, copied verbatim from the tree under test at build time, + ProcessDependencies) and by Maven 3.8.7's ModelBuilder in a side JVM; interpolation termination monitor over generated property tables",
         "Exploration: ordered dependency and managed-dependency lists (group, artifact, version, type, classifier, scope, optional, exclusions) must be equal for every lineage Maven accepts; differences are attributed to the one open finding only by a remove-the-shape-and-re-run-both-sides reduction; property tables (cycles, self-references) must terminate and leave unknown placeholders in place.",
         "Maven 3.8.7 is the only reference available; generator exclusions are listed in evidence.", "§6 C15"),
 "C04": ("runtime crash/hang monitor: every exported parsing/matching entry point x system driven with random, grammar-derived, mutated and very long inputs in child processes (input logged before each call, recover around each call, memory cap, watchdog + solo re-run), resolvers over hostile universes under a logical step budget",
         "Exploration: a recovered panic, a child death (fatal error, stack overflow, memory cap) reproduced by a solo re-run, a call that does not return within the watchdog even alone, or a resolution still asking the client after 5x the step budget is a violation with the logged input as witness; every (entry point, system) pair is gated to a minimum call count.",
         "Wall clock is used only by the outer watchdog (a second firing is inconclusive); super-linear but terminating running times are not reported.", "§6 C04"),
 "C18": ("runtime monitor of the API-backed client over an in-process gRPC Insights service: bundle/alias invariants on all four client calls, differential resolution against a LocalClient loaded with an independently encoded copy of the same registry, recorded concurrent call histories value-checked and linearizability-checked (porcupine), race-detector child with yield hook H2",
         "Exploration over generated npm registries (bundle trees to depth 3, aliases incl. scoped names and inner '@', all dependency sections): invariants after every Requirements call, graph equality APIClient vs LocalClient for every root, 2/8/16 goroutines on one client with seeded server delays and H2 yields between critical sections; every concurrent result equals the sequential one, every history is linearizable against the 'bundles visible once the parent's Requirements has taken effect' model, no race report with a deps.dev frame.",
         "The mangling convention is re-implemented independently (never calls npmRequirements); resolutions exhausting the step budget on both clients are skipped; the race detector sees executed interleavings only (distinct call orders are counted).", "§6 C18"),
}
NOT_YET = {}

def main():
    checks = []
    for pid, (tech, text, note, ref) in sorted(CHECKS.items()):
        checks.append({
            "property_id": pid,
            "quick_cmd": "./check %s quick" % pid,
            "thorough_cmd": "./check %s thorough" % pid,
            "evidence_file": "/verif/evidence/%s.json" % pid,
            "replay_cmd_template": "./check %s quick --replay {path}" % pid,
            "engine": "vcheck",
            "level_claimed": {"category": "exploration", "text": text, "design_ref": ref},
            "level_note": note,
            "technique": tech,
        })
    na = [{"property_id": p, "reason": NOT_YET.get(p, "monitor not built yet in this tree (work in progress; see DESIGN.md §6 for the planned runtime monitor)")} for p in ALL if p not in CHECKS]
    m = {
        "version": 1,
        "setup_cmd": "./check setup",
        "hooks": {
            "guard": "verif",
            "enable": "go build -tags verif (the harness module replaces deps.dev/* with /repo/*)",
            "baseline_off_cmd": "/verif/tools/baseline.sh",
            "source_commits": json.load(open(os.path.join(ROOT, "MANIFEST.hooks"))) if os.path.exists(os.path.join(ROOT, "MANIFEST.hooks")) else [],
            "add_only": True,
        },
        "engines": [{"name": "vcheck", "path": "/verif/harness/cmd/vcheck", "serves_properties": sorted(CHECKS), "kind_free_text": "Go harness linked against /repo's working tree: seeded workload generators, reference adapters (node-semver, packaging, Rust semver, Maven jars, x/mod), reference models, invariant monitors, race-detector builds"}],
        "checks": checks,
        "not_applicable": na,
        "notes": "All verdicts are three-valued (held / violated / inconclusive=exit 2). Known findings: /verif/known_findings.json.",
    }
    json.dump(m, open(os.path.join(ROOT, "MANIFEST.json"), "w"), indent=1)
    print("wrote MANIFEST.json with", len(checks), "checks")
main()
