package c07

import (
	"fmt"
	"math/rand"
	"strings"

	"verif/harness/uni"
)

// Generate builds one Maven universe: 4-8 artifacts in two groups, 1-4
// versions each ("x.y"), 0-4 declarations per version and 0-2
// dependencyManagement entries per version (every version may be the root).
// It is deterministic in rng and is reused by other resolver monitors.
//
// Per artifact name the packaging class is fixed: either jar-like (type
// absent or "jar", which the resolver treats alike), one of war/ear/rar (not
// traversed) or "zip" (a distinct type that is traversed). Some jar-like
// names additionally exist with classifier "tests": those are separate
// artifacts of the same coordinates.
func Generate(rng *rand.Rand) *uni.Universe {
	type pkg struct {
		name, group, art string
		typ              string // "", war, ear, rar, zip
		altClassifier    bool
		vers             []string
	}
	np := 4 + rng.Intn(5)
	pkgs := make([]*pkg, np)
	for i := range pkgs {
		p := &pkg{group: "g", art: string(rune('a' + i))}
		if rng.Intn(10) < 3 {
			p.group = "h"
		}
		p.name = p.group + ":" + p.art
		switch k := rng.Intn(24); {
		case k < 3:
			p.typ = uni.Pick(rng, "war", "ear", "rar")
		case k == 3:
			p.typ = "zip"
		case k < 8:
			p.altClassifier = true
		}
		nv := 1 + rng.Intn(4)
		seen := map[string]bool{}
		for len(p.vers) < nv {
			s := fmt.Sprintf("%d.%d", 1+rng.Intn(3), rng.Intn(3))
			if !seen[s] {
				seen[s] = true
				p.vers = append(p.vers, s)
			}
		}
		pkgs[i] = p
	}
	anyVer := func(p *pkg) string { return p.vers[rng.Intn(len(p.vers))] }
	// target picks a dependency target: mostly a later artifact (diamonds
	// on the sinks), sometimes any other one (cycles).
	target := func(i int) *pkg {
		if rng.Intn(100) < 94 {
			if i == np-1 {
				return nil // the last artifact is mostly a sink
			}
			return pkgs[i+1+rng.Intn(np-1-i)]
		}
		for {
			if j := rng.Intn(np); j != i {
				return pkgs[j]
			}
		}
	}
	// reqText picks a requirement on q. Ranges are well-formed for Maven
	// (bounds in order, union members disjoint and ascending) and, except
	// for the deliberate "(max,)" / "(,min)" cases, match a listed version.
	reqText := func(q *pkg) string {
		v, w := anyVer(q), anyVer(q)
		if w < v {
			v, w = w, v // single-digit x.y: string order is version order
		}
		lo, hi := q.vers[0], q.vers[0]
		for _, x := range q.vers {
			if x < lo {
				lo = x
			}
			if x > hi {
				hi = x
			}
		}
		switch k := rng.Intn(100); {
		case k < 8:
			return "[" + v + ",)"
		case k < 14:
			return "[" + w + "]"
		case k < 20:
			return "(," + v + "]"
		case k < 25:
			return "[1.0," + w + "]"
		case k < 28:
			if v == hi && rng.Intn(4) != 0 {
				return "[" + v + ",)"
			}
			return "(" + v + ",)" // on the highest version: matches nothing, fatal by design
		case k < 31:
			if w == lo && rng.Intn(4) != 0 {
				return "(," + w + "]"
			}
			return "(," + w + ")"
		case k < 34:
			if v == w {
				return "[" + v + "],(" + v + ",)"
			}
			return "[" + v + "],[" + w + ",)"
		case k < 36:
			if v >= "1.2" && v <= "3.0" {
				return "(,1.1],[" + v + ",3.1)"
			}
			return "(,1.1],[1.2,3.1)"
		case k < 37:
			return "9.9" // a soft requirement on a version that does not exist
		case k >= 39 && k < 41:
			// A union written in descending order. Maven refuses the text
			// ("ranges overlap"); the repository reads it as the union it
			// denotes, so the version chosen must lie in one of its members.
			if v == w {
				return "(" + v + ",),(," + v + "]"
			}
			return uni.Pick(rng, "["+w+",),["+v+"]", "["+w+"],["+v+"]", "("+v+",),(,"+v+"]", "["+w+",9.9],[1.0,"+v+"]")
		case k < 39:
			// One point with an excluded end: Maven refuses the text, the
			// repository reads it as a range that contains nothing. Either
			// way no version may be selected for it.
			return []string{"[" + v + "," + v + ")", "(" + v + "," + v + "]", "(" + v + "," + v + ")"}[rng.Intn(3)]
		}
		return v
	}
	exclusion := func() string {
		x := pkgs[rng.Intn(np)]
		switch rng.Intn(12) {
		case 0, 1, 2:
			return x.group + ":*"
		case 3, 4:
			return "*:" + x.art
		case 5:
			return "*:*"
		}
		return x.name
	}
	classifierOf := func(q *pkg) string {
		if q.altClassifier && rng.Intn(2) == 0 {
			return "tests"
		}
		return ""
	}
	typeOf := func(q *pkg) string {
		if q.typ == "" && rng.Intn(10) == 0 {
			return "jar"
		}
		return q.typ
	}

	u := &uni.Universe{Sys: "Maven"}
	for i, p := range pkgs {
		for _, pv := range p.vers {
			v := uni.Version{Name: p.name, Version: pv}
			used := map[string]bool{}
			nr := 1 + rng.Intn(5)
			for k := 0; k < nr; k++ {
				q := target(i)
				if q == nil {
					continue
				}
				rq := uni.Req{Name: q.name, Classifier: classifierOf(q)}
				if used[rq.Name+"/"+rq.Classifier] {
					continue
				}
				used[rq.Name+"/"+rq.Classifier] = true
				rq.Req = reqText(q)
				rq.ArtType = typeOf(q)
				switch rng.Intn(12) {
				case 0:
					rq.Test = true
				case 1:
					rq.Scope = "provided"
				case 2:
					rq.Scope = "runtime"
				case 3:
					rq.Opt = true
				case 4:
					if rng.Intn(3) == 0 {
						// Two root-only marks on one declaration.
						rq.Opt = true
						if rng.Intn(2) == 0 {
							rq.Test = true
						} else {
							rq.Scope = "provided"
						}
					}
				}
				if rng.Intn(6) == 0 {
					ex := []string{exclusion()}
					if rng.Intn(3) == 0 {
						ex = append(ex, exclusion())
					}
					rq.Exclusions = strings.Join(ex, "|")
				}
				v.Reqs = append(v.Reqs, rq)
			}
			if rng.Intn(3) == 0 {
				managed := map[string]bool{}
				for k := 1 + rng.Intn(2); k > 0; k-- {
					q := pkgs[rng.Intn(np)]
					m := uni.Req{Name: q.name, Classifier: classifierOf(q), ArtType: q.typ, Origin: "management"}
					if managed[m.Name+"/"+m.Classifier] {
						continue
					}
					managed[m.Name+"/"+m.Classifier] = true
					m.Req = anyVer(q)
					if rng.Intn(8) == 0 {
						m.Req = "[" + m.Req + ",)"
					}
					v.Reqs = append(v.Reqs, m)
				}
			}
			u.Versions = append(u.Versions, v)
		}
	}
	return u
}
