package c18

import (
	"strings"

	"verif/harness/uni"
)

// The reference encoding of a registry as the data an in-memory client holds.
// It is written from the documented conventions only — it never parses a
// service response and never calls the library's flattening:
//
//   - a bundled package found at node_modules/d1/node_modules/d2/... inside
//     version V of package R is a package named "R>V>d1>d2>..." with a single
//     concrete version (the one its package.json declares) that records the
//     declared name as the package it derives from;
//   - whoever holds the node_modules directory (the root version, or the
//     enclosing bundled package) requires it with a regular requirement whose
//     text is exactly that version;
//   - the entries of dependencies / devDependencies / optionalDependencies /
//     peerDependencies become regular / dev / optional / peer-scoped
//     requirements, every bundleDependencies name a bundle-scoped requirement
//     "*";
//   - an entry "alias": "npm:real@range" is a requirement on real with text
//     range that is known as alias. (The registry keeps the three parts apart,
//     so the model has nothing to split.)

// Mangle is the documented name of a bundled package.
func Mangle(root, version string, dirs []string) string {
	return root + ">" + version + ">" + strings.Join(dirs, ">")
}

// flat lists the requirements one package.json declares.
func flat(d Deps) []uni.Req {
	var out []uni.Req
	one := func(x Dep, q uni.Req) {
		q.Name, q.Req = x.Name, x.Req
		if x.Real != "" {
			q.Name, q.KnownAs = x.Real, x.Name
		}
		out = append(out, q)
	}
	for _, x := range d.Reg {
		one(x, uni.Req{})
	}
	for _, x := range d.Dev {
		one(x, uni.Req{Dev: true})
	}
	for _, x := range d.Opt {
		one(x, uni.Req{Opt: true})
	}
	for _, x := range d.Peer {
		one(x, uni.Req{Scope: "peer"})
	}
	for _, n := range d.Bundle {
		out = append(out, uni.Req{Name: n, Req: "*", Scope: "bundle"})
	}
	return out
}

// Encode is the registry as a universe: every registry version, then every
// bundled package below it.
func Encode(r *Registry) *uni.Universe {
	u := &uni.Universe{Sys: "NPM"}
	for _, p := range r.Pkgs {
		for _, v := range p.Versions {
			rv := uni.Version{Name: p.Name, Version: v.Version, Reqs: flat(v.Deps)}
			if v.Default {
				rv.Tags = "latest"
			}
			for _, b := range v.Bundled {
				rv.Reqs = append(rv.Reqs, uni.Req{Name: Mangle(p.Name, v.Version, []string{b.Dir}), Req: b.Version})
			}
			u.Versions = append(u.Versions, rv)
			walkBundles(v.Bundled, nil, func(b *Bundle, path []string) {
				bv := uni.Version{Name: Mangle(p.Name, v.Version, path), Version: b.Version, DerivedFrom: b.Name, Reqs: flat(b.Deps)}
				for _, n := range b.Nested {
					bv.Reqs = append(bv.Reqs, uni.Req{Name: Mangle(p.Name, v.Version, append(append([]string(nil), path...), n.Dir)), Req: n.Version})
				}
				u.Versions = append(u.Versions, bv)
			})
		}
	}
	return u
}
