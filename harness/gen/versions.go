// Package gen holds the seeded grammar generators. Nothing here reads a clock.
package gen

import (
	"fmt"
	"math/rand"
	"regexp"
	"strings"

	"deps.dev/util/semver"
)

func Pick(r *rand.Rand, xs ...string) string { return xs[r.Intn(len(xs))] }

// Num draws a component biased to collisions.
func Num(r *rand.Rand) string {
	if r.Intn(40) == 0 { // the same numbers spelled with leading zeros
		return Pick(r, "00", "01", "000", "010", "02")
	}
	switch r.Intn(7) {
	case 0:
		return "0"
	case 1:
		return "1"
	case 2, 5:
		return fmt.Sprint(r.Intn(3))
	case 3:
		return fmt.Sprint(r.Intn(12))
	case 4:
		return fmt.Sprint(r.Intn(1000))
	}
	return fmt.Sprint(r.Intn(4))
}

// Ident draws a SemVer prerelease identifier. strict excludes numeric
// identifiers with leading zeros, which SemVer 2.0 forbids.
func Ident(r *rand.Rand, strict bool) string {
	for {
		s := Pick(r, "alpha", "beta", "rc", "a", "b", "0", "1", "2", "10", "x", "A", "Beta", "rc1", "1a", "a-b", "-", "-1", "0a", "00", "01", "pre", "dev", "rc-1", "ALPHA", "z", "9", "11")
		if strict && len(s) > 1 && s[0] == '0' && isDigits(s) {
			continue
		}
		return s
	}
}

func isDigits(s string) bool {
	for _, c := range s {
		if c < '0' || c > '9' {
			return false
		}
	}
	return s != ""
}

func build(r *rand.Rand) string {
	return Pick(r, "build", "1", "001", "a.b", "exp.sha.5114f85", "-", "0")
}

// SemVerStrict generates strict SemVer 2.0 strings (three numbers, optional
// prerelease and build) with an optional prefix.
func SemVerStrict(prefix string) func(r *rand.Rand) string {
	return func(r *rand.Rand) string {
		s := prefix + Num(r) + "." + Num(r) + "." + Num(r)
		if r.Intn(2) == 0 {
			n := 1 + r.Intn(3)
			parts := []string{}
			for i := 0; i < n; i++ {
				parts = append(parts, Ident(r, true))
			}
			s += "-" + strings.Join(parts, ".")
		}
		if r.Intn(4) == 0 {
			s += "+" + build(r)
		}
		return s
	}
}

// Loose generates the permissive 1-3 number form Default/NPM/Composer accept.
func Loose(r *rand.Rand) string {
	n := 1 + r.Intn(3)
	if r.Intn(3) > 0 {
		n = 3
	}
	p := []string{}
	for i := 0; i < n; i++ {
		p = append(p, Num(r))
	}
	s := strings.Join(p, ".")
	if r.Intn(8) == 0 {
		s = "v" + s
	}
	if r.Intn(2) == 0 {
		k := 1 + r.Intn(3)
		parts := []string{}
		for i := 0; i < k; i++ {
			parts = append(parts, Ident(r, false))
		}
		s += "-" + strings.Join(parts, ".")
	}
	if r.Intn(4) == 0 {
		s += "+" + build(r)
	}
	return s
}

var MavenKnownQuals = []string{"alpha", "beta", "milestone", "rc", "cr", "snapshot", "sp", "a", "b", "m", "RC", "SP", "M", "Beta", "CR", "Alpha"}
var MavenUnknownQuals = []string{"foo", "jre", "android", "x", "jdk", "Foo"}
var MavenReleaseQuals = []string{"ga", "final", "release", "Final", "RELEASE", "GA"}

// MavenDomain generates the Maven-Central shape on which Maven's own
// comparator is a total preorder: N(.N){0,3}, optionally followed by
// "-"-joined or directly attached non-release qualifier with an optional
// "-N"/attached N, optionally -SNAPSHOT; or "-ga|-final|-release" alone.
func MavenDomain(r *rand.Rand) string {
	n := 1 + r.Intn(4)
	p := []string{}
	for i := 0; i < n; i++ {
		p = append(p, Pick(r, "0", "0", "1", "1", "2", "3", "10", Num(r)))
	}
	s := strings.Join(p, ".")
	switch x := r.Intn(10); {
	case x < 5:
		q := Pick(r, append(append([]string{}, MavenKnownQuals...), MavenUnknownQuals...)...)
		s += Pick(r, "-", "-", "") + q
		if r.Intn(2) == 0 {
			s += Pick(r, "-", "", ".") + Pick(r, "1", "2", "3", "10")
		}
	case x == 9:
		// A build number straight after the numeric prefix: 2.1-10.
		s += "-" + Pick(r, "1", "2", "3", "10")
	case x == 5:
		s += "-" + Pick(r, MavenReleaseQuals...)
		return s
	}
	if r.Intn(5) == 0 {
		s += "-SNAPSHOT"
	}
	return s
}

// MavenDotQualifier generates the Maven-Central shape with the qualifier
// attached by a dot (4.1.0.Final, 1.2.1.SP1, 1.0.0.RC2-SNAPSHOT), and, one
// time in three, a string of the dash-attached domain to compare it with.
func MavenDotQualifier(r *rand.Rand) string {
	if r.Intn(3) == 0 {
		return MavenDomain(r)
	}
	n := 1 + r.Intn(4)
	p := []string{}
	for i := 0; i < n; i++ {
		p = append(p, Pick(r, "0", "0", "1", "1", "2", "3", "10", Num(r)))
	}
	s := strings.Join(p, ".") + "." + Pick(r, append(append(append([]string{}, MavenKnownQuals...), MavenUnknownQuals...), "Final", "RELEASE", "GA")...)
	if r.Intn(2) == 0 {
		s += Pick(r, "-", "", ".") + Pick(r, "1", "2", "3", "10")
	}
	if r.Intn(5) == 0 {
		s += "-SNAPSHOT"
	}
	return s
}

var mavenDotDomainRe = regexp.MustCompile(`^[0-9]+(\.[0-9]+){0,4}\.[A-Za-z]+([-.]?[0-9]+)?(-SNAPSHOT)?$`)

// MavenInDotDomain accepts the dash-attached domain and the dot-attached shape.
func MavenInDotDomain(s string) bool {
	return MavenInDomain(s) || mavenDotDomainRe.MatchString(s)
}

// MavenLoose generates the full permissive space (any separator, release
// qualifiers followed by numbers, several qualifiers).
func MavenLoose(r *rand.Rand) string {
	n := 1 + r.Intn(4)
	p := []string{}
	for i := 0; i < n; i++ {
		p = append(p, Num(r))
	}
	s := strings.Join(p, ".")
	k := r.Intn(3)
	for i := 0; i < k; i++ {
		s += Pick(r, "-", ".", "") + Pick(r, "alpha", "beta", "milestone", "rc", "cr", "snapshot", "ga", "final", "release", "sp", "a", "b", "m", "foo", "RC", "Final", "jre", "android", "SNAPSHOT", "SP")
		if r.Intn(2) == 0 {
			s += Pick(r, "-", ".", "") + Num(r)
		}
	}
	if r.Intn(5) == 0 {
		s += "-SNAPSHOT"
	}
	// Shapes outside Maven Central's habits that Parse accepts all the same:
	// a leading separator or qualifier, doubled and trailing separators.
	switch r.Intn(24) {
	case 0:
		s = Pick(r, "-", ".") + s
	case 1:
		s = Pick(r, "alpha", "rc", "foo", "sp", "a", "final") + Pick(r, "-", ".", "") + s
	case 2:
		if i := strings.IndexAny(s, ".-"); i >= 0 {
			s = s[:i] + Pick(r, "..", "--", ".-", "-.") + s[i+1:]
		}
	case 3:
		s += Pick(r, "-", ".")
	case 4:
		s = Pick(r, "-", ".") + Pick(r, "alpha", "rc", "foo", "sp", "1") + Pick(r, "", ".1", "-1")
	}
	return s
}

// PyPI generates full PEP 440 incl. epoch, pre, post, dev, local and the
// alternative spellings.
func PyPI(r *rand.Rand) string {
	s := ""
	if r.Intn(6) == 0 {
		s += Pick(r, "0", "1", "2") + "!"
	}
	if r.Intn(8) == 0 {
		s = "v" + s
		if strings.Contains(s, "!") { // "v" goes before the epoch per PEP 440 regex
			s = "v" + strings.TrimPrefix(s, "v")
		}
	}
	n := 1 + r.Intn(4)
	p := []string{}
	for i := 0; i < n; i++ {
		p = append(p, Num(r))
	}
	s += strings.Join(p, ".")
	if r.Intn(3) == 0 {
		s += Pick(r, "", ".", "-", "_") + Pick(r, "a", "b", "rc", "c", "alpha", "beta", "pre", "preview", "A", "RC") + Pick(r, "", ".", "-", "_") + Pick(r, "", "0", "1", "2", "10")
		// A separator followed by nothing is not PEP 440.
		s = strings.TrimRight(s, ".-_")
	}
	if r.Intn(3) == 0 {
		x := Pick(r, ".post", "-post", "post", ".rev", ".r", "-", "_post")
		d := Pick(r, "", "0", "1", "2")
		if x == "-" && d == "" {
			d = "1"
		}
		s += x + d
	}
	if r.Intn(3) == 0 {
		s += Pick(r, ".dev", "dev", "-dev", "_dev") + Pick(r, "", "0", "1", "2")
	}
	if r.Intn(5) == 0 {
		// One to three segments, so that labels that are prefixes of each
		// other (with a numeric or an alphabetic extra segment) are common.
		l := Pick(r, "abc", "1", "a", "ubuntu", "2", "10", "ABC", "01")
		for k := r.Intn(3); k > 0; k-- {
			l += Pick(r, ".", ".", "-", "_") + Pick(r, "abc", "1", "x", "2", "10", "9", "b", "c", "dirty", "01", "A")
		}
		s += "+" + l
	}
	return s
}

// PyPIFinal generates final releases with a non-zero release segment.
func PyPIFinal(r *rand.Rand) string {
	for {
		n := 1 + r.Intn(4)
		p := []string{}
		nz := false
		for i := 0; i < n; i++ {
			x := Num(r)
			if x != "0" {
				nz = true
			}
			p = append(p, x)
		}
		if nz {
			return strings.Join(p, ".")
		}
	}
}

// Gem generates strings of Gem::Version's VERSION_PATTERN:
// [0-9]+(\.[0-9a-zA-Z]+)*(-[0-9A-Za-z-]+(\.[0-9A-Za-z-]+)*)?
func Gem(r *rand.Rand) string {
	n := 1 + r.Intn(5)
	p := []string{}
	for i := 0; i < n; i++ {
		p = append(p, Num(r))
	}
	s := strings.Join(p, ".")
	if r.Intn(2) == 0 {
		k := 1 + r.Intn(4)
		for i := 0; i < k; i++ {
			s += "." + Pick(r, "a", "b", "rc", "pre", "beta", "0", "1", "2", "rc1", "a1", "1a", "A", "x10", "10", "00", "01", "0", "a0", "a00")
		}
	}
	if r.Intn(6) == 0 {
		s += "-" + Pick(r, "a", "rc1", "1", "beta.2", "x")
	}
	return s
}

// GemRelease generates release-only RubyGems versions.
func GemRelease(r *rand.Rand) string {
	n := 1 + r.Intn(5)
	p := []string{}
	for i := 0; i < n; i++ {
		p = append(p, Num(r))
	}
	return strings.Join(p, ".")
}

// NuGet generates strict SemVer 2 labels plus the optional fourth number.
func NuGet(r *rand.Rand) string {
	n := 1 + r.Intn(4)
	p := []string{}
	for i := 0; i < n; i++ {
		p = append(p, Num(r))
	}
	s := strings.Join(p, ".")
	if r.Intn(2) == 0 {
		k := 1 + r.Intn(3)
		parts := []string{}
		for i := 0; i < k; i++ {
			parts = append(parts, Ident(r, true))
		}
		s += "-" + strings.Join(parts, ".")
	}
	if r.Intn(4) == 0 {
		s += "+" + build(r)
	}
	return s
}

type SysGen struct {
	Name string
	Sys  semver.System
	Gen  func(r *rand.Rand) string
}

// OrderSystems lists the nine systems with the generator used for the
// order-law monitor (C01).
func OrderSystems() []SysGen {
	return []SysGen{
		{"Default", semver.DefaultSystem, Loose},
		{"Cargo", semver.Cargo, SemVerStrict("")},
		{"Go", semver.Go, SemVerStrict("v")},
		{"Maven", semver.Maven, MavenDomain},
		{"NPM", semver.NPM, Loose},
		{"NuGet", semver.NuGet, NuGet},
		{"PyPI", semver.PyPI, PyPI},
		{"RubyGems", semver.RubyGems, Gem},
		{"Composer", semver.Composer, Loose},
	}
}

// extremes are numbers at the edges of the fixed-width integer types a
// comparison might pass through.
var extremes = []string{
	"255", "256", "257", "32767", "32768", "65535", "65536",
	"2147483646", "2147483647", "2147483648", "4294967295", "4294967296",
	// Between 2^31 and 2^63 with text order unlike numeric order.
	"3000000000", "10000000000", "20000000000",
	// Small numbers written with so many leading zeros that they are longer
	// than the largest ones.
	"00000000000000000000001", "000000000000000000000002",
	"9223372036854775806", "9223372036854775807", "9223372036854775808",
	"18446744073709551614", "18446744073709551615", "18446744073709551616",
	"99999999999999999999",
}

// Extreme wraps a generator so that one or two of the digit runs of most
// strings it yields are replaced by numbers from extremes. The caller filters
// through Parse: systems differ in how large a component they accept.
func Extreme(g func(*rand.Rand) string) func(*rand.Rand) string {
	return func(r *rand.Rand) string {
		s := g(r)
		if r.Intn(4) == 0 {
			return s
		}
		for k := 1 + r.Intn(2); k > 0; k-- {
			var runs [][2]int
			for i := 0; i < len(s); {
				if s[i] < '0' || s[i] > '9' {
					i++
					continue
				}
				j := i
				for j < len(s) && s[j] >= '0' && s[j] <= '9' {
					j++
				}
				runs = append(runs, [2]int{i, j})
				i = j
			}
			if len(runs) == 0 {
				return s
			}
			x := runs[r.Intn(len(runs))]
			s = s[:x[0]] + extremes[r.Intn(len(extremes))] + s[x[1]:]
		}
		return s
	}
}

// Wild wraps a generator: in one string of twenty a digit run (not the first
// one) is replaced by a wildcard character, which may leave numbers, a
// prerelease or build metadata behind it ("1.x.3", "1.*-rc", "2.X+b").
func Wild(g func(*rand.Rand) string) func(*rand.Rand) string {
	return func(r *rand.Rand) string {
		s := g(r)
		if r.Intn(20) != 0 {
			return s
		}
		var runs [][2]int
		for i := 0; i < len(s) && s[i] != '-' && s[i] != '+'; {
			if s[i] < '0' || s[i] > '9' {
				i++
				continue
			}
			j := i
			for j < len(s) && s[j] >= '0' && s[j] <= '9' {
				j++
			}
			runs = append(runs, [2]int{i, j})
			i = j
		}
		if len(runs) < 2 {
			return s + "." + Pick(r, "x", "*")
		}
		x := runs[1+r.Intn(len(runs)-1)]
		if r.Intn(5) == 0 {
			x = runs[0] // a wildcard in first position, with components behind it
		}
		return s[:x[0]] + Pick(r, "x", "*", "X") + s[x[1]:]
	}
}

// SmallEdges wraps a generator: in one string of thirty a digit run is replaced
// by a number at the edge of a small integer type (127/128, 255/256/257,
// 65535/65536), where table look-ups and narrow conversions go wrong.
func SmallEdges(g func(*rand.Rand) string) func(*rand.Rand) string {
	return func(r *rand.Rand) string {
		s := g(r)
		if r.Intn(30) != 0 {
			return s
		}
		var runs [][2]int
		for i := 0; i < len(s); {
			if s[i] < '0' || s[i] > '9' {
				i++
				continue
			}
			j := i
			for j < len(s) && s[j] >= '0' && s[j] <= '9' {
				j++
			}
			runs = append(runs, [2]int{i, j})
			i = j
		}
		if len(runs) == 0 {
			return s
		}
		x := runs[r.Intn(len(runs))]
		return s[:x[0]] + Pick(r, "127", "128", "255", "256", "256", "257", "65535", "65536") + s[x[1]:]
	}
}

// ExtremeFamilies draws about n distinct accepted strings in families: one
// generated string, one of its digit runs, and that run replaced by each of
// 0, 1 and every number in extremes. Members of a family differ in exactly
// one component, so that the order among them is decided by how that
// component alone is compared.
func ExtremeFamilies(r *rand.Rand, g func(*rand.Rand) string, n int, accept func(string) bool) []string {
	seen := map[string]bool{}
	var out []string
	for tries := 0; len(out) < n && tries < n*20; tries++ {
		s := g(r)
		var runs [][2]int
		for i := 0; i < len(s); {
			if s[i] < '0' || s[i] > '9' {
				i++
				continue
			}
			j := i
			for j < len(s) && s[j] >= '0' && s[j] <= '9' {
				j++
			}
			runs = append(runs, [2]int{i, j})
			i = j
		}
		if len(runs) == 0 {
			continue
		}
		// Later runs (labels, post/dev numbers) are the less exercised ones.
		x := runs[len(runs)-1-r.Intn(len(runs))%((len(runs)+1)/2)]
		if r.Intn(3) == 0 {
			x = runs[r.Intn(len(runs))] // any run, the first (an epoch, a major number) included
		}
		// Two lettered values as well: where the run is a prerelease identifier,
		// numbers of every size must all sort below them.
		// Zero and ten spelled with more digits as well: where leading zeros
		// are legal they change neither the value nor, for a zero, whether the
		// component counts as absent.
		for _, e := range append([]string{"0", "1", "alpha", "aaaaaaaaaaaaaaaaaaaaaaaa", "00", "000", "010"}, extremes...) {
			t := s[:x[0]] + e + s[x[1]:]
			if seen[t] {
				continue
			}
			seen[t] = true
			if accept == nil || accept(t) {
				out = append(out, t)
			}
		}
	}
	return out
}

// WildFamilies builds a pool of families around generated versions: the
// version itself, each shorter spelling of its numbers (1.2.3 -> 1.2, 1), and
// each of those with a wildcard (x, X, *) in place of one number or appended
// as a further component, with and without the original's prerelease part.
// Where a system's Parse accepts such patterns they are versions like any
// other, and the order among a version, its shortened forms and its patterns
// is decided by how absent and wildcard components are read.
func WildFamilies(r *rand.Rand, g func(*rand.Rand) string, n int, accept func(string) bool) []string {
	seen := map[string]bool{}
	var out []string
	add := func(t string) {
		if seen[t] {
			return
		}
		seen[t] = true
		if accept == nil || accept(t) {
			out = append(out, t)
		}
	}
	for tries := 0; len(out) < n && tries < n*20; tries++ {
		s := g(r)
		end := len(s)
		if i := strings.IndexAny(s, "-+"); i >= 0 {
			end = i
		}
		head, tail := s[:end], s[end:]
		pre := ""
		if strings.HasPrefix(head, "v") || strings.HasPrefix(head, "V") {
			pre, head = head[:1], head[1:]
		}
		nums := strings.Split(head, ".")
		ok := len(nums) > 0
		for _, x := range nums {
			if x == "" || strings.Trim(x, "0123456789") != "" {
				ok = false
			}
		}
		if !ok {
			continue
		}
		w := Pick(r, "x", "*", "X")
		for k := 1; k <= len(nums); k++ {
			short := strings.Join(nums[:k], ".")
			for _, tl := range []string{"", tail} {
				add(pre + short + tl)
				add(pre + short + "." + w + tl)
				add(pre + short + ".0" + tl)
				for i := 0; i < k; i++ {
					c := append([]string(nil), nums[:k]...)
					c[i] = w
					add(pre + strings.Join(c, ".") + tl)
				}
			}
		}
	}
	return out
}

// Pool draws n distinct strings accepted by accept (nil = all).
func Pool(r *rand.Rand, g func(*rand.Rand) string, n int, accept func(string) bool) []string {
	seen := map[string]bool{}
	var out []string
	for tries := 0; len(out) < n && tries < n*200; tries++ {
		s := g(r)
		if seen[s] {
			continue
		}
		seen[s] = true
		if accept != nil && !accept(s) {
			continue
		}
		out = append(out, s)
	}
	return out
}

// Variant respells a version string in a way that often (not always) denotes
// the same or a neighbouring version: padding with ".0", case changes,
// leading zeros, separator changes, build metadata. The caller filters the
// result through Parse (and the domain predicate where there is one).
func Variant(sys semver.System, s string, r *rand.Rand) string {
	numEnd := 0
	start := 0
	if strings.HasPrefix(s, "v") {
		start = 1
	}
	if i := strings.IndexByte(s, '!'); i >= 0 {
		start = i + 1
	}
	numEnd = start
	for numEnd < len(s) && (s[numEnd] == '.' || (s[numEnd] >= '0' && s[numEnd] <= '9')) {
		numEnd++
	}
	for numEnd > start && s[numEnd-1] == '.' {
		numEnd--
	}
	switch r.Intn(6) {
	case 0: // pad the numeric prefix
		return s[:numEnd] + ".0" + s[numEnd:]
	case 1: // toggle case
		b := []byte(s)
		for i, c := range b {
			if i < numEnd {
				continue
			}
			if c >= 'a' && c <= 'z' {
				b[i] = c - 32
			} else if c >= 'A' && c <= 'Z' {
				b[i] = c + 32
			}
		}
		return string(b)
	case 2: // leading zero on the first number
		return s[:start] + "0" + s[start:]
	case 3: // build metadata / local version
		if strings.Contains(s, "+") {
			// Drop the label, or grow it by one segment (a label that is a
			// prefix of another one is where segment-wise comparison ends).
			if r.Intn(2) == 0 {
				return s + "." + Pick(r, "x", "1", "dirty", "0", "b")
			}
			return s[:strings.IndexByte(s, '+')]
		}
		return s + "+" + Pick(r, "b", "1", "x.1")
	case 4: // separator change after the numeric prefix
		if numEnd < len(s) {
			rest := s[numEnd:]
			switch rest[0] {
			case '-', '.', '_':
				return s[:numEnd] + Pick(r, "-", ".", "", "_") + rest[1:]
			default:
				return s[:numEnd] + Pick(r, "-", ".") + rest
			}
		}
		return s + Pick(r, "-0", ".0", "-a", "a")
	default: // strip trailing ".0"
		if numEnd == len(s) && strings.HasSuffix(s, ".0") {
			return s[:len(s)-2]
		}
		return s + ".0"
	}
}

// PoolWithVariants draws a pool in which about a third of the strings are
// respellings of other members, so that equal-comparing pairs are common.
func PoolWithVariants(r *rand.Rand, sys semver.System, g func(*rand.Rand) string, n int, accept func(string) bool) []string {
	seen := map[string]bool{}
	var out []string
	add := func(s string) {
		if seen[s] {
			return
		}
		seen[s] = true
		if accept != nil && !accept(s) {
			return
		}
		out = append(out, s)
	}
	for tries := 0; len(out) < n && tries < n*200; tries++ {
		if len(out) > 0 && r.Intn(3) == 0 {
			add(Variant(sys, out[r.Intn(len(out))], r))
			continue
		}
		add(g(r))
	}
	return out
}

var mavenDomainRe = regexp.MustCompile(`^[0-9]+(\.[0-9]+){0,4}(-?([A-Za-z]+)([-.]?[0-9]+)?|-()([0-9]+))?(-SNAPSHOT)?$`)
var mavenReleaseAloneRe = regexp.MustCompile(`(?i)^[0-9]+(\.[0-9]+){0,4}-(ga|final|release)$`)

// MavenInDomain reports whether s has the Maven-Central shape of the
// properties' quantifier (see MavenDomain).
func MavenInDomain(s string) bool {
	if mavenReleaseAloneRe.MatchString(s) {
		return true
	}
	m := mavenDomainRe.FindStringSubmatch(s)
	if m == nil {
		return false
	}
	switch strings.ToLower(m[3]) {
	case "ga", "final", "release":
		return false
	}
	// A zero after the qualifier (beta0, rc-0) is a zero-equivalent token in
	// the region where Maven 3.8.7 changed the rules the library follows.
	if m[4] != "" && strings.Trim(m[4], "-.0") == "" {
		return false
	}
	// Likewise a build number that is zero ("1.2-0-SNAPSHOT"): whether the
	// zero is dropped depends on what follows it in Maven's normalisation.
	if m[6] != "" && strings.Trim(m[6], "0") == "" {
		return false
	}
	return true
}
