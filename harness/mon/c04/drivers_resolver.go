package c04

import (
	"context"
	"encoding/json"
	"fmt"
	"math/rand"
	"strings"

	"deps.dev/util/resolve"
	"deps.dev/util/resolve/maven"
	"deps.dev/util/resolve/npm"
	"deps.dev/util/resolve/pypi"
	"verif/harness/gen"
	"verif/harness/uni"
)

// escalation: a resolution that exhausts the step budget is run again with
// this many times the budget; only if that is exhausted too is it counted as
// non-terminating (one universe in 10^5 needs more than one budget and ends).
const escalation = 5

func resolverFor(sys string) func(resolve.Client) resolve.Resolver {
	switch sys {
	case "NPM":
		return npm.NewResolver
	case "Maven":
		return maven.NewResolver
	case "PyPI":
		return pypi.NewResolver
	}
	return nil
}

// hs returns a short hostile string.
func hs(r *rand.Rand) string { return string(hostile(r)) }

// maybeHostile returns s, or with probability 1/k something hostile derived
// from it or unrelated to it.
func maybeHostile(r *rand.Rand, s string, k int, dict []string) string {
	if r.Intn(k) != 0 {
		return s
	}
	if r.Intn(2) == 0 {
		return hs(r)
	}
	return string(mutate(r, []byte(s), dict))
}

// ---- npm universes --------------------------------------------------------

func npmUniverse(r *rand.Rand) *UniCase {
	// The shapes on which the resolver is known not to terminate are produced
	// occasionally (each costs a full step budget and more).
	if r.Intn(1500) == 0 {
		return npmKnownShape(r)
	}
	names := []string{"a", "b", "c", "@s/d"}
	if r.Intn(4) == 0 {
		names = append(names, hs(r))
	}
	u := &UniCase{}
	u.Sys = "NPM"
	nv := 2 + r.Intn(5)
	for i := 0; i < nv; i++ {
		v := uni.Version{Name: names[r.Intn(len(names))], Version: maybeHostile(r, gen.SemFull(r, r.Intn(4) == 0), 12, semverDict)}
		if i == 0 {
			v.Name = "a"
		}
		if r.Intn(4) == 0 {
			v.Tags = maybeHostile(r, gen.Pick(r, "latest", "latest,next", "next", "beta"), 4, []string{",", "latest"})
		}
		if r.Intn(10) == 0 {
			v.Blocked = true
		}
		u.Versions = append(u.Versions, v)
	}
	for i := range u.Versions {
		v := &u.Versions[i]
		for k := r.Intn(4); k > 0; k-- {
			tgt := names[r.Intn(len(names))]
			q := uni.Req{Name: tgt}
			// Mostly a range that some version of the target satisfies.
			var tv []string
			for _, w := range u.Versions {
				if w.Name == tgt {
					tv = append(tv, w.Version)
				}
			}
			switch {
			case len(tv) > 0 && r.Intn(3) > 0:
				q.Req = gen.Pick(r, "~", "^", "", ">=", "<=") + tv[r.Intn(len(tv))]
			case r.Intn(3) == 0:
				q.Req = gen.Pick(r, "*", "latest", "next", "", "x")
			default:
				q.Req = gen.NPMRange(r)
			}
			q.Req = maybeHostile(r, q.Req, 5, semverDict)
			if r.Intn(4) == 0 {
				q.KnownAs = maybeHostile(r, gen.Pick(r, names[r.Intn(len(names))], "alias", "alias2"), 5, nil)
				// An alias equal to the dependent's own name is the first known
				// non-terminating shape when it closes a cycle: rare.
				if q.KnownAs == v.Name && r.Intn(40) != 0 {
					q.KnownAs = "alias"
				}
			}
			switch r.Intn(12) {
			case 0:
				q.Scope = "peer"
			case 1:
				q.Scope = "bundle"
			case 2:
				q.Scope = hs(r)
			case 3:
				q.Dev = true
			case 4:
				q.Opt = true
			}
			v.Reqs = append(v.Reqs, q)
		}
	}
	// Bundles: a version of package P carries copies of other packages; the
	// copies are versions named P>ver>Q with DerivedFrom Q, required exactly.
	for k := r.Intn(3); k > 0 && r.Intn(2) == 0; k-- {
		hi := r.Intn(len(u.Versions))
		host := u.Versions[hi]
		q := names[r.Intn(len(names))]
		m := host.Name + ">" + host.Version + ">" + q
		bv := uni.Version{Name: m, Version: gen.SemFull(r, false), DerivedFrom: maybeHostile(r, q, 8, nil)}
		if r.Intn(5) == 0 { // installed under an alias inside the bundle
			bv.Name = host.Name + ">" + host.Version + ">" + gen.Pick(r, "alias", host.Name, "b")
		}
		bv.Name = maybeHostile(r, bv.Name, 10, []string{">", ">>", "@"})
		for j := r.Intn(3); j > 0; j-- {
			tgt := names[r.Intn(len(names))]
			if r.Intn(2) == 0 {
				tgt = host.Name
			}
			req := gen.Pick(r, "*", "^1.0.0", "~"+host.Version, gen.NPMRange(r))
			bv.Reqs = append(bv.Reqs, uni.Req{Name: tgt, Req: maybeHostile(r, req, 6, semverDict)})
		}
		if r.Intn(2) == 0 { // nested copy
			nq := names[r.Intn(len(names))]
			if r.Intn(2) == 0 {
				nq = host.Name
			}
			nb := uni.Version{Name: bv.Name + ">" + nq, Version: gen.SemFull(r, false), DerivedFrom: nq}
			if r.Intn(60) == 0 { // a copy that contains itself (third known shape)
				nb.Reqs = append(nb.Reqs, uni.Req{Name: nb.Name, Req: nb.Version})
			}
			bv.Reqs = append(bv.Reqs, uni.Req{Name: nb.Name, Req: nb.Version})
			u.Versions = append(u.Versions, nb)
		}
		u.Versions[hi].Reqs = append(u.Versions[hi].Reqs, uni.Req{Name: bv.Name, Req: bv.Version})
		u.Versions = append(u.Versions, bv)
	}
	u.Root = 0
	if r.Intn(4) == 0 {
		u.Root = r.Intn(len(u.Versions))
	}
	return u
}

// npmKnownShape produces variations of the two shapes on which the npm
// resolver is known not to terminate (DESIGN section 7), so that every run
// exercises their classification.
func npmKnownShape(r *rand.Rand) *UniCase {
	u := &UniCase{}
	u.Sys = "NPM"
	va := gen.Pick(r, "1.0.0", "1.2.0", "0.3.1")
	vc := gen.Pick(r, "2.2.1", "1.0.0", "3.1.4")
	op := gen.Pick(r, "~", "^", "")
	switch r.Intn(3) {
	case 0:
		u.Versions = []uni.Version{
			{Name: "a", Version: va, Reqs: []uni.Req{{Name: "c", Req: op + vc, KnownAs: "a"}}},
			{Name: "c", Version: vc, Reqs: []uni.Req{{Name: "a", Req: op + va}}},
		}
		if r.Intn(2) == 0 {
			u.Versions = append(u.Versions, uni.Version{Name: "b", Version: "1.0.0"})
			u.Versions[1].Reqs = append(u.Versions[1].Reqs, uni.Req{Name: "b", Req: "*"})
		}
	case 1:
		d := gen.Pick(r, "@s/d", "d")
		u.Versions = []uni.Version{
			{Name: "c", Version: vc, Reqs: []uni.Req{{Name: d, Req: "^2.0.0"}, {Name: "c>" + vc + ">" + d, Req: "2.0.0"}}},
			{Name: d, Version: "2.0.0", Reqs: []uni.Req{{Name: "c", Req: op + vc}}},
			{Name: "c>" + vc + ">" + d, Version: "2.0.0", DerivedFrom: d, Reqs: []uni.Req{{Name: "c", Req: op + vc}, {Name: "c>" + vc + ">" + d + ">c", Req: "9.9.9"}}},
			{Name: "c>" + vc + ">" + d + ">c", Version: "9.9.9", DerivedFrom: "c"},
		}
	default:
		u.Versions = []uni.Version{
			{Name: "a", Version: va, Reqs: []uni.Req{{Name: "a>" + va + ">b", Req: "1.0.0"}}},
			{Name: "a>" + va + ">b", Version: "1.0.0", DerivedFrom: "b", Reqs: []uni.Req{{Name: "a>" + va + ">b", Req: "1.0.0"}}},
		}
	}
	return u
}

// ---- Maven universes ------------------------------------------------------

func mavenUniverse(r *rand.Rand) *UniCase {
	names := []string{"g:a", "g:b", "g:c", "h:a"}
	if r.Intn(4) == 0 {
		names = append(names, hs(r))
	}
	u := &UniCase{}
	u.Sys = "Maven"
	nv := 2 + r.Intn(6)
	for i := 0; i < nv; i++ {
		v := uni.Version{Name: names[r.Intn(len(names))], Version: maybeHostile(r, gen.MavenVer(r), 12, semverDict)}
		if i == 0 {
			v.Name = "g:root"
		}
		// Registries: where a version can be fetched from and which further
		// repositories it declares. A version found only in a repository
		// nobody on the path declares makes the resolver run a second,
		// multi-registry pass.
		if r.Intn(3) == 0 {
			regDict := []string{"|", "dep:", "default:", "://", " "}
			v.Registries = maybeHostile(r, gen.Pick(r,
				"https://repo.example/r1", "dep:https://repo.example/r1", "https://repo.example/r1|dep:https://repo.example/r2",
				"default:https://corp.example/m2", "https://repo.maven.apache.org/maven2", "|https://repo.example/r2", "https://repo.example/r2"), 6, regDict)
		}
		u.Versions = append(u.Versions, v)
	}
	exDict := []string{"|", ":", "*", "g:*", "*:*", "||", "::"}
	for i := range u.Versions {
		v := &u.Versions[i]
		for k := r.Intn(5); k > 0; k-- {
			tgt := names[r.Intn(len(names))]
			q := uni.Req{Name: tgt}
			var tv []string
			for _, w := range u.Versions {
				if w.Name == tgt {
					tv = append(tv, w.Version)
				}
			}
			switch {
			case len(tv) > 0 && r.Intn(3) > 0:
				x := tv[r.Intn(len(tv))]
				q.Req = gen.Pick(r, x, "["+x+"]", "["+x+",)", "(,"+x+"]")
			default:
				q.Req = gen.MavenSpec(r)
			}
			q.Req = maybeHostile(r, q.Req, 5, semverDict)
			switch r.Intn(10) {
			case 0:
				q.Scope = gen.Pick(r, "provided", "runtime", "system", "import")
			case 1:
				q.Scope = hs(r)
			case 2:
				q.Test = true
			case 3:
				q.Opt = true
			}
			if r.Intn(6) == 0 {
				q.Classifier = maybeHostile(r, gen.Pick(r, "sources", "tests"), 3, nil)
			}
			if r.Intn(6) == 0 {
				q.ArtType = maybeHostile(r, gen.Pick(r, "pom", "war", "ear", "test-jar", "jar"), 3, nil)
			}
			if r.Intn(4) == 0 {
				q.Origin = maybeHostile(r, gen.Pick(r, "management", "import", "parent", "profile"), 4, nil)
			}
			if r.Intn(4) == 0 {
				q.Exclusions = maybeHostile(r, gen.Pick(r, "g:a", "g:*", "*:*", "g:b|h:a", "*:a"), 3, exDict)
			}
			v.Reqs = append(v.Reqs, q)
		}
	}
	if r.Intn(4) == 0 {
		u.Root = r.Intn(len(u.Versions))
	}
	return u
}

// ---- PyPI universes -------------------------------------------------------

func pypiUniverse(r *rand.Rand) *UniCase {
	names := []string{"a", "b", "c", "d-e"}
	if r.Intn(4) == 0 {
		names = append(names, hs(r))
	}
	u := &UniCase{}
	u.Sys = "PyPI"
	nv := 2 + r.Intn(6)
	for i := 0; i < nv; i++ {
		v := uni.Version{Name: names[r.Intn(len(names))], Version: maybeHostile(r, gen.PyPI(r), 12, semverDict)}
		if i == 0 {
			v.Name = "root"
		}
		u.Versions = append(u.Versions, v)
	}
	mdict := []string{"(", ")", " and ", " or ", " in ", " not in ", "'", "\"", "===", "~=", "extra", "python_version", "\\", "==", "<"}
	for i := range u.Versions {
		v := &u.Versions[i]
		for k := r.Intn(5); k > 0; k-- {
			tgt := names[r.Intn(len(names))]
			q := uni.Req{Name: maybeHostile(r, tgt, 15, nil)}
			var tv []string
			for _, w := range u.Versions {
				if w.Name == tgt {
					tv = append(tv, w.Version)
				}
			}
			switch {
			case len(tv) > 0 && r.Intn(3) > 0:
				q.Req = gen.Pick(r, "==", ">=", "<=", "~=", "!=", "<", ">", "===") + tv[r.Intn(len(tv))]
			case r.Intn(4) == 0:
				q.Req = ""
			default:
				q.Req = gen.PyPISpec(r)
			}
			q.Req = maybeHostile(r, q.Req, 5, semverDict)
			if r.Intn(2) == 0 {
				q.Environment = maybeHostile(r, markerSentence(r, 3), 3, mdict)
			}
			if r.Intn(5) == 0 {
				q.Enabled = maybeHostile(r, gen.Pick(r, "x", "x,y", "test", "X"), 3, []string{",", " ", ",,"})
			}
			if r.Intn(12) == 0 {
				q.Opt = true
			}
			v.Reqs = append(v.Reqs, q)
		}
	}
	if r.Intn(4) == 0 {
		u.Root = r.Intn(len(u.Versions))
	}
	return u
}

func uniBytes(u *UniCase) []byte {
	b, _ := json.Marshal(u)
	return b
}

// longUniverse builds the long-stratum universes: one hostile field of
// 10^4..10^6 bytes in an otherwise plain two-package universe.
func longUniverse(sys, shape string, n int) []byte {
	u := &UniCase{}
	u.Sys = sys
	rootV, depV, req := "1.0.0", "1.0.0", "^1.0.0"
	rootN, depN := "root", "dep"
	switch sys {
	case "Maven":
		rootN, depN, req = "g:root", "g:dep", "[1.0.0,2)"
	case "PyPI":
		req = ">=1.0.0"
	}
	q := uni.Req{Name: depN, Req: req}
	long := func(name string) string {
		ls := genericLongByName(name)
		return ls.f(n)
	}
	switch shape {
	case "uni-marker-parens":
		q.Environment = strings.Repeat("(", n) + "os_name == 'posix'" + strings.Repeat(")", n)
	case "uni-marker-open-parens":
		q.Environment = strings.Repeat("(", n)
	case "uni-marker-ands":
		q.Environment = "os_name == 'posix'" + strings.Repeat(" and os_name == 'posix'", n)
	case "uni-marker-ors":
		q.Environment = "os_name == 'nt'" + strings.Repeat(" or os_name == 'nt'", n)
	case "uni-marker-string":
		q.Environment = "os_name == '" + strings.Repeat("a", n) + "'"
	case "uni-marker-versions":
		q.Environment = "python_version >= '" + strings.Repeat("1.", n) + "1'"
	case "uni-extras":
		q.Enabled = "x" + strings.Repeat(",x", n)
	case "uni-exclusions":
		q.Exclusions = "g:a" + strings.Repeat("|g:a", n)
	case "uni-exclusion-colons":
		q.Exclusions = strings.Repeat(":", n)
	case "uni-name-gt":
		depN = "a" + strings.Repeat(">", n)
		q.Name = depN
	case "uni-alias":
		q.KnownAs = strings.Repeat("a", n)
	case "uni-tags":
		u.Versions = append(u.Versions, uni.Version{Name: depN, Version: "1.0.1", Tags: "latest" + strings.Repeat(",t", n)})
	case "uni-many-requirements":
		u.Versions = []uni.Version{{Name: rootN, Version: rootV}, {Name: depN, Version: depV}}
		for i := 0; i < n; i++ {
			u.Versions[0].Reqs = append(u.Versions[0].Reqs, uni.Req{Name: depN, Req: req, KnownAs: ""})
		}
		return uniBytes(u)
	default:
		if strings.HasPrefix(shape, "uni-req/") {
			q.Req = long(strings.TrimPrefix(shape, "uni-req/"))
		} else if strings.HasPrefix(shape, "uni-version/") {
			depV = long(strings.TrimPrefix(shape, "uni-version/"))
		}
	}
	u.Versions = append([]uni.Version{{Name: rootN, Version: rootV, Reqs: []uni.Req{q}}, {Name: depN, Version: depV}}, u.Versions...)
	return uniBytes(u)
}

func init() {
	type spec struct {
		name, sys string
		gen       func(r *rand.Rand) *UniCase
		weight    int
	}
	for _, s := range []spec{{"resolver.npm", "NPM", npmUniverse, 30}, {"resolver.maven", "Maven", mavenUniverse, 30}, {"resolver.pypi", "PyPI", pypiUniverse, 12}} {
		s := s
		d := &driver{
			name: s.name, systems: []string{s.sys}, apis: []string{s.name + ".Resolve"},
			valid:  func(g *genCtx, _ string) [][]byte { return [][]byte{uniBytes(s.gen(g.r))} },
			weight: s.weight, structured: true,
			long:   map[string]func(string, int) []byte{},
			longNs: map[string][]int{},
			run:    runResolver,
		}
		add := func(shape string, ns ...int) {
			shape2 := shape
			d.long[shape2] = func(sys string, n int) []byte { return longUniverse(sys, shape2, n) }
			d.longNs[shape2] = ns
		}
		for _, name := range []string{"digits", "num-dots", "lparens", "parens-balanced", "brackets-balanced", "or-alternatives", "or-alternatives-ranges", "comma-list", "comma-list-distinct", "maven-union", "hyphen-ranges", "spaces", "operators", "bytes-ff", "prerelease-idents", "stars"} {
			add("uni-req/"+name, genericLongByName(name).ns[0])
		}
		for _, name := range []string{"digits", "num-dots", "prerelease-idents", "qualifiers", "post-dev", "epochs"} {
			add("uni-version/"+name, genericLongByName(name).ns[0])
		}
		add("uni-many-requirements", 2000)
		switch s.sys {
		case "PyPI":
			add("uni-marker-parens", 1000, 100000, 500000)
			add("uni-marker-open-parens", 100000, 1000000)
			add("uni-marker-ands", 20000)
			add("uni-marker-ors", 20000)
			add("uni-marker-string", 1000000)
			add("uni-marker-versions", 100000)
			add("uni-extras", 100000)
		case "Maven":
			add("uni-exclusions", 10000, 100000)
			add("uni-exclusion-colons", 100000)
		case "NPM":
			add("uni-name-gt", 100000)
			add("uni-alias", 100000)
			add("uni-tags", 10000)
		}
		register(d)
	}
}

// The mixed batches of the resolver drivers mutate the universe, not its JSON
// text: see (*driver).input, which only ever sees one part; the hostile
// fields are drawn inside the generators above.

func runResolver(x *runner, sys string, in []byte) string {
	var u UniCase
	if err := json.Unmarshal(in, &u); err != nil {
		return "err:harness-input"
	}
	if u.Sys != sys || len(u.Versions) == 0 || u.Root < 0 || u.Root >= len(u.Versions) {
		return "err:harness-input"
	}
	x.hit("resolver." + strings.ToLower(sys) + ".Resolve")
	g, err, exhausted, calls := resolveOnce(&u)
	if exhausted {
		// More than an order of magnitude beyond the budget as well?
		big := escalation * u.StepBudget()
		_, _, ex2, calls2 := resolveBudget(&u, big)
		if !ex2 {
			x.feature("resolver:over-budget-but-terminating:" + sys)
			return "value:slow"
		}
		shape := nontermShape(&u)
		class := fmt.Sprintf("C04:nontermination:%s:%s", strings.ToLower(sys), shape)
		if p := x.nonterm[class]; p != nil {
			p.Count++
		} else {
			// The first of its class in this child is shrunk with the same
			// oracle so that the witness is readable.
			enc := b64(in)
			if small := shrinkNonterm(&u); nontermShape(small) == shape {
				enc = b64(uniBytes(small))
			}
			x.nonterm[class] = &NontermRec{Class: class, Entry: "resolver." + strings.ToLower(sys), Sys: sys, Enc: enc, Shape: shape, Calls: calls2, Budget: big, Count: 1}
		}
		return "nonterminating:" + shape
	}
	// The same root twice more on one resolver object: whatever the first
	// call leaves behind in the resolver (parsed markers and constraints are
	// cached there, failures included) must not turn the answer into a crash.
	resolveRepeated(&u, 2)
	x.feature("resolver:repeated-on-one-object:" + sys)
	if calls > x.sum.MaxSteps {
		x.sum.MaxSteps = calls
	}
	if ratio := float64(calls) / float64(u.StepBudget()); ratio > x.sum.MaxRatio {
		x.sum.MaxRatio = ratio
	}
	if err != nil {
		// Resolver errors quote names and requirements: the first three words
		// are the family.
		f := strings.Split(family(err), "-")
		if len(f) > 3 {
			f = f[:3]
		}
		return "err:" + strings.Join(f, "-")
	}
	nodeErrs := g.Error != ""
	for _, n := range g.Nodes {
		if len(n.Errors) > 0 {
			nodeErrs = true
		}
	}
	switch {
	case len(g.Nodes) > 2 && !nodeErrs:
		return "value:graph-3+"
	case nodeErrs:
		return "value:graph-with-errors"
	}
	return "value:graph-small"
}

func resolveOnce(u *UniCase) (*resolve.Graph, error, bool, int64) {
	return resolveBudget(u, u.StepBudget())
}

func resolveBudget(u *UniCase, budget int64) (*resolve.Graph, error, bool, int64) {
	// A client that, like any real one, fails once the context is cancelled:
	// when the budget is exhausted every further call is an error, so that a
	// resolver that recurses without looking at the context still comes back.
	c := ctxClient{u.Client(nil)}
	v := u.Versions[u.Root]
	return uni.Resolve(resolverFor(u.Sys), c, budget, u.VK(v.Name, v.Version, resolve.Concrete))
}

// resolveRepeated resolves the root n times on a single resolver object,
// each time under its own step budget. Panics propagate to the runner.
func resolveRepeated(u *UniCase, n int) {
	base := ctxClient{u.Client(nil)}
	sw := &swapClient{}
	res := resolverFor(u.Sys)(sw)
	v := u.Versions[u.Root]
	root := u.VK(v.Name, v.Version, resolve.Concrete)
	for i := 0; i < n; i++ {
		ctx, cancel := context.WithCancel(context.Background())
		sw.c = &uni.Counting{C: base, Budget: u.StepBudget(), Cancel: cancel}
		func() {
			defer cancel()
			res.Resolve(ctx, root)
		}()
	}
}

// swapClient forwards to whatever client is current (sequential use only).
type swapClient struct{ c resolve.Client }

func (s *swapClient) Version(ctx context.Context, vk resolve.VersionKey) (resolve.Version, error) {
	return s.c.Version(ctx, vk)
}
func (s *swapClient) Versions(ctx context.Context, pk resolve.PackageKey) ([]resolve.Version, error) {
	return s.c.Versions(ctx, pk)
}
func (s *swapClient) Requirements(ctx context.Context, vk resolve.VersionKey) ([]resolve.RequirementVersion, error) {
	return s.c.Requirements(ctx, vk)
}
func (s *swapClient) MatchingVersions(ctx context.Context, vk resolve.VersionKey) ([]resolve.Version, error) {
	return s.c.MatchingVersions(ctx, vk)
}

type ctxClient struct{ c resolve.Client }

func (c ctxClient) Version(ctx context.Context, vk resolve.VersionKey) (resolve.Version, error) {
	if err := ctx.Err(); err != nil {
		return resolve.Version{}, err
	}
	return c.c.Version(ctx, vk)
}

func (c ctxClient) Versions(ctx context.Context, pk resolve.PackageKey) ([]resolve.Version, error) {
	if err := ctx.Err(); err != nil {
		return nil, err
	}
	return c.c.Versions(ctx, pk)
}

func (c ctxClient) Requirements(ctx context.Context, vk resolve.VersionKey) ([]resolve.RequirementVersion, error) {
	if err := ctx.Err(); err != nil {
		return nil, err
	}
	return c.c.Requirements(ctx, vk)
}

func (c ctxClient) MatchingVersions(ctx context.Context, vk resolve.VersionKey) ([]resolve.Version, error) {
	if err := ctx.Err(); err != nil {
		return nil, err
	}
	return c.c.MatchingVersions(ctx, vk)
}

func terminates(u *UniCase) bool { return terminatesWithin(u, escalation*u.StepBudget()) }

func terminatesWithin(u *UniCase, budget int64) (ok bool) {
	defer func() {
		if recover() != nil {
			ok = false
		}
	}()
	_, _, ex, _ := resolveBudget(u, budget)
	return !ex
}

// shrinkNonterm greedily drops versions, requirements and attributes while the
// resolution still exhausts ten times the step budget.
func shrinkNonterm(u *UniCase) (out *UniCase) {
	cur := cloneUni(u)
	defer func() { out = cur }()
	tries := 0
	still := func(c *UniCase) bool {
		if tries >= 150 || len(c.Versions) == 0 || c.Root >= len(c.Versions) {
			return false
		}
		tries++
		return !terminatesWithin(c, c.StepBudget())
	}
	defer func() {
		// Shrinking used the plain budget; the result has to fail the full one.
		if terminates(out) {
			out = u
		}
	}()
	for changed := true; changed; {
		changed = false
		for i := len(cur.Versions) - 1; i >= 0; i-- {
			if i == cur.Root {
				continue
			}
			c := cloneUni(cur)
			c.Versions = append(c.Versions[:i], c.Versions[i+1:]...)
			if c.Root > i {
				c.Root--
			}
			if still(c) {
				cur, changed = c, true
			}
		}
		for i := range cur.Versions {
			for j := len(cur.Versions[i].Reqs) - 1; j >= 0; j-- {
				c := cloneUni(cur)
				c.Versions[i].Reqs = append(c.Versions[i].Reqs[:j], c.Versions[i].Reqs[j+1:]...)
				if still(c) {
					cur, changed = c, true
				}
			}
		}
		for i := range cur.Versions {
			v := cur.Versions[i]
			if v.Tags != "" || v.Blocked {
				c := cloneUni(cur)
				c.Versions[i].Tags, c.Versions[i].Blocked = "", false
				if still(c) {
					cur, changed = c, true
				}
			}
			for j := range cur.Versions[i].Reqs {
				q := cur.Versions[i].Reqs[j]
				for _, f := range []func(*uni.Req){
					func(q *uni.Req) { q.KnownAs = "" },
					func(q *uni.Req) { q.Scope = "" },
					func(q *uni.Req) { q.Dev, q.Opt, q.Test = false, false, false },
					func(q *uni.Req) { q.Environment, q.Enabled = "", "" },
					func(q *uni.Req) { q.Classifier, q.ArtType, q.Origin, q.Exclusions = "", "", "", "" },
				} {
					c := cloneUni(cur)
					f(&c.Versions[i].Reqs[j])
					if c.Versions[i].Reqs[j] == q {
						continue
					}
					if still(c) {
						cur, changed = c, true
						q = cur.Versions[i].Reqs[j]
					}
				}
			}
		}
	}
	return cur
}

// nontermShape names the shape of a universe on which a resolver did not
// terminate. A named shape is reported only if removing exactly that feature
// makes the resolution terminate; everything else is "other" and stays a
// fresh violation.
func nontermShape(u *UniCase) string {
	if u.Sys != "NPM" {
		return "other"
	}
	cur := u
	for _, sh := range []struct {
		name  string
		strip func(*UniCase) (bool, *UniCase)
	}{
		// (iii) a bundled copy whose own bundle content (transitively) contains it.
		{"bundle-contains-itself", stripBundleSelfContainment},
		// (i) a requirement installed under an alias equal to the dependent's own
		// package name, on a dependency cycle back to that package.
		{"alias-equals-dependent-on-cycle", stripSelfAlias},
		// (iv) two packages on a dependency cycle install their requirement
		// on the other under one and the same alias.
		{"same-alias-for-different-packages-on-cycle", stripSharedAlias},
		// (ii) a bundled copy that requires its bundling package and carries a
		// nested bundled copy of that package.
		{"bundle-requires-bundler-with-nested-copy", stripNestedBundlerCopy},
	} {
		has, stripped := sh.strip(cur)
		if !has {
			continue
		}
		if terminates(stripped) {
			// Removing exactly this feature (after the ones tried before it,
			// whose removal alone did not help) makes the resolution end.
			return sh.name
		}
		cur = stripped
	}
	return "other"
}

func cloneUni(u *UniCase) *UniCase {
	b, _ := json.Marshal(u)
	var c UniCase
	json.Unmarshal(b, &c)
	return &c
}

func baseName(mangled string) string { return mangled[strings.LastIndex(mangled, ">")+1:] }

// requiresBack reports whether some version of package from (transitively,
// through plain requirements by name) requires package to.
func requiresBack(u *UniCase, from, to string) bool {
	seen := map[string]bool{}
	todo := []string{from}
	for len(todo) > 0 {
		p := todo[0]
		todo = todo[1:]
		if seen[p] {
			continue
		}
		seen[p] = true
		for _, v := range u.Versions {
			if v.Name != p {
				continue
			}
			for _, q := range v.Reqs {
				if q.Name == to {
					return true
				}
				todo = append(todo, q.Name)
			}
		}
	}
	return false
}

func stripSharedAlias(u *UniCase) (bool, *UniCase) {
	c := cloneUni(u)
	has := false
	own := func(v uni.Version) string {
		if v.DerivedFrom != "" {
			return v.DerivedFrom
		}
		return v.Name
	}
	for i := range u.Versions {
		for j, q := range u.Versions[i].Reqs {
			if q.KnownAs == "" {
				continue
			}
			for i2 := range u.Versions {
				for _, q2 := range u.Versions[i2].Reqs {
					if q2.KnownAs != q.KnownAs || q2.Name == q.Name || own(u.Versions[i2]) == own(u.Versions[i]) {
						continue
					}
					// Each dependent is reachable from the other's requirement.
					pi, pi2 := own(u.Versions[i]), own(u.Versions[i2])
					if (q.Name == pi2 || requiresBack(u, q.Name, pi2)) && (q2.Name == pi || requiresBack(u, q2.Name, pi)) {
						c.Versions[i].Reqs[j].KnownAs = ""
						has = true
					}
				}
			}
		}
	}
	return has, c
}

func stripSelfAlias(u *UniCase) (bool, *UniCase) {
	c := cloneUni(u)
	has := false
	for i := range c.Versions {
		v := &c.Versions[i]
		own := v.Name
		if v.DerivedFrom != "" {
			own = v.DerivedFrom
		}
		for j := range v.Reqs {
			q := &v.Reqs[j]
			if q.KnownAs != "" && q.KnownAs == own && q.Name != own && requiresBack(u, q.Name, own) {
				q.KnownAs = ""
				has = true
			}
		}
	}
	return has, c
}

// stripBundleSelfContainment removes requirement edges between bundled copies
// (versions with DerivedFrom) that close a cycle of exact requirements.
func stripBundleSelfContainment(u *UniCase) (bool, *UniCase) {
	c := cloneUni(u)
	// Bundled copies are found by package name: the resolver takes a
	// requirement for bundle content when it matches exactly one version and
	// that version has DerivedFrom, whatever the requirement text.
	idx := map[string][]int{}
	for i, v := range u.Versions {
		if v.DerivedFrom != "" {
			idx[v.Name] = append(idx[v.Name], i)
		}
	}
	has := false
	// reaches(a, b): b is in the bundle content of a.
	var reaches func(a, b int, seen map[int]bool) bool
	reaches = func(a, b int, seen map[int]bool) bool {
		if a == b {
			return true
		}
		if seen[a] {
			return false
		}
		seen[a] = true
		for _, q := range u.Versions[a].Reqs {
			for _, j := range idx[q.Name] {
				if reaches(j, b, seen) {
					return true
				}
			}
		}
		return false
	}
	for i := range c.Versions {
		if c.Versions[i].DerivedFrom == "" {
			continue
		}
		var keep []uni.Req
		for _, q := range c.Versions[i].Reqs {
			back := false
			for _, j := range idx[q.Name] {
				if reaches(j, i, map[int]bool{}) {
					back = true
				}
			}
			if back {
				has = true
				continue
			}
			keep = append(keep, q)
		}
		c.Versions[i].Reqs = keep
	}
	return has, c
}

func stripNestedBundlerCopy(u *UniCase) (bool, *UniCase) {
	c := cloneUni(u)
	has := false
	isBundled := func(name, ver string) *uni.Version {
		for i := range u.Versions {
			if u.Versions[i].Name == name && u.Versions[i].Version == ver && u.Versions[i].DerivedFrom != "" {
				return &u.Versions[i]
			}
		}
		return nil
	}
	for i := range c.Versions {
		v := &c.Versions[i]
		if v.DerivedFrom == "" || !strings.Contains(v.Name, ">") {
			continue
		}
		bundler := v.Name[:strings.Index(v.Name, ">")]
		requiresBundler := false
		for _, q := range v.Reqs {
			if q.Name == bundler {
				requiresBundler = true
			}
		}
		if !requiresBundler {
			continue
		}
		var keep []uni.Req
		for _, q := range v.Reqs {
			if nb := isBundled(q.Name, q.Req); nb != nil && nb.DerivedFrom == bundler && strings.HasPrefix(q.Name, v.Name+">") {
				has = true
				continue
			}
			keep = append(keep, q)
		}
		v.Reqs = keep
	}
	return has, c
}
