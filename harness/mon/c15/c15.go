// Package c15 monitors property C15: the documented POM pipeline of
// deps.dev/util/maven (profile activation, parent inheritance, interpolation,
// dependency-management import and injection) yields the dependencies and
// managed dependencies that Maven's own model builder computes for the same
// files, and interpolation terminates on every property table.
package c15

import (
	"bytes"
	"encoding/json"
	"fmt"
	"os"
	"os/exec"
	"path/filepath"
	"sort"
	"strings"
	"sync"
	"time"

	"deps.dev/util/maven"
	"verif/harness/ev"
	"verif/harness/mon/c15/mpr"
)

// ---------------------------------------------------------------- reference

type refAnswer struct {
	Deps  []Row
	Mgmt  []Row
	Error string
}

func javaArgv() []string {
	java := "java"
	if p, err := exec.LookPath("java"); err == nil {
		java = p
	} else if _, err := os.Stat("/usr/bin/java"); err == nil {
		java = "/usr/bin/java"
	}
	os_ := maven.OSProfileActivation
	return []string{java, "-XX:TieredStopAtLevel=1", "-XX:+UseSerialGC", "-Xss16m",
		"-Dos.name=" + string(os_.Name), "-Dos.arch=" + string(os_.Arch), "-Dos.version=" + string(os_.Version),
		"-cp", filepath.Join(ev.Root, "build/java") + ":/usr/share/maven/lib/*", "RefModel"}
}

func javaBatch(lines []string) ([]string, error) {
	argv := javaArgv()
	cmd := exec.Command(argv[0], argv[1:]...)
	cmd.Stdin = strings.NewReader(strings.Join(lines, "\n") + "\n")
	var errb bytes.Buffer
	cmd.Stderr = &errb
	out, err := cmd.Output()
	if err != nil {
		return nil, fmt.Errorf("RefModel adapter: %v: %s", err, strings.SplitN(errb.String(), "\n", 2)[0])
	}
	res := strings.Split(strings.TrimSuffix(string(out), "\n"), "\n")
	if len(res) != len(lines) {
		return nil, fmt.Errorf("RefModel adapter: %d answers for %d questions (stderr: %s)", len(res), len(lines), strings.SplitN(errb.String(), "\n", 2)[0])
	}
	return res, nil
}

func parseRef(line string) (refAnswer, error) {
	var raw struct {
		Deps  [][]any `json:"deps"`
		Mgmt  [][]any `json:"mgmt"`
		Error string  `json:"error"`
	}
	if err := json.Unmarshal([]byte(line), &raw); err != nil {
		return refAnswer{}, fmt.Errorf("RefModel adapter: unreadable answer %q", line)
	}
	if raw.Error != "" {
		return refAnswer{Error: raw.Error}, nil
	}
	conv := func(rows [][]any, managed bool) []Row {
		out := make([]Row, 0, len(rows))
		for _, row := range rows {
			var f [7]string
			for i := 0; i < 7; i++ {
				if s, ok := row[i].(string); ok {
					f[i] = s
				}
			}
			var ex [][2]string
			if l, ok := row[7].([]any); ok {
				for _, e := range l {
					p := e.([]any)
					var pair [2]string
					for i := 0; i < 2; i++ {
						if s, ok := p[i].(string); ok {
							pair[i] = s
						}
					}
					ex = append(ex, pair)
				}
			}
			out = append(out, normalise(f, ex, managed))
		}
		return out
	}
	return refAnswer{Deps: conv(raw.Deps, false), Mgmt: conv(raw.Mgmt, true)}, nil
}

// ---------------------------------------------------------------- one evaluation

type outcome struct {
	LibDeps []Row `json:"-"`
	LibMgmt []Row `json:"-"`
	// The project again, after every other POM of the lineage was processed as
	// a project of its own over one cache of decoded POMs ("" = same rows).
	CachedDiff string `json:"cached_diff,omitempty"`
	CachedRuns int    `json:"-"`
	LibErr     string `json:"lib_error,omitempty"`
	LibStage   string `json:"-"`
	Ref        refAnswer
}

// evaluateAll writes the lineages under dir, asks Maven (one JVM) and runs the
// library pipeline on the same files.
func evaluateAll(dir string, ls []*Lineage) ([]outcome, error) {
	outs := make([]outcome, len(ls))
	lines := make([]string, len(ls))
	roots := make([]string, len(ls))
	repos := make([]string, len(ls))
	for i, l := range ls {
		repos[i] = filepath.Join(dir, fmt.Sprint(i), "repo")
		root, err := l.Write(repos[i])
		if err != nil {
			return nil, err
		}
		roots[i] = root
		lines[i] = root + "\t" + repos[i]
	}
	if len(ls) == 0 {
		return outs, nil
	}
	var wg sync.WaitGroup
	var ans []string
	var jerr error
	wg.Add(1)
	go func() { defer wg.Done(); ans, jerr = javaBatch(lines) }()
	for i := range ls {
		lp := &libPipeline{repo: repos[i]}
		proj, stage, err := lp.effective(roots[i])
		if err != nil {
			outs[i].LibErr, outs[i].LibStage = err.Error(), stage
			continue
		}
		outs[i].LibDeps = libRows(proj.Dependencies, false)
		outs[i].LibMgmt = libRows(proj.DependencyManagement.Dependencies, true)
		outs[i].CachedDiff, outs[i].CachedRuns = cachedPass(lp, ls[i], outs[i].LibDeps, outs[i].LibMgmt)
	}
	wg.Wait()
	if jerr != nil {
		return nil, jerr
	}
	for i := range ls {
		a, err := parseRef(ans[i])
		if err != nil {
			return nil, err
		}
		outs[i].Ref = a
	}
	return outs, nil
}

// cachedPass processes the lineage's other POMs (ancestors first: the file
// order reversed) and then the project itself, all over one cache of decoded
// POMs, and compares the project's rows with the ones computed from files.
func cachedPass(lp *libPipeline, l *Lineage, deps, mgmt []Row) (diff string, runs int) {
	cache := mpr.NewCache()
	key := func(p *Pom) maven.ProjectKey {
		return maven.ProjectKey{GroupID: maven.String(p.Dir[0]), ArtifactID: maven.String(p.Dir[1]), Version: maven.String(p.Dir[2])}
	}
	for i := len(l.Poms) - 1; i >= 1; i-- {
		lp.effectiveCached(key(&l.Poms[i]), cache, true) // as seen from another JDK and OS
		lp.effectiveCached(key(&l.Poms[i]), cache, false)
		runs += 2
	}
	lp.effectiveCached(key(&l.Poms[0]), cache, true)
	proj, stage, err := lp.effectiveCached(key(&l.Poms[0]), cache, false)
	runs += 2
	if err != nil {
		return fmt.Sprintf("error at %s: %v", stage, err), runs
	}
	cd, cm := libRows(proj.Dependencies, false), libRows(proj.DependencyManagement.Dependencies, true)
	relabel := strings.NewReplacer("the library", "over the cache", "library", "over the cache", "Maven", "from the files")
	if c, what := diffRows("dependencies", cd, deps); c != "" {
		return relabel.Replace(what), runs
	}
	if c, what := diffRows("managed dependencies", cm, mgmt); c != "" {
		return relabel.Replace(what), runs
	}
	return "", runs
}

func rowsEqual(a, b Row) bool {
	if a.F != b.F || len(a.Excl) != len(b.Excl) {
		return false
	}
	for i := range a.Excl {
		if a.Excl[i] != b.Excl[i] {
			return false
		}
	}
	return true
}

var fieldNames = [7]string{"group", "artifact", "version", "type", "classifier", "scope", "optional"}

// diffRows names the first difference between the library's and Maven's list.
func diffRows(list string, lib, ref []Row) (class, what string) {
	same := len(lib) == len(ref)
	if same {
		for i := range lib {
			if !rowsEqual(lib[i], ref[i]) {
				same = false
				break
			}
		}
	}
	if same {
		return "", ""
	}
	count := func(rs []Row) map[string]int {
		m := map[string]int{}
		for _, r := range rs {
			m[r.key()]++
		}
		return m
	}
	lc, rc := count(lib), count(ref)
	for _, r := range ref {
		if lc[r.key()] < rc[r.key()] {
			return "C15:" + list + ":missing", fmt.Sprintf("%s: Maven has %d x [%s], the library %d", list, rc[r.key()], r, lc[r.key()])
		}
	}
	for _, r := range lib {
		if lc[r.key()] > rc[r.key()] {
			return "C15:" + list + ":extra", fmt.Sprintf("%s: the library has %d x [%s], Maven %d", list, lc[r.key()], r, rc[r.key()])
		}
	}
	for i := range lib {
		if lib[i].key() != ref[i].key() {
			return "C15:" + list + ":order", fmt.Sprintf("%s: position %d: library [%s], Maven [%s]", list, i, lib[i], ref[i])
		}
	}
	for i := range lib {
		if rowsEqual(lib[i], ref[i]) {
			continue
		}
		for f := 0; f < 7; f++ {
			if lib[i].F[f] != ref[i].F[f] {
				return "C15:" + list + ":" + fieldNames[f], fmt.Sprintf("%s: position %d %s: library [%s], Maven [%s]", list, i, fieldNames[f], lib[i], ref[i])
			}
		}
		return "C15:" + list + ":exclusions", fmt.Sprintf("%s: position %d exclusions: library [%s], Maven [%s]", list, i, lib[i], ref[i])
	}
	return "C15:" + list + ":other", list
}

// verdict compares one outcome. discarded = Maven rejects the lineage.
func verdict(o outcome) (class, what string, discarded bool) {
	if o.Ref.Error != "" {
		return "", "", true
	}
	// Guard of the equality clause's domain: a placeholder that Maven itself
	// leaves unresolved is outside the supported subset (the library drops
	// such a dependency by design); the generator never produces one.
	for _, rows := range [][]Row{o.Ref.Deps, o.Ref.Mgmt} {
		for _, r := range rows {
			for _, f := range r.F {
				if strings.Contains(f, "${") {
					return "", "", true
				}
			}
		}
	}
	if o.LibErr != "" {
		return "C15:lib-error:" + o.LibStage, "Maven builds the effective model, the library pipeline fails: " + o.LibErr, false
	}
	if c, w := diffRows("dep-list", o.LibDeps, o.Ref.Deps); c != "" {
		return c, w, false
	}
	if c, w := diffRows("mgmt-list", o.LibMgmt, o.Ref.Mgmt); c != "" {
		return c, w, false
	}
	if o.CachedDiff != "" {
		return "C15:cached-poms:differs", "the project's effective POM agrees with Maven's when every POM is decoded afresh, but not when the lineage's other POMs were processed first over one cache of decoded POMs (each handed out by value): " + o.CachedDiff, false
	}
	return "", "", false
}

// ---------------------------------------------------------------- known shapes

// A shape is a structural feature of a lineage to which an open finding is
// tied: detect says whether the lineage has it, reduce rewrites the lineage
// without it. A difference is attributed to the shape's class only when the
// lineage has the feature and both sides agree on the reduced lineage.
type shape struct {
	class  string
	detect func(*Lineage) bool
	reduce func(*Lineage) []*Lineage // one or two ways of removing the feature
}

func cloneLineage(l *Lineage) *Lineage {
	b, _ := json.Marshal(l)
	var c Lineage
	json.Unmarshal(b, &c)
	return &c
}

func depSame(a, b Dep) bool {
	x, _ := json.Marshal(a)
	y, _ := json.Marshal(b)
	return string(x) == string(y)
}

// forSections calls f on every dependency list of every file: the main
// <dependencies>, the main managed list, and both lists of each profile.
func forSections(l *Lineage, f func(list *[]Dep)) {
	forSectionsOf(l, true, true, f)
}

func forSectionsOf(l *Lineage, deps, mgmt bool, f func(list *[]Dep)) {
	for i := range l.Poms {
		p := &l.Poms[i]
		if deps {
			f(&p.Deps)
		}
		if mgmt {
			f(&p.Mgmt)
		}
		for j := range p.Profiles {
			if deps {
				f(&p.Profiles[j].Deps)
			}
			if mgmt {
				f(&p.Profiles[j].Mgmt)
			}
		}
	}
}

// dupInOnePom: one list of one file (managed = false: a <dependencies> list;
// managed = true: a managed list) declares the same (group, artifact, type,
// classifier) twice (dependencies: with different content).
func dupInOnePom(managed bool) func(l *Lineage) bool {
	return func(l *Lineage) bool { return dupInOnePom1(l, managed) }
}

func dupInOnePom1(l *Lineage, managed bool) bool {
	found := false
	forSectionsOf(l, !managed, managed, func(list *[]Dep) {
		first := map[string]Dep{}
		for _, d := range *list {
			k := depKey(d)
			if prev, ok := first[k]; ok {
				d2 := d
				if d2.Type == "" && prev.Type == "jar" || d2.Type == "jar" && prev.Type == "" {
					d2.Type = prev.Type
				}
				// Maven never normalises a managed list: even an identical
				// repetition shows (it lists the entry twice).
				if managed || !depSame(prev, d2) {
					found = true
				}
				continue
			}
			first[k] = d
		}
	})
	return found
}

// dropDupInOnePom leaves one declaration of each key in each list: the first
// one, or the last one (at the first one's position).
func dropDupInOnePom(managed bool) func(l *Lineage) []*Lineage {
	return func(l *Lineage) []*Lineage { return dropDupInOnePom1(l, managed) }
}

func dropDupInOnePom1(l *Lineage, managed bool) []*Lineage {
	first, last := cloneLineage(l), cloneLineage(l)
	forSectionsOf(first, !managed, managed, func(list *[]Dep) {
		seen := map[string]bool{}
		var out []Dep
		for _, d := range *list {
			k := depKey(d)
			if seen[k] {
				continue
			}
			seen[k] = true
			out = append(out, d)
		}
		*list = out
	})
	forSectionsOf(last, !managed, managed, func(list *[]Dep) {
		at := map[string]int{}
		var out []Dep
		for _, d := range *list {
			k := depKey(d)
			if i, ok := at[k]; ok {
				out[i] = d
				continue
			}
			at[k] = len(out)
			out = append(out, d)
		}
		*list = out
	})
	return []*Lineage{first, last}
}

func forProfiles(l *Lineage, f func(pr *Profile)) {
	for i := range l.Poms {
		for j := range l.Poms[i].Profiles {
			f(&l.Poms[i].Profiles[j])
		}
	}
}

// The family names that plexus-utils' Os knows; any other <family> value is
// matched by Maven against os.name (containment).
var osFamilies = map[string]bool{"windows": true, "os/2": true, "netware": true, "dos": true, "mac": true, "tandem": true, "unix": true, "win9x": true, "z/os": true, "os/400": true, "openvms": true}

func osFamilyIsName(pr *Profile) bool {
	return pr.OS != nil && pr.OS.Family != "" && !osFamilies[strings.ToLower(strings.TrimPrefix(pr.OS.Family, "!"))]
}

func osFamilyByName(l *Lineage) bool {
	found := false
	forProfiles(l, func(pr *Profile) { found = found || osFamilyIsName(pr) })
	return found
}

// familyAsKnown rewrites such a <family> into unix / windows, whichever has
// the truth value that Maven's os.name containment gives.
func familyAsKnown(l *Lineage) []*Lineage {
	c := cloneLineage(l)
	forProfiles(c, func(pr *Profile) {
		if !osFamilyIsName(pr) {
			return
		}
		neg := strings.HasPrefix(pr.OS.Family, "!")
		fam := strings.ToLower(strings.TrimPrefix(pr.OS.Family, "!"))
		if strings.Contains(string(maven.OSProfileActivation.Name), fam) != neg {
			pr.OS.Family = "unix"
		} else {
			pr.OS.Family = "windows"
		}
	})
	return []*Lineage{c}
}

// Only shapes of OPEN findings are attributable (and only while the finding
// is listed as open, see Run). The shapes repaired in /repo
// (duplicate declarations in one <dependencies> list, a profile redeclaring a
// key of the main section, parent.* built-ins inside an imported BOM, plain and
// negated <jdk> versions) are still generated and have witnesses: a regression
// there is a fresh violation.
var shapes = []shape{
	{class: "C15:dup-in-one-pom:mgmt", detect: dupInOnePom(true), reduce: dropDupInOnePom(true)},
	{class: "C15:os-family-by-name", detect: osFamilyByName, reduce: familyAsKnown},
}

// ---------------------------------------------------------------- coverage

func chainOf(l *Lineage, leaf int) []int {
	idx := map[[3]string]int{}
	for i, p := range l.Poms {
		idx[p.Dir] = i
	}
	var out []int
	seen := map[int]bool{}
	for cur := leaf; !seen[cur]; {
		seen[cur] = true
		out = append(out, cur)
		par := l.Poms[cur].Parent
		if par == nil {
			break
		}
		nxt, ok := idx[*par]
		if !ok {
			break
		}
		cur = nxt
	}
	return out
}

func placeholderKeys(s string) []string {
	var out []string
	for _, sg := range segments(s) {
		if sg.ph {
			out = append(out, sg.key)
		}
	}
	return out
}

// nontrivial: Maven's result has a dependency that the root chain declares
// without a version (the version is a managed one), or a root-chain dependency
// version mentions (directly or through other properties) a property defined
// more than once in the chain.
func nontrivial(l *Lineage, ref refAnswer) (managed, overridden bool) {
	chain := chainOf(l, 0)
	defs := map[string]int{}
	vals := map[string][]string{}
	var deps []Dep
	for _, i := range chain {
		p := &l.Poms[i]
		for _, kv := range p.Props {
			defs[kv[0]]++
			vals[kv[0]] = append(vals[kv[0]], kv[1])
		}
		deps = append(deps, p.Deps...)
		for _, pr := range p.Profiles {
			for _, kv := range pr.Props {
				defs[kv[0]]++
				vals[kv[0]] = append(vals[kv[0]], kv[1])
			}
			deps = append(deps, pr.Deps...)
		}
	}
	refHas := map[string]bool{}
	for _, r := range ref.Deps {
		if r.F[2] != "" {
			refHas[r.F[1]+":"+r.F[3]+":"+r.F[4]] = true
		}
	}
	for _, d := range deps {
		t := d.Type
		if t == "" {
			t = "jar"
		}
		if !refHas[d.A+":"+t+":"+d.Classifier] {
			continue // not in the effective model (inactive profile)
		}
		if d.V == "" {
			managed = true
			continue
		}
		seen := map[string]bool{}
		todo := placeholderKeys(d.V)
		for len(todo) > 0 {
			k := todo[0]
			todo = todo[1:]
			if seen[k] {
				continue
			}
			seen[k] = true
			if defs[k] > 1 {
				overridden = true
			}
			for _, v := range vals[k] {
				todo = append(todo, placeholderKeys(v)...)
			}
		}
	}
	return
}

// ---------------------------------------------------------------- cases

type lineageCase struct {
	Lineage *Lineage `json:"lineage"`
	Lib     []string `json:"library,omitempty"`
	Maven   []string `json:"maven,omitempty"`
	API     []string `json:"api_client,omitempty"` // API pass only: APIClient.Requirements' rows
	LibErr  string   `json:"library_error,omitempty"`
	Note    string   `json:"note,omitempty"`
}

func rowStrings(deps, mgmt []Row) []string {
	var out []string
	for _, r := range deps {
		out = append(out, "DEP "+r.String())
	}
	for _, r := range mgmt {
		out = append(out, "MGT "+r.String())
	}
	return out
}

func mkCase(l *Lineage, o outcome) lineageCase {
	return lineageCase{Lineage: l, Lib: rowStrings(o.LibDeps, o.LibMgmt), Maven: rowStrings(o.Ref.Deps, o.Ref.Mgmt), LibErr: o.LibErr}
}

type monitor struct {
	r       *ev.Run
	scratch string
	shapes  []shape // the shapes whose class belongs to an open finding of this run
	mu      sync.Mutex
	nbatch  int
}

func (m *monitor) dir() string {
	m.mu.Lock()
	defer m.mu.Unlock()
	m.nbatch++
	return filepath.Join(m.scratch, fmt.Sprintf("b%d", m.nbatch))
}

// result of classifying one lineage.
type classified struct {
	out       outcome
	discarded bool
	class     string // "" = both sides agree
	what      string
	known     []string // classes of the known shapes the difference is attributed to (empty = fresh)
}

// classify evaluates a batch of lineages and attributes differences: for a
// differing lineage, the smallest set of known shapes is sought whose removal
// makes both sides agree (both sides are re-run on the reduced lineages).
func (m *monitor) classify(ls []*Lineage) ([]classified, error) {
	d := m.dir()
	defer os.RemoveAll(d)
	outs, err := evaluateAll(d, ls)
	if err != nil {
		return nil, err
	}
	res := make([]classified, len(ls))
	type pending struct {
		i    int
		sets [][]int // subsets of applicable shapes, smallest first
		idx  [][]int // per subset: indices into red of its reduced variants
	}
	var pend []pending
	var red []*Lineage
	for i, l := range ls {
		c := &res[i]
		c.out = outs[i]
		c.class, c.what, c.discarded = verdict(outs[i])
		if c.discarded || c.class == "" {
			continue
		}
		var app []int
		for k, s := range m.shapes {
			if s.detect(l) {
				app = append(app, k)
			}
		}
		if len(app) == 0 {
			continue
		}
		p := pending{i: i}
		for mask := 1; mask < 1<<len(app); mask++ {
			var set []int
			for b, k := range app {
				if mask&(1<<b) != 0 {
					set = append(set, k)
				}
			}
			p.sets = append(p.sets, set)
		}
		sort.SliceStable(p.sets, func(a, b int) bool { return len(p.sets[a]) < len(p.sets[b]) })
		for _, set := range p.sets {
			vars := []*Lineage{l}
			for _, k := range set {
				var next []*Lineage
				for _, v := range vars {
					next = append(next, m.shapes[k].reduce(v)...)
				}
				vars = next
			}
			var ix []int
			for _, v := range vars {
				ix = append(ix, len(red))
				red = append(red, v)
			}
			p.idx = append(p.idx, ix)
		}
		pend = append(pend, p)
	}
	if len(pend) == 0 {
		return res, nil
	}
	d2 := m.dir()
	defer os.RemoveAll(d2)
	routs, err := evaluateAll(d2, red)
	if err != nil {
		return nil, err
	}
	for _, p := range pend {
		for si, set := range p.sets {
			agree := false
			for _, ri := range p.idx[si] {
				if c, _, disc := verdict(routs[ri]); !disc && c == "" {
					agree = true
				}
			}
			if !agree {
				continue
			}
			for _, k := range set {
				res[p.i].known = append(res[p.i].known, m.shapes[k].class)
			}
			break
		}
	}
	return res, nil
}

// process classifies a batch and reports. generated = false for witnesses and
// replays (no coverage accounting).
func (m *monitor) process(ls []*Lineage, generated bool) error {
	r := m.r
	res, err := m.classify(ls)
	if err != nil {
		return err
	}
	for i, l := range ls {
		c := res[i]
		if c.discarded {
			if c.out.Ref.Error == "" {
				r.Count("discarded:maven-leaves-placeholder", 1)
				continue
			}
			r.Count("discarded:maven-rejects", 1)
			if n := r.Counter("discarded:maven-rejects"); n <= 3 {
				r.Set(fmt.Sprintf("discard_example_%d", n), c.out.Ref.Error)
			}
			continue
		}
		r.Eval(1)
		r.Count("cached_pom_pipeline_runs", int64(c.out.CachedRuns))
		if generated {
			r.Count("lineages:compared", 1)
			mg, ov := nontrivial(l, c.out.Ref)
			if mg {
				r.Count("nontrivial:managed-version", 1)
			}
			if ov {
				r.Count("nontrivial:overridden-property", 1)
			}
			if mg || ov {
				b, _ := json.Marshal(l.Poms)
				r.Nontrivial(string(b))
				r.Count("lineages:nontrivial", 1)
			}
			for _, f := range l.Feat {
				r.Count("feature:"+f, 1)
			}
			r.Count("rows:dependencies", int64(len(c.out.Ref.Deps)))
			r.Count("rows:managed", int64(len(c.out.Ref.Mgmt)))
			if len(c.out.Ref.Deps) > 0 && (mg || ov) {
				r.Sample(map[string]any{"files": len(l.Poms), "features": l.Feat, "maven": rowStrings(c.out.Ref.Deps, nil)})
			}
		}
		if c.class == "" {
			if generated {
				r.Count("lineages:agree", 1)
			}
			// Clean main verdict: the same POMs through resolve.APIClient (api.go).
			m.apiPass(l, c.out, generated)
			continue
		}
		if len(c.known) == 0 {
			r.Violation(c.class, c.what, mkCase(l, c.out))
			continue
		}
		for _, k := range c.known {
			cs := mkCase(l, c.out)
			cs.Note = "observed as " + c.class + "; both sides agree once the feature is removed"
			r.Violation(k, c.what, cs)
			r.Count("attributed:"+k, 1)
		}
	}
	return nil
}

// ---------------------------------------------------------------- Run

type witness struct {
	Note    string   `json:"note"`
	Lineage *Lineage `json:"lineage,omitempty"`
	Table   *Table   `json:"table,omitempty"`
	// Finding: id of the open finding this witness belongs to ("" = must agree).
	Finding string `json:"finding,omitempty"`
}

func Run(r *ev.Run, replay string) {
	r.Rule = "seeded lineage generator writes real pom.xml files (project, 0-4 ancestors, 0-3 imported BOMs with 0-2 ancestors each, nested imports; properties chained/overridden in child, ancestor or profile, and properties named like built-in expressions (project.version, pom.groupId, project.parent.version, version, parent.version ...) at every level; project.*/pom.*/bare built-ins; profiles by default/JDK/OS; dependencyManagement with import scope; duplicates; exclusions, scope, optional, type, classifier). Library: the pipeline of examples/go/maven_parse_resolve (root profiles first as in mavenRequirements) on those files; reference: Maven 3.8.7 DefaultModelBuilder on the same files, java.version=11.0.8, os linux/amd64/5.10.0-26-cloud-amd64. Ordered lists of (g,a,v,type,classifier,scope,optional,exclusions) of dependencies and managed dependencies are compared. API pass: every lineage that Maven accepts, on which the files pipeline agrees with Maven in both lists, and none of whose profiles has a JDK or OS activation (the entry point activates default profiles only; an extra stratum of lineages with activeByDefault profiles only is generated for it, total/2 lineages on top of the main ones) is also served, POM by POM, as GetRequirements responses by an in-process pb.InsightsClient, and resolve.APIClient.Requirements for the project, turned back into rows through MavenDepTypeToDependency, is compared with Maven's dependency list in the same normal form (all eight fields; managed dependencies are not returned by that entry point). Non-trivial = Maven's result holds a dependency whose version is a managed one or mentions a property defined more than once in the chain. Termination clause: random property tables (<=8 names, <=3 placeholders per value, cycles, self references, unknown keys) through Project.Interpolate under a watchdog."
	r.Assumptions = []string{
		"Maven 3.8.7 is the reference (the only Maven available); lineages it rejects at VALIDATION_LEVEL_MINIMAL are discarded and counted",
		"equality clause generates only placeholders that resolve in the chain that uses them (the library drops a dependency with an unresolved placeholder, Maven keeps it verbatim: outside the statement's supported subset)",
		"project.artifactId, system properties, env.* and settings are not generated (not in the statement's list of built-ins)",
		"profile activation by property and by file is not generated (statement: default, JDK, OS)",
		"JDK ranges are single intervals; OS activation values are those of maven.OSProfileActivation, given to the JVM as -Dos.name/-Dos.arch/-Dos.version",
		"API pass: a GetRequirements response is taken to carry the POM's values verbatim (names as group:artifact, exclusions as group:artifact, optional and activeByDefault as written, an activation message for every profile); lineages with a JDK or OS activation anywhere, or a boolean not spelled true/false, are outside the pass (counted api_pass:out_of_domain); only lineages with a clean main verdict are compared",
		"interpolation clause: how much of a string with an unresolvable placeholder is substituted is not stated and not checked; only that unresolvable placeholders stay",
	}
	m := &monitor{r: r, scratch: filepath.Join(ev.Root, "build", "c15", fmt.Sprintf("%d-%d", os.Getpid(), r.Seed))}
	os.MkdirAll(m.scratch, 0o755)
	defer os.RemoveAll(m.scratch)
	// A shape is attributable only while a finding of its class is open: once
	// the finding is recorded as fixed, a difference of that shape is fresh.
	for _, s := range shapes {
		for _, f := range r.OpenFindings() {
			if f.Class == s.class {
				m.shapes = append(m.shapes, s)
				break
			}
		}
	}

	// Adapter self-test.
	ver, err := javaBatch([]string{"ver"})
	os_ := maven.OSProfileActivation
	if err != nil {
		r.Inconclusive(err.Error())
		return
	}
	if want := fmt.Sprintf("os=%s/%s/%s", os_.Name, os_.Arch, os_.Version); !strings.HasSuffix(ver[0], want) {
		r.Inconclusive("RefModel adapter runs with " + ver[0] + ", want " + want)
		return
	}
	r.Set("reference_mode", "live: "+ver[0])

	if replay != "" {
		var c struct {
			Case struct {
				Lineage *Lineage `json:"lineage"`
				Table   *Table   `json:"table"`
			} `json:"case"`
		}
		if err := ev.ReadJSON(replay, &c); err != nil {
			r.Inconclusive("replay unreadable: " + err.Error())
			return
		}
		if c.Case.Lineage != nil {
			if err := m.process([]*Lineage{c.Case.Lineage}, false); err != nil {
				r.Inconclusive(err.Error())
			}
		}
		if c.Case.Table != nil {
			runTables(r, []Table{*c.Case.Table}, 60*time.Second)
		}
		return
	}

	m.witnesses()

	total := r.N(600, 20000)
	const batch = 200
	workers := r.N(3, 10)
	nb := (total + batch - 1) / batch
	sem := make(chan struct{}, workers)
	var wg sync.WaitGroup
	var errMu sync.Mutex
	var firstErr error
	for b := 0; b < nb; b++ {
		wg.Add(1)
		sem <- struct{}{}
		go func(b int) {
			defer wg.Done()
			defer func() { <-sem }()
			rng := r.Rand(fmt.Sprintf("lineages/%d", b))
			ls := make([]*Lineage, 0, batch)
			for i := 0; i < batch && b*batch+i < total; i++ {
				ls = append(ls, Generate(rng, Opts{}))
			}
			r.Count("lineages:generated", int64(len(ls)))
			// The API pass's stratum: half as many lineages again, from a
			// stream of its own (the main lineages are the same with and
			// without it), profiles activated by default only.
			arng := r.Rand(fmt.Sprintf("lineages-api/%d", b))
			na := len(ls) / 2
			for i := 0; i < na; i++ {
				ls = append(ls, Generate(arng, Opts{DefaultProfilesOnly: true}))
			}
			r.Count("lineages:generated:api-stratum", int64(na))
			if err := m.process(ls, true); err != nil {
				errMu.Lock()
				if firstErr == nil {
					firstErr = err
				}
				errMu.Unlock()
			}
		}(b)
	}
	wg.Wait()
	if firstErr != nil {
		r.Inconclusive(firstErr.Error())
	}

	// Termination clause.
	rng := r.Rand("tables")
	nt := r.N(20000, 400000)
	tables := make([]Table, nt)
	for i := range tables {
		tables[i] = genTable(rng)
	}
	runTables(r, tables, 60*time.Second)

	// Coverage gates.
	compared := r.Counter("lineages:compared")
	r.Gate("lineages:compared", int64(total)*7/10)
	r.Gate("lineages:nontrivial", compared*6/10)
	r.GateNontrivial(compared * 55 / 100)
	for _, f := range []string{"profile:default", "profile:jdk", "profile:jdk-range", "profile:os", "import", "import:nested", "import:from-ancestor", "parent-depth:4", "boms:3",
		"exclusions", "classifier", "type", "prop:chained", "prop:override-in-chain", "prop:override-in-profile", "version:builtin", "dup-in-file:deps", "dup-in-file:mgmt", "deps:in-profile", "mgmt:in-profile", "inherit:version", "profile:jdk-rare", "bom:parent-builtin",
		"prop:named-like-builtin:prefixed-used", "prop:named-like-builtin:bare-used", "prop:named-like-builtin:in-profile", "prop:named-like-builtin:in-ancestor", "prop:named-like-builtin:in-bom"} {
		r.Gate("feature:"+f, 5)
	}
	r.Gate("feature:prop:named-like-builtin:prefixed-used", int64(total)/20)
	r.Gate("feature:prop:named-like-builtin:bare-used", int64(total)/40)
	r.Gate("nontrivial:managed-version", 50)
	r.Gate("nontrivial:overridden-property", 20)
	// The API pass: enough lineages went through resolve.APIClient, with the
	// features that its own code handles (parents, imports, default profiles).
	r.Gate("api_pass:compared", int64(r.N(100, 3000)))
	r.Gate("api_pass:requirements_calls", int64(r.N(300, 9000)))
	for _, f := range []string{"root_has_parent", "imports_bom", "default_profile"} {
		r.Gate("api_pass:"+f, int64(r.N(30, 900)))
	}
	r.Gate("interpolate:tables-with-cycle", 1000)
	r.Gate("interpolate:tables-fully-resolvable", 500)
}

// witnesses executes the committed regression cases.
func (m *monitor) witnesses() {
	r := m.r
	var ws []witness
	if err := ev.ReadJSON(filepath.Join(ev.Root, "witnesses", "C15.json"), &ws); err != nil {
		r.Inconclusive("witnesses/C15.json: " + err.Error())
		return
	}
	// Witnesses of open findings: does the concrete input still fail, in the
	// finding's own class?
	for _, f := range r.OpenFindings() {
		var w struct {
			Lineage *Lineage `json:"lineage"`
		}
		if json.Unmarshal(f.Witness, &w) != nil || w.Lineage == nil {
			r.Inconclusive("finding " + f.ID + ": witness is not a lineage")
			continue
		}
		res, err := m.classify([]*Lineage{w.Lineage})
		if err != nil {
			r.Inconclusive(err.Error())
			continue
		}
		fails := false
		for _, k := range res[0].known {
			if k == f.Class {
				fails = true
			}
		}
		r.KnownWitness(f.ID, fails)
		r.Count("witness:finding", 1)
	}
	var ls []*Lineage
	var ts []Table
	for _, w := range ws {
		if w.Lineage != nil {
			ls = append(ls, w.Lineage)
		}
		if w.Table != nil {
			ts = append(ts, *w.Table)
		}
	}
	r.Count("witness:lineages", int64(len(ls)))
	r.Count("witness:tables", int64(len(ts)))
	if err := m.process(ls, false); err != nil {
		r.Inconclusive(err.Error())
	}
	if len(ts) > 0 {
		runTables(r, ts, 60*time.Second)
	}
}
