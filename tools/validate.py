#!/usr/bin/env python3
"""Validates MANIFEST.json and every evidence file against the given schemas (run with python3-vt)."""
import json, glob, sys, jsonschema
ok = True
m = json.load(open('/verif/MANIFEST.json'))
jsonschema.validate(m, json.load(open('/root/.vp/MANIFEST.schema.json')))
es = json.load(open('/root/.vp/EVIDENCE.schema.json'))
claimed = {c['property_id'] for c in m['checks']}
na = {c['property_id'] for c in m.get('not_applicable', [])}
allp = {json.loads(l)['id'] for l in open('/verif/properties.jsonl')}
if claimed | na != allp or claimed & na:
    print("MANIFEST does not partition the properties:", sorted(allp - claimed - na), sorted(claimed & na)); ok = False
for c in m['checks']:
    f = c['evidence_file']
    try:
        jsonschema.validate(json.load(open(f)), es)
    except Exception as e:
        print("INVALID", f, str(e)[:200]); ok = False
print("manifest + %d evidence files valid" % len(m['checks']) if ok else "PROBLEMS")
sys.exit(0 if ok else 1)
