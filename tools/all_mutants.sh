#!/bin/bash
# [ONLY=<regex>] tools/all_mutants.sh [tier] : runs every stored seeded change against the check
# of its property (scratch worktrees, 7 at a time) and prints one line each.
TIER=${1:-quick}
cd /verif
ls seeded | grep -v -e README -e LAST_REGRESSION | while read id; do
  P=${id:0:3}
  case "$id" in C07r2-B) P="C07 C05";; C06r3-B) P="C06 C05";; C03r4-A) P="C03 C12";; C05r4-B) P="C05 C13";; C06r4-A) P="C06 C12";; C05r5-B) P="C05 C06";; C05r4-A) P="C05 C07";; C08r5-B) P="C08 C16";; C03r6-B) P="C03 C12";; C05r6-A) P="C05 C14";; C05r6-B) P="C05 C08";; C06r6-B) P="C06 C19";; C12r6-B) P="C12 C01";; C16r6-B) P="C16 C08";; C03r7-A) P="C03 C09";; C06r7-A) P="C06 C05";; C07r7-B) P="C07 C05";; C08r7-A) P="C08 C16";; C09r7-A) P="C09 C01";; C12r7-A) P="C12 C05";; C12r7-B) P="C12 C10";; C18r7-B) P="C18 C14";; C07r8-B) P="C07 C02";; C12r8-B) P="C12 C03";; C03r9-A) P="C03 C02";; C05r9-A) P="C05 C06";; C05r9-B) P="C05 C18";; C07r9-A) P="C07 C02";; C12r9-A) P="C12 C03";; C14r9-B) P="C14 C02";; esac
  echo "$id $P"
done > /tmp/mv/all.list
# ONLY="C05|C06": restrict the run to changes one of whose checks matches (the
# logs of the others are kept as they are).
if [ -n "${ONLY:-}" ]; then grep -E " .*(${ONLY})" /tmp/mv/all.list > /tmp/mv/all.list.f; mv /tmp/mv/all.list.f /tmp/mv/all.list; fi
mkdir -p /tmp/mv/all
cat /tmp/mv/all.list | xargs -P 7 -L 1 bash -c 'id=$0; shift 0; props="${@}"; /verif/tools/try_mutant.sh all-$id /verif/seeded/$id/patch.diff '"$TIER"' $props > /tmp/mv/all/$id.log 2>&1'
echo "id | suite | result"
for f in /tmp/mv/all/*.log; do
  id=$(basename $f .log)
  suite=$(grep -c "suite passes" $f)
  det=$(grep "check C" $f | sed "s/MUTANT all-$id //" | cut -c1-140 | tr '\n' ';')
  echo "$id | $suite | $det"
done
echo "NOT DETECTED BY ANY LISTED CHECK:"
for f in /tmp/mv/all/*.log; do
  id=$(basename $f .log)
  grep -q "exit=1" $f && continue
  if grep -q '"status": "equivalent' /verif/seeded/$id/meta.json 2>/dev/null; then
    echo "  $id (recorded as equivalent on the current tree: see its meta.json)"
  elif grep -q '"status": "masked' /verif/seeded/$id/meta.json 2>/dev/null; then
    echo "  $id (recorded as masked by an open finding: see its meta.json)"
  elif grep -q '"status": "outside' /verif/seeded/$id/meta.json 2>/dev/null; then
    echo "  $id (recorded as outside the property as stated: see its meta.json)"
  else
    echo "  $id"
  fi
done
