package c18

import (
	"fmt"
	"regexp"
	"strings"

	"deps.dev/util/resolve"
	"deps.dev/util/resolve/npm"
	"verif/harness/uni"
)

// outcome of one budgeted resolution.
type outcome struct {
	enc       string
	isErr     bool
	exhausted bool
	calls     int64
	bundled   int // nodes of the graph that are bundled packages
	panicked  string
}

func resolveOnce(c resolve.Client, budget int64, root resolve.VersionKey) (o outcome) {
	defer func() {
		if p := recover(); p != nil {
			o.panicked = fmt.Sprint(p)
		}
	}()
	g, err, ex, calls := uni.Resolve(npm.NewResolver, c, budget, root)
	o.exhausted, o.calls, o.isErr = ex, calls, err != nil
	if err == nil && g != nil {
		for _, n := range g.Nodes {
			if strings.Contains(n.Version.Name, ">") {
				o.bundled++
			}
		}
	}
	o.enc = uni.Encode(g, err)
	return o
}

// verdict of one differential case. class "" means agreement or a skip.
type diffResult struct {
	class, what string
	skipped     string // "budget-both" | "error-both" | ""
	api, local  outcome
}

// differential resolves root through the API-backed client and through the
// in-memory client loaded with the model's encoding, and compares.
func differential(reg *Registry, api resolve.Client, local resolve.Client, budget int64, root resolve.VersionKey) diffResult {
	a := resolveOnce(api, budget, root)
	l := resolveOnce(local, budget, root)
	d := diffResult{api: a, local: l}
	switch {
	case a.panicked == "" && a.isErr && !a.exhausted && (!l.isErr || l.exhausted) && missingPackage(reg, a.enc) != "":
		// One narrow shape of a one-sided failure: a requirement on a package the
		// service does not know. The in-memory client answers "no version
		// matches" (AddVersion gives every required package an entry) and the
		// resolver records the unmet requirement on the node.
		d.class = "diff:missing-package"
		d.what = fmt.Sprintf("a requirement names the package %q, which the registry does not have: through the API-backed client Resolve fails (%s); through the in-memory client it %s", missingPackage(reg, a.enc), a.enc,
			pick(l.exhausted, "goes on", "returns a graph that records the unmet requirement:\n"+l.enc))
	case a.panicked != "" || l.panicked != "":
		if a.panicked != "" && l.panicked == "" {
			d.class, d.what = "diff:panic", "the resolution through the API-backed client panics ("+a.panicked+"), the one through the in-memory client does not"
		} else {
			d.skipped = "panic-both" // totality is C04's business
		}
	case a.exhausted && l.exhausted:
		d.skipped = "budget-both"
	case a.exhausted != l.exhausted:
		d.class = "diff:budget-one-sided"
		d.what = fmt.Sprintf("the resolver is still asking after %d client calls through the %s client, and finishes after %d calls through the other", budget, pick(a.exhausted, "API-backed", "in-memory"), pickN(a.exhausted, l.calls, a.calls))
	case a.isErr && l.isErr:
		d.skipped = "error-both-same-text"
		if a.enc != l.enc {
			d.skipped = "error-both-different-text"
		}
	case a.isErr != l.isErr:
		d.class = "diff:error-one-sided"
		d.what = fmt.Sprintf("Resolve fails through the %s client only: %s", pick(a.isErr, "API-backed", "in-memory"), pick(a.isErr, a.enc, l.enc))
	case a.enc != l.enc:
		d.class = "diff:graph"
		d.what = "the two resolutions differ.\nAPI-backed client:\n" + a.enc + "\nin-memory client:\n" + l.enc
	}
	return d
}

var missingRE = regexp.MustCompile(`package NPM:(.+): not found$`)

// missingPackage extracts the package a failed resolution could not find, if
// the registry indeed lacks it.
func missingPackage(reg *Registry, enc string) string {
	m := missingRE.FindStringSubmatch(enc)
	if m == nil || reg.pkg(m[1]) != nil {
		return ""
	}
	return m[1]
}

func pick(b bool, x, y string) string {
	if b {
		return x
	}
	return y
}

func pickN(b bool, x, y int64) int64 {
	if b {
		return x
	}
	return y
}

// ---------------------------------------------------------------------------
// shrinking: greedy removal of packages, versions, bundles and declarations
// while pred still holds.

func shrinkRegistry(reg *Registry, keep [2]string, budget int, pred func(*Registry) bool) *Registry {
	cur := reg.clone()
	try := func(mut func(r *Registry) bool) bool {
		if budget <= 0 {
			return false
		}
		c := cur.clone()
		if !mut(c) {
			return false
		}
		budget--
		if pred(c) {
			cur = c
			return true
		}
		return false
	}
	for changed := true; changed && budget > 0; {
		changed = false
		for i := 0; i < len(cur.Pkgs); i++ {
			if cur.Pkgs[i].Name == keep[0] {
				continue
			}
			if try(func(r *Registry) bool { r.Pkgs = append(r.Pkgs[:i:i], r.Pkgs[i+1:]...); return true }) {
				changed = true
				i--
			}
		}
		for i := 0; i < len(cur.Pkgs); i++ {
			for k := 0; k < len(cur.Pkgs[i].Versions); k++ {
				if cur.Pkgs[i].Name == keep[0] && cur.Pkgs[i].Versions[k].Version == keep[1] {
					continue
				}
				if try(func(r *Registry) bool {
					vs := r.Pkgs[i].Versions
					if len(vs) == 1 {
						return false
					}
					r.Pkgs[i].Versions = append(vs[:k:k], vs[k+1:]...)
					return true
				}) {
					changed = true
					k--
				}
			}
		}
		// bundles (any depth), then single declarations
		for i := 0; i < len(cur.Pkgs); i++ {
			for k := 0; k < len(cur.Pkgs[i].Versions); k++ {
				nb := 0
				walkBundles(cur.Pkgs[i].Versions[k].Bundled, nil, func(*Bundle, []string) { nb++ })
				for b := nb - 1; b >= 0; b-- {
					if try(func(r *Registry) bool { return dropBundle(&r.Pkgs[i].Versions[k].Bundled, &b) }) {
						changed = true
					}
				}
				var holders int
				eachDeps(&cur.Pkgs[i].Versions[k], func(*Deps) { holders++ })
				for h := 0; h < holders; h++ {
					for s := 0; s < 5; s++ {
						for x := 0; ; x++ {
							n := -1
							hh := 0
							eachDeps(&cur.Pkgs[i].Versions[k], func(d *Deps) {
								if hh == h {
									n = sectionLen(d, s)
								}
								hh++
							})
							if x >= n {
								break
							}
							if try(func(r *Registry) bool {
								hh := 0
								eachDeps(&r.Pkgs[i].Versions[k], func(d *Deps) {
									if hh == h {
										sectionDrop(d, s, x)
									}
									hh++
								})
								return true
							}) {
								changed = true
								x--
							}
						}
					}
				}
			}
		}
	}
	return cur
}

// dropBundle removes the n-th bundle (pre-order) of a tree.
func dropBundle(bs *[]*Bundle, n *int) bool {
	for i := 0; i < len(*bs); i++ {
		if *n == 0 {
			*bs = append((*bs)[:i:i], (*bs)[i+1:]...)
			*n = -1
			return true
		}
		*n--
		if dropBundle(&(*bs)[i].Nested, n) {
			return true
		}
	}
	return false
}

// eachDeps visits the package.json of a version and of every bundle below it.
func eachDeps(v *Ver, f func(*Deps)) {
	f(&v.Deps)
	var rec func(bs []*Bundle)
	rec = func(bs []*Bundle) {
		for _, b := range bs {
			f(&b.Deps)
			rec(b.Nested)
		}
	}
	rec(v.Bundled)
}

func sectionLen(d *Deps, s int) int {
	if s == 4 {
		return len(d.Bundle)
	}
	return len(*d.sections()[s])
}

func sectionDrop(d *Deps, s, x int) {
	if s == 4 {
		d.Bundle = append(d.Bundle[:x:x], d.Bundle[x+1:]...)
		return
	}
	p := d.sections()[s]
	*p = append((*p)[:x:x], (*p)[x+1:]...)
}
