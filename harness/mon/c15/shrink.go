package c15

import (
	"encoding/json"
	"fmt"
	"os"
	"path/filepath"
	"strings"

	"verif/harness/ev"
)

// Shrinking is a development aid (dev15 --shrink <replay>): it removes pieces
// of a differing lineage for as long as the two sides keep differing in the
// same class, and prints the minimal files with both results.

func candidates(l *Lineage) []*Lineage {
	var out []*Lineage
	mut := func(f func(c *Lineage) bool) {
		c := cloneLineage(l)
		c.Feat = nil
		if f(c) {
			out = append(out, c)
		}
	}
	for i := range l.Poms {
		i := i
		if i > 0 {
			mut(func(c *Lineage) bool { c.Poms = append(c.Poms[:i:i], c.Poms[i+1:]...); return true })
		}
		p := &l.Poms[i]
		if p.Parent != nil {
			mut(func(c *Lineage) bool {
				q := &c.Poms[i]
				q.Parent, q.G, q.V = nil, q.Dir[0], q.Dir[2]
				return true
			})
		}
		for j := range p.Profiles {
			j := j
			mut(func(c *Lineage) bool {
				q := &c.Poms[i]
				q.Profiles = append(q.Profiles[:j:j], q.Profiles[j+1:]...)
				return true
			})
			pr := &p.Profiles[j]
			if pr.JDK != "" && (pr.OS != nil || pr.Default != "") {
				mut(func(c *Lineage) bool { c.Poms[i].Profiles[j].JDK = ""; return true })
			}
			if pr.OS != nil && (pr.JDK != "" || pr.Default != "") {
				mut(func(c *Lineage) bool { c.Poms[i].Profiles[j].OS = nil; return true })
			}
			if pr.Default != "" && (pr.JDK != "" || pr.OS != nil) {
				mut(func(c *Lineage) bool { c.Poms[i].Profiles[j].Default = ""; return true })
			}
		}
	}
	// Entries of lists.
	nlists := 0
	forSections(l, func(list *[]Dep) { nlists++ })
	for li := 0; li < nlists; li++ {
		var n int
		k := 0
		forSections(l, func(list *[]Dep) {
			if k == li {
				n = len(*list)
			}
			k++
		})
		for e := 0; e < n; e++ {
			li, e := li, e
			edit := func(f func(list *[]Dep) bool) {
				mut(func(c *Lineage) bool {
					k, ok := 0, false
					forSections(c, func(list *[]Dep) {
						if k == li {
							ok = f(list)
						}
						k++
					})
					return ok
				})
			}
			edit(func(list *[]Dep) bool { *list = append((*list)[:e:e], (*list)[e+1:]...); return true })
			edit(func(list *[]Dep) bool { d := &(*list)[e]; ok := len(d.Excl) > 0; d.Excl = nil; return ok })
			edit(func(list *[]Dep) bool {
				d := &(*list)[e]
				ok := d.Scope != "" && d.Scope != "import"
				if ok {
					d.Scope = ""
				}
				return ok
			})
			edit(func(list *[]Dep) bool { d := &(*list)[e]; ok := d.Optional != ""; d.Optional = ""; return ok })
			edit(func(list *[]Dep) bool { d := &(*list)[e]; ok := d.Classifier != ""; d.Classifier = ""; return ok })
			edit(func(list *[]Dep) bool {
				d := &(*list)[e]
				ok := d.Type != "" && d.Scope != "import"
				if ok {
					d.Type = ""
				}
				return ok
			})
			edit(func(list *[]Dep) bool {
				d := &(*list)[e]
				ok := strings.Contains(d.V, "${")
				if ok {
					d.V = "1.0"
				}
				return ok
			})
		}
	}
	// Properties.
	for i := range l.Poms {
		i := i
		for j := range l.Poms[i].Props {
			j := j
			mut(func(c *Lineage) bool {
				q := &c.Poms[i]
				q.Props = append(q.Props[:j:j], q.Props[j+1:]...)
				return true
			})
		}
		for pj := range l.Poms[i].Profiles {
			pj := pj
			for j := range l.Poms[i].Profiles[pj].Props {
				j := j
				mut(func(c *Lineage) bool {
					q := &c.Poms[i].Profiles[pj]
					q.Props = append(q.Props[:j:j], q.Props[j+1:]...)
					return true
				})
			}
		}
	}
	return out
}

// Shrink minimises the lineage of a replay file and prints it.
func Shrink(r *ev.Run, replay string) {
	var c struct {
		Class string `json:"class"`
		Case  struct {
			Lineage *Lineage `json:"lineage"`
		} `json:"case"`
	}
	if err := ev.ReadJSON(replay, &c); err != nil || c.Case.Lineage == nil {
		fmt.Println("unreadable replay")
		return
	}
	scratch := filepath.Join(ev.Root, "build", "c15", fmt.Sprintf("shrink-%d", os.Getpid()))
	defer os.RemoveAll(scratch)
	cur := c.Case.Lineage
	outs, err := evaluateAll(filepath.Join(scratch, "0"), []*Lineage{cur})
	if err != nil {
		fmt.Println(err)
		return
	}
	class, _, _ := verdict(outs[0])
	if class == "" {
		fmt.Println("the two sides agree on this lineage")
		return
	}
	last := outs[0]
	for round := 1; ; round++ {
		cands := candidates(cur)
		os.RemoveAll(scratch)
		outs, err := evaluateAll(filepath.Join(scratch, fmt.Sprint(round)), cands)
		if err != nil {
			fmt.Println(err)
			return
		}
		found := false
		for i, o := range outs {
			cl, _, disc := verdict(o)
			if !disc && cl == class && !strings.Contains(strings.Join(rowStrings(o.Ref.Deps, o.Ref.Mgmt), " "), "${") {
				cur, last, found = cands[i], o, true
				break
			}
		}
		if !found {
			break
		}
	}
	_, what, _ := verdict(last)
	fmt.Printf("class %s\n%s\n", class, what)
	for i := range cur.Poms {
		fmt.Printf("---- %s/%s/%s/pom.xml\n%s", cur.Poms[i].Dir[0], cur.Poms[i].Dir[1], cur.Poms[i].Dir[2], cur.Poms[i].XML())
	}
	fmt.Println("---- library")
	if last.LibErr != "" {
		fmt.Println("error:", last.LibErr)
	}
	for _, s := range rowStrings(last.LibDeps, last.LibMgmt) {
		fmt.Println(s)
	}
	fmt.Println("---- Maven")
	for _, s := range rowStrings(last.Ref.Deps, last.Ref.Mgmt) {
		fmt.Println(s)
	}
	b, _ := json.Marshal(cur)
	fmt.Printf("---- lineage JSON\n%s\n", b)
}
