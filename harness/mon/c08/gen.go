package c08

import (
	"fmt"
	"math/rand"
	"sort"
	"strings"

	"verif/harness/uni"
)

// A Template is a PEP 508 marker whose truth value in the library's fixed
// target environment (CPython 3.9 on linux/posix) is known by construction.
// Truth has four characters, one per set of requested extras, indexed by
// (x requested ? 1 : 0) + (y requested ? 2 : 0).
type Template struct {
	Marker string `json:"marker"`
	Truth  string `json:"truth"`
}

const (
	tT  = "1111"
	tF  = "0000"
	tX  = "0101"
	tY  = "0011"
	tXY = "0111" // x or y
	tXy = "0001" // x and y
)

// AllTemplates is the full table; Run probes every entry against the library
// and drops the ones whose assumed truth value the library does not observe.
var AllTemplates = []Template{
	{`python_version >= "3"`, tT},
	{`python_version < "3"`, tF},
	{`python_version >= "3.6"`, tT},
	{`python_version == "2.7"`, tF},
	{`python_full_version >= "3.6.0"`, tT},
	{`"3.6" <= python_version`, tT},
	{`sys_platform == "win32"`, tF},
	{`sys_platform == "linux"`, tT},
	{`sys_platform != "darwin"`, tT},
	// String literals compare case-sensitively: two markers that differ only
	// in the case of a literal have different truth values.
	{`sys_platform == "Linux"`, tF},
	{`os_name == "POSIX"`, tF},
	{`os_name == "posix"`, tT},
	{`os_name == "nt"`, tF},
	{`os_name != "posix"`, tF},
	{`os_name == "posix" and python_version < "3"`, tF},
	{`os_name == "posix" and python_version >= "3"`, tT},
	{`sys_platform == "win32" or python_version >= "3"`, tT},
	{`sys_platform == "win32" or os_name == "nt"`, tF},
	{`(os_name == "nt" or sys_platform == "linux") and python_version >= "3"`, tT},
	{`extra == "x"`, tX},
	{`extra == "y"`, tY},
	{`"x" == extra`, tX},
	{`extra == "x" and python_version >= "3"`, tX},
	{`extra == "x" and sys_platform == "win32"`, tF},
	{`extra == "x" or sys_platform == "win32"`, tX},
	{`extra == "y" or python_version >= "3"`, tT},
	{`extra == "x" or extra == "y"`, tXY},
	{`extra == "x" and extra == "y"`, tXy},
	{`python_version >= "3" and (extra == "y" or os_name == "nt")`, tY},
}

// active is the template table the generator draws from. Run replaces it with
// the probed subset before any universe is generated.
var active = AllTemplates

// known maps every marker of the full table to its truth string; the oracle
// consults it (minus dropped entries) so that a stored universe is
// self-explanatory.
var known = func() map[string]string {
	m := map[string]string{}
	for _, t := range AllTemplates {
		m[t.Marker] = t.Truth
	}
	return m
}()

func extrasIndex(e map[string]bool) int {
	i := 0
	if e["x"] {
		i |= 1
	}
	if e["y"] {
		i |= 2
	}
	return i
}

var (
	preSuffixes = []string{"a1", "b2", "rc1", ".dev1", "rc2"}
)

func genVersion(rng *rand.Rand) string {
	s := fmt.Sprintf("%d.%d", 1+rng.Intn(3), rng.Intn(3))
	if rng.Intn(5) == 0 {
		s += preSuffixes[rng.Intn(len(preSuffixes))]
	}
	return s
}

func isFinalText(v string) bool { return !strings.ContainsAny(v, "abcdefghijklmnopqrstuvwxyz") }

func base(v string) string {
	for i, c := range v {
		if (c < '0' || c > '9') && c != '.' {
			return strings.TrimRight(v[:i], ".")
		}
	}
	return v
}

// vkey orders the generator's own version texts (M.m, optionally followed by
// .devN, aN, bN or rcN). It is a generation heuristic only: the oracle never
// uses it.
func vkey(v string) [4]int {
	var k [4]int
	b := base(v)
	fmt.Sscanf(b, "%d.%d", &k[0], &k[1])
	rest := strings.TrimPrefix(v[len(b):], ".")
	k[2] = 4
	for i, p := range []string{"dev", "a", "b", "rc"} {
		if strings.HasPrefix(rest, p) {
			k[2] = i
			fmt.Sscanf(rest[len(p):], "%d", &k[3])
		}
	}
	return k
}

func cmpKey(a, b [4]int) int {
	for i := range a {
		if a[i] != b[i] {
			if a[i] < b[i] {
				return -1
			}
			return 1
		}
	}
	return 0
}

// plausible reports whether some final version among vs satisfies the
// specifier under a naive reading (or the specifier names a pre/dev release).
// Heuristic used to keep the share of unsatisfiable requirements down.
func plausible(spec string, vs []string) bool {
	for _, v := range vs {
		if !isFinalText(v) {
			continue
		}
		ok := true
		for _, cl := range strings.Split(spec, ",") {
			if cl == "" {
				continue
			}
			i := strings.IndexAny(cl, "0123456789")
			op, lit := cl[:i], cl[i:]
			if !isFinalText(lit) && op != "<" && op != ">" && op != "!=" {
				return true
			}
			if strings.HasSuffix(lit, ".*") {
				same := strings.HasPrefix(v, strings.TrimSuffix(lit, "*"))
				if same != (op == "==") {
					ok = false
				}
				continue
			}
			c := cmpKey(vkey(v), vkey(lit))
			switch op {
			case "==", "===":
				ok = ok && c == 0
			case "!=":
				ok = ok && c != 0
			case "<":
				ok = ok && c < 0
			case "<=":
				ok = ok && c <= 0
			case ">":
				ok = ok && c > 0
			case ">=":
				ok = ok && c >= 0
			case "~=":
				ok = ok && c >= 0 && vkey(v)[0] == vkey(lit)[0]
			}
		}
		if ok {
			return true
		}
	}
	return false
}

// genSpec draws a specifier for a requirement on a package whose versions are
// vs. Every PEP 440 operator occurs; the literal is usually one of the
// target's versions so that bounds bite.
func genSpec(rng *rand.Rand, vs []string) string {
	for try := 0; ; try++ {
		s := genSpec1(rng, vs)
		if try >= 8 || plausible(s, vs) || rng.Intn(60) == 0 {
			return s
		}
	}
}

// looseSpec is used for requirements that point backwards (towards packages
// that may be the root, of which only the root version is a candidate).
func looseSpec(rng *rand.Rand, vs []string) string {
	tv := vs[rng.Intn(len(vs))]
	switch rng.Intn(6) {
	case 0, 1:
		return ""
	case 2:
		return "!=" + tv
	case 3:
		return ">=" + base(tv)
	case 4:
		return "<=" + tv
	}
	return genSpec(rng, vs)
}

func genSpec1(rng *rand.Rand, vs []string) string {
	tv := vs[rng.Intn(len(vs))]
	tv2 := vs[rng.Intn(len(vs))]
	if rng.Intn(100) == 0 {
		// Arbitrary equality: the library does not parse it and falls back to
		// comparing the whole requirement text, so it never matches.
		return "===" + tv
	}
	switch rng.Intn(16) {
	case 0, 12:
		return ""
	case 1, 2:
		return "==" + tv
	case 3:
		return ">=" + tv
	case 4, 5:
		return "<=" + tv
	case 6:
		return "!=" + tv
	case 7, 8:
		return "<" + tv
	case 9:
		return ">" + tv
	case 10:
		return "~=" + tv
	case 11:
		b := base(tv)
		return uni.Pick(rng, "==", "==", "!=") + b[:strings.IndexByte(b, '.')] + ".*"
	case 13:
		return ">=" + base(tv2) + ",<" + tv
	case 14:
		// Names a prerelease that need not exist: pip's way of opting in.
		return uni.Pick(rng, ">=", ">=", "<=", "~=") + base(tv) + uni.Pick(rng, "a1", "rc1", ".dev1", "b1")
	default:
		return "!=" + tv + "," + uni.Pick(rng, "<=", "<", ">=") + tv2
	}
}

// sortedVersions maps each version text to its rank in ascending order.
func sortedVersions(vs []string) map[string]int {
	c := append([]string(nil), vs...)
	sort.Slice(c, func(i, j int) bool { return cmpKey(vkey(c[i]), vkey(c[j])) < 0 })
	m := map[string]int{}
	for i, v := range c {
		m[v] = i
	}
	return m
}

// versionOfRank returns the version of rank k.
func versionOfRank(rank map[string]int, k int) string {
	for v, i := range rank {
		if i == k {
			return v
		}
	}
	return ""
}

// Generate draws one PyPI universe: 4-7 packages a..g with 1-5 versions each
// (finals M.m and pre/dev releases). Every package has a small set of target
// packages (mostly later in the alphabet, sometimes earlier so that cycles
// arise) and each of its versions requires most of them, each with its own
// specifier, so that choosing a version of one package constrains the choice
// for another: at most one requirement per (version, package). Specifiers
// use every operator, markers come from the active template table, extras
// x / y are requested on some requirements. About half of the packages
// carry one of the idioms of addExtraIdioms (a requirement of a package on
// itself with a further extra, or a dependency that asks back for one).
// Generation is a function of rng only.
func Generate(rng *rand.Rand) *uni.Universe {
	u := &uni.Universe{Sys: "PyPI"}
	np := 4 + rng.Intn(4)
	pkgs := make([]string, np)
	vers := map[string][]string{}
	for i := range pkgs {
		pkgs[i] = string(rune('a' + i))
	}
	for _, p := range pkgs {
		nv := 2 + rng.Intn(4)
		if rng.Intn(5) == 0 {
			nv = 1
		}
		seen := map[string]bool{}
		for len(vers[p]) < nv {
			s := genVersion(rng)
			if seen[s] {
				continue
			}
			seen[s] = true
			vers[p] = append(vers[p], s)
		}
	}
	for pi, p := range pkgs {
		nt := 1 + rng.Intn(3)
		if pi < np/2 {
			nt = 2 + rng.Intn(2)
		}
		if pi == np-1 {
			nt = rng.Intn(2)
		}
		var targets []string
		for try := 0; len(targets) < nt && try < 20; try++ {
			qi := rng.Intn(np)
			if rng.Intn(6) > 0 && pi < np-1 {
				qi = pi + 1 + rng.Intn(np-pi-1) // forward
			}
			dup := qi == pi
			for _, t := range targets {
				dup = dup || t == pkgs[qi]
			}
			if !dup {
				targets = append(targets, pkgs[qi])
			}
		}
		// Per target a style: independent specifiers, or a lower bound / a pin
		// that rises with the dependent's version (newer releases want newer
		// dependencies), which is what makes downgrades necessary when another
		// package caps the same target.
		style := make([]int, len(targets))
		for i := range style {
			style[i] = []int{0, 0, 0, 0, 1, 1, 1, 1, 1, 2}[rng.Intn(10)]
		}
		order := sortedVersions(vers[p])
		for _, v := range vers[p] {
			ver := uni.Version{Name: p, Version: v}
			for ti, q := range targets {
				if rng.Intn(7) == 0 {
					continue
				}
				rq := uni.Req{Name: q, Req: genSpec(rng, vers[q])}
				if q < p {
					rq.Req = looseSpec(rng, vers[q])
				} else if style[ti] > 0 {
					tq := sortedVersions(vers[q])
					k := order[v] * len(tq) / len(order)
					for k > 0 && !isFinalText(versionOfRank(tq, k)) {
						k--
					}
					rq.Req = []string{"", ">=", "=="}[style[ti]] + versionOfRank(tq, k)
				}
				if rng.Intn(3) == 0 && len(active) > 0 {
					rq.Environment = active[rng.Intn(len(active))].Marker
				}
				if rng.Intn(4) == 0 {
					rq.Enabled = uni.Pick(rng, "x", "x", "y", "x,y")
				}
				ver.Reqs = append(ver.Reqs, rq)
			}
			if rng.Intn(6) == 0 {
				// An occasional requirement outside the package's usual targets.
				q := pkgs[rng.Intn(np)]
				dup := q == p
				for _, t := range targets {
					dup = dup || t == q
				}
				if !dup {
					spec := genSpec(rng, vers[q])
					if q < p {
						spec = looseSpec(rng, vers[q])
					}
					ver.Reqs = append(ver.Reqs, uni.Req{Name: q, Req: spec})
				}
			}
			u.Versions = append(u.Versions, ver)
		}
	}
	addExtraIdioms(rng, u, pkgs, vers)
	if rng.Intn(5) == 0 {
		addPostReleaseDiamond(rng, u, pkgs)
	}
	return u
}

// addExtraIdioms plants the two ways in which a package that is already
// pinned is asked for further extras through a cycle, together with a
// requirement that only those further extras switch on.
//
// Umbrella (cycle of length one): versions of p require p itself with extra
// "in" under the marker extra == "out" (as in `all = pkg[x]`), one of their
// other requirements is guarded by extra == "in", and those who require p
// tend to ask for "out".
//
// Echo (cycle of length two): versions of a package q that p requires
// require p back with extra "in", and p has a requirement guarded by
// extra == "in".
func addExtraIdioms(rng *rand.Rand, u *uni.Universe, pkgs []string, vers map[string][]string) {
	hasTemplate := func(m string) bool {
		for _, t := range active {
			if t.Marker == m {
				return true
			}
		}
		return false
	}
	if !hasTemplate(`extra == "x"`) || !hasTemplate(`extra == "y"`) {
		return
	}
	np := len(pkgs)
	// guard makes one requirement of v (on another package) depend on extra
	// in; a new one is added when v has none.
	guard := func(v *uni.Version, in string) {
		marker := `extra == "` + in + `"`
		var other []int
		for i, q := range v.Reqs {
			if q.Name != v.Name {
				other = append(other, i)
			}
		}
		if len(other) > 0 && rng.Intn(3) > 0 {
			v.Reqs[other[rng.Intn(len(other))]].Environment = marker
			return
		}
		for try := 0; try < 8; try++ {
			q := pkgs[rng.Intn(np)]
			dup := q == v.Name
			for _, r := range v.Reqs {
				dup = dup || r.Name == q
			}
			if !dup {
				v.Reqs = append(v.Reqs, uni.Req{Name: q, Req: looseSpec(rng, vers[q]), Environment: marker})
				return
			}
		}
	}
	setReq := func(v *uni.Version, rq uni.Req) {
		for i := range v.Reqs {
			if v.Reqs[i].Name == rq.Name {
				v.Reqs[i] = rq
				return
			}
		}
		v.Reqs = append(v.Reqs, rq)
	}
	for _, p := range pkgs {
		switch rng.Intn(10) {
		case 0, 1: // umbrella
			out, in := "y", "x"
			if rng.Intn(3) == 0 {
				out, in = "x", "y"
			}
			for i := range u.Versions {
				v := &u.Versions[i]
				if v.Name == p && rng.Intn(4) > 0 {
					self := uni.Req{Name: p, Req: uni.Pick(rng, "", "", "", "=="+v.Version, ">="+base(v.Version)), Enabled: in, Environment: `extra == "` + out + `"`}
					if rng.Intn(6) == 0 {
						self.Environment = "" // requires its own extra unconditionally
					}
					setReq(v, self)
					guard(v, in)
				}
				if v.Name != p {
					for k := range v.Reqs {
						if v.Reqs[k].Name == p && rng.Intn(2) == 0 {
							v.Reqs[k].Enabled = out
						}
					}
				}
			}
		case 2, 3: // echo
			var targets []string
			for _, v := range u.Versions {
				if v.Name == p {
					for _, q := range v.Reqs {
						if q.Name != p {
							targets = append(targets, q.Name)
						}
					}
				}
			}
			if len(targets) == 0 {
				continue
			}
			q := targets[rng.Intn(len(targets))]
			in := uni.Pick(rng, "x", "x", "y")
			for i := range u.Versions {
				v := &u.Versions[i]
				if v.Name == q && rng.Intn(4) > 0 {
					setReq(v, uni.Req{Name: p, Req: uni.Pick(rng, "", "", "", looseSpec(rng, vers[p])), Enabled: in})
				}
				if v.Name == p && rng.Intn(4) > 0 {
					guard(v, in)
				}
			}
		}
	}
}

// addPostReleaseDiamond plants a package p with a final release V and its
// post-release V.post1, required by two different packages: by one with a
// specifier that mentions a pre-release (which switches the resolver's
// matching for p to its pre-release mode) and admits both, by the other with
// ">V", which excludes V.post1 (PEP 440: an exclusive comparison does not
// admit a post-release of the given version). Some version requires both.
func addPostReleaseDiamond(rng *rand.Rand, u *uni.Universe, pkgs []string) {
	if len(pkgs) < 4 {
		return
	}
	perm := rng.Perm(len(pkgs))
	p, a, b, r := pkgs[perm[0]], pkgs[perm[1]], pkgs[perm[2]], pkgs[perm[3]]
	var finals []string
	for _, v := range u.Versions {
		if v.Name == p && isFinalText(v.Version) {
			finals = append(finals, v.Version)
		}
	}
	if len(finals) == 0 {
		return
	}
	V := finals[rng.Intn(len(finals))]
	post := V + ".post1"
	if u.Find(p, post) == nil {
		u.Versions = append(u.Versions, uni.Version{Name: p, Version: post})
	}
	set := func(v *uni.Version, rq uni.Req) {
		for i := range v.Reqs {
			if v.Reqs[i].Name == rq.Name {
				v.Reqs[i] = rq
				return
			}
		}
		v.Reqs = append(v.Reqs, rq)
	}
	for i := range u.Versions {
		v := &u.Versions[i]
		switch v.Name {
		case a:
			set(v, uni.Req{Name: p, Req: uni.Pick(rng, "<=99.0rc1", ">=0.0a1", "<=99rc1")})
		case b:
			set(v, uni.Req{Name: p, Req: ">" + V})
		case r:
			if rng.Intn(2) == 0 {
				set(v, uni.Req{Name: a, Req: ""})
				set(v, uni.Req{Name: b, Req: ""})
			}
		}
	}
}
