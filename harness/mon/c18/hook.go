package c18

// setYield installs a function at the H2 yield sites of APIClient
// (resolve.SetVerifYield). It stays nil while the tree under test does not have
// the hook; hook_h2.go sets it.
var setYield func(f func(site string))
