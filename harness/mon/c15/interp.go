package c15

import (
	"fmt"
	"math/rand"
	"strings"
	"sync/atomic"
	"time"

	"deps.dev/util/maven"
	"verif/harness/ev"
)

// Termination clause: arbitrary property tables through Project.Interpolate.
//
// What the property states, and therefore what is checked:
//   (T) Interpolate returns, for every table (cycles, self references, unknown keys);
//   (A) a string all of whose placeholders are resolvable (known keys, no cycle
//       reachable) comes back fully substituted;
//   (B) a string with an unresolvable placeholder keeps it: every placeholder of
//       the string whose key is not in the table is still there verbatim, and the
//       result still contains a placeholder with an unresolvable key (nothing is
//       silently "resolved" to text). How much of the resolvable remainder of such
//       a string is substituted is not stated, and not checked.
// Observed on the fields the library retains whatever the outcome: Packaging,
// SCM, IssueManagement.

type Table struct {
	Version string      `json:"version,omitempty"`
	GroupID string      `json:"groupId,omitempty"`
	Props   [][2]string `json:"props"`
	Fields  []string    `json:"fields"` // 5 strings: packaging, scm.tag, scm.url, issue.system, issue.url
}

func genTable(rng *rand.Rand) Table {
	if rng.Intn(60) == 0 {
		// A long acyclic chain (k0 is text, k_i refers to k_{i-1}): every field
		// is resolvable however many properties its resolution passes through.
		n := 90 + rng.Intn(420)
		t := Table{Version: "9.9", GroupID: "org.g"}
		t.Props = append(t.Props, [2]string{"k0", pick(rng, []string{"1.0", "z", "${project.version}"})})
		for i := 1; i < n; i++ {
			t.Props = append(t.Props, [2]string{fmt.Sprintf("k%d", i), pick(rng, []string{"", "x"}) + fmt.Sprintf("${k%d}", i-1)})
		}
		rng.Shuffle(len(t.Props), func(a, b int) { t.Props[a], t.Props[b] = t.Props[b], t.Props[a] })
		for i := 0; i < 5; i++ {
			t.Fields = append(t.Fields, fmt.Sprintf("${k%d}", n-1-rng.Intn(3)))
		}
		return t
	}
	n := 1 + rng.Intn(8)
	names := make([]string, n)
	for i := range names {
		names[i] = fmt.Sprintf("k%d", i)
	}
	if rng.Intn(6) == 0 {
		names[n-1] = "version" // shadows the bare built-in
	}
	var t Table
	if rng.Intn(3) == 0 {
		t.Version = "9.9"
	}
	if rng.Intn(4) == 0 {
		t.GroupID = "org.g"
	}
	// One table in three is acyclic by construction (entry i mentions earlier
	// entries and existing built-ins only): every string is then resolvable.
	acyclic := rng.Intn(3) == 0
	if acyclic {
		t.Version, t.GroupID = "9.9", "org.g"
	}
	cur := n // index of the entry being written; n = a field
	key := func() string {
		if acyclic {
			if cur > 0 && rng.Intn(5) > 0 {
				return names[rng.Intn(cur)]
			}
			return pick(rng, []string{"project.version", "pom.version", "project.groupId", "pom.groupId"})
		}
		switch k := rng.Intn(20); {
		case k < 14:
			return names[rng.Intn(n)]
		case k < 16:
			return "unknown" + fmt.Sprint(rng.Intn(2))
		case k < 18:
			return pick(rng, []string{"project.version", "version", "pom.version", "project.groupId"})
		case k < 19:
			return ""
		default:
			return "project.parent.version"
		}
	}
	value := func() string {
		var b strings.Builder
		for m := rng.Intn(4); m > 0; m-- {
			b.WriteString(pick(rng, []string{"", "", "x", "1.", "-", "_"}))
			b.WriteString("${" + key() + "}")
		}
		b.WriteString(pick(rng, []string{"", "", "z", ".0"}))
		return b.String()
	}
	for i := 0; i < n; i++ {
		cur = i
		t.Props = append(t.Props, [2]string{names[i], value()})
		if !acyclic && rng.Intn(10) == 0 {
			t.Props = append(t.Props, [2]string{names[rng.Intn(n)], value()}) // a later definition replaces an earlier one
		}
	}
	cur = n
	for i := 0; i < 5; i++ {
		t.Fields = append(t.Fields, value())
	}
	return t
}

func (t Table) project() *maven.Project {
	p := &maven.Project{}
	p.Version = maven.String(t.Version)
	p.GroupID = maven.String(t.GroupID)
	for _, kv := range t.Props {
		p.Properties.Properties = append(p.Properties.Properties, maven.Property{Name: kv[0], Value: kv[1]})
	}
	p.Packaging = maven.String(t.Fields[0])
	p.SCM = maven.SCM{Tag: maven.String(t.Fields[1]), URL: maven.String(t.Fields[2])}
	p.IssueManagement = maven.IssueManagement{System: maven.String(t.Fields[3]), URL: maven.String(t.Fields[4])}
	// The remaining interpolated parts are exercised for termination only.
	p.Dependencies = []maven.Dependency{{GroupID: "g", ArtifactID: "a", Version: maven.String(t.Fields[0])}, {GroupID: maven.String(t.Fields[1]), ArtifactID: "a", Version: "1", Scope: maven.String(t.Fields[2])}}
	p.DependencyManagement.Dependencies = []maven.Dependency{{GroupID: "g", ArtifactID: "b", Version: maven.String(t.Fields[3])}}
	p.Licenses = []maven.License{{Name: maven.String(t.Fields[4])}}
	p.Developers = []maven.Developer{{Name: maven.String(t.Fields[0]), Email: maven.String(t.Fields[1])}}
	p.Repositories = []maven.Repository{{ID: maven.String(t.Fields[2]), URL: maven.String(t.Fields[3])}}
	return p
}

func (t Table) retained(p *maven.Project) []string {
	return []string{string(p.Packaging), string(p.SCM.Tag), string(p.SCM.URL), string(p.IssueManagement.System), string(p.IssueManagement.URL)}
}

// refTable is the dictionary as documented in util/maven/properties.go: later
// definitions replace earlier ones; project.version / pom.version /
// project.groupId / pom.groupId always denote the project's own values, the
// bare names only when no property of that name exists.
func (t Table) refTable() map[string]string {
	m := map[string]string{}
	for _, kv := range t.Props {
		m[kv[0]] = kv[1]
	}
	add := func(k, v string) {
		if v == "" {
			return
		}
		if _, ok := m[k]; !ok {
			m[k] = v
		}
		m["pom."+k] = v
		m["project."+k] = v
	}
	add("groupId", t.GroupID)
	add("version", t.Version)
	return m
}

// segment splits s into literal text and placeholders ${key} (key = text up to
// the first closing brace); an unterminated "${" is literal text.
type segment struct {
	lit string
	key string
	ph  bool
}

func segments(s string) []segment {
	var out []segment
	for {
		i := strings.Index(s, "${")
		if i < 0 {
			break
		}
		j := strings.Index(s[i:], "}")
		if j < 0 {
			break
		}
		if i > 0 {
			out = append(out, segment{lit: s[:i]})
		}
		out = append(out, segment{key: s[i+2 : i+j], ph: true})
		s = s[i+j+1:]
	}
	if s != "" {
		out = append(out, segment{lit: s})
	}
	return out
}

// resolvable reports whether key has a value whose every reachable placeholder
// is known and acyclic. state: 1 = on the stack, 2 = resolvable, 3 = not.
func resolvable(key string, m map[string]string, state map[string]int) bool {
	switch state[key] {
	case 1, 3:
		return false // 1: reached itself = cycle
	case 2:
		return true
	}
	v, ok := m[key]
	if !ok {
		state[key] = 3
		return false
	}
	state[key] = 1
	good := true
	for _, sg := range segments(v) {
		if sg.ph && !resolvable(sg.key, m, state) {
			good = false
		}
	}
	if good {
		state[key] = 2
	} else {
		state[key] = 3
	}
	return good
}

// expand substitutes until the fixed point; only called on resolvable keys.
func expand(s string, m map[string]string) string {
	var b strings.Builder
	for _, sg := range segments(s) {
		if sg.ph {
			b.WriteString(expand(m[sg.key], m))
		} else {
			b.WriteString(sg.lit)
		}
	}
	return b.String()
}

// unresolvableReachable collects the unresolvable keys reachable from s.
func unresolvableReachable(s string, m map[string]string, state map[string]int, seen map[string]bool, out map[string]bool) {
	for _, sg := range segments(s) {
		if !sg.ph || seen[sg.key] {
			continue
		}
		seen[sg.key] = true
		if !resolvable(sg.key, m, state) {
			out[sg.key] = true
		}
		if v, ok := m[sg.key]; ok {
			unresolvableReachable(v, m, state, seen, out)
		}
	}
}

// checkTable runs the oracle on one finished interpolation. It returns a
// violation class suffix and text, or "".
func checkTable(t Table, got []string) (string, string, bool) {
	m := t.refTable()
	state := map[string]int{}
	sawUnresolvable := false
	for i, s := range t.Fields {
		allOK := true
		for _, sg := range segments(s) {
			if sg.ph && !resolvable(sg.key, m, state) {
				allOK = false
			}
		}
		if allOK {
			if want := expand(s, m); got[i] != want {
				return "resolvable-not-substituted", fmt.Sprintf("field %d %q: every placeholder is resolvable, want %q, got %q", i, s, want, got[i]), sawUnresolvable
			}
			continue
		}
		sawUnresolvable = true
		for _, sg := range segments(s) {
			if sg.ph {
				if _, known := m[sg.key]; !known && strings.Count(got[i], "${"+sg.key+"}") < strings.Count(s, "${"+sg.key+"}") {
					return "unknown-key-changed", fmt.Sprintf("field %d %q: placeholder ${%s} has no value but is not left in place: %q", i, s, sg.key, got[i]), true
				}
			}
		}
		bad := map[string]bool{}
		unresolvableReachable(s, m, state, map[string]bool{}, bad)
		kept := false
		for _, sg := range segments(got[i]) {
			if sg.ph && bad[sg.key] {
				kept = true
			}
		}
		if !kept {
			return "unresolved-not-kept", fmt.Sprintf("field %d %q: unresolvable keys %v, but the result %q keeps none of them as a placeholder", i, s, keys(bad), got[i]), true
		}
	}
	return "", "", sawUnresolvable
}

func keys(m map[string]bool) []string {
	var out []string
	for k := range m {
		out = append(out, k)
	}
	return out
}

type tableCase struct {
	Table Table    `json:"table"`
	Got   []string `json:"got,omitempty"`
}

// runTables interpolates every table under a watchdog and checks the result.
func runTables(r *ev.Run, tables []Table, budget time.Duration) {
	var progress atomic.Int64
	type res struct {
		got [][]string
		err []string
	}
	start := 0
	for start < len(tables) {
		done := make(chan res, 1)
		from := start
		progress.Store(int64(from))
		go func() {
			var out res
			for i := from; i < len(tables); i++ {
				progress.Store(int64(i))
				g, e := interpolateOne(tables[i])
				out.got = append(out.got, g)
				out.err = append(out.err, e)
			}
			done <- out
		}()
		var out res
		select {
		case out = <-done:
			start = len(tables)
		case <-time.After(budget):
			// Outer watchdog only: which table was it, and does it hang on its own?
			i := int(progress.Load())
			single := make(chan struct{}, 1)
			go func() { interpolateOne(tables[i]); single <- struct{}{} }()
			select {
			case <-single:
				r.Inconclusive(fmt.Sprintf("interpolation watchdog fired at table %d, which completes when run alone (slow machine?)", i))
			case <-time.After(2 * budget):
				r.Violation("C15:interpolate:hang", fmt.Sprintf("Project.Interpolate did not return within %v on a property table of %d entries", 2*budget, len(tables[i].Props)), tableCase{Table: tables[i]})
			}
			r.Count("interpolate:watchdog", 1)
			// The stuck goroutine is abandoned; continue after the culprit.
			start = i + 1
			continue
		}
		for k, g := range out.got {
			t := tables[from+k]
			r.Eval(1)
			r.Count("interpolate:tables", 1)
			if out.err[k] != "" {
				r.Violation("C15:interpolate:"+strings.SplitN(out.err[k], ":", 2)[0], "Project.Interpolate: "+out.err[k], tableCase{Table: t})
				continue
			}
			cls, what, unres := checkTable(t, g)
			if unres {
				r.Count("interpolate:tables-with-unresolvable", 1)
			} else {
				r.Count("interpolate:tables-fully-resolvable", 1)
			}
			if hasCycle(t) {
				r.Count("interpolate:tables-with-cycle", 1)
			}
			if cls != "" {
				r.Violation("C15:interpolate:"+cls, what, tableCase{Table: t, Got: g})
			}
		}
	}
}

func hasCycle(t Table) bool {
	m := t.refTable()
	var visit func(k string, stack map[string]bool) bool
	visit = func(k string, stack map[string]bool) bool {
		if stack[k] {
			return true
		}
		v, ok := m[k]
		if !ok {
			return false
		}
		stack[k] = true
		defer delete(stack, k)
		for _, sg := range segments(v) {
			if sg.ph && visit(sg.key, stack) {
				return true
			}
		}
		return false
	}
	for k := range m {
		if visit(k, map[string]bool{}) {
			return true
		}
	}
	return false
}

func interpolateOne(t Table) (got []string, errText string) {
	defer func() {
		if p := recover(); p != nil {
			errText = fmt.Sprintf("panic: %v", p)
		}
	}()
	p := t.project()
	if err := p.Interpolate(); err != nil {
		return nil, "error: " + err.Error()
	}
	return t.retained(p), ""
}
