// Package c07 monitors the Maven resolver's mediation rules on generated
// universes: one version per artifact, nearest-wins, ranges respected,
// root dependencyManagement, exclusions along paths, root-only scopes and
// untraversed war/ear/rar artifacts. The oracle is an invariant checker over
// the returned graph, the universe and the trace of client calls.
package c07

import (
	"context"
	"encoding/json"
	"fmt"
	"strings"
	"sync"

	"deps.dev/util/resolve"
	"deps.dev/util/resolve/dep"
	"deps.dev/util/resolve/maven"
	"verif/harness/ev"
	"verif/harness/ref"
	"verif/harness/uni"
)

// Root names the version a case resolves.
type Root struct {
	Name    string `json:"name"`
	Version string `json:"version"`
}

// Case is what witnesses and replay files store.
type Case struct {
	Universe *uni.Universe `json:"universe"`
	Root     Root          `json:"root"`
	Note     string        `json:"note,omitempty"`
	// Before lists roots resolved earlier on the same resolver object (the
	// reused-resolver pass); empty for a fresh resolver.
	Before []Root `json:"before,omitempty"`
}

// akey is Maven's artifact identity inside one resolution: group:artifact,
// classifier and type (jar being the default type).
type akey struct{ name, classifier, typ string }

func (k akey) String() string {
	s := k.name
	if k.classifier != "" {
		s += " classifier=" + k.classifier
	}
	if k.typ != "" {
		s += " type=" + k.typ
	}
	return s
}

func normType(t string) string {
	if t == "jar" {
		return ""
	}
	return t
}

func reqKey(q uni.Req) akey { return akey{q.Name, q.Classifier, normType(q.ArtType)} }

func edgeKey(g *resolve.Graph, e resolve.Edge) akey {
	c, _ := e.Type.GetAttr(dep.MavenClassifier)
	t, _ := e.Type.GetAttr(dep.MavenArtifactType)
	return akey{g.Nodes[e.To].Version.Name, c, normType(t)}
}

func includesDeps(t string) bool { return t == "war" || t == "ear" || t == "rar" }

func parseExcl(s string) []string {
	return strings.FieldsFunc(s, func(r rune) bool { return r == '|' || r == ',' })
}

// excludedBy returns the pattern of ex that covers the artifact name, or "".
func excludedBy(ex map[string]int, name string) string {
	if len(ex) == 0 {
		return ""
	}
	g, a, _ := strings.Cut(name, ":")
	for _, p := range []string{"*:*", name, g + ":*", "*:" + a} {
		if _, ok := ex[p]; ok {
			return p
		}
	}
	return ""
}

type finding struct{ class, what string }

type outcome struct {
	kind     string // graph | error | budget | panic
	errKind  string
	errText  string
	viol     []finding
	feat     map[string]int64
	conflict bool
	passes   int
	calls    int64
}

func (o *outcome) add(class, format string, a ...any) {
	for _, f := range o.viol {
		if f.class == class {
			return
		}
	}
	o.viol = append(o.viol, finding{class, fmt.Sprintf(format, a...)})
}

func (o *outcome) has(class string) bool {
	for _, f := range o.viol {
		if f.class == class {
			return true
		}
	}
	return false
}

func errKind(err error) string {
	s := err.Error()
	switch {
	case strings.Contains(s, "incompatible requirements"):
		return "incompatible-requirements"
	case strings.Contains(s, "found no versions matching"):
		return "range-matches-no-version"
	case strings.Contains(s, "not found"):
		return "soft-version-not-found"
	case strings.Contains(s, "context canceled"):
		return "context-canceled"
	}
	return "other"
}

// evaluate runs one resolution under the universe's step budget and checks
// the returned graph. lc may be nil (a client is then built from u).
func evaluate(o *ranges, u *uni.Universe, root Root, lc *resolve.LocalClient) (out outcome) {
	return evaluateWith(o, u, root, lc, maven.NewResolver)
}

// reused is one resolver object used for many resolutions, each with its own
// counting client (the resolver talks to its client through a switch).
type reused struct {
	sw  *switchClient
	res resolve.Resolver
}

func newReused() *reused {
	sw := &switchClient{}
	return &reused{sw: sw, res: maven.NewResolver(sw)}
}

func (x *reused) mk(c resolve.Client) resolve.Resolver { x.sw.c = c; return x.res }

type switchClient struct{ c resolve.Client }

func (s *switchClient) Version(ctx context.Context, vk resolve.VersionKey) (resolve.Version, error) {
	return s.c.Version(ctx, vk)
}
func (s *switchClient) Versions(ctx context.Context, pk resolve.PackageKey) ([]resolve.Version, error) {
	return s.c.Versions(ctx, pk)
}
func (s *switchClient) Requirements(ctx context.Context, vk resolve.VersionKey) ([]resolve.RequirementVersion, error) {
	return s.c.Requirements(ctx, vk)
}
func (s *switchClient) MatchingVersions(ctx context.Context, vk resolve.VersionKey) ([]resolve.Version, error) {
	return s.c.MatchingVersions(ctx, vk)
}

func evaluateWith(o *ranges, u *uni.Universe, root Root, lc *resolve.LocalClient, mk func(resolve.Client) resolve.Resolver) (out outcome) {
	out.feat = map[string]int64{}
	defer func() {
		if p := recover(); p != nil {
			out.kind = "panic"
			out.add("C07:panic", "resolving %s@%s panicked: %v", root.Name, root.Version, p)
		}
	}()
	if u.Find(root.Name, root.Version) == nil {
		out.kind = "error"
		out.errKind = "root-not-in-universe"
		return
	}
	if lc == nil {
		lc = u.Client(nil)
	}
	rootVK := u.VK(root.Name, root.Version, resolve.Concrete)
	var trace []string
	tc := &uni.Counting{C: lc, Trace: &trace}
	g, err, exhausted, calls := uni.Resolve(mk, tc, u.StepBudget(), rootVK)
	out.calls = calls
	rootCalls := 0
	for _, t := range trace {
		if t == "Requirements "+rootVK.String() {
			rootCalls++
		}
	}
	out.passes = (rootCalls + 1) / 2
	if exhausted && out.passes >= 30 {
		// Dozens of short passes: the retry loop on its way to its documented
		// cap of 100 retries (a dependency cycle that demands another version
		// of the root), not a resolution that fails to terminate.
		out.kind = "error"
		out.errKind = "incompatible-requirements:retry-loop-over-step-budget"
		return
	}
	if exhausted {
		out.kind = "budget"
		out.add("C07:budget-exhausted", "resolving %s@%s: still calling the client after %d calls (budget %d, %d passes begun)", root.Name, root.Version, calls, u.StepBudget(), out.passes)
		return
	}
	if err != nil {
		out.kind = "error"
		out.errKind = errKind(err)
		out.errText = err.Error()
		if out.errKind == "incompatible-requirements" {
			out.feat[fmt.Sprintf("error:incompatible-requirements:passes=%d", out.passes)]++
		}
		return
	}
	if g == nil || len(g.Nodes) == 0 {
		out.kind = "error"
		out.errKind = "nil-graph"
		return
	}
	out.kind = "graph"
	check(o, u, root, g, trace, &out)
	return
}

func reusedPass(rc *recorder, o *ranges, u *uni.Universe, lc *resolve.LocalClient, order []int, fresh map[Root]outcome) {
	x := newReused()
	var before []Root
	for _, i := range order {
		root := Root{u.Versions[i].Name, u.Versions[i].Version}
		out := evaluateWith(o, u, root, lc, x.mk)
		rc.feat["reused-resolver:resolutions"]++
		f0 := fresh[root]
		for _, f := range out.viol {
			if f0.has(f.class) {
				continue // already reported for the fresh resolver
			}
			rc.r.Violation(f.class+":on-reused-resolver", f.what+fmt.Sprintf(" [resolver reused after %d other resolutions; a fresh resolver gives a graph without this fault]", len(before)),
				Case{Universe: u, Root: root, Before: append([]Root(nil), before...)})
		}
		if out.kind != f0.kind {
			rc.r.Violation("C07:outcome-differs:on-reused-resolver", fmt.Sprintf("resolving %s@%s gives outcome %q on a fresh resolver and %q on a resolver reused after %d resolutions", root.Name, root.Version, f0.kind, out.kind, len(before)),
				Case{Universe: u, Root: root, Before: append([]Root(nil), before...)})
		}
		before = append(before, root)
	}
}

// eff is one effective declaration met by the breadth-first replay.
type eff struct {
	from    resolve.NodeID
	text    string // requirement after dependencyManagement substitution
	isRange bool
}

func check(o *ranges, u *uni.Universe, root Root, g *resolve.Graph, trace []string, out *outcome) {
	n := len(g.Nodes)
	rv := u.Find(root.Name, root.Version)
	where := fmt.Sprintf("root %s@%s", root.Name, root.Version)
	outE := make([][]resolve.Edge, n)
	inE := make([][]resolve.Edge, n)
	for _, e := range g.Edges {
		if int(e.From) >= n || int(e.To) >= n || e.From < 0 || e.To < 0 {
			continue
		}
		outE[e.From] = append(outE[e.From], e)
		inE[e.To] = append(inE[e.To], e)
	}
	desc := func(id resolve.NodeID) string {
		return g.Nodes[id].Version.Name + "@" + g.Nodes[id].Version.Version
	}

	// The versions whose requirements the resolver fetched, over all passes.
	byVK := map[string]*uni.Version{}
	for i := range u.Versions {
		v := &u.Versions[i]
		byVK["Requirements "+u.VK(v.Name, v.Version, resolve.Concrete).String()] = v
	}
	tracedSet := map[*uni.Version]bool{}
	var traced []*uni.Version
	for _, t := range trace {
		if v := byVK[t]; v != nil && !tracedSet[v] {
			tracedSet[v] = true
			traced = append(traced, v)
		}
	}
	if out.passes > 1 {
		out.feat["retry:resolutions"]++
		out.feat["retry:extra-passes"] += int64(out.passes - 1)
	}

	// Root dependencyManagement.
	mgt := map[akey]string{}
	for _, q := range rv.Reqs {
		if q.Origin == "management" {
			mgt[reqKey(q)] = q.Req
		}
	}

	// M1: one version per artifact key, read off the edges.
	k0 := akey{root.Name, "", ""}
	keyVer := map[akey]string{k0: root.Version}
	// creator is the key of the edge that created each node (the root's own
	// key for node 0): the resolver keeps one node per VersionKey, so an
	// artifact can point at a node that another artifact of the same
	// coordinates created.
	creator := map[resolve.NodeID]akey{0: k0}
	for _, e := range g.Edges {
		if _, ok := creator[e.To]; !ok && e.Type.HasAttr(dep.Selector) {
			creator[e.To] = edgeKey(g, e)
		}
	}
	for _, e := range g.Edges {
		k, v := edgeKey(g, e), g.Nodes[e.To].Version.Version
		if w, ok := keyVer[k]; ok && w != v {
			class := "C07:M1:two-versions"
			for _, f := range g.Edges {
				if c, ok := creator[f.To]; ok && edgeKey(g, f) == k && c != k {
					// One of the artifact's versions lives on a node created
					// for another artifact: the shape of the defect repaired
					// by proposed/C07-shared-node-artifact-registration.diff.
					class = "C07:M1:shared-node-key-not-registered"
				}
			}
			out.add(class, "%s: artifact %s appears with versions %s and %s", where, k, w, v)
		} else if !ok {
			keyVer[k] = v
		}
		if k.classifier != "" {
			out.feat["feature:classifier-edge"]++
		}
	}
	{
		byName := map[string]map[string]bool{}
		for k, v := range keyVer {
			if byName[k.name] == nil {
				byName[k.name] = map[string]bool{}
			}
			byName[k.name][v] = true
		}
		for _, vs := range byName {
			if len(vs) > 1 {
				out.feat["feature:classifier-split-versions"]++
			}
		}
	}

	// Edge-local clauses M3 (range respected), M4 (management), M6 (scopes).
	for _, e := range g.Edges {
		to := g.Nodes[e.To].Version
		if o.isRange(e.Requirement) {
			out.feat["feature:range-edge"]++
			if !o.inRange(e.Requirement, to.Version) {
				out.add("C07:M3:out-of-range", "%s: edge %s -> %s carries range %s which does not contain %s", where, desc(e.From), desc(e.To), e.Requirement, to.Version)
			}
		}
		if e.To == 0 {
			out.feat["feature:cycle-to-root"]++
		}
		if e.From == 0 {
			continue
		}
		if m, ok := mgt[edgeKey(g, e)]; ok && e.Requirement != m {
			out.add("C07:M4:not-managed", "%s: transitive edge %s -> %s has requirement %s, the root manages %s to %s", where, desc(e.From), desc(e.To), e.Requirement, edgeKey(g, e), m)
		}
		if e.Type.HasAttr(dep.Test) || e.Type.HasAttr(dep.Opt) {
			out.add("C07:M6:scope-below-root", "%s: test/optional edge %s -> %s (%s) below the root", where, desc(e.From), desc(e.To), e.Type.String())
		}
		if s, _ := e.Type.GetAttr(dep.Scope); s == "provided" {
			out.add("C07:M6:scope-below-root", "%s: provided edge %s -> %s below the root", where, desc(e.From), desc(e.To))
		}
	}

	// M7: a node reached only as war/ear/rar has no out-edges.
	for id := 1; id < n; id++ {
		if len(inE[id]) == 0 || len(outE[id]) == 0 {
			continue
		}
		all := true
		for _, e := range inE[id] {
			if t, _ := e.Type.GetAttr(dep.MavenArtifactType); !includesDeps(t) {
				all = false
			}
		}
		if all {
			out.add("C07:M7:war-traversed", "%s: %s is reached only as war/ear/rar and has %d out-edges", where, desc(resolve.NodeID(id)), len(outE[id]))
		}
	}

	// Breadth-first replay over the returned graph along Selector edges, each
	// node's declarations in universe order.
	visited := make([]bool, n)
	traversed := make([]bool, n)
	depth := make([]int, n)
	excl := make([]map[string]int, n) // pattern -> depth of the node below the edge that introduced it
	visited[0], traversed[0] = true, true
	queue := []resolve.NodeID{0}
	// The resolve request itself is the nearest "declaration" of the root's key.
	decls := map[akey][]eff{k0: {{from: 0, text: root.Version}}}
	keyOrder := []akey{k0}
	visit := func(x resolve.NodeID, e resolve.Edge) {
		visited[e.To] = true
		depth[e.To] = depth[x] + 1
		t, _ := e.Type.GetAttr(dep.MavenArtifactType)
		traversed[e.To] = !includesDeps(t)
		m := map[string]int{}
		for p, d := range excl[x] {
			m[p] = d
		}
		if s, ok := e.Type.GetAttr(dep.MavenExclusions); ok {
			for _, p := range parseExcl(s) {
				if _, ok := m[p]; !ok {
					m[p] = depth[e.To]
				}
			}
		}
		excl[e.To] = m
		queue = append(queue, e.To)
	}
	graphVersions := map[*uni.Version]bool{}
	for qi := 0; qi < len(queue); qi++ {
		x := queue[qi]
		nd := g.Nodes[x]
		uv := u.Find(nd.Version.Name, nd.Version.Version)
		if uv == nil {
			continue
		}
		if !traversed[x] {
			for _, q := range uv.Reqs {
				if q.Origin == "" && !q.Test && !q.Opt && q.Scope != "provided" {
					out.feat["feature:war-ear-rar-declaration-not-followed"]++
					break
				}
			}
			continue
		}
		graphVersions[uv] = true
		for _, q := range uv.Reqs {
			if q.Origin != "" {
				continue
			}
			scoped := q.Test || q.Opt || q.Scope == "provided"
			if scoped && x != 0 {
				out.feat["feature:scoped-below-root-skipped"]++
				continue
			}
			if scoped {
				out.feat["feature:scoped-at-root-followed"]++
			}
			if p := excludedBy(excl[x], q.Name); p != "" {
				out.feat["feature:exclusion-hit"]++
				if strings.Contains(p, "*") {
					out.feat["feature:exclusion-wildcard-hit"]++
				}
				if excl[x][p] < depth[x] {
					out.feat["feature:exclusion-inherited-hit"]++
				}
				continue
			}
			k := reqKey(q)
			want := q.Req
			if m, ok := mgt[k]; ok && x != 0 {
				if m != want {
					out.feat["feature:management-hit"]++
				}
				want = m
			}
			if _, ok := decls[k]; !ok {
				keyOrder = append(keyOrder, k)
			}
			decls[k] = append(decls[k], eff{from: x, text: want, isRange: o.isRange(want)})
			found := false
			for _, e := range outE[x] {
				if e.Requirement != want || edgeKey(g, e) != k {
					continue
				}
				found = true
				if e.Type.HasAttr(dep.Selector) && !visited[e.To] {
					visit(x, e)
				}
			}
			if !found {
				for _, ne := range nd.Errors {
					if ne.Req.Name == q.Name && ne.Req.Version == want {
						found = true
						out.feat["feature:node-error"]++
					}
				}
			}
			if found {
				continue
			}
			other := ""
			for _, e := range outE[x] {
				if edgeKey(g, e) == k {
					other = e.Requirement
				}
			}
			switch m, managed := mgt[k]; {
			case managed && x == 0 && other == m && m != q.Req:
				out.add("C07:M4:root-declaration-managed", "%s: the root's own declaration %s@%s was replaced by the managed version %s", where, k, q.Req, m)
			case managed && x != 0 && other != "":
				out.add("C07:M4:not-managed", "%s: declaration %s@%s of %s should carry the managed version %s, its edge carries %s", where, k, q.Req, desc(x), m, other)
			case o.isRange(want):
				out.add("C07:M3:declaration-dropped", "%s: range declaration %s@%s of %s has neither an edge nor a node error", where, k, want, desc(x))
			default:
				out.add("C07:M6:declaration-dropped", "%s: declaration %s@%s of traversed node %s has neither an edge nor a node error", where, k, want, desc(x))
			}
		}
		// Selector edges the declarations above did not account for still
		// extend the tree, so that the subtree below them is checked too.
		for _, e := range outE[x] {
			if e.Type.HasAttr(dep.Selector) && !visited[e.To] {
				out.feat["replay:selector-edge-without-declaration"]++
				visit(x, e)
			}
		}
	}
	for id := range g.Nodes {
		if !visited[id] {
			out.feat["replay:node-outside-selector-tree"]++
		}
	}

	// M5: no edge leaves a node towards an artifact excluded on its path.
	for _, e := range g.Edges {
		if !visited[e.From] {
			continue
		}
		if p := excludedBy(excl[e.From], g.Nodes[e.To].Version.Name); p != "" {
			out.add("C07:M5:excluded-reached", "%s: edge %s -> %s although %s is excluded on the path to %s", where, desc(e.From), desc(e.To), p, desc(e.From))
		}
	}

	// Mediation conflicts and M2.
	// A fetched version that the final graph does not traverse means earlier
	// passes left requirements behind that the graph does not show.
	singlePass := out.passes == 1
	for v := range tracedSet {
		if !graphVersions[v] && singlePass {
			singlePass = false
			out.feat["replay:single-pass-traced-version-outside-graph"]++
		}
	}
	// The passes as the client saw them: per pass the versions whose
	// requirements were fetched for traversal, in breadth-first order. Every
	// pass but the last was abandoned somewhere inside its last version.
	var passSeq [][]*uni.Version
	rootReq := "Requirements " + u.VK(root.Name, root.Version, resolve.Concrete).String()
	for cnt, i := 0, 0; i < len(trace); i++ {
		t := trace[i]
		if t == rootReq {
			if cnt++; cnt%2 == 1 { // the dependencyManagement fetch opens a pass
				passSeq = append(passSeq, nil)
				continue
			}
		}
		if v := byVK[t]; v != nil && len(passSeq) > 0 {
			passSeq[len(passSeq)-1] = append(passSeq[len(passSeq)-1], v)
		}
	}
	// firstMet[k] is the first declaration of k the resolver can have met in
	// any pass; certain when it was met for sure: not excludable by any
	// pattern a fetched version carries, and not in the version an abandoned
	// pass stopped in.
	type met struct {
		text    string
		certain bool
		in      *uni.Version
	}
	exPatterns := map[string]int{}
	for _, v := range traced {
		for _, q := range v.Reqs {
			for _, p := range parseExcl(q.Exclusions) {
				exPatterns[p] = 0
			}
		}
	}
	firstMet := map[akey]met{}
	for pi, seq := range passSeq {
		for xi, v := range seq {
			isRoot := v == rv
			partial := pi < len(passSeq)-1 && xi == len(seq)-1
			for _, q := range v.Reqs {
				if q.Origin != "" || (!isRoot && (q.Test || q.Opt || q.Scope == "provided")) {
					continue
				}
				k := reqKey(q)
				if _, ok := firstMet[k]; ok {
					continue
				}
				text := q.Req
				if m, ok := mgt[k]; ok && !isRoot {
					text = m
				}
				firstMet[k] = met{text, !partial && (isRoot || excludedBy(exPatterns, q.Name) == ""), v}
			}
		}
	}
	strictOnConflict := false
	for _, k := range keyOrder {
		ds := decls[k]
		if k == k0 && len(ds) == 1 {
			continue // nothing depends on the root's own artifact
		}
		texts := map[string]bool{}
		for _, d := range ds {
			texts[d.text] = true
		}
		conflictHere := len(texts) > 1
		if conflictHere {
			out.conflict = true
		}
		got, hasNode := keyVer[k]
		if !hasNode {
			continue // only node errors (or a dropped declaration, reported above)
		}
		first := ds[0]
		// Strict nearest-wins: one pass, the first declaration is soft and
		// no range met in that pass rules its version out.
		if singlePass && !first.isRange {
			constrained := false
			for _, d := range ds {
				if d.isRange && !o.inRange(d.text, first.text) {
					constrained = true
				}
			}
			if !constrained {
				out.feat["m2:strict-evaluated"]++
				if conflictHere {
					strictOnConflict = true
				}
				if got != first.text {
					out.add("C07:M2:nearest-wins", "%s (single pass): artifact %s resolved to %s, its nearest declaration (in %s) demands %s and no range excludes that", where, k, got, desc(first.from), first.text)
				}
				continue
			}
		}
		// Weak form: the version is one some fetched version softly demands,
		// or ranges on the artifact were in play.
		out.feat["m2:weak-evaluated"]++
		okWeak := k == k0 && got == root.Version
		anyRange := false
		fm, hasMet := firstMet[k]
		metFree := hasMet && fm.certain && !o.isRange(fm.text) && k != k0
		consider := func(q uni.Req) {
			if reqKey(q) != k {
				return
			}
			if o.isRange(q.Req) {
				anyRange = true
				if metFree && !o.inRange(q.Req, fm.text) {
					metFree = false
				}
			} else if q.Req == got {
				okWeak = true
			}
		}
		for _, v := range traced {
			for _, q := range v.Reqs {
				if q.Origin == "" {
					consider(q)
				}
			}
		}
		for _, q := range rv.Reqs {
			if q.Origin == "management" {
				consider(q)
			}
		}
		// Trace form (multi-pass): requirements accumulate over the passes in
		// the order met, so the first declaration ever met wins as long as no
		// fetched range excludes its version. Refuted only when the version
		// is neither that nor the nearest declaration of the returned graph.
		if metFree {
			out.feat["m2:trace-evaluated"]++
			if conflictHere {
				out.feat["m2:trace-on-conflict"]++
			}
			if got != fm.text && got != first.text {
				out.add("C07:M2t:first-met-declaration", "%s (%d passes): artifact %s resolved to %s; the first declaration the resolver met (in %s@%s) demands %s, the nearest one in the returned graph (in %s) demands %s, and no fetched range excludes the former", where, out.passes, k, got, fm.in.Name, fm.in.Version, fm.text, desc(first.from), first.text)
			}
		}
		if !okWeak && !anyRange {
			out.add("C07:M2w:version-from-nowhere", "%s (%d passes): artifact %s resolved to %s, which no fetched declaration demands, and no range on it was fetched", where, out.passes, k, got)
		}
	}
	if out.conflict {
		out.feat["conflict:resolutions"]++
		if out.passes == 1 {
			out.feat["conflict:single-pass"]++
		}
	}
	if strictOnConflict {
		out.feat["m2:strict-on-conflict-resolutions"]++
	}
}

// shrink greedily drops versions and requirements while the same clause still
// fails, bounded by the number of oracle calls.
func shrink(o *ranges, c Case, class string) Case {
	const maxCalls = 300
	calls := 0
	fails := func(u *uni.Universe) bool {
		calls++
		out := evaluate(o, u, c.Root, nil)
		return out.has(class)
	}
	cur := c.Universe
	for progress := true; progress && calls < maxCalls; {
		progress = false
		for i := 0; i < len(cur.Versions) && calls < maxCalls; i++ {
			if cur.Versions[i].Name == c.Root.Name && cur.Versions[i].Version == c.Root.Version {
				continue
			}
			cand := &uni.Universe{Sys: cur.Sys}
			cand.Versions = append(append([]uni.Version{}, cur.Versions[:i]...), cur.Versions[i+1:]...)
			if fails(cand) {
				cur, progress = cand, true
				i--
			}
		}
		for i := 0; i < len(cur.Versions) && calls < maxCalls; i++ {
			for j := 0; j < len(cur.Versions[i].Reqs) && calls < maxCalls; j++ {
				cand := &uni.Universe{Sys: cur.Sys, Versions: append([]uni.Version{}, cur.Versions...)}
				rs := cand.Versions[i].Reqs
				cand.Versions[i].Reqs = append(append([]uni.Req{}, rs[:j]...), rs[j+1:]...)
				if fails(cand) {
					cur, progress = cand, true
					j--
				}
			}
		}
	}
	return Case{Universe: cur, Root: c.Root, Note: c.Note}
}

// recorder merges outcomes into the run; counters are kept locally per shard
// and flushed at the end.
type recorder struct {
	r     *ev.Run
	o     *ranges
	feat  map[string]int64
	evals int64
	// the most client calls one resolution made, with that universe's budget
	maxCalls, maxCallsBudget int64
}

var (
	shrinkMu    sync.Mutex
	shrinkCount = map[string]int{}
)

// shrinkBudget allows shrinking for the first reports of a class only (the
// run record keeps three per class).
func shrinkBudget(class string) bool {
	shrinkMu.Lock()
	defer shrinkMu.Unlock()
	shrinkCount[class]++
	return shrinkCount[class] <= 3
}

func (rc *recorder) record(c Case, ukey string, out outcome) {
	rc.evals++
	if out.calls > rc.maxCalls {
		rc.maxCalls, rc.maxCallsBudget = out.calls, c.Universe.StepBudget()
	}
	rc.feat["resolutions"]++
	rc.feat["outcome:"+out.kind]++
	if out.kind == "error" {
		rc.feat["error:"+out.errKind]++
		if out.errKind == "other" || out.errKind == "nil-graph" {
			rc.r.Set("unexpected_error_example", map[string]any{"kind": out.errKind, "error": out.errText, "case": c})
		}
	}
	for k, v := range out.feat {
		rc.feat[k] += v
	}
	if out.conflict {
		rc.r.Nontrivial(ukey + "\x00" + c.Root.Name + "@" + c.Root.Version)
		if out.passes > 1 {
			rc.r.Sample(map[string]any{"root": c.Root, "passes": out.passes, "universe": c.Universe})
		}
	}
	for _, f := range out.viol {
		rep := c
		if shrinkBudget(f.class) && f.class != "C07:budget-exhausted" {
			rep = shrink(rc.o, c, f.class)
			if after := evaluate(rc.o, rep.Universe, rep.Root, nil); after.has(f.class) {
				for _, g := range after.viol {
					if g.class == f.class {
						f.what = g.what + fmt.Sprintf(" [shrunk from %d to %d versions]", len(c.Universe.Versions), len(rep.Universe.Versions))
					}
				}
			} else {
				rep = c
			}
		}
		rc.r.Violation(f.class, f.what, rep)
	}
}

var (
	maxMu                    sync.Mutex
	maxCalls, maxCallsBudget int64
)

func (rc *recorder) flush() {
	maxMu.Lock()
	if rc.maxCalls > maxCalls {
		maxCalls, maxCallsBudget = rc.maxCalls, rc.maxCallsBudget
	}
	maxMu.Unlock()
	rc.r.Eval(rc.evals)
	for k, v := range rc.feat {
		rc.r.Count(k, v)
	}
	rc.feat, rc.evals = map[string]int64{}, 0
}

func runCases(r *ev.Run, o *ranges, cs []Case, label string) {
	var us []*uni.Universe
	for _, c := range cs {
		if c.Universe != nil {
			us = append(us, c.Universe)
		}
	}
	if err := o.prepare(us...); err != nil {
		r.Inconclusive(err.Error())
		return
	}
	rc := &recorder{r: r, o: o, feat: map[string]int64{}}
	for _, c := range cs {
		if c.Universe == nil {
			continue
		}
		b, _ := json.Marshal(c.Universe)
		rc.record(c, string(b), evaluate(o, c.Universe, c.Root, nil))
		rc.feat[label]++
	}
	rc.flush()
}

func Run(r *ev.Run, replay string) {
	r.MaxSamples = 4
	r.Rule = "generated Maven universes (4-8 artifacts in two groups, 1-4 versions each, 1-5 declarations per version: soft versions, ranges incl. unions/open and exclusive ends/[v], scopes test/provided/runtime, optional, classifier variants of one artifact name, types jar/war/ear/rar/zip, exclusions exact and wildcard, 0-2 dependencyManagement entries on every version, forward-biased targets so that diamonds disagree, some back edges for cycles); every version of every universe is resolved as the root by maven.NewResolver over a LocalClient under the universe's logical step budget. Oracle over the returned graph, the universe and the client-call trace: M1 one version per (name, classifier, type); M2 nearest-wins (strict on single-pass resolutions, M2t first-met declaration from the trace and M2w on multi-pass ones); M3 range edges inside their range, no declaration silently dropped; M4 root management on transitive declarations only; M5 exclusions along the Selector tree; M6 test/optional/provided only from the root, every other declaration of a traversed node followed; M7 war/ear/rar not traversed. Non-trivial = a resolution whose returned graph has an artifact declared with >= 2 different requirements (mediation conflict); distinct by (universe, root)."
	r.Assumptions = []string{
		"range-ness of a requirement and range membership are answered by Maven 3.8.7 VersionRange (reference adapter, batched per 500 universes); the repository's own parser only where the adapter rejects the text (counted; 0 on generated texts, which are well-formed for Maven)",
		"version strings are plain x.y numerals, so that version ordering subtleties (C02/C03) do not leak into this property",
		"per artifact name the packaging class is fixed (jar-like, war/ear/rar or zip): the resolver keeps one graph node per VersionKey, so a war and a jar of identical coordinates would share a node and its traversal; the statement does not cover that representation choice. Classifier variants of one name do share nodes and are in scope",
		"the resolver accumulates requirements, in the order met, across its retry passes. Strict nearest-wins (M2) is therefore asserted on single-pass resolutions (Requirements(root) fetched once per phase, every fetched version traversed in the returned graph) whose nearest declaration is soft and not excluded by any range met; on the other resolutions M2t asserts that the version is the first declaration certainly met in the trace (not excludable by any exclusion pattern a fetched version carries, not in the version an abandoned pass stopped in) or the nearest one of the returned graph, provided no fetched range excludes the former; M2w asserts that the version is softly demanded by some fetched version unless a range on the artifact was fetched",
		"a declaration counts as followed when an edge with its artifact key and (managed) requirement text leaves the node, or a node error names it",
		"at most one dependencyManagement entry per artifact key and at most one declaration per artifact key in one version (duplicates inside one POM are C15's subject)",
		"a Go error from Resolve (soft requirement on a missing version, a range matching no listed version, incompatible requirements after the cap of 100 retries) is by design and counted, not judged; a step budget overrun after >= 30 passes is that retry loop, anything else over budget is reported as C07:budget-exhausted",
		"single registry: no version carries registry attributes",
	}
	o := newRanges()
	if _, err := ref.Maven.SelfTest([][2]string{
		{ref.Q("sat", "[1.0,2.0)", "1.5"), "1"},
		{ref.Q("sat", "[1.0,2.0)", "2.0"), "0"},
		{ref.Q("sat", "(,1.1],[2.0,3.1)", "1.2"), "0"},
		{ref.Q("range", "1.0"), "soft"},
	}); err != nil {
		r.Inconclusive(err.Error())
		return
	}
	if replay != "" {
		var c struct {
			Case Case `json:"case"`
		}
		if err := ev.ReadJSON(replay, &c); err != nil || c.Case.Universe == nil {
			r.Inconclusive("replay unreadable")
			return
		}
		if len(c.Case.Before) > 0 {
			if err := o.prepare(c.Case.Universe); err != nil {
				r.Inconclusive(err.Error())
				return
			}
			rc := &recorder{r: r, o: o, feat: map[string]int64{}}
			lc := c.Case.Universe.Client(nil)
			x := newReused()
			for _, b := range c.Case.Before {
				evaluateWith(o, c.Case.Universe, b, lc, x.mk)
			}
			out := evaluateWith(o, c.Case.Universe, c.Case.Root, lc, x.mk)
			r.Eval(1)
			for _, f := range out.viol {
				r.Violation(f.class+":on-reused-resolver", f.what, c.Case)
			}
			rc.flush()
			return
		}
		runCases(r, o, []Case{c.Case}, "replay_cases")
		return
	}
	var wit []Case
	if err := ev.ReadJSON(ev.Root+"/witnesses/C07.json", &wit); err != nil {
		r.Inconclusive("witnesses/C07.json: " + err.Error())
	}
	for i := range wit {
		// A witness without a root stands for all its roots.
		if wit[i].Universe != nil && wit[i].Root.Name == "" {
			for _, v := range wit[i].Universe.Versions {
				wit = append(wit, Case{Universe: wit[i].Universe, Root: Root{v.Name, v.Version}, Note: wit[i].Note})
			}
			wit[i].Universe = nil
		}
	}
	runCases(r, o, wit, "witness_cases")

	const shards = 4
	perShard := r.N(400, 10000)
	const chunk = 500
	var wg sync.WaitGroup
	var failed sync.Once
	for sh := 0; sh < shards; sh++ {
		wg.Add(1)
		go func(sh int) {
			defer wg.Done()
			rng := r.Rand(fmt.Sprintf("universes/%d", sh))
			rc := &recorder{r: r, o: o, feat: map[string]int64{}}
			defer rc.flush()
			for off := 0; off < perShard; off += chunk {
				k := chunk
				if off+k > perShard {
					k = perShard - off
				}
				us := make([]*uni.Universe, k)
				for i := range us {
					us[i] = Generate(rng)
				}
				if err := o.prepare(us...); err != nil {
					failed.Do(func() { r.Inconclusive(err.Error()) })
					return
				}
				for _, u := range us {
					rc.feat["universes"]++
					b, _ := json.Marshal(u)
					ukey := string(b)
					lc := u.Client(nil)
					fresh := map[Root]outcome{}
					for _, v := range u.Versions {
						c := Case{Universe: u, Root: Root{v.Name, v.Version}}
						out := evaluate(o, u, c.Root, lc)
						fresh[c.Root] = out
						rc.record(c, ukey, out)
					}
					// The same roots again, in a seeded order, on ONE resolver object:
					// what a graph obeys must not depend on what was resolved before.
					reusedPass(rc, o, u, lc, rng.Perm(len(u.Versions)), fresh)
				}
			}
		}(sh)
	}
	wg.Wait()
	r.Set("max_client_calls_in_one_resolution", map[string]int64{"calls": maxCalls, "step_budget_of_that_universe": maxCallsBudget})
	r.Set("reference_adapter_questions", o.asked.Load())
	r.Set("reference_adapter_fallbacks_to_repo_parser", o.fallback.Load())

	res := r.Counter("resolutions") - r.Counter("witness_cases")
	r.Gate("outcome:graph", res*85/100)
	r.Gate("conflict:resolutions", res/10)
	r.GateNontrivial(res / 10)
	r.Gate("retry:resolutions", int64(r.N(50, 2000)))
	r.Gate("m2:strict-on-conflict-resolutions", int64(r.N(100, 4000)))
	for _, f := range []string{
		"feature:exclusion-hit", "feature:exclusion-wildcard-hit", "feature:exclusion-inherited-hit",
		"feature:management-hit", "feature:war-ear-rar-declaration-not-followed",
		"feature:scoped-below-root-skipped", "feature:scoped-at-root-followed",
		"feature:classifier-edge", "feature:classifier-split-versions",
		"feature:range-edge", "feature:node-error", "feature:cycle-to-root",
	} {
		r.Gate(f, int64(r.N(10, 400)))
	}
}
