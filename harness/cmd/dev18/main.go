// Command dev18 runs the C18 monitor on its own (development entry point).
package main

import (
	"os"

	"verif/harness/ev"
	"verif/harness/mon/c18"
)

func main() {
	r := ev.New("C18")
	replay := ""
	for i := 1; i < len(os.Args); i++ {
		switch os.Args[i] {
		case "quick", "thorough":
			r.Tier = os.Args[i]
		case "--replay":
			if i+1 < len(os.Args) {
				replay = os.Args[i+1]
				i++
			}
		}
	}
	c18.Run(r, replay)
	r.Finish()
}
