#!/bin/bash
# Builds the reference adapters (Java classes, Rust binary) into /verif/build. Offline.
set -e
cd "$(dirname "$0")/.."
mkdir -p build/java build/rust
export CARGO_NET_OFFLINE=true PATH="$PATH:/root/.cargo/bin"
if [ ! -x build/semref ] || [ ref/rust/src/main.rs -nt build/semref ]; then
  (cd ref/rust && CARGO_TARGET_DIR=../../build/rust cargo build --offline --release -q) && cp build/rust/release/semref build/semref
fi
for f in ref/java/*.java; do
  c=build/java/$(basename "${f%.java}").class
  if [ ! -f "$c" ] || [ "$f" -nt "$c" ]; then
    javac -nowarn -cp "/usr/share/maven/lib/*" -d build/java "$f"
  fi
done
echo "reference adapters ready"
