package c19

import (
	"fmt"
	"strconv"
	"strings"
	"unicode"
	"unicode/utf8"

	"deps.dev/util/resolve"
	"deps.dev/util/resolve/schema"
	"verif/harness/mon/c19/vt"
)

// Text forms of the test schema syntax, reached through the public schema
// package only.
//
// dep.Type
//
//	edge         harness writer -> schema.ParseResolve("a 1\n\tL: <type> | b@r 1")
//	graphstring  (*resolve.Graph).String() -> schema.ParseResolve      (the repository's own writer)
//	schemanew    harness writer -> schema.New("p\n\t1\n\t\t<type>|q@1") -> Requirements[0].Type
//
// version.AttrSet
//
//	inline       harness writer -> schema.New("p\n\t<attrs>|1")
//	attr         one "ATTR: Key value" line per attribute (raw, "quoted" or `backtick` spelling)
//	mixed        some attributes inline, the rest as ATTR lines
const (
	formEdge        = "dep:edge"
	formGraphString = "dep:graphstring"
	formSchemaNew   = "dep:schemanew"
	formInline      = "ver:inline"
	formAttr        = "ver:attr"
	formMixed       = "ver:mixed"
	// The repository's own writer (versiontest.String, copied verbatim into
	// package vt at build time) -> schema.New("p\n\t<attrs>|1"), and its own
	// parser (versiontest.ParseString) on the same text.
	formVersiontest = "ver:versiontest"
)

var depForms = []string{formEdge, formGraphString, formSchemaNew}
var verForms = []string{formInline, formAttr, formMixed, formVersiontest}

func quote(s string) string { return strconv.Quote(s) }

func hasSpaceRune(s string) bool {
	for _, c := range s {
		if unicode.IsSpace(c) {
			return true
		}
	}
	return false
}

func plainPrintable(s string) bool {
	if !utf8.ValidString(s) {
		return false
	}
	for _, c := range s {
		if !unicode.IsPrint(c) || c == ' ' {
			return false
		}
	}
	return true
}

// depValueToken spells one dep-type value for deptest.ParseString (values are
// space separated fields; a field starting with '"' opens a Go-quoted string
// that runs to the next field ending in an unescaped '"'; the fields are
// re-joined with ONE space). reason != "" says why the syntax cannot carry v.
func depValueToken(v string) (tok, reason string) {
	if v != "" && v[0] != '"' && plainPrintable(v) {
		return v, ""
	}
	switch {
	case strings.HasPrefix(v, " "):
		// `" x"` splits into the fields `"` and `x"`; the lone `"` is taken as a complete quoted string.
		return "", "value starts with a space (quoted form is split into fields first)"
	case strings.Contains(v, "  "):
		return "", "value contains a run of spaces (fields are re-joined with one space)"
	case strings.HasSuffix(v, `\`):
		// the closing `\\"` is read as an escaped quote: "unterminated quotes".
		return "", "quoted value ends with a backslash (closing quote read as escaped)"
	}
	return strconv.Quote(v), ""
}

// depCarry reports why form cannot carry value v under key k ("" = it can).
func depCarry(form string, k keyInfo, v string) string {
	if k.flag {
		return ""
	}
	if k.textFlag {
		if v != "" {
			return "Selector is a flag key of the text syntax: no value token is read after it"
		}
		return ""
	}
	if strings.Contains(v, "|") {
		return "value contains '|' (the line is cut at the first '|', quoted or not)"
	}
	if _, why := depValueToken(v); why != "" {
		return why
	}
	switch form {
	case formEdge, formGraphString:
		if strings.Contains(v, " ERROR: ") {
			return "value contains ' ERROR: ' (read as the node error marker)"
		}
		if form == formGraphString && strings.Contains(v, ": ") {
			return "value contains ': ' and Graph.String writes no label in front of it (read as the label separator)"
		}
	case formSchemaNew:
		if strings.Contains(v, "#") {
			return "value contains '#' (schema.New cuts every line at the first '#')"
		}
		if strings.Contains(v, "@") {
			return "value contains '@' (schema.New splits an import line at the first '@')"
		}
	}
	return ""
}

// depTypeText writes a dep type in the documented syntax: keys and values are
// space separated; lower selects the lower-case key tokens.
func depTypeText(kd *kind, m *model, lower bool) string {
	var parts []string
	for i, k := range kd.keys {
		if !m.has[i] {
			continue
		}
		if lower {
			parts = append(parts, k.lower)
		} else {
			parts = append(parts, k.name)
		}
		if k.textFlag {
			continue
		}
		tok, _ := depValueToken(m.val[i])
		parts = append(parts, tok)
	}
	return strings.Join(parts, " ")
}

// Version attribute spellings.

func verInlineCarry(k keyInfo, v string) string {
	if k.flag {
		return ""
	}
	switch {
	case v == "":
		return "empty value (the inline form has no quoting; the next token would be taken as the value)"
	case hasSpaceRune(v):
		return "value contains white space (the inline form has no quoting)"
	case strings.Contains(v, "|"):
		return "value contains '|' (the version line is split at every '|')"
	case strings.Contains(v, "#"):
		return "value contains '#' (schema.New cuts every line at the first '#')"
	}
	return ""
}

func verRawCarry(v string) bool {
	if v == "" {
		return true // "ATTR: Key"
	}
	return v == strings.TrimSpace(v) && !strings.ContainsAny(v, "#\n") && v[0] != '"' && v[0] != '`'
}

func verBacktickCarry(v string) bool {
	return utf8.ValidString(v) && !strings.ContainsAny(v, "`#\n\r")
}

// verQuoted carries every string: Go-quoted, with '#' spelled \x23 because
// schema.New cuts lines at '#' before it looks at quotes.
func verQuoted(v string) string {
	return strings.ReplaceAll(strconv.Quote(v), "#", `\x23`)
}

// textCase is one write-then-parse evaluation.
type textCase struct {
	Form string `json:"form"`
	Text string `json:"text"`
}

var sysForText = resolve.NPM

// parseDepText parses text through the public API and returns the dep type of
// the single edge/import.
func parseDep(form, text string) (v value, err error) {
	defer func() {
		if p := recover(); p != nil {
			err = fmt.Errorf("panic: %v", p)
		}
	}()
	switch form {
	case formEdge, formGraphString:
		g, err := schema.ParseResolve(text, sysForText)
		if err != nil {
			return nil, err
		}
		if len(g.Edges) != 1 {
			return nil, fmt.Errorf("parsed graph has %d edges, want 1", len(g.Edges))
		}
		return &depVal{t: g.Edges[0].Type}, nil
	case formSchemaNew:
		s, err := schema.New(text, sysForText)
		if err != nil {
			return nil, err
		}
		if len(s.Packages) != 1 || len(s.Packages[0].Versions) != 1 || len(s.Packages[0].Versions[0].Requirements) != 1 {
			return nil, fmt.Errorf("parsed schema does not have exactly one import")
		}
		return &depVal{t: s.Packages[0].Versions[0].Requirements[0].Type}, nil
	}
	return nil, fmt.Errorf("unknown form %s", form)
}

func parseVer(text string) (v value, err error) {
	defer func() {
		if p := recover(); p != nil {
			err = fmt.Errorf("panic: %v", p)
		}
	}()
	s, err := schema.New(text, sysForText)
	if err != nil {
		return nil, err
	}
	if len(s.Packages) != 1 || len(s.Packages[0].Versions) != 1 {
		return nil, fmt.Errorf("parsed schema does not have exactly one version")
	}
	return &verVal{s: s.Packages[0].Versions[0].Attr}, nil
}

// graphStringText builds the two-node graph with one edge of type t and lets
// the repository write it.
func graphStringText(d *depVal) string {
	g := &resolve.Graph{}
	mk := func(n, v string) resolve.VersionKey {
		return resolve.VersionKey{
			PackageKey:  resolve.PackageKey{System: sysForText, Name: n},
			VersionType: resolve.Concrete, Version: v,
		}
	}
	a := g.AddNode(mk("a", "1"))
	b := g.AddNode(mk("b", "1"))
	g.AddEdge(a, b, "r", d.t)
	return g.String()
}

// writeText writes (a value whose model is m) in the given form. choose makes
// the spelling decisions (deterministic: driven by a small integer).
func writeText(kd *kind, form string, real value, m *model, choice int) string {
	lower := choice&1 == 1
	switch form {
	case formEdge:
		t := depTypeText(kd, m, lower)
		if t == "" {
			return "a 1\n\tL: b@r 1\n"
		}
		sep := " | "
		if choice&2 != 0 {
			sep = "|"
		}
		return "a 1\n\tL: " + t + sep + "b@r 1\n"
	case formGraphString:
		return graphStringText(real.(*depVal))
	case formSchemaNew:
		t := depTypeText(kd, m, lower)
		if t == "" {
			return "p\n\t1\n\t\tq@1\n"
		}
		return "p\n\t1\n\t\t" + t + "|q@1\n"
	}
	// version forms
	if form == formVersiontest {
		if t := vt.String(real.(*verVal).s); t != "" {
			return "p\n\t" + t + "|1.0.0\n"
		}
		return "p\n\t1.0.0\n"
	}
	var inline, lines []string
	for i, k := range kd.keys {
		if !m.has[i] {
			continue
		}
		name := k.name
		if lower {
			name = k.lower
		}
		v := m.val[i]
		useInline := false
		switch form {
		case formInline:
			useInline = true
		case formMixed:
			useInline = verInlineCarry(k, v) == "" && (choice>>(uint(i)%8+2))&1 == 0
		}
		if useInline {
			inline = append(inline, name)
			if !k.flag {
				inline = append(inline, v)
			}
			continue
		}
		if k.flag {
			lines = append(lines, "\t\tATTR: "+name)
			continue
		}
		// pick a spelling that can carry v, rotating by choice
		// "The key and the value of the version attribute are trimmed."
		pad, gap := " ", " "
		if choice&(1<<10) != 0 {
			pad, gap = "  ", "   "
		}
		var sp []string
		if verRawCarry(v) {
			if v == "" {
				sp = append(sp, name)
			} else {
				sp = append(sp, name+gap+v)
			}
		}
		sp = append(sp, name+gap+verQuoted(v))
		if verBacktickCarry(v) {
			sp = append(sp, name+gap+"`"+v+"`")
		}
		lines = append(lines, "\t\tATTR:"+pad+sp[(choice/4+i)%len(sp)])
	}
	var sb strings.Builder
	sb.WriteString("p\n\t")
	if len(inline) > 0 {
		sb.WriteString(strings.Join(inline, " "))
		sb.WriteString("|")
	}
	sb.WriteString("1.0.0\n")
	for _, l := range lines {
		sb.WriteString(l)
		sb.WriteByte('\n')
	}
	return sb.String()
}

// carry reports the first reason form cannot carry a set with model m ("" = ok),
// with the offending key index.
func carry(kd *kind, form string, m *model) (int, string) {
	for i, k := range kd.keys {
		if !m.has[i] {
			continue
		}
		var why string
		switch form {
		case formEdge, formGraphString, formSchemaNew:
			why = depCarry(form, k, m.val[i])
		case formInline, formVersiontest:
			why = verInlineCarry(k, m.val[i])
		}
		if why != "" {
			return i, why
		}
	}
	return -1, ""
}

// tokenAfterQuotedValue reports whether the dep-type text of m has a quoted
// value that is not the last token (the shape deptest.ParseString mis-read).
func tokenAfterQuotedValue(kd *kind, m *model) bool {
	quotedSeen := false
	for i, k := range kd.keys {
		if !m.has[i] {
			continue
		}
		if quotedSeen {
			return true
		}
		if !k.textFlag {
			if tok, _ := depValueToken(m.val[i]); strings.HasPrefix(tok, `"`) {
				quotedSeen = true
			}
		}
	}
	return false
}
