package c04

import (
	"archive/tar"
	"archive/zip"
	"bytes"
	"compress/gzip"
	"context"
	"encoding/xml"
	"fmt"
	"math/rand"
	"strings"

	"deps.dev/util/maven"
	"deps.dev/util/pypi"
	"deps.dev/util/resolve"
	"deps.dev/util/resolve/dep"
	"deps.dev/util/resolve/schema"
	"deps.dev/util/resolve/version"
	"verif/harness/gen"
)

var none = []string{"-"}

// ---- PyPI sentences -------------------------------------------------------

var markerVars = []string{"python_version", "python_full_version", "os_name", "sys_platform", "platform_release", "platform_system",
	"platform_machine", "platform_python_implementation", "implementation_name", "implementation_version", "extra", "platform_version"}

func markerSentence(r *rand.Rand, depth int) string {
	atom := func() string {
		q := gen.Pick(r, "\"", "'")
		lit := q + gen.Pick(r, "3.9", "3", "2.7.*", "linux", "win32", "x", "test", "", "cpython", "3.10.0rc1", "posix", "a b", "1!2") + q
		v := gen.Pick(r, markerVars...)
		op := gen.Pick(r, "==", "!=", "<", "<=", ">", ">=", "~=", "===", "in", "not in", " in ", "  not  in ")
		sp := gen.Pick(r, " ", "", "  ")
		if r.Intn(3) == 0 {
			return lit + sp + op + sp + v
		}
		if r.Intn(8) == 0 {
			return lit + sp + op + sp + lit
		}
		return v + sp + op + sp + lit
	}
	var f func(d int) string
	f = func(d int) string {
		if d <= 0 || r.Intn(3) == 0 {
			return atom()
		}
		switch r.Intn(4) {
		case 0:
			return "(" + f(d-1) + ")"
		case 1:
			return f(d-1) + " and " + f(d-1)
		case 2:
			return f(d-1) + " or " + f(d-1)
		}
		return "(" + f(d-1) + gen.Pick(r, " and ", " or ") + f(d-1) + ")"
	}
	return f(depth)
}

func pyName(r *rand.Rand) string {
	return gen.Pick(r, "foo", "Foo_Bar", "foo.bar", "a", "zope.interface", "A-b_c", "x1", "requests")
}

func depSentence(r *rand.Rand) string {
	s := pyName(r)
	if r.Intn(3) == 0 {
		s += gen.Pick(r, "[x]", "[x,y]", "[ x , y ]", " [security]", "[]")
	}
	if r.Intn(3) > 0 {
		spec := gen.PyPISpec(r)
		switch r.Intn(3) {
		case 0:
			s += " (" + spec + ")"
		case 1:
			s += spec
		default:
			s += " " + spec
		}
	}
	if r.Intn(2) == 0 {
		s += gen.Pick(r, "; ", " ; ", ";") + markerSentence(r, 2)
	}
	return s
}

func metadataSentence(r *rand.Rand) string {
	var b strings.Builder
	b.WriteString("Metadata-Version: " + gen.Pick(r, "1.0", "1.1", "2.1", "2.3") + "\n")
	b.WriteString("Name: " + pyName(r) + "\n")
	b.WriteString("Version: " + gen.PyPI(r) + "\n")
	for _, h := range []string{"Summary", "Home-Page", "Author", "Author-Email", "Maintainer", "Maintainer-Email", "License"} {
		switch r.Intn(4) {
		case 0:
			b.WriteString(h + ": " + gen.Pick(r, "UNKNOWN", "x", "a b c", "é", "a@b.c") + "\n")
		case 1:
			if r.Intn(4) == 0 {
				b.WriteString(h + ": one\n" + h + ": two\n")
			}
		}
	}
	for i := r.Intn(4); i > 0; i-- {
		b.WriteString("Classifier: " + gen.Pick(r, "Programming Language :: Python", "UNKNOWN", "x") + "\n")
	}
	for i := r.Intn(3); i > 0; i-- {
		b.WriteString("Project-URL: " + gen.Pick(r, "Home, https://x", "UNKNOWN") + "\n")
	}
	for i := r.Intn(5); i > 0; i-- {
		b.WriteString("Requires-Dist: " + depSentence(r) + "\n")
	}
	if r.Intn(3) == 0 {
		b.WriteString("Description: line one\n        continued\n")
	}
	if r.Intn(2) == 0 {
		b.WriteString("\n" + gen.Pick(r, "body", "body\nmore body\n", "", "\n\n") + "\n")
	}
	return b.String()
}

func wheelSentence(r *rand.Rand) string {
	s := pyName(r) + "-" + gen.PyPIFinal(r)
	if r.Intn(3) == 0 {
		s += "-" + gen.Pick(r, "1", "1build", "12_x", "0")
	}
	tags := func(xs ...string) string {
		n := 1 + r.Intn(3)
		p := make([]string, n)
		for i := range p {
			p[i] = gen.Pick(r, xs...)
		}
		return strings.Join(p, ".")
	}
	s += "-" + tags("py3", "py2", "cp39", "cp310") + "-" + tags("none", "abi3", "cp39m") + "-" + tags("any", "manylinux_2_17_x86_64", "win32", "macosx_10_9_x86_64")
	return s + ".whl"
}

type arcFile struct{ name, body string }

func arcFiles(r *rand.Rand, wheel bool) []arcFile {
	var fs []arcFile
	top := pyName(r) + "-" + gen.PyPIFinal(r)
	meta := metadataSentence(r)
	if wheel {
		fs = append(fs, arcFile{top + ".dist-info/METADATA", meta}, arcFile{top + ".dist-info/WHEEL", "Wheel-Version: 1.0\n"}, arcFile{"pkg/__init__.py", ""})
		if r.Intn(6) == 0 {
			fs = append(fs, arcFile{top + ".dist-info/METADATA", meta})
		}
		if r.Intn(6) == 0 {
			fs = append(fs, arcFile{"METADATA", meta})
		}
	} else {
		fs = append(fs, arcFile{top + "/PKG-INFO", meta})
		if r.Intn(2) == 0 {
			fs = append(fs, arcFile{top + "/setup.py", gen.Pick(r, "setup(install_requires = ['x'])", "setup()", "# install_requires=")})
		}
		if r.Intn(3) == 0 {
			fs = append(fs, arcFile{top + "/setup.cfg", gen.Pick(r, "[options]\ninstall_requires =\n  x\n", "[metadata]\n")})
		}
		if r.Intn(6) == 0 {
			fs = append(fs, arcFile{top + "/PKG-INFO", meta})
		}
		fs = append(fs, arcFile{top + "/sub/PKG-INFO", "Name: other\n"}, arcFile{"toplevel", "x"})
	}
	r.Shuffle(len(fs), func(i, j int) { fs[i], fs[j] = fs[j], fs[i] })
	return fs
}

func zipBytes(r *rand.Rand, fs []arcFile) []byte {
	var buf bytes.Buffer
	w := zip.NewWriter(&buf)
	for _, f := range fs {
		m := zip.Deflate
		if r.Intn(2) == 0 {
			m = zip.Store
		}
		fw, err := w.CreateHeader(&zip.FileHeader{Name: f.name, Method: m})
		if err != nil {
			continue
		}
		fw.Write([]byte(f.body))
	}
	w.Close()
	return buf.Bytes()
}

func tgzBytes(r *rand.Rand, fs []arcFile) []byte {
	var buf bytes.Buffer
	zw := gzip.NewWriter(&buf)
	tw := tar.NewWriter(zw)
	for _, f := range fs {
		typ := byte(tar.TypeReg)
		if r.Intn(12) == 0 {
			typ = tar.TypeSymlink
		}
		tw.WriteHeader(&tar.Header{Name: f.name, Mode: 0o644, Size: int64(len(f.body)), Typeflag: typ})
		if typ == tar.TypeReg {
			tw.Write([]byte(f.body))
		}
	}
	tw.Close()
	zw.Close()
	return buf.Bytes()
}

// ---- Maven sentences ------------------------------------------------------

func mvnVal(r *rand.Rand) string {
	return gen.Pick(r, "1.0", "2", "${a}", "${b}", "${c}", "${project.version}", "${pom.groupId}", "${parent.version}", "${version}", "x${a}y", "${a}${b}",
		"${undefined}", "g", "[1.0,2.0)", "${", "}", "${}", "${a", "$${a}}", "true", "false", "pom", "import", "jar", "test", " 1 ", "")
}

func mvnDep(r *rand.Rand) string {
	var b strings.Builder
	b.WriteString("<dependency>")
	tag := func(name, val string) {
		if val != "\x00" {
			fmt.Fprintf(&b, "<%s>%s</%s>", name, val, name)
		}
	}
	opt := func(vals ...string) string {
		if r.Intn(2) == 0 {
			return "\x00"
		}
		return gen.Pick(r, vals...)
	}
	tag("groupId", gen.Pick(r, "g", "g", "h", "${project.groupId}", "${a}", ""))
	tag("artifactId", gen.Pick(r, "x", "y", "z", "${b}", ""))
	tag("version", opt("1", "2.0", "${a}", "${c}", "[1,2)", "${project.version}", mvnVal(r)))
	tag("type", opt("jar", "pom", "war", "${c}", "test-jar"))
	tag("classifier", opt("sources", "${a}", ""))
	tag("scope", opt("compile", "test", "import", "provided", "runtime", "system", "${c}"))
	tag("optional", opt("true", "false", "${a}", "TRUE", "", " true "))
	if r.Intn(4) == 0 {
		b.WriteString("<exclusions>")
		for i := r.Intn(3); i >= 0; i-- {
			fmt.Fprintf(&b, "<exclusion><groupId>%s</groupId><artifactId>%s</artifactId></exclusion>", gen.Pick(r, "*", "g", "a|b", "g:h", ""), gen.Pick(r, "*", "x", "a|b", ""))
		}
		b.WriteString("</exclusions>")
	}
	b.WriteString("</dependency>")
	return b.String()
}

func mvnProps(r *rand.Rand, max int) string {
	var b strings.Builder
	b.WriteString("<properties>")
	names := []string{"a", "b", "c", "d", "project.version", "version", "a.b", "e"}
	for i := r.Intn(max + 1); i > 0; i-- {
		n := gen.Pick(r, names...)
		// At most 3 placeholders per value.
		v := ""
		for k := r.Intn(4); k > 0; k-- {
			v += gen.Pick(r, "${a}", "${b}", "${c}", "${d}", "${e}", "${"+n+"}", "${project.version}", "${version}", "x", "1", "${nope}")
		}
		fmt.Fprintf(&b, "<%s>%s</%s>", n, v, n)
	}
	b.WriteString("</properties>")
	return b.String()
}

func pomSentence(r *rand.Rand) string {
	var b strings.Builder
	if r.Intn(4) == 0 {
		b.WriteString("<?xml version=\"1.0\" encoding=\"UTF-8\"?>\n")
	}
	b.WriteString("<project>")
	if r.Intn(2) == 0 {
		b.WriteString("<modelVersion>4.0.0</modelVersion>")
	}
	if r.Intn(2) == 0 {
		fmt.Fprintf(&b, "<parent><groupId>%s</groupId><artifactId>p</artifactId><version>%s</version></parent>", gen.Pick(r, "g", "pg", "${a}"), gen.Pick(r, "1", "${b}", "${project.version}"))
	}
	if r.Intn(3) > 0 {
		fmt.Fprintf(&b, "<groupId>%s</groupId>", gen.Pick(r, "g", "${a}", "${project.parent.groupId}", "${groupId}"))
	}
	b.WriteString("<artifactId>c</artifactId>")
	if r.Intn(3) > 0 {
		fmt.Fprintf(&b, "<version>%s</version>", gen.Pick(r, "1.0", "${a}", "${version}", "${project.version}", "${revision}"))
	}
	if r.Intn(3) == 0 {
		fmt.Fprintf(&b, "<packaging>%s</packaging>", gen.Pick(r, "pom", "jar", "${c}"))
	}
	if r.Intn(4) == 0 {
		fmt.Fprintf(&b, "<name>%s</name><description>%s</description><url>%s</url>", mvnVal(r), mvnVal(r), mvnVal(r))
	}
	if r.Intn(4) > 0 {
		b.WriteString(mvnProps(r, 5))
	}
	if r.Intn(5) == 0 {
		fmt.Fprintf(&b, "<licenses><license><name>%s</name></license></licenses><developers><developer><name>%s</name><email>%s</email></developer></developers>", mvnVal(r), mvnVal(r), mvnVal(r))
		fmt.Fprintf(&b, "<scm><tag>%s</tag><url>%s</url></scm><issueManagement><system>%s</system><url>%s</url></issueManagement>", mvnVal(r), mvnVal(r), mvnVal(r), mvnVal(r))
		fmt.Fprintf(&b, "<distributionManagement><relocation><groupId>%s</groupId><artifactId>%s</artifactId><version>%s</version></relocation></distributionManagement>", mvnVal(r), mvnVal(r), mvnVal(r))
	}
	if r.Intn(2) == 0 {
		b.WriteString("<dependencyManagement><dependencies>")
		for i := r.Intn(4); i > 0; i-- {
			b.WriteString(mvnDep(r))
		}
		if r.Intn(2) == 0 {
			fmt.Fprintf(&b, "<dependency><groupId>g</groupId><artifactId>%s</artifactId><version>%s</version><type>pom</type><scope>import</scope></dependency>", gen.Pick(r, "bom", "bom2"), gen.Pick(r, "1", "${a}"))
		}
		b.WriteString("</dependencies></dependencyManagement>")
	}
	b.WriteString("<dependencies>")
	for i := r.Intn(4); i > 0; i-- {
		b.WriteString(mvnDep(r))
	}
	b.WriteString("</dependencies>")
	if r.Intn(4) == 0 {
		fmt.Fprintf(&b, "<repositories><repository><id>%s</id><url>%s</url><layout>%s</layout><releases><enabled>%s</enabled></releases><snapshots><enabled>%s</enabled></snapshots></repository></repositories>",
			mvnVal(r), mvnVal(r), gen.Pick(r, "default", "${a}"), gen.Pick(r, "true", "false", "${a}", ""), gen.Pick(r, "true", "false", "${b}"))
	}
	if r.Intn(5) == 0 {
		fmt.Fprintf(&b, "<build><pluginManagement><plugins><plugin><groupId>%s</groupId><artifactId>pl</artifactId><version>%s</version><inherited>%s</inherited><dependencies>%s</dependencies></plugin></plugins></pluginManagement></build>",
			mvnVal(r), mvnVal(r), gen.Pick(r, "true", "false", "${a}"), mvnDep(r))
	}
	if r.Intn(3) == 0 {
		b.WriteString("<profiles>")
		for i := 1 + r.Intn(3); i > 0; i-- {
			b.WriteString("<profile><id>p</id><activation>")
			if r.Intn(3) == 0 {
				fmt.Fprintf(&b, "<activeByDefault>%s</activeByDefault>", gen.Pick(r, "true", "false", "${a}", ""))
			}
			if r.Intn(2) == 0 {
				fmt.Fprintf(&b, "<jdk>%s</jdk>", gen.Pick(r, "11", "1.8", "[1.8,)", "(,11]", "!1.8", "[11,12)", "11.0.8", "[1.8", "1.8,11", "", "x", gen.MavenSpec(r)))
			}
			if r.Intn(3) == 0 {
				fmt.Fprintf(&b, "<os><family>%s</family><name>%s</name><arch>%s</arch><version>%s</version></os>", gen.Pick(r, "unix", "!windows", "Unix", ""), gen.Pick(r, "linux", "!linux", ""), gen.Pick(r, "amd64", "!x86", ""), gen.Pick(r, "", "5", "!5"))
			}
			if r.Intn(3) == 0 {
				fmt.Fprintf(&b, "<property><name>%s</name><value>%s</value></property>", gen.Pick(r, "x", "!x", ""), gen.Pick(r, "", "v", "!v"))
			}
			if r.Intn(5) == 0 {
				b.WriteString("<file><missing>f</missing><exists>g</exists></file>")
			}
			b.WriteString("</activation>")
			if r.Intn(2) == 0 {
				b.WriteString(mvnProps(r, 3))
			}
			if r.Intn(2) == 0 {
				b.WriteString("<dependencies>" + mvnDep(r) + "</dependencies>")
			}
			if r.Intn(3) == 0 {
				b.WriteString("<dependencyManagement><dependencies>" + mvnDep(r) + "</dependencies></dependencyManagement>")
			}
			b.WriteString("</profile>")
		}
		b.WriteString("</profiles>")
	}
	b.WriteString("</project>")
	return b.String()
}

func mvnMetadataSentence(r *rand.Rand) string {
	var b strings.Builder
	b.WriteString("<metadata modelVersion=\"1.1.0\"><groupId>g</groupId><artifactId>a</artifactId>")
	if r.Intn(2) == 0 {
		b.WriteString("<version>" + gen.MavenVer(r) + "</version>")
	}
	b.WriteString("<versioning><latest>" + gen.MavenVer(r) + "</latest><release>" + gen.MavenVer(r) + "</release><versions>")
	for i := r.Intn(5); i > 0; i-- {
		b.WriteString("<version>" + gen.MavenVer(r) + "</version>")
	}
	b.WriteString("</versions><lastUpdated>20240101000000</lastUpdated>")
	if r.Intn(2) == 0 {
		fmt.Fprintf(&b, "<snapshot><timestamp>20240101.000000</timestamp><buildNumber>%s</buildNumber><localCopy>%s</localCopy></snapshot>", gen.Pick(r, "1", "x", "", "99999999999999999999", "-1"), gen.Pick(r, "true", "false", "x", ""))
		b.WriteString("<snapshotVersions><snapshotVersion><classifier>c</classifier><extension>jar</extension><value>1</value><updated>2</updated></snapshotVersion></snapshotVersions>")
	}
	b.WriteString("</versioning>")
	if r.Intn(3) == 0 {
		b.WriteString("<plugins><plugin><name>n</name><prefix>p</prefix><artifactId>a</artifactId></plugin></plugins>")
	}
	b.WriteString("</metadata>")
	return b.String()
}

var xmlDict = []string{"<", ">", "</", "/>", "<a>", "</a>", "<![CDATA[", "]]>", "<!--", "-->", "&amp;", "&#x0;", "&#1114112;", "&", "<?xml", "?>", "<!DOCTYPE x [<!ENTITY a \"b\">]>", "&a;",
	"${", "}", "${a}", "<properties>", "</properties>", "<dependency>", "</dependency>", "<scope>import</scope>", "<type>pom</type>", "<optional>", "<jdk>", "<profile>", "xmlns:x=\"y\"", " a=\"b\"", "<x:y>"}

// ---- schema sentences -----------------------------------------------------

func pkgName(r *rand.Rand) string {
	return gen.Pick(r, "alice", "bob", "carol", "@scope/x", "@s/y", "g:a", "g:b", "a>1.0.0>b")
}

func depTypeText(r *rand.Rand) string {
	return gen.Pick(r, "Dev", "Opt", "Test", "Dev Opt", "Scope peer", "Scope bundle", "KnownAs x", "Environment \"a b\"", "MavenClassifier c", "MavenExclusions g:a", "Scope", "Selector", "XTest", "Framework f", "EnabledDependencies x,y", "Nope", "KnownAs \"a\\\"b\"")
}

func verAttrText(r *rand.Rand) string {
	return gen.Pick(r, "Blocked", "Deleted", "Error", "Tags latest", "DerivedFrom b", "Redirect x", "Registries r", "Ident i", "Created 1", "Features f", "Nope", "Blocked Deleted", "Tags \"a b\"")
}

func schemaSentence(r *rand.Rand) string {
	var b strings.Builder
	for p := 1 + r.Intn(3); p > 0; p-- {
		if r.Intn(6) == 0 {
			b.WriteString("# comment\n")
		}
		b.WriteString(pkgName(r))
		if r.Intn(8) == 0 {
			b.WriteString(" 2020-01-01")
		}
		b.WriteString("\n")
		for v := r.Intn(4); v > 0; v-- {
			b.WriteString("\t")
			if r.Intn(4) == 0 {
				b.WriteString(verAttrText(r) + "|")
			}
			b.WriteString(gen.SemFull(r, true) + "\n")
			if r.Intn(4) == 0 {
				b.WriteString("\t\tATTR: " + verAttrText(r) + "\n")
			}
			for q := r.Intn(4); q > 0; q-- {
				b.WriteString("\t\t")
				if r.Intn(3) == 0 {
					b.WriteString(depTypeText(r) + "|")
				}
				b.WriteString(pkgName(r) + "@" + gen.Pick(r, "^1.0.0", "*", "1", "[1,2)", ">=1", "latest", "") + "\n")
			}
		}
		if r.Intn(6) == 0 {
			b.WriteString("\tlatest -> 1.0.0\n")
		}
	}
	return b.String()
}

func graphSentence(r *rand.Rand) string {
	art := r.Intn(3) == 0
	type row struct {
		depth int
		text  string
	}
	rows := []row{{0, ""}}
	lab := 0
	var labels []string
	if r.Intn(3) == 0 {
		lab++
		labels = append(labels, fmt.Sprint(lab))
		rows[0].text = fmt.Sprintf("%d: ", lab)
	}
	rows[0].text += pkgName(r) + " " + gen.SemFull(r, false)
	depth := 0
	for n := r.Intn(7); n > 0; n-- {
		d := 1 + r.Intn(depth+1)
		depth = d
		t := ""
		switch k := r.Intn(10); {
		case k < 6:
			if r.Intn(3) == 0 {
				lab++
				labels = append(labels, fmt.Sprint(lab))
				t = fmt.Sprintf("%d: ", lab)
			}
			if r.Intn(3) == 0 {
				t += depTypeText(r) + " | "
			}
			t += pkgName(r) + "@" + gen.Pick(r, "^1", "*", "1.0.0", "") + " " + gen.SemFull(r, false)
		case k < 8 && len(labels) > 0:
			if r.Intn(3) == 0 {
				t += depTypeText(r) + " | "
			}
			t += "$" + labels[r.Intn(len(labels))] + "@" + gen.Pick(r, "*", "^1")
			depth = d - 1 // a label row has no children
			if depth < 0 {
				depth = 0
			}
		default:
			t = pkgName(r) + "@" + gen.Pick(r, "x", "^9") + " ERROR: " + gen.Pick(r, "nope", "could not find", "a: b")
			depth = d - 1
		}
		rows = append(rows, row{d, t})
	}
	var b strings.Builder
	for i, rw := range rows {
		if art && rw.depth > 0 {
			b.WriteString(strings.Repeat("│  ", rw.depth-1))
			last := true
			for _, nx := range rows[i+1:] {
				if nx.depth < rw.depth {
					break
				}
				if nx.depth == rw.depth {
					last = false
					break
				}
			}
			if last {
				b.WriteString("└─ ")
			} else {
				b.WriteString("├─ ")
			}
		} else {
			b.WriteString(strings.Repeat("\t", rw.depth))
		}
		b.WriteString(rw.text + "\n")
	}
	if r.Intn(8) == 0 {
		b.WriteString("ERROR: graph level\n")
	}
	return b.String()
}

var schemaDict = []string{"\t", "\t\t", "\n", "|", " | ", "@", ": ", " ERROR: ", "ERROR:", "$", "$1@", "#", "ATTR:", "ATTR: Tags x", "\"", "├─ ", "└─ ", "│  ", "   ", " -> ", "1: ", "Dev|", "Scope peer|", " 1.0.0", "@*"}

var resolveSys = map[string]resolve.System{"NPM": resolve.NPM, "Maven": resolve.Maven, "PyPI": resolve.PyPI, "Unknown": resolve.UnknownSystem}
var resolveSysNames = []string{"NPM", "Maven", "PyPI"}

// reqSentence is a requirement string of the system's language.
func reqSentence(r *rand.Rand, sys string) string {
	switch sys {
	case "NPM":
		if r.Intn(8) == 0 {
			return gen.Pick(r, "latest", "next", "beta", "*", "")
		}
		return gen.NPMRange(r)
	case "Maven":
		return gen.MavenSpec(r)
	case "PyPI":
		if r.Intn(8) == 0 {
			return ""
		}
		return gen.PyPISpec(r)
	}
	return gen.NPMRange(r)
}

func concreteSentence(r *rand.Rand, sys string) string {
	switch sys {
	case "Maven":
		return gen.MavenVer(r)
	case "PyPI":
		return gen.PyPI(r)
	}
	return gen.SemFull(r, true)
}

func init() {
	ctx := context.Background()
	one := func(f func(r *rand.Rand) string) func(g *genCtx, sys string) [][]byte {
		return func(g *genCtx, sys string) [][]byte { return [][]byte{[]byte(f(g.r))} }
	}
	pyDict := []string{";", " ; ", "[", "]", "(", ")", ",", " and ", " or ", " in ", " not in ", "===", "~=", "==", "!=", "'", "\"", "extra", "python_version", "\\", "\t", "@ https://x", "#"}

	// ---- util/pypi ----
	register(&driver{
		name: "pypi.ParseDependency", systems: none, apis: []string{"pypi.ParseDependency"},
		valid: one(depSentence), dict: pyDict, simple: func(string) [][]byte { return bb("foo (>=1.0) ; python_version < '3'") }, longParts: []int{0}, weight: 6,
		long: map[string]func(string, int) []byte{
			"dep-extras-open": func(_ string, n int) []byte { return []byte("a" + strings.Repeat("[", n)) },
			"dep-parens": func(_ string, n int) []byte {
				return []byte("a " + strings.Repeat("(", n) + ">=1" + strings.Repeat(")", n))
			},
			"dep-marker-parens": func(_ string, n int) []byte {
				return []byte("a; " + strings.Repeat("(", n) + "os_name=='a'" + strings.Repeat(")", n))
			},
			"dep-spec-list": func(_ string, n int) []byte { return []byte("a " + strings.Repeat(">=1,", n) + "<2") },
		},
		longNs: map[string][]int{"dep-extras-open": {100000}, "dep-parens": {100000}, "dep-marker-parens": {100000}, "dep-spec-list": {100000}},
		run: func(x *runner, _ string, in []byte) string {
			x.hit("pypi.ParseDependency")
			_, err := pypi.ParseDependency(string(in))
			return retErr(err)
		},
	})
	register(&driver{
		name: "pypi.ParseMetadata", systems: none, apis: []string{"pypi.ParseMetadata"},
		valid: one(metadataSentence), dict: append([]string{"\n", "\n\n", ": ", "Requires-Dist: ", "Name: ", "\n ", "UNKNOWN", "\r\n"}, pyDict...),
		simple: func(string) [][]byte {
			return bb("Metadata-Version: 2.1\nName: foo\nVersion: 1.0\nRequires-Dist: bar\n")
		}, longParts: []int{0}, weight: 6,
		long: map[string]func(string, int) []byte{
			"meta-requires": func(_ string, n int) []byte {
				return []byte("Name: a\n" + strings.Repeat("Requires-Dist: b (>=1) ; extra == 'x'\n", n))
			},
			"meta-continuation": func(_ string, n int) []byte {
				return []byte("Name: a\nDescription: x\n" + strings.Repeat("        y\n", n))
			},
			"meta-headers":  func(_ string, n int) []byte { return []byte(strings.Repeat("Classifier: x\n", n)) },
			"meta-body":     func(_ string, n int) []byte { return []byte("Name: a\n\n" + strings.Repeat("body\n", n)) },
			"meta-long-key": func(_ string, n int) []byte { return []byte(strings.Repeat("K", n) + ": v\n") },
		},
		longNs: map[string][]int{"meta-requires": {10000}, "meta-continuation": {100000}, "meta-headers": {50000}, "meta-body": {200000}, "meta-long-key": {1000000}},
		run: func(x *runner, _ string, in []byte) string {
			x.hit("pypi.ParseMetadata")
			_, err := pypi.ParseMetadata(ctx, string(in))
			return retErr(err)
		},
	})
	register(&driver{
		name: "pypi.ParseWheelName", systems: none, apis: []string{"pypi.ParseWheelName"},
		valid: one(wheelSentence), dict: []string{"-", ".", ".whl", "_", "py3", "none", "any", "1build", "١"},
		simple: func(string) [][]byte { return bb("foo-1.0-py3-none-any.whl") }, longParts: []int{0}, weight: 4,
		long: map[string]func(string, int) []byte{
			"wheel-hyphens":   func(_ string, n int) []byte { return []byte(strings.Repeat("-", n) + ".whl") },
			"wheel-build-num": func(_ string, n int) []byte { return []byte("a-1-" + strings.Repeat("9", n) + "x-py3-none-any.whl") },
			"wheel-tag-dots":  func(_ string, n int) []byte { return []byte("a-1-py3" + strings.Repeat(".py3", n) + "-none-any.whl") },
			// Compressed tag sets multiply: n tags in each of the three sets.
			"wheel-tag-product": func(_ string, n int) []byte {
				t := func(s string) string { return s + strings.Repeat("."+s, n-1) }
				return []byte("a-1-" + t("py3") + "-" + t("none") + "-" + t("any") + ".whl")
			},
		},
		longNs: map[string][]int{"wheel-hyphens": {100000}, "wheel-build-num": {100000}, "wheel-tag-dots": {100000}, "wheel-tag-product": {30, 300, 3000}},
		run: func(x *runner, _ string, in []byte) string {
			x.hit("pypi.ParseWheelName")
			_, err := pypi.ParseWheelName(string(in))
			return retErr(err)
		},
	})
	register(&driver{
		name: "pypi.SdistVersion", systems: none, apis: []string{"pypi.SdistVersion", "pypi.CanonPackageName", "pypi.CanonVersion"},
		valid: func(g *genCtx, _ string) [][]byte {
			n := pyName(g.r)
			return bb(pypi.CanonPackageName(n), n+"-"+gen.PyPI(g.r)+gen.Pick(g.r, ".tar.gz", ".zip", ".tgz", "", ".tar.bz2"))
		},
		dict: []string{"-", ".", ".tar.gz", ".zip", "_", ".tar", "/"}, simple: func(string) [][]byte { return bb("foo-bar", "Foo_Bar-1.0.tar.gz") }, longParts: []int{0, 1}, weight: 4,
		run: func(x *runner, _ string, in []byte) string {
			p := splitN(in, 2)
			x.hit("pypi.CanonPackageName")
			pypi.CanonPackageName(string(p[0]))
			pypi.CanonPackageName(string(p[1]))
			x.hit("pypi.CanonVersion")
			pypi.CanonVersion(string(p[0]))
			x.hit("pypi.SdistVersion")
			_, v, err := pypi.SdistVersion(string(p[0]), string(p[1]))
			if err == nil {
				pypi.CanonVersion(v)
			}
			return retErr(err)
		},
	})
	register(&driver{
		name: "pypi.WheelMetadata", systems: none, apis: []string{"pypi.WheelMetadata"},
		valid: func(g *genCtx, _ string) [][]byte { return [][]byte{zipBytes(g.r, arcFiles(g.r, true))} },
		dict:  []string{"PK\x03\x04", "PK\x01\x02", "PK\x05\x06", "PK\x06\x06", "PK\x06\x07", "\xff\xff\xff\xff", "\x00\x00\x00\x00", ".dist-info/METADATA", "/"},
		simple: func(string) [][]byte {
			return [][]byte{zipBytes(rand.New(rand.NewSource(1)), []arcFile{{"a-1.dist-info/METADATA", "Name: a\n"}})}
		}, weight: 4,
		long: map[string]func(string, int) []byte{
			"zip-many-entries": func(_ string, n int) []byte {
				fs := make([]arcFile, n)
				for i := range fs {
					fs[i] = arcFile{fmt.Sprintf("a-1.dist-info/f%d", i), "x"}
				}
				return zipBytes(rand.New(rand.NewSource(1)), fs)
			},
			"zip-long-name": func(_ string, n int) []byte {
				return zipBytes(rand.New(rand.NewSource(1)), []arcFile{{strings.Repeat("a/", n/2) + ".dist-info/METADATA", "Name: a\n"}})
			},
			"zip-big-metadata": func(_ string, n int) []byte {
				return zipBytes(rand.New(rand.NewSource(2)), []arcFile{{"a-1.dist-info/METADATA", "Name: a\n" + strings.Repeat("Requires-Dist: b\n", n)}})
			},
		},
		longNs: map[string][]int{"zip-many-entries": {5000}, "zip-long-name": {60000}, "zip-big-metadata": {20000}},
		run: func(x *runner, _ string, in []byte) string {
			x.hit("pypi.WheelMetadata")
			_, err := pypi.WheelMetadata(ctx, bytes.NewReader(in), int64(len(in)))
			return retErr(err)
		},
	})
	register(&driver{
		name: "pypi.SdistMetadata", systems: none, apis: []string{"pypi.SdistMetadata"},
		valid: func(g *genCtx, _ string) [][]byte {
			fs := arcFiles(g.r, false)
			if g.r.Intn(3) == 0 {
				return [][]byte{[]byte("a-1.0.zip"), zipBytes(g.r, fs)}
			}
			return [][]byte{[]byte(gen.Pick(g.r, "a-1.0.tar.gz", "a-1.0.tgz")), tgzBytes(g.r, fs)}
		}, keep: 1,
		dict: []string{"PK\x03\x04", "\x1f\x8b\x08", "ustar\x00", "ustar  \x00", "\xff\xff\xff\xff", "\x00\x00\x00\x00", "/PKG-INFO", "install_requires =", "0000644\x00"},
		simple: func(string) [][]byte {
			return [][]byte{[]byte("a-1.0.tar.gz"), tgzBytes(rand.New(rand.NewSource(1)), []arcFile{{"a-1.0/PKG-INFO", "Name: a\n"}})}
		}, weight: 4,
		long: map[string]func(string, int) []byte{
			"tar-many-entries": func(_ string, n int) []byte {
				fs := make([]arcFile, n)
				for i := range fs {
					fs[i] = arcFile{fmt.Sprintf("a-1/f%d", i), "x"}
				}
				return join([]byte("a.tar.gz"), tgzBytes(rand.New(rand.NewSource(1)), fs))
			},
			"tar-big-setup": func(_ string, n int) []byte {
				return join([]byte("a.tgz"), tgzBytes(rand.New(rand.NewSource(2)), []arcFile{{"a-1/setup.py", strings.Repeat("install_requires ", n)}, {"a-1/PKG-INFO", "Name: a\n"}}))
			},
		},
		longNs: map[string][]int{"tar-many-entries": {5000}, "tar-big-setup": {60000}},
		run: func(x *runner, _ string, in []byte) string {
			p := splitN(in, 2)
			x.hit("pypi.SdistMetadata")
			_, err := pypi.SdistMetadata(ctx, string(p[0]), bytes.NewReader(p[1]))
			return retErr(err)
		},
	})

	// ---- util/maven ----
	register(&driver{
		name: "maven.Project.decode", systems: none, apis: []string{"maven.Project.UnmarshalXML"},
		valid: one(pomSentence), dict: xmlDict, simple: func(string) [][]byte { return bb("<project><artifactId>a</artifactId></project>") }, longParts: []int{0}, weight: 6,
		long: map[string]func(string, int) []byte{
			"pom-deep-nesting": func(_ string, n int) []byte { return []byte("<project>" + strings.Repeat("<a>", n)) },
			"pom-deep-props": func(_ string, n int) []byte {
				return []byte("<project><properties><p>" + strings.Repeat("<a>", n) + strings.Repeat("</a>", n) + "</p></properties></project>")
			},
			"pom-many-deps": func(_ string, n int) []byte {
				return []byte("<project><dependencies>" + strings.Repeat("<dependency><groupId>g</groupId><artifactId>a</artifactId></dependency>", n) + "</dependencies></project>")
			},
			"pom-many-props": func(_ string, n int) []byte {
				return []byte("<project><properties>" + strings.Repeat("<p>v</p>", n) + "</properties></project>")
			},
			"pom-long-text": func(_ string, n int) []byte {
				return []byte("<project><version>" + strings.Repeat("1.", n) + "</version></project>")
			},
			"pom-many-attrs": func(_ string, n int) []byte {
				return []byte("<project" + strings.Repeat(" a=\"b\"", n) + "></project>")
			},
			"pom-entities": func(_ string, n int) []byte {
				return []byte("<project><name>" + strings.Repeat("&amp;", n) + "</name></project>")
			},
			"pom-many-profiles": func(_ string, n int) []byte {
				return []byte("<project><profiles>" + strings.Repeat("<profile><id>p</id><activation><jdk>[1.8,)</jdk></activation></profile>", n) + "</profiles></project>")
			},
		},
		longNs: map[string][]int{"pom-deep-nesting": {9000, 100000}, "pom-deep-props": {9000, 100000}, "pom-many-deps": {10000}, "pom-many-props": {50000}, "pom-long-text": {400000}, "pom-many-attrs": {100000}, "pom-entities": {100000}, "pom-many-profiles": {5000}},
		run: func(x *runner, _ string, in []byte) string {
			var p maven.Project
			x.hit("maven.Project.UnmarshalXML")
			err := xml.Unmarshal(in, &p)
			return retErr(err)
		},
	})
	register(&driver{
		name: "maven.Metadata.decode", systems: none, apis: []string{"maven.Metadata.UnmarshalXML"},
		valid: one(mvnMetadataSentence), dict: xmlDict, simple: func(string) [][]byte { return bb("<metadata><groupId>g</groupId></metadata>") }, longParts: []int{0}, weight: 4,
		run: func(x *runner, _ string, in []byte) string {
			var m maven.Metadata
			x.hit("maven.Metadata.UnmarshalXML")
			err := xml.Unmarshal(in, &m)
			return retErr(err)
		},
	})
	register(&driver{
		name: "maven.pipeline", systems: none,
		apis: []string{"maven.Project.MergeProfiles", "maven.Project.MergeParent", "maven.Project.Interpolate", "maven.Project.ProcessDependencies",
			"maven.Dependency.Key", "maven.Dependency.Name", "maven.Dependency.ExclusionsString", "maven.String.ContainsProperty",
			"resolve.MavenDepType", "resolve.MavenDepTypeToDependency"},
		valid: func(g *genCtx, _ string) [][]byte {
			jdk := gen.Pick(g.r, maven.JDKProfileActivation, "1.8", "17", "", "11")
			if g.r.Intn(10) == 0 {
				jdk = string(hostile(g.r))
			}
			return bb(pomSentence(g.r), pomSentence(g.r), pomSentence(g.r), jdk)
		},
		dict: xmlDict, weight: 10,
		simple: func(string) [][]byte {
			return bb("<project><artifactId>a</artifactId></project>", "<project><artifactId>p</artifactId></project>", "<project><artifactId>b</artifactId></project>", "11")
		},
		long: map[string]func(string, int) []byte{
			// n parents merged one after the other (the caller's loop is cut by resolve.MaxMavenParent = 100; the library must survive any n).
			"pom-parent-chain": func(_ string, n int) []byte {
				return join([]byte("<project><parent><groupId>g</groupId><artifactId>p</artifactId><version>1</version></parent><artifactId>c</artifactId><dependencies><dependency><groupId>g</groupId><artifactId>x</artifactId><version>${v}</version></dependency></dependencies></project>"),
					[]byte("<project><parent><groupId>g</groupId><artifactId>p</artifactId><version>1</version></parent><artifactId>p</artifactId><properties><v>1</v></properties><dependencies><dependency><groupId>g</groupId><artifactId>y</artifactId><version>1</version></dependency></dependencies></project>"),
					[]byte("<project/>"), []byte(fmt.Sprintf("parents=%d", n)))
			},
			// every imported BOM imports the next one: cut by maven.MaxImports.
			"pom-import-chain": func(_ string, n int) []byte {
				bom := "<project><dependencyManagement><dependencies><dependency><groupId>g</groupId><artifactId>bom</artifactId><version>NEXT</version><type>pom</type><scope>import</scope></dependency><dependency><groupId>g</groupId><artifactId>x</artifactId><version>1</version></dependency></dependencies></dependencyManagement></project>"
				return join([]byte(bom), []byte("<project/>"), []byte(bom), []byte(fmt.Sprintf("imports=%d", n)))
			},
			"pom-placeholder-fanout": func(_ string, n int) []byte {
				return join([]byte("<project><artifactId>c</artifactId><properties><a>1</a></properties><dependencies><dependency><groupId>g</groupId><artifactId>x</artifactId><version>"+strings.Repeat("${a}", n)+"</version></dependency></dependencies></project>"), []byte("<project/>"), []byte("<project/>"), []byte("11"))
			},
			"pom-self-reference": func(_ string, n int) []byte {
				return join([]byte("<project><artifactId>c</artifactId><properties><a>${a}</a><b>${c}</b><c>${b}</c></properties><dependencies><dependency><groupId>g</groupId><artifactId>x</artifactId><version>"+strings.Repeat("${a}${b}", n)+"</version></dependency></dependencies></project>"), []byte("<project/>"), []byte("<project/>"), []byte("11"))
			},
			"pom-many-dup-deps": func(_ string, n int) []byte {
				return join([]byte("<project><artifactId>c</artifactId><dependencies>"+strings.Repeat("<dependency><groupId>g</groupId><artifactId>x</artifactId></dependency>", n)+"</dependencies></project>"), []byte("<project/>"), []byte("<project/>"), []byte("11"))
			},
		},
		longNs: map[string][]int{"pom-parent-chain": {100, 10000}, "pom-import-chain": {10000}, "pom-placeholder-fanout": {100000}, "pom-self-reference": {50000}, "pom-many-dup-deps": {10000}},
		run:    runMavenPipeline,
	})
	register(&driver{
		name: "maven.MakeProjectKey", systems: none, apis: []string{"maven.MakeProjectKey", "maven.ProjectKey.Name"},
		valid: func(g *genCtx, _ string) [][]byte {
			return bb(gen.Pick(g.r, "g:a", "org.x:y", "g", "g:a:b", ":"), gen.MavenVer(g.r))
		},
		dict: []string{":", "::", "|"}, simple: func(string) [][]byte { return bb("g:a", "1.0") }, longParts: []int{0}, weight: 2,
		run: func(x *runner, _ string, in []byte) string {
			p := splitN(in, 2)
			x.hit("maven.MakeProjectKey")
			pk, err := maven.MakeProjectKey(string(p[0]), string(p[1]))
			x.hit("maven.ProjectKey.Name")
			_ = pk.Name()
			return retErr(err)
		},
	})

	// ---- util/resolve/schema, util/resolve ----
	register(&driver{
		name: "schema.New", systems: resolveSysNames, apis: []string{"schema.New", "schema.Schema.NewClient", "schema.Schema.ValidateClient", "schema.Schema.Package"},
		valid: one(schemaSentence), dict: schemaDict, simple: func(string) [][]byte { return bb("alice\n\t1.0.0\n\t\tbob@1\n") }, longParts: []int{0}, weight: 6,
		long: map[string]func(string, int) []byte{
			"schema-many-versions": func(_ string, n int) []byte {
				var b strings.Builder
				b.WriteString("a\n")
				for i := 0; i < n; i++ {
					fmt.Fprintf(&b, "\t1.0.%d\n\t\tb@^%d\n", i, i)
				}
				return []byte(b.String())
			},
			"schema-many-pipes": func(_ string, n int) []byte { return []byte("a\n\t" + strings.Repeat("Dev|", n) + "1\n") },
			"schema-long-attr": func(_ string, n int) []byte {
				return []byte("a\n\t1\n\t\tATTR: Tags " + strings.Repeat("x ", n) + "\n")
			},
			"schema-long-type": func(_ string, n int) []byte { return []byte("a\n\t1\n\t\t" + strings.Repeat("Dev ", n) + "|b@1\n") },
			"schema-quotes": func(_ string, n int) []byte {
				return []byte("a\n\t1\n\t\tKnownAs " + strings.Repeat("\"", n) + "|b@1\n")
			},
		},
		longNs: map[string][]int{"schema-many-versions": {2000}, "schema-many-pipes": {100000}, "schema-long-attr": {100000}, "schema-long-type": {100000}, "schema-quotes": {100001}},
		run: func(x *runner, sys string, in []byte) string {
			x.hit("schema.New")
			s, err := schema.New(string(in), resolveSys[sys])
			if err != nil {
				return retErr(err)
			}
			x.hit("schema.Schema.NewClient")
			c := s.NewClient()
			x.hit("schema.Schema.ValidateClient")
			verr := s.ValidateClient(c)
			x.hit("schema.Schema.Package")
			if p := s.Package("alice"); p != nil {
				p.Version("1.0.0", resolve.Concrete)
			}
			if verr != nil {
				return "value:client-invalid"
			}
			return "value"
		},
	})
	register(&driver{
		name: "schema.ParseResolve", systems: resolveSysNames, apis: []string{"schema.ParseResolve", "resolve.Graph.String", "resolve.Graph.Canon"},
		valid: one(graphSentence), dict: schemaDict, simple: func(string) [][]byte { return bb("a 1\n\tb@1 1\n") }, longParts: []int{0}, weight: 8,
		long: map[string]func(string, int) []byte{
			// row k is indented k tabs: a chain of depth n.
			"graph-tab-chain": func(_ string, n int) []byte {
				var b strings.Builder
				b.WriteString("a 1\n")
				for i := 1; i <= n; i++ {
					b.WriteString(strings.Repeat("\t", i))
					fmt.Fprintf(&b, "p%d@1 1\n", i)
				}
				return []byte(b.String())
			},
			"graph-art-prefix": func(_ string, n int) []byte { return []byte("a 1\n" + strings.Repeat("│  ", n) + "└─ b@1 1\n") },
			"graph-spaces":     func(_ string, n int) []byte { return []byte("a 1\n" + strings.Repeat("   ", n) + "b@1 1\n") },
			"graph-wide":       func(_ string, n int) []byte { return []byte("a 1\n" + strings.Repeat("\tb@1 1\n", n)) },
			"graph-wide-distinct": func(_ string, n int) []byte {
				var b strings.Builder
				b.WriteString("a 1\n")
				for i := 0; i < n; i++ {
					fmt.Fprintf(&b, "\tp%d@1 1\n", i)
				}
				return []byte(b.String())
			},
			"graph-labels": func(_ string, n int) []byte { return []byte("1: a 1\n" + strings.Repeat("\t$1@*\n", n)) },
			"graph-errors": func(_ string, n int) []byte {
				return []byte("a 1\n" + strings.Repeat("\tb@1 ERROR: x\n", n) + strings.Repeat("ERROR: y\n", n))
			},
			"graph-label-colons": func(_ string, n int) []byte { return []byte(strings.Repeat("a: ", n) + "a 1\n") },
		},
		longNs: map[string][]int{"graph-tab-chain": {1000}, "graph-art-prefix": {30000}, "graph-spaces": {50000}, "graph-wide": {20000}, "graph-wide-distinct": {5000}, "graph-labels": {20000}, "graph-errors": {10000}, "graph-label-colons": {100000}},
		run: func(x *runner, sys string, in []byte) string {
			x.hit("schema.ParseResolve")
			g, err := schema.ParseResolve(string(in), resolveSys[sys])
			if err != nil {
				return retErr(err)
			}
			x.hit("resolve.Graph.String")
			txt := g.String()
			x.hit("resolve.Graph.Canon")
			if err := g.Canon(); err != nil {
				return "value:recanon-" + retErr(err)
			}
			// The printed graph is text for ParseResolve.
			x.hit("schema.ParseResolve")
			if _, err := schema.ParseResolve(txt, resolveSys[sys]); err != nil {
				return "value:printed-unparsable"
			}
			return "value"
		},
	})
	register(&driver{
		name: "resolve.Graph.Canon", systems: resolveSysNames, apis: []string{"resolve.Graph.Canon", "resolve.Graph.String", "resolve.Graph.AddEdge", "resolve.Graph.AddError"},
		valid: func(g *genCtx, sys string) [][]byte {
			// A byte program: see run.
			n := 2 + g.r.Intn(40)
			b := make([]byte, n)
			for i := range b {
				b[i] = byte(g.r.Intn(256))
				if g.r.Intn(3) == 0 {
					b[i] = byte(g.r.Intn(6))
				}
			}
			return [][]byte{b}
		},
		simple: func(string) [][]byte { return [][]byte{{0, 1, 2, 0, 1, 3}} }, weight: 3,
		run: func(x *runner, sys string, in []byte) string {
			g := &resolve.Graph{}
			names := []string{"a", "b", "a", "\xff", "", "@s/x"}
			vers := []string{"1", "2", "1", "", "\x00", "1.0.0-a"}
			pk := func(b byte) resolve.VersionKey {
				return resolve.VersionKey{PackageKey: resolve.PackageKey{System: resolveSys[sys], Name: names[int(b)%len(names)]}, VersionType: resolve.Concrete, Version: vers[int(b>>3)%len(vers)]}
			}
			g.AddNode(pk(0))
			ret := "value"
			for i := 0; i+2 < len(in); i += 3 {
				op, a, b := in[i]%4, in[i+1], in[i+2]
				switch op {
				case 0:
					g.AddNode(pk(a ^ b))
				case 1, 2:
					// Deliberately also out-of-range ids: AddEdge has to answer with an error.
					var t dep.Type
					if b&1 == 1 {
						t.AddAttr(dep.Dev, "")
					}
					x.hit("resolve.Graph.AddEdge")
					if err := g.AddEdge(resolve.NodeID(int(a)%(len(g.Nodes)+1)), resolve.NodeID(int(b)%(len(g.Nodes)+1)), string(in[i:i+1]), t); err != nil {
						ret = "value:edge-rejected"
					}
				case 3:
					x.hit("resolve.Graph.AddError")
					g.AddError(resolve.NodeID(int(a)%(len(g.Nodes)+1)), pk(b), "err")
				}
			}
			x.hit("resolve.Graph.Canon")
			err := g.Canon()
			x.hit("resolve.Graph.String")
			_ = g.String()
			if err != nil {
				return retErr(err)
			}
			return ret
		},
	})
	verList := func(g *genCtx, sys string) [][]byte {
		parts := [][]byte{[]byte(reqSentence(g.r, sys))}
		for i := g.r.Intn(6); i >= 0; i-- {
			v := concreteSentence(g.r, sys)
			if g.r.Intn(6) == 0 {
				v = string(hostile(g.r))
			}
			parts = append(parts, []byte(v))
		}
		return parts
	}
	mkVersions := func(sys string, p [][]byte) []resolve.Version {
		vs := make([]resolve.Version, 0, len(p))
		for i, s := range p {
			v := resolve.Version{VersionKey: resolve.VersionKey{PackageKey: resolve.PackageKey{System: resolveSys[sys], Name: "p"}, VersionType: resolve.Concrete, Version: string(s)}}
			// Tags come from the text too: "1.0.0#latest,next".
			if j := bytes.IndexByte(s, '#'); j >= 0 {
				v.Version = string(s[:j])
				v.SetAttr(version.Tags, string(s[j+1:]))
			}
			if i%5 == 4 {
				v.SetAttr(version.Blocked, "")
			}
			vs = append(vs, v)
		}
		return vs
	}
	register(&driver{
		name: "resolve.MatchRequirement", systems: append([]string{"Unknown"}, resolveSysNames...), apis: []string{"resolve.MatchRequirement"},
		valid: verList, dict: append([]string{"#latest", "#", ",", "latest", "\x1e"}, semverDict...),
		simple: func(sys string) [][]byte { return bb(simpleReq(sys), "1.0.0", "2.0.0") }, longParts: []int{0, 1}, weight: 3,
		run: func(x *runner, sys string, in []byte) string {
			p := bytes.Split(in, []byte{sep})
			req := resolve.VersionKey{PackageKey: resolve.PackageKey{System: resolveSys[sys], Name: "p"}, VersionType: resolve.Requirement, Version: string(p[0])}
			vs := mkVersions(sys, p[1:])
			x.hit("resolve.MatchRequirement")
			out := resolve.MatchRequirement(req, vs)
			if len(out) == 0 {
				return "value:none"
			}
			return "value:some"
		},
	})
	register(&driver{
		name: "resolve.SortVersions", systems: append([]string{"Unknown"}, resolveSysNames...), apis: []string{"resolve.SortVersions", "resolve.SortDependencies", "resolve.SortVersionKeys"},
		valid: func(g *genCtx, sys string) [][]byte { return verList(g, sys)[1:] }, dict: semverDict,
		simple: func(sys string) [][]byte { return bb("1.0.0", "2.0.0") }, longParts: []int{0}, weight: 3,
		run: func(x *runner, sys string, in []byte) string {
			p := bytes.Split(in, []byte{sep})
			vs := mkVersions(sys, p)
			x.hit("resolve.SortVersions")
			resolve.SortVersions(vs)
			deps := make([]resolve.RequirementVersion, len(p))
			keys := make([]resolve.VersionKey, len(p))
			for i, s := range p {
				var t dep.Type
				if i%3 == 1 {
					t.AddAttr(dep.Dev, "")
				}
				if i%4 == 2 {
					t.AddAttr(dep.KnownAs, string(s))
				}
				deps[i] = resolve.RequirementVersion{VersionKey: resolve.VersionKey{PackageKey: resolve.PackageKey{System: resolveSys[sys], Name: string(s)}, VersionType: resolve.Requirement, Version: string(s)}, Type: t}
				keys[i] = deps[i].VersionKey
			}
			x.hit("resolve.SortDependencies")
			resolve.SortDependencies(deps)
			x.hit("resolve.SortVersionKeys")
			resolve.SortVersionKeys(keys)
			return "value"
		},
	})
	register(&driver{
		name: "resolve.MavenDepTypeToDependency", systems: none, apis: []string{"resolve.MavenDepTypeToDependency"},
		valid: func(g *genCtx, _ string) [][]byte {
			return bb(gen.Pick(g.r, "g:a", "g:a|h:b", "*:*", "g:*|*:a", ""), gen.Pick(g.r, "", "provided", "runtime", "test"), gen.Pick(g.r, "", "sources"), gen.Pick(g.r, "", "pom", "war"), gen.Pick(g.r, "", "management", "import", "parent"), gen.Pick(g.r, "", "o", "t", "ot"))
		},
		dict: []string{":", "|", "||", "::", "*"}, simple: func(string) [][]byte { return bb("g:a", "", "", "", "", "") }, longParts: []int{0}, weight: 2,
		run: func(x *runner, _ string, in []byte) string {
			p := splitN(in, 6)
			var t dep.Type
			add := func(k dep.AttrKey, v []byte) {
				if len(v) > 0 {
					t.AddAttr(k, string(v))
				}
			}
			add(dep.MavenExclusions, p[0])
			add(dep.Scope, p[1])
			add(dep.MavenClassifier, p[2])
			add(dep.MavenArtifactType, p[3])
			add(dep.MavenDependencyOrigin, p[4])
			if bytes.Contains(p[5], []byte("o")) {
				t.AddAttr(dep.Opt, "")
			}
			if bytes.Contains(p[5], []byte("t")) {
				t.AddAttr(dep.Test, "")
			}
			x.hit("resolve.MavenDepTypeToDependency")
			d, o, err := resolve.MavenDepTypeToDependency(t)
			if err != nil {
				return retErr(err)
			}
			x.hit("resolve.MavenDepType")
			resolve.MavenDepType(d, o)
			return "value"
		},
	})
}

func simpleReq(sys string) string {
	switch sys {
	case "Maven":
		return "[1.0,2.0)"
	case "PyPI":
		return ">=1.0"
	}
	return "^1.0.0"
}

// runMavenPipeline: child pom SEP parent pom SEP imported pom SEP jdk (or
// "parents=N" / "imports=N" for the chain shapes).
func runMavenPipeline(x *runner, _ string, in []byte) string {
	p := splitN(in, 4)
	var proj, parent, bom maven.Project
	x.hit("maven.Project.UnmarshalXML")
	if err := xml.Unmarshal(p[0], &proj); err != nil {
		return "skip"
	}
	// A broken parent or bom is simply empty.
	x.hit("maven.Project.UnmarshalXML")
	if xml.Unmarshal(p[1], &parent) != nil {
		parent = maven.Project{}
	}
	x.hit("maven.Project.UnmarshalXML")
	if xml.Unmarshal(p[2], &bom) != nil {
		bom = maven.Project{}
	}
	jdk := string(p[3])
	parents, imports := 1, 0
	if _, err := fmt.Sscanf(jdk, "parents=%d", &parents); err == nil {
		jdk = maven.JDKProfileActivation
	} else if _, err := fmt.Sscanf(jdk, "imports=%d", &imports); err == nil {
		jdk = maven.JDKProfileActivation
		parents = 1
	} else {
		parents = 1
	}
	if parents > 20000 {
		parents = 20000
	}
	ret := "value"
	x.hit("maven.Project.MergeProfiles")
	if err := proj.MergeProfiles(jdk, maven.OSProfileActivation); err != nil {
		ret = "value:profile-" + retErr(err)
	}
	x.hit("maven.Project.MergeProfiles")
	parent.MergeProfiles(jdk, maven.ActivationOS{})
	for i := 0; i < parents; i++ {
		x.hit("maven.Project.MergeParent")
		proj.MergeParent(parent)
	}
	// The termination clause is claimed for interpolation tables of at most 8
	// properties with at most 3 placeholders per value (DESIGN section 8: an
	// exponential-but-finite expansion of larger tables is not claimed either way).
	tableOK := len(proj.Properties.Properties) <= 8*(1+min(parents, 4))
	distinct := map[string]bool{}
	for _, pr := range proj.Properties.Properties {
		distinct[pr.Name] = true
		if strings.Count(pr.Value, "${") > 3 {
			tableOK = false
		}
	}
	if len(distinct) > 8 {
		tableOK = false
	}
	if tableOK {
		x.hit("maven.Project.Interpolate")
		if err := proj.Interpolate(); err != nil {
			ret = "value:interpolate-" + retErr(err)
		}
	} else {
		x.feature("maven:interpolate-skipped-large-table")
	}
	calls := 0
	x.hit("maven.Project.ProcessDependencies")
	proj.ProcessDependencies(func(g, a, v maven.String) (maven.DependencyManagement, error) {
		calls++
		if calls > 100000 {
			panic("c04 harness: ProcessDependencies asked for more than 100000 imports")
		}
		if g == "" && calls%3 == 0 {
			return maven.DependencyManagement{}, fmt.Errorf("not found")
		}
		dm := maven.DependencyManagement{Dependencies: append([]maven.Dependency(nil), bom.DependencyManagement.Dependencies...)}
		if imports > 0 {
			// Every import is a fresh coordinate: only MaxImports stops the chain.
			for i := range dm.Dependencies {
				if dm.Dependencies[i].Scope == "import" {
					dm.Dependencies[i].Version = maven.String(fmt.Sprintf("%d", calls))
				}
			}
		}
		return dm, nil
	})
	if calls > maven.MaxImports {
		return "value:imports-over-bound"
	}
	if calls > 0 {
		x.feature("maven:imports-followed")
	}
	for i := range proj.Dependencies {
		if i >= 200 {
			break
		}
		d := proj.Dependencies[i]
		x.hit("maven.Dependency.Key")
		d.Key()
		x.hit("maven.Dependency.Name")
		_ = d.Name()
		x.hit("maven.Dependency.ExclusionsString")
		_ = d.ExclusionsString()
		x.hit("maven.String.ContainsProperty")
		d.Version.ContainsProperty()
		d.Optional.Boolean()
		x.hit("resolve.MavenDepType")
		t := resolve.MavenDepType(d, string(d.Classifier))
		x.hit("resolve.MavenDepTypeToDependency")
		resolve.MavenDepTypeToDependency(t)
	}
	return ret
}
