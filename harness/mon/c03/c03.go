// Package c03 is the differential monitor for constraint matching: every
// generated (requirement, candidate) pair is answered by the library and by
// the ecosystem's own implementation.
package c03

import (
	"fmt"
	"math/rand"
	"sync"

	"deps.dev/util/resolve"
	"deps.dev/util/semver"
	"verif/harness/ev"
	"verif/harness/gen"
	"verif/harness/ref"
)

type eco struct {
	name     string
	sys      semver.System
	rsys     resolve.System
	genRange func(*rand.Rand) string
	genCand  func(*rand.Rand) string
	adapter  *ref.Adapter
	minN     int
	maxN     int
	pre      []string
	candOK   func(string) bool
	selftest [][2]string
}

func pypiFinalNonZero(s string) bool {
	nz := false
	for _, c := range s {
		switch {
		case c == '.':
		case c >= '0' && c <= '9':
			if c != '0' {
				nz = true
			}
		default:
			return false
		}
	}
	return nz
}

func ecos() []eco {
	return []eco{
		{name: "npm", sys: semver.NPM, rsys: resolve.NPM, genRange: gen.PadSpace(gen.BothPrerelease(gen.SameLower(gen.NPMRange, " "), " ")), genCand: func(r *rand.Rand) string { return gen.SemFull(r, true) },
			adapter: ref.Node, minN: 3, maxN: 3, pre: []string{"-0", "-alpha", "-rc.1"},
			selftest: [][2]string{{ref.Q("sat", "^1.2.3", "1.9.0"), "1"}, {ref.Q("sat", "^1.2.3", "2.0.0"), "0"}, {ref.Q("sat", ">=1.0.0 <2.0.0 || 3.x", "3.4.5"), "1"}, {ref.Q("sat", "1.2.3 - 2", "2.9.9"), "1"}, {ref.Q("sat", "~1.2", "1.3.0"), "0"}, {ref.Q("sat", "not a range", "1.0.0"), "ER"}}},
		{name: "cargo", sys: semver.Cargo, genRange: gen.PadSpace(gen.BothPrerelease(gen.SameLower(gen.CargoReq, ", "), ", ")), genCand: func(r *rand.Rand) string { return gen.SemFull(r, true) },
			adapter: ref.Rust, minN: 3, maxN: 3, pre: []string{"-0", "-alpha", "-rc.1"},
			selftest: [][2]string{{ref.Q("sat", "1.2.3", "1.9.0"), "1"}, {ref.Q("sat", "1.2.3", "2.0.0"), "0"}, {ref.Q("sat", ">=1.0.0, <2.0.0", "1.4.5"), "1"}, {ref.Q("sat", "~1.2", "1.3.0"), "0"}, {ref.Q("sat", "0.0", "0.0.7"), "1"}}},
		{name: "pypi", sys: semver.PyPI, rsys: resolve.PyPI, genRange: gen.PadSpace(gen.PyPISpec), genCand: gen.PyPIFinal,
			adapter: ref.Py, minN: 1, maxN: 4, pre: nil, candOK: pypiFinalNonZero,
			selftest: [][2]string{{ref.Q("sat", ">=1.0,<2.0", "1.5"), "1"}, {ref.Q("sat", "~=1.4.2", "1.5.0"), "0"}, {ref.Q("sat", "==1.4.*", "1.4.9"), "1"}, {ref.Q("sat", "!=1.4.*", "1.4.9"), "0"}, {ref.Q("sat", ">1.7", "1.7.1"), "1"}}},
		{name: "maven", sys: semver.Maven, rsys: resolve.Maven, genRange: gen.MavenSpec, genCand: gen.MavenVer,
			adapter: ref.Maven, minN: 1, maxN: 3, pre: []string{"-alpha", "-SNAPSHOT", "-sp"},
			selftest: [][2]string{{ref.Q("sat", "[1.0,2.0)", "1.5"), "1"}, {ref.Q("sat", "[1.0,2.0)", "2.0"), "0"}, {ref.Q("sat", "(,1.0],[1.2,)", "1.1"), "0"}, {ref.Q("sat", "1.0", "7"), "1"}, {ref.Q("sat", "[1.5]", "1.5"), "1"}}},
	}
}

// Case is what a replay file and a witness hold.
type Case struct {
	Eco   string   `json:"eco"`
	Range string   `json:"range"`
	Cands []string `json:"cands"`
	Note  string   `json:"note,omitempty"`
}

func Run(r *ev.Run, replay string) {
	r.MaxSamples = 12
	r.Rule = "per ecosystem (npm, Cargo, PyPI, Maven): R distinct generated requirement strings x (boundary candidates derived from the literals in the requirement + background candidates); each (requirement, candidate) pair is answered by the library through (*Constraint).Match, MatchVersion and resolve.MatchRequirement on a one-element list, and by the reference (node-semver satisfies, Rust VersionReq::matches, packaging SpecifierSet.contains, Maven VersionRange.containsVersion / soft version). A requirement the reference matches against >=1 candidate must not be rejected by ParseConstraint. Non-trivial = distinct (requirement, candidate) pair from a requirement that matches some but not all of its candidates in the reference."
	r.Assumptions = []string{"reference adapters trusted after self-test", "PyPI candidates are final releases with non-zero release segment; Maven candidates compare >= 0 in the reference (the property's quantifier)"}
	es := ecos()
	if replay != "" {
		var c struct {
			Case Case `json:"case"`
		}
		if err := ev.ReadJSON(replay, &c); err != nil {
			r.Inconclusive("replay unreadable")
			return
		}
		for _, e := range es {
			if e.name == c.Case.Eco {
				check(r, e, []Case{c.Case})
			}
		}
		return
	}
	var wit []Case
	if err := ev.ReadJSON(ev.Root+"/witnesses/C03.json", &wit); err != nil {
		r.Inconclusive("witnesses/C03.json: " + err.Error())
	}
	nRanges := r.N(2500, 4000)
	shards := r.N(1, 24)
	modes := map[string]string{}
	var wg sync.WaitGroup
	sem := make(chan struct{}, 12)
	for _, e := range es {
		ver, err := e.adapter.SelfTest(e.selftest)
		if err != nil {
			r.Inconclusive(err.Error())
			continue
		}
		modes[e.name] = "live: " + ver
		var w []Case
		for _, c := range wit {
			if c.Eco == e.name {
				w = append(w, c)
			}
		}
		if len(w) > 0 {
			check(r, e, w)
			r.Count("witness_cases", int64(len(w)))
		}
		for sh := 0; sh < shards; sh++ {
			wg.Add(1)
			sem <- struct{}{}
			go func(e eco, sh int) {
				defer wg.Done()
				defer func() { <-sem }()
				rng := r.Rand(fmt.Sprintf("%s/%d", e.name, sh))
				check(r, e, generate(e, rng, nRanges))
			}(e, sh)
		}
	}
	wg.Wait()
	r.Set("reference_mode", modes)
	for _, e := range es {
		r.Gate("nontrivial_pairs:"+e.name, 5000)
		r.Gate("ranges_compared:"+e.name, int64(nRanges*shards/3))
	}
}

func generate(e eco, rng *rand.Rand, n int) []Case {
	seen := map[string]bool{}
	var bg []string
	for len(bg) < 40 {
		c := e.genCand(rng)
		if !seen[c] {
			seen[c] = true
			bg = append(bg, c)
		}
	}
	rs := map[string]bool{}
	var out []Case
	for tries := 0; len(out) < n && tries < n*50; tries++ {
		rg := e.genRange(rng)
		if rs[rg] {
			continue
		}
		rs[rg] = true
		cands := gen.Boundary(rg, e.minN, e.maxN, e.pre)
		if len(cands) > 60 {
			rng.Shuffle(len(cands), func(i, j int) { cands[i], cands[j] = cands[j], cands[i] })
			cands = cands[:60]
		}
		have := map[string]bool{}
		for _, c := range cands {
			have[c] = true
		}
		for _, c := range bg {
			if !have[c] {
				cands = append(cands, c)
			}
		}
		if e.candOK != nil {
			k := 0
			for _, c := range cands {
				if e.candOK(c) {
					cands[k] = c
					k++
				}
			}
			cands = cands[:k]
		}
		out = append(out, Case{Eco: e.name, Range: rg, Cands: cands})
	}
	return out
}

func rv(sys resolve.System, vt resolve.VersionType, v string) resolve.VersionKey {
	return resolve.VersionKey{PackageKey: resolve.PackageKey{System: sys, Name: "p"}, VersionType: vt, Version: v}
}

var sampled sync.Map

func check(r *ev.Run, e eco, cases []Case) {
	// Maven: candidates below 0 are out of the quantifier; ask the reference.
	if e.name == "maven" {
		var qs []string
		for _, c := range cases {
			for _, v := range c.Cands {
				qs = append(qs, ref.Q("cmp", v, "0"))
			}
		}
		ans, err := e.adapter.Batch(qs)
		if err != nil {
			r.Inconclusive(err.Error())
			return
		}
		k := 0
		for i := range cases {
			var keep []string
			for _, v := range cases[i].Cands {
				if ans[k] == "0" || ans[k] == "1" {
					keep = append(keep, v)
				}
				k++
			}
			cases[i].Cands = keep
		}
	}
	var qs []string
	for _, c := range cases {
		for _, v := range c.Cands {
			qs = append(qs, ref.Q("sat", c.Range, v))
		}
	}
	ans, err := e.adapter.Batch(qs)
	if err != nil {
		r.Inconclusive(err.Error())
		return
	}
	k := 0
	var pend pendList
	for _, c := range cases {
		a := ans[k : k+len(c.Cands)]
		k += len(c.Cands)
		checkOne(r, e, c, a, &pend)
	}
	classify(r, e, pend.items)
}

func checkOne(r *ev.Run, e eco, c Case, ans []string, pend *pendList) {
	defer func() {
		if p := recover(); p != nil {
			r.Violation("C03:"+e.name+":panic", fmt.Sprintf("%s: panic on %q: %v", e.name, c.Range, p), c)
		}
	}()
	refOK := true
	nTrue, nFalse := 0, 0
	for _, a := range ans {
		switch a {
		case "ER":
			refOK = false
		case "1":
			nTrue++
		case "0":
			nFalse++
		}
	}
	if !refOK {
		r.Count("ref_rejects_range:"+e.name, 1)
		return
	}
	con, err := e.sys.ParseConstraint(c.Range)
	r.Eval(1)
	if err != nil {
		r.Count("lib_rejects_range:"+e.name, 1)
		if nTrue > 0 {
			first := ""
			for i, a := range ans {
				if a == "1" {
					first = c.Cands[i]
					break
				}
			}
			pend.add(pending{kind: "reject", c: c, ans: ans, v: first, what: fmt.Sprintf("%s: %q is rejected (%v) but the reference matches it against %q", e.name, c.Range, err, first)})
		}
		return
	}
	r.Count("ranges_compared:"+e.name, 1)
	nontrivial := nTrue > 0 && nFalse > 0
	reported := false
	for i, v := range c.Cands {
		a := ans[i]
		if a != "0" && a != "1" {
			r.Count("ref_rejects_candidate:"+e.name, 1)
			continue
		}
		want := a == "1"
		pv, perr := e.sys.Parse(v)
		if perr != nil {
			r.Count("lib_rejects_candidate:"+e.name, 1)
			continue
		}
		got := con.Match(v)
		got2 := con.MatchVersion(pv)
		r.Eval(1)
		if nontrivial {
			r.Nontrivial(e.name + "\x00" + c.Range + "\x00" + v)
			r.Count("nontrivial_pairs:"+e.name, 1)
		}
		if got != got2 && !reported {
			reported = true
			r.Violation("C03:"+e.name+":match-vs-matchversion", fmt.Sprintf("%s: %q Match(%q)=%v but MatchVersion=%v", e.name, c.Range, v, got, got2), Case{Eco: e.name, Range: c.Range, Cands: []string{v}})
		}
		if got != want && !reported {
			reported = true
			pend.add(pending{kind: "match", c: c, v: v, want: want, what: fmt.Sprintf("%s: %q vs %q: library %v, reference %v (set %s)", e.name, c.Range, v, got, want, con.Set().String())})
		}
		if e.rsys != resolve.UnknownSystem {
			ms := resolve.MatchRequirement(rv(e.rsys, resolve.Requirement, c.Range), []resolve.Version{{VersionKey: rv(e.rsys, resolve.Concrete, v)}})
			if (len(ms) == 1) != want && !reported {
				reported = true
				r.Violation("C03:"+e.name+":MatchRequirement:generic", fmt.Sprintf("%s: resolve.MatchRequirement(%q, [%q]) returned %d versions, reference says %v", e.name, c.Range, v, len(ms), want), Case{Eco: e.name, Range: c.Range, Cands: []string{v}})
			}
		}
	}
	if _, done := sampled.LoadOrStore(e.name+fmt.Sprint(nontrivial), true); !done && nontrivial {
		r.Sample(map[string]any{"eco": e.name, "range": c.Range, "candidates": c.Cands[:min(6, len(c.Cands))], "reference": ans[:min(6, len(ans))]})
	}
}

type pending struct {
	kind string // "reject" or "match"
	c    Case
	ans  []string
	v    string
	want bool
	what string
}

type pendList struct{ items []pending }

func (p *pendList) add(x pending) { p.items = append(p.items, x) }
