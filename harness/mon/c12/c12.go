// Package c12 monitors resolve.MatchRequirement over version lists: exact
// membership, the stated order, and invariance under permutation of the list.
package c12

import (
	"context"
	"fmt"
	"math/rand"
	"sort"
	"strings"
	"sync"

	"deps.dev/util/resolve"
	"deps.dev/util/resolve/version"
	"deps.dev/util/semver"
	"verif/harness/ev"
	"verif/harness/gen"
	"verif/harness/model"
)

type Ver = model.Ver

type Case struct {
	Sys  string `json:"sys"`
	Req  string `json:"req"`
	List []Ver  `json:"list"`
}

type sysgen struct {
	name string
	sys  resolve.System
	ver  func(*rand.Rand) string
	req  func(*rand.Rand, []Ver) string
}

func systems() []sysgen {
	npmVer := func(r *rand.Rand) string {
		switch r.Intn(12) {
		case 0, 3:
			return gen.Pick(r, "junk", "zzz", "not.a.version", "latest-ish", "Z", "1.0.0.0.0", "nightly", "weekly")
		case 1:
			return "v" + gen.SemFull(r, false)
		case 2:
			return gen.SemFull(r, false) + "+" + gen.Pick(r, "b", "1", "build.2")
		}
		return gen.SemFull(r, true)
	}
	fromList := func(r *rand.Rand, l []Ver) string { return l[r.Intn(len(l))].V }
	return []sysgen{
		{"NPM", resolve.NPM, npmVer, func(r *rand.Rand, l []Ver) string {
			switch r.Intn(10) {
			case 0:
				return gen.Pick(r, "latest", "next", "beta", "missing-tag", "next-major", "latest-rc")
			case 1:
				return fromList(r, l)
			case 2:
				return gen.Pick(r, "junk", "zzz", "garbage!", "")
			case 3:
				return gen.Pick(r, ">=", "<=", ">", "^") + fromList(r, l)
			case 4:
				return "*"
			}
			return gen.NPMRange(r)
		}},
		{"Maven", resolve.Maven, func(r *rand.Rand) string {
			s := gen.MavenVer(r)
			if r.Intn(15) == 0 {
				// Letters and digits outside ASCII: to Maven every string is a
				// version; here such characters are qualifier text.
				switch r.Intn(3) {
				case 0:
					if i := strings.IndexAny(s, "0123456789"); i >= 0 {
						s = s[:i] + gen.Pick(r, "\u0663", "\uff12", "\u0967") + s[i+1:]
					}
				case 1:
					s += gen.Pick(r, "-\u03b2", ".\u00e9", "-\u0663", "\u0663")
				default:
					s = gen.Pick(r, "1.\u0663", "1.1\u0663", "\uff12.0", "1.0-\u03b2eta")
				}
			}
			return s
		}, func(r *rand.Rand, l []Ver) string {
			if r.Intn(8) == 0 {
				return "[" + fromList(r, l) + "]"
			}
			return gen.MavenSpec(r)
		}},
		{"PyPI", resolve.PyPI, func(r *rand.Rand) string {
			if r.Intn(3) == 0 {
				return gen.PyPI(r)
			}
			return gen.PyPIFinal(r)
		}, func(r *rand.Rand, l []Ver) string {
			switch r.Intn(10) {
			case 0:
				return ""
			case 1:
				return "==" + fromList(r, l)
			}
			return gen.PyPISpec(r)
		}},
	}
}

func Run(r *ev.Run, replay string) {
	r.MaxSamples = 6
	r.Rule = "per system (NPM, Maven, PyPI): generated (requirement, list of 1-12 version records) with valid, prerelease, latest-tagged, other-tagged and (NPM) unparsable versions; Maven/PyPI lists tie-free. MatchRequirement is called on a fresh copy of the identity, the reverse and 10 random permutations, and through LocalClient.AddVersion (in that permutation) + MatchingVersions. Oracle: (i) result set == {v : MatchRequirement(q,[v]) non-empty}; (ii) sequence == model order (ascending by the system's comparison, NPM: parsable before unparsable, ties by string, latest moved last unless it is a prerelease while the list has non-prereleases); (iii) all permutations give the same sequence. Non-trivial = distinct (requirement, list) with >=2 matches and >=1 non-match."
	r.Assumptions = []string{"membership oracle is the library's own single-version matching, which C03 compares with the ecosystems' tools", "order oracle uses the library's comparison, which C02 compares with the ecosystems' tools", "a dist-tag names at most one version of a list"}
	if replay != "" {
		var c struct {
			Case Case `json:"case"`
		}
		if err := ev.ReadJSON(replay, &c); err != nil {
			r.Inconclusive("replay unreadable")
			return
		}
		for _, sg := range systems() {
			if sg.name == c.Case.Sys {
				one(r, sg, c.Case, r.Rand("replay"))
			}
		}
		return
	}
	var wit []Case
	if err := ev.ReadJSON(ev.Root+"/witnesses/C12.json", &wit); err != nil {
		r.Inconclusive("witnesses/C12.json: " + err.Error())
	}
	n := r.N(8000, 80000)
	var wg sync.WaitGroup
	for _, sg := range systems() {
		for _, w := range wit {
			if w.Sys == sg.name {
				one(r, sg, w, r.Rand("witness"))
				r.Count("witness_cases", 1)
			}
		}
		for sh := 0; sh < 4; sh++ {
			wg.Add(1)
			go func(sg sysgen, sh int) {
				defer wg.Done()
				rng := r.Rand(fmt.Sprintf("%s/%d", sg.name, sh))
				for i := 0; i < n/4; i++ {
					one(r, sg, generate(sg, rng), rng)
				}
			}(sg, sh)
		}
	}
	wg.Wait()
	pypiExclusiveBounds(r)
	rejectedMu.Lock()
	r.Count("maven_versions_rejected", int64(len(rejectedGlobal)))
	seenRej := map[string]bool{}
	for _, s := range rejectedGlobal {
		if seenRej[s] || len(seenRej) >= 3 {
			continue
		}
		seenRej[s] = true
		_, err := semver.Maven.Parse(s)
		r.Violation("C12:Maven:version-rejected", fmt.Sprintf("Maven: the generated version %q (to Maven every string is a version) is rejected by Parse (%v): it is dropped from every match result and cannot be ordered", s, err), Case{Sys: "Maven", Req: "(,)", List: []Ver{{V: s}, {V: "1.0"}}})
	}
	rejectedMu.Unlock()
	for _, sg := range systems() {
		r.Gate("nontrivial:"+sg.name, int64(n/20))
		r.Gate("perm_differs_from_identity:"+sg.name, int64(n/4))
	}
	r.Gate("npm:latest-moved", 50)
	r.Gate("npm:latest-prerelease-kept", 10)
	r.Gate("npm:unparsable-in-result", 20)
	r.Gate("npm:non-range-requirement", 50)
}

// rejected collects generated Maven versions the library refuses to parse.
var (
	rejectedMu     sync.Mutex
	rejectedGlobal []string
)

func generate(sg sysgen, rng *rand.Rand) Case {
	c := generate1(sg, rng)
	return c
}

func generate1(sg sysgen, rng *rand.Rand) Case {
	var rejected []string
	defer func() {
		if len(rejected) > 0 {
			rejectedMu.Lock()
			rejectedGlobal = append(rejectedGlobal, rejected...)
			rejectedMu.Unlock()
		}
	}()
	n := 1 + rng.Intn(12)
	sys := sg.sys.Semver()
	var list []Ver
	seen := map[string]bool{}
	var parsed []*semver.Version
	for tries := 0; len(list) < n && tries < 200; tries++ {
		s := sg.ver(rng)
		if seen[s] {
			continue
		}
		seen[s] = true
		v, err := sys.Parse(s)
		if err != nil && sg.name == "Maven" {
			// To Maven every string is a version, and the generator writes
			// nothing but Maven versions: a rejected one cannot take part in
			// any list, which is reported rather than skipped.
			rejected = append(rejected, s)
			continue
		}
		if err != nil && sg.name != "NPM" {
			continue
		}
		if err == nil && v.IsWildcard() {
			continue
		}
		if sg.name != "NPM" {
			tie := false
			for _, p := range parsed {
				if p.Compare(v) == 0 {
					tie = true
					break
				}
			}
			if tie {
				continue
			}
			parsed = append(parsed, v)
		}
		list = append(list, Ver{V: s})
	}
	if sg.name == "NPM" {
		if k := rng.Intn(len(list) + 2); k < len(list) {
			list[k].Tags = "latest"
		}
		// Tags that contain another tag's text ("next-major" vs "next",
		// "not-latest" vs "latest"): a tag is matched whole, not as a substring.
		for _, t := range []string{"next-major", "next", "beta", "not-latest", "latest-rc", "Latest", "LATEST", "latest-2"} {
			if rng.Intn(5) == 0 {
				k := rng.Intn(len(list))
				if list[k].Tags == "" {
					list[k].Tags = t
				} else {
					list[k].Tags += "," + t
				}
			}
		}
	}
	if sg.name == "NPM" && rng.Intn(10) == 0 {
		// Stratum: "latest" at the head, in the middle and at the tail of a
		// tag list of three, on a version that is not the greatest.
		k := rng.Intn(len(list))
		for j := range list {
			list[j].Tags = strings.Trim(strings.ReplaceAll(","+list[j].Tags+",", ",latest,", ","), ",")
		}
		list[k].Tags = gen.Pick(rng, "current,latest,lts", "latest,current,lts", "current,lts,latest", "a,latest,b", "lts,latest,latest-rc")
	}
	if sg.name == "NPM" && rng.Intn(12) == 0 {
		// Stratum: a version carrying a tag whose text contains the requested tag.
		k := rng.Intn(len(list))
		pair := [][2]string{{"next-major", "next"}, {"latest-rc", "latest"}, {"beta2", "beta"}}[rng.Intn(3)]
		for j := range list {
			list[j].Tags = ""
		}
		list[k].Tags = pair[0] + "," + pair[1]
		if rng.Intn(2) == 0 {
			list[k].Tags = pair[1] + "," + pair[0]
		}
		return Case{Sys: sg.name, Req: pair[1], List: list}
	}
	if sg.name == "NPM" && rng.Intn(8) == 0 {
		// Stratum: latest on a prerelease, with a requirement that admits it.
		for k, v := range list {
			if pv, err := semver.NPM.Parse(v.V); err == nil && pv.IsPrerelease() {
				for j := range list {
					list[j].Tags = strings.Trim(strings.ReplaceAll(","+list[j].Tags+",", ",latest,", ","), ",")
				}
				list[k].Tags = strings.Trim("latest,"+list[k].Tags, ",")
				// Requirements that admit the prerelease: some also admit later
				// releases, some only prereleases of the same version (then
				// whether the list has releases elsewhere decides the order).
				base := strings.SplitN(v.V, "-", 2)[0]
				req := gen.Pick(rng, ">="+v.V, ">="+v.V, "^"+v.V, "~"+v.V, "<="+v.V, ">="+base+"-0 <"+base, v.V+" || "+base+"-zz")
				if rng.Intn(2) == 0 {
					// A sibling prerelease of the same version.
					sib := base + "-" + gen.Pick(rng, "zz", "0", "beta.9")
					dup := false
					for _, x := range list {
						if x.V == sib {
							dup = true
						}
					}
					if !dup {
						list = append(list, Ver{V: sib})
					}
				}
				return Case{Sys: sg.name, Req: req, List: list}
			}
		}
	}
	if sg.name == "NPM" && rng.Intn(12) == 0 {
		// Stratum: a bare or "="-prefixed partial version ("1.2", "=1", "v2.0")
		// with several versions of the list inside the range it denotes.
		for _, v := range list {
			pv, err := semver.NPM.Parse(v.V)
			if err != nil || pv.IsPrerelease() {
				continue
			}
			parts := strings.SplitN(strings.TrimPrefix(strings.SplitN(v.V, "+", 2)[0], "v"), ".", 3)
			if len(parts) != 3 {
				continue
			}
			for _, extra := range []string{parts[0] + "." + parts[1] + ".7", parts[0] + "." + parts[1] + ".11", parts[0] + ".9.0"} {
				dup := false
				for _, x := range list {
					if x.V == extra {
						dup = true
					}
				}
				if !dup {
					list = append(list, Ver{V: extra})
				}
			}
			req := gen.Pick(rng, parts[0]+"."+parts[1], "="+parts[0], parts[0], "v"+parts[0]+"."+parts[1], "="+parts[0]+"."+parts[1])
			return Case{Sys: sg.name, Req: req, List: list}
		}
	}
	return Case{Sys: sg.name, Req: sg.req(rng, list), List: list}
}

func mk(sys resolve.System, v Ver) resolve.Version {
	out := resolve.Version{VersionKey: resolve.VersionKey{PackageKey: resolve.PackageKey{System: sys, Name: "p"}, VersionType: resolve.Concrete, Version: v.V}}
	if v.Tags != "" {
		out.SetAttr(version.Tags, v.Tags)
	}
	return out
}

func names(vs []resolve.Version) string {
	ss := make([]string, len(vs))
	for i, v := range vs {
		ss[i] = v.Version
	}
	return strings.Join(ss, " ")
}

var sampled sync.Map

func one(r *ev.Run, sg sysgen, c Case, rng *rand.Rand) {
	defer func() {
		if p := recover(); p != nil {
			r.Violation("C12:"+sg.name+":panic", fmt.Sprintf("%s: panic on req %q: %v", sg.name, c.Req, p), c)
		}
	}()
	if len(c.List) == 0 {
		return
	}
	q := resolve.VersionKey{PackageKey: resolve.PackageKey{System: sg.sys, Name: "p"}, VersionType: resolve.Requirement, Version: c.Req}
	isRange := true
	if _, err := sg.sys.Semver().ParseConstraint(c.Req); err != nil {
		isRange = false
	}
	// Membership: by singles for ranges (C03 compares single-version matching
	// with the ecosystems' tools); for an npm requirement that is not a range,
	// by the statement itself: the version whose string or tag equals it.
	var sel []Ver
	for _, v := range c.List {
		if sg.name == "NPM" && !isRange {
			hit := v.V == c.Req
			for _, t := range strings.Split(v.Tags, ",") {
				if t != "" && t == c.Req {
					hit = true
				}
			}
			if hit {
				sel = append(sel, v)
			}
			continue
		}
		if len(resolve.MatchRequirement(q, []resolve.Version{mk(sg.sys, v)})) == 1 {
			sel = append(sel, v)
		}
	}
	if sg.name == "NPM" && !isRange {
		r.Count("npm:non-range-requirement", 1)
		if len(sel) > 1 {
			return // A tag or string naming two versions: outside the generator's intent.
		}
	}
	want := model.Order(sg.sys, c.List, sel)
	wantS := make([]string, len(want))
	for i, v := range want {
		wantS[i] = v.V
	}
	wantStr := strings.Join(wantS, " ")
	if len(sel) >= 2 && len(sel) < len(c.List) {
		r.Nontrivial(sg.name + "\x00" + c.Req + "\x00" + fmt.Sprint(c.List))
		r.Count("nontrivial:"+sg.name, 1)
		if _, d := sampled.LoadOrStore(sg.name, true); !d {
			r.Sample(map[string]any{"sys": sg.name, "req": c.Req, "list": c.List, "expected": wantStr})
		}
	}
	if sg.name == "NPM" && len(want) > 0 {
		last := want[len(want)-1]
		if strings.Contains(last.Tags, "latest") && len(want) > 1 {
			r.Count("npm:latest-moved", 1)
		}
		for i, v := range want {
			if strings.Contains(v.Tags, "latest") && i < len(want)-1 {
				r.Count("npm:latest-prerelease-kept", 1)
			}
			if _, err := semver.NPM.Parse(v.V); err != nil {
				r.Count("npm:unparsable-in-result", 1)
			}
		}
	}
	n := len(c.List)
	perms := [][]int{identity(n), reverse(n)}
	k := 10
	if rng == nil {
		k = 0
	}
	for i := 0; i < k; i++ {
		perms = append(perms, rng.Perm(n))
	}
	reported := false
	for pi, perm := range perms {
		l := make([]resolve.Version, n)
		for i, j := range perm {
			l[i] = mk(sg.sys, c.List[j])
		}
		if pi > 0 && names(l) != names(func() []resolve.Version {
			x := make([]resolve.Version, n)
			for i := range x {
				x[i] = mk(sg.sys, c.List[i])
			}
			return x
		}()) {
			r.Count("perm_differs_from_identity:"+sg.name, 1)
		}
		// resolve.SortVersions on this permutation: the whole list in the stated order.
		{
			sl := append([]resolve.Version(nil), l...)
			resolve.SortVersions(sl)
			full := model.Order(sg.sys, c.List, c.List)
			fs := make([]string, len(full))
			for i, v := range full {
				fs[i] = v.V
			}
			r.Eval(1)
			if g, w := names(sl), strings.Join(fs, " "); g != w && !reported {
				reported = true
				r.Violation("C12:"+sg.name+":SortVersions", fmt.Sprintf("%s: SortVersions(perm %v of %v) = [%s], expected [%s]", sg.name, perm, c.List, g, w), c)
			}
		}
		before := multiset(l)
		got := resolve.MatchRequirement(q, l)
		r.Eval(1)
		// "The list can be in any order, which may be modified": the order,
		// not the content. The caller's list still holds the same versions,
		// and asking again over the same list gives the same answer without
		// disturbing the first one.
		if after := multiset(l); after != before && !reported {
			reported = true
			r.Violation("C12:"+sg.name+":list-content-changed", fmt.Sprintf("%s: after MatchRequirement(%q, …) the caller's list holds [%s], it held [%s] (as multisets)", sg.name, c.Req, after, before), c)
		}
		if pi < 2 {
			first := names(got)
			again := resolve.MatchRequirement(q, l)
			r.Eval(1)
			r.Count("second_call_same_list:"+sg.name, 1)
			if g := names(again); g != wantStr && !reported {
				reported = true
				r.Violation("C12:"+sg.name+":second-call-same-list", fmt.Sprintf("%s: a second MatchRequirement(%q, …) over the same list object gives [%s], expected [%s]", sg.name, c.Req, g, wantStr), c)
			}
			if g := names(got); g != first && !reported {
				reported = true
				r.Violation("C12:"+sg.name+":earlier-result-changed", fmt.Sprintf("%s: the result of MatchRequirement(%q, …) was [%s] and reads [%s] after a second call over the same list", sg.name, c.Req, first, g), c)
			}
		}
		if g := names(got); g != wantStr && !reported {
			reported = true
			law := "order"
			if !sameSet(got, wantS) {
				law = "membership"
			}
			r.Violation("C12:"+sg.name+":"+law, fmt.Sprintf("%s: MatchRequirement(%q, perm %v of %v) = [%s], expected [%s]", sg.name, c.Req, perm, c.List, g, wantStr), c)
		}
		// Through the in-memory client, versions added in this order.
		lc := resolve.NewLocalClient()
		for _, j := range perm {
			lc.AddVersion(mk(sg.sys, c.List[j]), nil)
		}
		ms, err := lc.MatchingVersions(context.Background(), q)
		r.Eval(1)
		if err != nil {
			if !reported {
				reported = true
				r.Violation("C12:"+sg.name+":client-error", fmt.Sprintf("%s: LocalClient.MatchingVersions(%q): %v", sg.name, c.Req, err), c)
			}
			continue
		}
		if g := names(ms); g != wantStr && !reported {
			reported = true
			r.Violation("C12:"+sg.name+":client", fmt.Sprintf("%s: LocalClient.MatchingVersions(%q) after adding %v in order %v = [%s], expected [%s]", sg.name, c.Req, c.List, perm, g, wantStr), c)
		}
	}
}

// multiset renders a list of versions as a sorted multiset of full records.
func multiset(vs []resolve.Version) string {
	ss := make([]string, len(vs))
	for i, v := range vs {
		ss[i] = v.String()
	}
	sort.Strings(ss)
	return strings.Join(ss, " ")
}

func sameSet(got []resolve.Version, want []string) bool {
	if len(got) != len(want) {
		return false
	}
	m := map[string]int{}
	for _, v := range got {
		m[v.Version]++
	}
	for _, w := range want {
		m[w]--
	}
	for _, k := range m {
		if k != 0 {
			return false
		}
	}
	return true
}

func identity(n int) []int {
	p := make([]int, n)
	for i := range p {
		p[i] = i
	}
	return p
}

func reverse(n int) []int {
	p := make([]int, n)
	for i := range p {
		p[i] = n - 1 - i
	}
	return p
}

// pypiExclusiveBounds: PEP 440's exclusive comparison >V leaves out the
// post-releases of V itself, and of no other release. For a final release X
// whose release segment, zero-padded, differs from V's, X.postN is therefore
// selected by ">V" exactly when X is. (The mirror rule for <V and
// pre-releases is not stated here: whether a pre-release is selected also
// depends on what else the list holds.) The law relates two answers of the
// library; it needs no reference.
func pypiExclusiveBounds(r *ev.Run) {
	rng := r.Rand("pypi/exclusive-bounds")
	rel := func(n int) []int {
		out := make([]int, n)
		for i := range out {
			out[i] = rng.Intn(3)
		}
		return out
	}
	text := func(a []int) string {
		ss := make([]string, len(a))
		for i, x := range a {
			ss[i] = fmt.Sprint(x)
		}
		return strings.Join(ss, ".")
	}
	samePadded := func(a, b []int) bool {
		for i := 0; i < len(a) || i < len(b); i++ {
			x, y := 0, 0
			if i < len(a) {
				x = a[i]
			}
			if i < len(b) {
				y = b[i]
			}
			if x != y {
				return false
			}
		}
		return true
	}
	sel := func(req string, list ...string) map[string]bool {
		var vs []resolve.Version
		for _, v := range list {
			vs = append(vs, resolve.Version{VersionKey: resolve.VersionKey{PackageKey: resolve.PackageKey{System: resolve.PyPI, Name: "p"}, VersionType: resolve.Concrete, Version: v}})
		}
		out := map[string]bool{}
		for _, m := range resolve.MatchRequirement(resolve.VersionKey{PackageKey: resolve.PackageKey{System: resolve.PyPI, Name: "p"}, VersionType: resolve.Requirement, Version: req}, vs) {
			out[m.Version] = true
		}
		return out
	}
	reported := map[string]bool{}
	for i := 0; i < r.N(20000, 400000); i++ {
		v := rel(1 + rng.Intn(3))
		x := rel(1 + rng.Intn(5))
		if rng.Intn(2) == 0 {
			// X continues V: the first numbers agree, something follows.
			x = append(append([]int(nil), v...), rel(1+rng.Intn(2))...)
		}
		if samePadded(v, x) {
			continue
		}
		vt, xt := text(v), text(x)
		for _, c := range []struct{ op, sfx, law string }{
			{">", ".post" + fmt.Sprint(1+rng.Intn(2)), "post-release-of-another-release"},
		} {
			req := c.op + vt
			got := sel(req, xt, xt+c.sfx)
			r.Eval(1)
			r.Count("pypi_exclusive_bound_pairs", 1)
			if got[xt] != got[xt+c.sfx] && !reported[c.law] {
				reported[c.law] = true
				r.Violation("C12:PyPI:exclusive-bound:"+c.law, fmt.Sprintf("PyPI: from the list [%s %s] the requirement %q selects %s: %v and %s: %v; %s is not a release of %s, so PEP 440's exclusion of V's own post-/pre-releases does not apply and both must fare alike", xt, xt+c.sfx, req, xt, got[xt], xt+c.sfx, got[xt+c.sfx], xt+c.sfx, vt),
					Case{Sys: "PyPI", Req: req, List: []Ver{{V: xt}, {V: xt + c.sfx}}})
			}
		}
	}
}
