// Command dev04 runs the C04 monitor under development; it also serves as its
// own child process (dev04 child ...).
package main

import (
	"os"

	"verif/harness/ev"
	"verif/harness/mon/c04"
)

func main() {
	if len(os.Args) > 1 && os.Args[1] == "child" {
		c04.Child(os.Args[2:])
		return
	}
	r := ev.New("C04")
	replay := ""
	for i := 1; i < len(os.Args); i++ {
		switch os.Args[i] {
		case "quick", "thorough":
			r.Tier = os.Args[i]
		case "--replay":
			replay = os.Args[i+1]
			i++
		}
	}
	c04.Run(r, replay)
	r.Finish()
}
