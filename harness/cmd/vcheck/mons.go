package main

import (
	"verif/harness/mon/c03"
	"verif/harness/mon/c17"
)

func init() {
	register("C03", c03.Run)
	register("C17", c17.Run)
}
