# pip's packaging reference adapter. TSV lines on stdin, one answer per line.
#   ver | cmp a b | valid a | sat spec v [pre] | spec s | req s | name s | marker m extra(csv or -) 
import sys, json
try:
    from pip._vendor import packaging as _p
    from pip._vendor.packaging.version import Version, InvalidVersion
    from pip._vendor.packaging.specifiers import SpecifierSet, InvalidSpecifier
    from pip._vendor.packaging.requirements import Requirement, InvalidRequirement
    from pip._vendor.packaging.markers import Marker, InvalidMarker, UndefinedComparison, UndefinedEnvironmentName
    from pip._vendor.packaging.utils import canonicalize_name
    SRC = "pip._vendor.packaging " + _p.__version__
except ImportError:
    import packaging as _p
    from packaging.version import Version, InvalidVersion
    from packaging.specifiers import SpecifierSet, InvalidSpecifier
    from packaging.requirements import Requirement, InvalidRequirement
    from packaging.markers import Marker, InvalidMarker, UndefinedComparison, UndefinedEnvironmentName
    from packaging.utils import canonicalize_name
    SRC = "packaging " + _p.__version__

ENV = None
def env(extra):
    e = dict(ENV)
    e["extra"] = extra
    return e

out = []
for line in sys.stdin.read().split('\n'):
    if not line:
        continue
    p = line.split('\t')
    try:
        op = p[0]
        if op == 'ver':
            out.append(SRC)
        elif op == 'cmp':
            a = Version(p[1]); b = Version(p[2]); out.append(str((a > b) - (a < b)))
        elif op == 'valid':
            out.append(str(Version(p[1])))
        elif op == 'sat':
            try:
                s = SpecifierSet(p[1])
            except InvalidSpecifier:
                out.append('ER'); continue
            try:
                v = Version(p[2])
            except InvalidVersion:
                out.append('EV'); continue
            pre = None
            if len(p) > 3 and p[3] == 'pre':
                pre = True
            out.append('1' if s.contains(v, prereleases=pre) else '0')
        elif op == 'spec':
            out.append(str(SpecifierSet(p[1])) or '<*>')
        elif op == 'req':
            r = Requirement(p[1])
            out.append(json.dumps({"name": canonicalize_name(r.name), "extras": sorted(r.extras), "spec": sorted(str(s) for s in r.specifier), "marker": str(r.marker) if r.marker else "", "url": r.url or ""}))
        elif op == 'name':
            out.append(canonicalize_name(p[1]))
        elif op == 'setenv':
            ENV = json.loads(p[1]); out.append('ok')
        elif op == 'marker':
            m = Marker(p[1])
            extra = p[2] if len(p) > 2 and p[2] != '-' else ''
            out.append('1' if m.evaluate(env(extra)) else '0')
        elif op == 'markerstr':
            out.append(str(Marker(p[1])))
        else:
            out.append('?')
    except (InvalidVersion, InvalidSpecifier, InvalidRequirement, InvalidMarker):
        out.append('E')
    except (UndefinedComparison, UndefinedEnvironmentName) as e:
        out.append('EU')
    except Exception as e:
        out.append('EX ' + type(e).__name__)
sys.stdout.write('\n'.join(out) + '\n')
