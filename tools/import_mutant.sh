#!/bin/bash
# tools/import_mutant.sh <PROP> <A|B> "<detected-by summary>"
# Confirms a sub-agent's seeded change (demo passes without / fails with the
# change, in a scratch worktree of /repo HEAD) and stores it under /verif/seeded.
set -u
P=$1; V=$2; DET=${3:-}; SFX=${4:-}
SRC=/tmp/mut/$P$SFX-out
ID=$P$SFX-$V
DST=/verif/seeded/$ID
WT=/tmp/mv/demo-$ID
export GOFLAGS=-mod=mod GOPROXY=off GOSUMDB=off GOTOOLCHAIN=local
mkdir -p /tmp/mv
git -C /repo worktree remove --force "$WT" >/dev/null 2>&1
git -C /repo worktree add -q "$WT" HEAD || exit 3
trap 'git -C /repo worktree remove --force "$WT" >/dev/null 2>&1' EXIT
run() { (cd "$WT" && bash "$SRC/${V}_demo/RUN.txt" 2>&1); (cd "$WT" && git clean -fdq); }
without=$(run | grep -c -E '^(--- FAIL|FAIL)')
git -C "$WT" apply "$SRC/$V.patch" || { echo "$ID: patch does not apply"; exit 3; }
with=$(run | grep -c -E '^(--- FAIL|FAIL)')
echo "$ID: demo FAIL lines without change: $without, with change: $with"
if [ "$without" != 0 ] || [ "$with" = 0 ]; then echo "$ID: NOT CONFIRMED"; exit 4; fi
rm -rf "$DST"; mkdir -p "$DST/demo"
cp "$SRC/$V.patch" "$DST/patch.diff"
cp -r "$SRC/${V}_demo/." "$DST/demo/"
sed -i "s#/tmp/mut/$P$SFX-out/${V}_demo/#/verif/seeded/$ID/demo/#g; s#/tmp/mut/$P$SFX-out/$V.patch#/verif/seeded/$ID/patch.diff#g; s#/tmp/mut/$P$SFX#<scratch worktree of /repo>#g" "$DST/demo/RUN.txt"
python3 - "$P" "$V" "$DST" "$SRC" "$DET" "$without" "$with" "$ID" <<'PY'
import json,sys
P,V,DST,SRC,DET,wo,wi,ID=sys.argv[1:9]
meta=open(f"{SRC}/{V}.meta.txt").read()
json.dump({"id":ID,"property":P,"source":"independent sub-agent given only the property text and a scratch worktree",
 "what_and_what_it_needs_to_manifest":meta,
 "confirmed":{"repository_suite_with_change":"passes (tools/try_mutant.sh: tools/baseline.sh on a scratch worktree)","demo_fail_lines_without_change":int(wo),"demo_fail_lines_with_change":int(wi)},
 "checks_run":DET},open(f"{DST}/meta.json","w"),indent=1)
PY
echo "$ID: stored in $DST"
