package c03

import (
	"regexp"
	"strings"

	"deps.dev/util/semver"
	"verif/harness/ev"
	"verif/harness/ref"
)

// A disagreement is reported under a class that names the structural
// feature it hinges on. The classes that correspond to open known findings
// are decided by *reduction*: the case is attributed to the finding only if
// it has the feature and the disagreement disappears when the feature is
// taken out (re-asking both the library and the reference). Everything else
// is "generic", i.e. a fresh violation.

var npmComparatorRe = regexp.MustCompile(`(?:<=|>=|<|>|=|\^|~>|~)?\s*[vV]?(?:[0-9]+|[xX*])(?:\.(?:[0-9]+|[xX*]))*(?:-[0-9A-Za-z.-]+)?(?:\+[0-9A-Za-z.-]+)?`)

// comparators splits a requirement into its atomic comparators, or returns
// nil if the text cannot be split faithfully.
func comparators(e eco, rg string) []string {
	var out []string
	switch e.name {
	case "cargo":
		for _, p := range strings.Split(rg, ",") {
			if p = strings.TrimSpace(p); p != "" {
				out = append(out, p)
			}
		}
		return out
	case "npm":
		for _, alt := range strings.Split(rg, "||") {
			alt = strings.TrimSpace(alt)
			if alt == "" {
				return nil
			}
			if strings.Contains(alt, " - ") {
				out = append(out, alt)
				continue
			}
			toks := npmComparatorRe.FindAllString(alt, -1)
			if strings.Join(strings.Fields(strings.Join(toks, "")), "") != strings.Join(strings.Fields(alt), "") {
				return nil
			}
			for _, t := range toks {
				out = append(out, strings.TrimSpace(t))
			}
		}
		return out
	}
	return nil
}

func isHyphenRange(alt string) bool {
	alt = strings.TrimSpace(alt)
	i := strings.Index(alt, " - ")
	return i > 0 && !strings.Contains(alt[i+3:], " ") && !strings.ContainsAny(alt, "<>=^~|")
}

func hasPrerelease(v string) bool {
	if i := strings.IndexByte(v, '+'); i >= 0 {
		v = v[:i]
	}
	return strings.Contains(v, "-")
}

func classify(r *ev.Run, e eco, items []pending) {
	if len(items) == 0 {
		return
	}
	// Follow-up questions for the reference, answered in one batch.
	var qs []string
	ask := func(rg, v string) int { qs = append(qs, ref.Q("sat", rg, v)); return len(qs) - 1 }
	type plan struct {
		comps    []string
		compQ    []int // comparator alone vs the candidate
		rejAlts  []string
		rest     string
		altQ     [][]int // rejected alternative alone vs every candidate
		splitOK  bool
		hyphenOK bool
	}
	plans := make([]plan, len(items))
	for i, it := range items {
		p := &plans[i]
		switch {
		case it.kind == "match" && (e.name == "npm" || e.name == "cargo") && hasPrerelease(it.v):
			p.comps = comparators(e, it.c.Range)
			if len(p.comps) >= 2 {
				for _, c := range p.comps {
					p.compQ = append(p.compQ, ask(c, it.v))
				}
			}
		case it.kind == "reject" && e.name == "npm":
			alts := strings.Split(it.c.Range, "||")
			var rest []string
			p.hyphenOK = true
			for _, a := range alts {
				if strings.TrimSpace(a) == "" {
					p.hyphenOK = false
					continue
				}
				if _, err := e.sys.ParseConstraint(a); err != nil {
					p.rejAlts = append(p.rejAlts, a)
					if !isHyphenRange(a) || !(strings.Contains(err.Error(), "impossible constraint") || strings.Contains(err.Error(), "newSpan: max less than min")) {
						p.hyphenOK = false
					}
				} else {
					rest = append(rest, a)
				}
			}
			p.rest = strings.Join(rest, "||")
			for _, a := range p.rejAlts {
				var q []int
				for _, v := range it.c.Cands {
					q = append(q, ask(a, v))
				}
				p.altQ = append(p.altQ, q)
			}
		}
	}
	var ans []string
	if len(qs) > 0 {
		var err error
		ans, err = e.adapter.Batch(qs)
		if err != nil {
			r.Inconclusive(err.Error())
			return
		}
	}
	for i, it := range items {
		p := plans[i]
		class := "generic"
		switch {
		case len(p.compQ) >= 2:
			// Prerelease candidate, several comparators: is every comparator
			// alone answered identically by library and reference?
			agree := true
			for k, c := range p.comps {
				con, err := e.sys.ParseConstraint(c)
				a := ans[p.compQ[k]]
				if err != nil || (a != "0" && a != "1") || con.Match(it.v) != (a == "1") {
					agree = false
					break
				}
			}
			if agree && !plainAndList(p.comps) {
				class = "prerelease-combination"
			}
		case it.kind == "reject" && e.name == "npm" && len(p.rejAlts) > 0 && p.hyphenOK:
			// Every alternative the library rejects on its own is a hyphen
			// range it calls impossible. Does the reference match one of them?
			nonEmptyAlt := false
			var nonEmpty []string
			for ai, q := range p.altQ {
				for _, k := range q {
					if ans[k] == "1" {
						nonEmptyAlt = true
						nonEmpty = append(nonEmpty, p.rejAlts[ai])
						break
					}
				}
			}
			if nonEmptyAlt {
				// The alternatives the reference can satisfy must all be of the
				// partial-upper-bound shape (the others are truly impossible).
				class = "hyphen-partial-upper"
				if !partialUpper(nonEmpty) {
					class = "generic"
					if zeroLowerPrereleaseUpper(nonEmpty) {
						class = "hyphen-zero-lower"
					}
				}
			} else if p.rest != "" {
				// Truly impossible alternative(s): with them removed the
				// library must accept and agree with the reference's answers
				// for the whole range.
				con, err := e.sys.ParseConstraint(p.rest)
				ok := err == nil
				if ok {
					for k, v := range it.c.Cands {
						a := it.ans[k]
						// Prerelease candidates are left out: on them the reduced range may
						// still differ through the separate prerelease-combination finding.
						if (a == "0" || a == "1") && !hasPrerelease(v) && validIn(e.sys, v) && con.Match(v) != (a == "1") {
							ok = false
							break
						}
					}
				}
				if ok {
					class = "impossible-alternative"
				}
			}
		}
		if e.name == "maven" && it.kind == "reject" {
			class = mavenBelowZeroClass(e, it)
		}
		r.Violation("C03:"+e.name+":"+it.kind+":"+class, it.what, Case{Eco: e.name, Range: it.c.Range, Cands: []string{it.v}})
	}
}

func validIn(sys semver.System, v string) bool { _, err := sys.Parse(v); return err == nil }

// partialUpper reports whether every given hyphen range has an upper bound
// with fewer than three numbers (as in "3.1.0 - 3").
func partialUpper(alts []string) bool {
	for _, a := range alts {
		i := strings.Index(a, " - ")
		if i < 0 {
			return false
		}
		hi := strings.TrimSpace(a[i+3:])
		hi = strings.TrimLeft(hi, "vV")
		if strings.ContainsAny(hi, "-+") {
			return false
		}
		if strings.Count(hi, ".") >= 2 {
			return false
		}
	}
	return true
}

var mavenInterval = regexp.MustCompile(`[\[(][^\[\]()]*[\])]`)

// mavenBelowZeroClass attributes a rejected Maven range to the recorded
// finding about versions below 0 when it contains an interval with an open
// lower end and an upper bound below 0, and the rest of the range is accepted
// and agrees with the reference's answers.
func mavenBelowZeroClass(e eco, it pending) string {
	_, err := e.sys.ParseConstraint(it.c.Range)
	if err == nil || !strings.Contains(err.Error(), "newSpan: max less than min") {
		return "generic"
	}
	ivs := mavenInterval.FindAllString(it.c.Range, -1)
	if strings.Join(ivs, ",") != it.c.Range {
		return "generic"
	}
	var rest []string
	removed := 0
	for _, iv := range ivs {
		body := iv[1 : len(iv)-1]
		k := strings.IndexByte(body, ',')
		if k == 0 && belowZero(body[1:]) {
			removed++
			continue
		}
		rest = append(rest, iv)
	}
	if removed == 0 || len(rest) == 0 {
		return "generic"
	}
	con, err := e.sys.ParseConstraint(strings.Join(rest, ","))
	if err != nil {
		return "generic"
	}
	for k, v := range it.c.Cands {
		a := it.ans[k]
		if (a == "0" || a == "1") && validIn(e.sys, v) && con.Match(v) != (a == "1") {
			return "generic"
		}
	}
	return "below-zero-upper"
}

func belowZero(v string) bool {
	i := strings.IndexByte(v, '-')
	if i < 0 || strings.Trim(v[:i], "0.") != "" {
		return false
	}
	q := strings.ToLower(v[i+1:])
	for _, p := range []string{"alpha", "beta", "rc", "snapshot", "m", "milestone", "cr", "a", "b"} {
		if strings.HasPrefix(q, p) {
			return true
		}
	}
	return false
}

// (What is written behind a wildcard does not count: 0.x.1 is 0.x.)
var zeroLower = regexp.MustCompile(`^[vV]?(0(\.0){0,2}|(0\.){0,2}[xX*](\.(\d+|[xX*])){0,2})$`)

// zeroLowerPrereleaseUpper reports whether every given hyphen range has a
// lower bound that is zero in every written position (0, 0.0, 0.0.x ...) and a
// prerelease upper bound: node-semver turns ">=0.0.0" into "any" and is left
// with "<=upper", the library sees upper < lower.
func zeroLowerPrereleaseUpper(alts []string) bool {
	for _, a := range alts {
		i := strings.Index(a, " - ")
		if i < 0 {
			return false
		}
		lo, hi := strings.TrimSpace(a[:i]), strings.TrimSpace(a[i+3:])
		if !zeroLower.MatchString(lo) || !strings.Contains(hi, "-") {
			return false
		}
	}
	return true
}

var fullComparator = regexp.MustCompile(`^\s*(>=|<=|>|<)\s*v?\d+\.\d+\.\d+(-[0-9A-Za-z.-]+)?\s*$`)

// plainAndList: every comparator of the range is an inequality on a full
// three-number version, none of which is 0.0.0, and no ">" on a release. The
// recorded prerelease-combination findings live elsewhere (ranges that hold *,
// x-ranges, partial versions, =, several alternatives, or a strict lower bound
// on a release, where the references collapse or split the range, or the
// library steps to a successor, before prereleases are looked at): on a plain
// list both references and the library admit
// a prerelease candidate exactly when it lies in the interval and shares its
// x.y.z with a bound that has a prerelease, so a disagreement there is not the
// finding's.
func plainAndList(comps []string) bool {
	for _, c := range comps {
		if !fullComparator.MatchString(c) || strings.Contains(c, "0.0.0") {
			return false
		}
		// ">X" on a release X: the library turns it into a bound at X's
		// successor, and a prerelease of that successor (>0.0.1 <0.0.2-alpha.1
		// against 0.0.2-0) is where its interval algebra departs from the
		// references' comparator-by-comparator reading: the finding's own ground.
		if t := strings.TrimSpace(c); strings.HasPrefix(t, ">") && !strings.HasPrefix(t, ">=") && !strings.Contains(t, "-") {
			return false
		}
	}
	return len(comps) >= 2
}
