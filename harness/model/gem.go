// Package model holds the reference models written for this harness.
package model

import (
	"regexp"
	"strconv"
	"strings"
)

// Gem::Version, transcribed from rubygems/version.rb (VERSION_PATTERN,
// "-" -> ".pre.", segments, canonical_segments, <=>).

var gemPattern = regexp.MustCompile(`\A\s*([0-9]+(\.[0-9a-zA-Z]+)*(-[0-9A-Za-z-]+(\.[0-9A-Za-z-]+)*)?)?\s*\z`)
var gemScan = regexp.MustCompile(`[0-9]+|[a-zA-Z]+`)

type gemSeg struct {
	isStr bool
	n     int64
	s     string
}

func GemValid(s string) bool { return gemPattern.MatchString(s) }

func gemSegments(s string) ([]gemSeg, bool) {
	if !GemValid(s) {
		return nil, false
	}
	s = strings.TrimSpace(s)
	if s == "" {
		s = "0"
	}
	s = strings.ReplaceAll(s, "-", ".pre.")
	var out []gemSeg
	for _, t := range gemScan.FindAllString(s, -1) {
		if t[0] >= '0' && t[0] <= '9' {
			n, err := strconv.ParseInt(t, 10, 64)
			if err != nil {
				return nil, false
			}
			out = append(out, gemSeg{n: n})
		} else {
			out = append(out, gemSeg{isStr: true, s: t})
		}
	}
	return out, true
}

func gemStrip(l []gemSeg) []gemSeg {
	for len(l) > 0 && !l[len(l)-1].isStr && l[len(l)-1].n == 0 {
		l = l[:len(l)-1]
	}
	return l
}

func gemCanonical(sg []gemSeg) []gemSeg {
	i := len(sg)
	for k, x := range sg {
		if x.isStr {
			i = k
			break
		}
	}
	num := gemStrip(append([]gemSeg(nil), sg[:i]...))
	str := gemStrip(append([]gemSeg(nil), sg[i:]...))
	return append(num, str...)
}

// GemCompare is Gem::Version#<=>. ok is false if either string is not a
// valid gem version.
func GemCompare(a, b string) (c int, ok bool) {
	sa, ok1 := gemSegments(a)
	sb, ok2 := gemSegments(b)
	if !ok1 || !ok2 {
		return 0, false
	}
	A, B := gemCanonical(sa), gemCanonical(sb)
	n := len(A)
	if len(B) > n {
		n = len(B)
	}
	for i := 0; i < n; i++ {
		var l, r gemSeg
		if i < len(A) {
			l = A[i]
		}
		if i < len(B) {
			r = B[i]
		}
		if l == r {
			continue
		}
		switch {
		case l.isStr && !r.isStr:
			return -1, true
		case !l.isStr && r.isStr:
			return 1, true
		case l.isStr:
			return strings.Compare(l.s, r.s), true
		}
		if l.n < r.n {
			return -1, true
		}
		return 1, true
	}
	return 0, true
}

// GemCompare2 is a second formulation: pad both canonical segment lists with
// zeros to equal length and compare sort keys (string < number; strings
// bytewise; numbers by value).
func GemCompare2(a, b string) (int, bool) {
	sa, ok1 := gemSegments(a)
	sb, ok2 := gemSegments(b)
	if !ok1 || !ok2 {
		return 0, false
	}
	A, B := gemCanonical(sa), gemCanonical(sb)
	for len(A) < len(B) {
		A = append(A, gemSeg{})
	}
	for len(B) < len(A) {
		B = append(B, gemSeg{})
	}
	key := func(x gemSeg) (int, int64, string) {
		if x.isStr {
			return 0, 0, x.s
		}
		return 1, x.n, ""
	}
	for i := range A {
		k1, n1, s1 := key(A[i])
		k2, n2, s2 := key(B[i])
		switch {
		case k1 != k2:
			return sign(k1 - k2), true
		case n1 != n2:
			if n1 < n2 {
				return -1, true
			}
			return 1, true
		case s1 != s2:
			return strings.Compare(s1, s2), true
		}
	}
	return 0, true
}

func sign(x int) int {
	switch {
	case x < 0:
		return -1
	case x > 0:
		return 1
	}
	return 0
}
