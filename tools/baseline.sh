#!/bin/bash
# Runs the repository's pinned suite with the verif guard OFF and reports pass/fail counts.
export GOFLAGS=-mod=mod GOPROXY=off GOSUMDB=off GOTOOLCHAIN=local
R=${1:-/repo}
fail=0
for m in api/v3 api/v3alpha util/maven util/pypi util/resolve util/semver; do
  (cd $R/$m && go test -vet=off -count=1 -timeout 25m ./... 2>&1) | grep -v "^ok\|no test files" && fail=1
done
if [ $fail = 0 ]; then echo "BASELINE OK"; else echo "BASELINE FAILED"; exit 1; fi
