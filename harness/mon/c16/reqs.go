package c16

import (
	"encoding/json"
	"fmt"
	"math/rand"
	"sort"
	"strings"
	"sync"

	"deps.dev/util/pypi"
	"verif/harness/ev"
	"verif/harness/ref"
)

// ---------------------------------------------------------------------------
// generator (PEP 508 name / extras / versionspec / quoted_marker)

type rgen struct {
	rng    *rand.Rand
	mg     *mgen
	spaces bool // this string uses spaces only
}

func (g *rgen) pick(ss ...string) string { return ss[g.rng.Intn(len(ss))] }

func (g *rgen) ws() string {
	if g.spaces {
		return g.pick("", "", " ", " ", "  ", "   ")
	}
	return g.pick("", "", " ", " ", "  ", "\t", " \t", "\t ")
}

const alnum = "abcdefghijklmnopqrstuvwxyzABCDEFGHIJKLMNOPQRSTUVWXYZ0123456789"

// ident renders a PEP 508 identifier: letterOrDigit ((letterOrDigit|-|_|.)* letterOrDigit)?
func (g *rgen) ident(maxChunks int) string {
	r := g.rng
	if r.Intn(6) == 0 {
		return g.pick("foo", "Foo", "zope.interface", "ruamel.yaml", "typing_extensions", "Django", "A", "a1", "0a", "py.test", "backports.zoneinfo", "X-_.y", "foo--bar", "foo_.-bar", "Flask-SQLAlchemy")
	}
	var sb strings.Builder
	chunks := 1 + r.Intn(maxChunks)
	for i := 0; i < chunks; i++ {
		if i > 0 {
			run := 1
			if r.Intn(3) == 0 {
				run = 2 + r.Intn(2)
			}
			for j := 0; j < run; j++ {
				sb.WriteByte("-_."[r.Intn(3)])
			}
		}
		n := 1 + r.Intn(5)
		for j := 0; j < n; j++ {
			sb.WriteByte(alnum[r.Intn(len(alnum))])
		}
	}
	return sb.String()
}

func (g *rgen) extras() string {
	r := g.rng
	if r.Intn(2) == 0 {
		return ""
	}
	n := r.Intn(4)
	if r.Intn(10) > 0 && n == 0 {
		n = 1
	}
	var es []string
	for i := 0; i < n; i++ {
		if i > 0 && r.Intn(5) == 0 {
			es = append(es, es[r.Intn(len(es))]) // duplicate
			continue
		}
		if r.Intn(2) == 0 {
			es = append(es, g.pick("x", "test", "Y_z", "a-b", "docs", "dev", "security", "socks", "TLS", "b.c"))
		} else {
			es = append(es, g.ident(2))
		}
	}
	var sb strings.Builder
	sb.WriteString("[" + g.ws())
	for i, e := range es {
		if i > 0 {
			sb.WriteString(g.ws() + "," + g.ws())
		}
		sb.WriteString(e)
	}
	sb.WriteString(g.ws() + "]")
	return sb.String()
}

var plainVersions = []string{"1.0", "2", "1.2.3", "0.9", "2.0.1", "1.0a1", "2.1rc2", "1.0.post1", "1.0.dev3", "1!2.0", "2010.4", "0.0.1", "3.11.0b4", "1.0.0.0", "10.20"}

func (g *rgen) clause() string {
	r := g.rng
	op := g.pick("==", ">=", "<=", "~=", "!=", "<", ">", "===", "==", ">=")
	var v string
	switch op {
	case "===":
		// Arbitrary equality: any run of non-space characters of the PEP 508
		// version alphabet, then mandatory whitespace (see Assumptions).
		v = g.pick("1.0", "foo", "1.0-beta_x", "2.0+ubuntu.1", "LATEST", "1.*") + g.pick(" ", "  ", " ")
		return op + g.ws() + v
	case "==", "!=":
		switch r.Intn(6) {
		case 0:
			v = g.pick("1.0.*", "2.*", "1.2.3.*", "0.*")
		case 1:
			v = g.pick("1.0+local.1", "2.0+abc", "1.0+ubuntu-1")
		default:
			v = g.pick(plainVersions...)
		}
	case "~=":
		v = g.pick("1.0", "1.2.3", "0.9", "2.0.1", "1.0a1", "1.0.post1", "2010.4", "2")
	default:
		v = g.pick(plainVersions...)
	}
	return op + g.ws() + v
}

func (g *rgen) spec() string {
	r := g.rng
	if r.Intn(10) < 3 {
		return ""
	}
	n := 1 + r.Intn(3)
	var sb strings.Builder
	for i := 0; i < n; i++ {
		if i > 0 {
			sb.WriteString(g.ws() + "," + g.ws())
		}
		sb.WriteString(g.clause())
	}
	if r.Intn(3) == 0 {
		return "(" + g.ws() + sb.String() + g.ws() + ")"
	}
	return sb.String()
}

func (g *rgen) req() string {
	r := g.rng
	g.spaces = r.Intn(5) < 2
	var sb strings.Builder
	sb.WriteString(g.ws() + g.ident(4) + g.ws() + g.extras() + g.ws() + g.spec())
	if r.Intn(2) == 0 {
		sb.WriteString(g.ws() + ";" + g.ws() + g.mg.marker())
	}
	sb.WriteString(g.ws())
	return sb.String()
}

// ---------------------------------------------------------------------------
// comparison

type refReq struct {
	Name   string   `json:"name"`
	Extras []string `json:"extras"`
	Spec   []string `json:"spec"`  // str(s) for s in req.specifier
	Canon  []string `json:"canon"` // the keys packaging uses for Specifier equality
	Marker string   `json:"marker"`
	URL    string   `json:"url"`
	Envs   string   `json:"envs"` // truth of req.marker over the probe environments
}

const wsp = " \t"

func stripAllWS(s string) string {
	return strings.Map(func(c rune) rune {
		if c == ' ' || c == '\t' {
			return -1
		}
		return c
	}, s)
}

func setOf(parts []string) []string {
	m := map[string]bool{}
	for _, p := range parts {
		m[p] = true
	}
	out := make([]string, 0, len(m))
	for p := range m {
		out = append(out, p)
	}
	sort.Strings(out)
	return out
}

func sameSet(a, b []string) bool {
	a, b = setOf(a), setOf(b)
	if len(a) != len(b) {
		return false
	}
	for i := range a {
		if a[i] != b[i] {
			return false
		}
	}
	return true
}

func libExtras(s string) []string {
	if s == "" {
		return nil
	}
	var out []string
	for _, e := range strings.Split(s, ",") {
		out = append(out, strings.Trim(e, wsp))
	}
	return out
}

func libClauses(s string) []string {
	if stripAllWS(s) == "" {
		return nil
	}
	var out []string
	for _, c := range strings.Split(s, ",") {
		out = append(out, stripAllWS(c))
	}
	return out
}

type libReq struct {
	dep   pypi.Dependency
	err   error
	panic string
}

func libParse(s string) (l libReq) {
	defer func() {
		if p := recover(); p != nil {
			l.panic = fmt.Sprint(p)
		}
	}()
	l.dep, l.err = pypi.ParseDependency(s)
	return
}

func checkReqs(r *ev.Run, strs []string, origin string, report reporter) {
	libs := make([]libReq, len(strs))
	envsJSON, _ := json.Marshal(probeEnvs(defaultTarget))
	qs := []string{ref.Q("setenvs", string(envsJSON))}
	base := make([]int, len(strs))
	for i, s := range strs {
		libs[i] = libParse(s)
		base[i] = len(qs)
		qs = append(qs, jq("reqx", s))
		if libs[i].err == nil && libs[i].panic == "" {
			if libs[i].dep.Environment != "" {
				qs = append(qs, jq("markerx", libs[i].dep.Environment))
			}
			if stripAllWS(libs[i].dep.Constraint) != "" {
				qs = append(qs, jq("speccanon", libs[i].dep.Constraint))
			}
		}
	}
	ans, err := ref.Py.Batch(qs)
	if err != nil {
		r.Inconclusive(err.Error())
		return
	}
	for i, s := range strs {
		b := base[i]
		if !strings.HasPrefix(ans[b], "{") {
			outOfDomain(r, "req_out:packaging-rejects", s)
			continue
		}
		var want refReq
		if err := json.Unmarshal([]byte(ans[b]), &want); err != nil {
			r.Inconclusive("packaging adapter: bad req answer " + ans[b])
			return
		}
		if want.URL != "" {
			outOfDomain(r, "req_out:url", s)
			continue
		}
		r.Eval(1)
		r.Count("req_accepted", 1)
		l := libs[i]
		cs := Case{Kind: "req", S: s, Ref: ans[b]}
		if l.panic != "" {
			report("C16:req:panic", fmt.Sprintf("ParseDependency(%q) panics: %s", s, l.panic), cs)
			continue
		}
		if l.err != nil {
			cs.Lib = "error: " + l.err.Error()
			report("C16:req:reject", fmt.Sprintf("ParseDependency(%q) fails (%v); packaging parses it as %s", s, l.err, ans[b]), cs)
			continue
		}
		lb, _ := json.Marshal(l.dep)
		cs.Lib = string(lb)
		k := 0
		if len(want.Extras) > 0 {
			k++
			r.Count("req_with_extras", 1)
		}
		if len(want.Spec) > 0 {
			k++
			r.Count("req_with_specifier", 1)
			if strings.Contains(s, "(") && strings.Index(s, "(") < strings.Index(s+";", ";") {
				r.Count("req_with_parenthesised_specifier", 1)
			}
			if strings.Contains(strings.Join(want.Spec, ","), "===") {
				r.Count("req_with_arbitrary_equality", 1)
			}
		}
		if want.Marker != "" {
			k++
			r.Count("req_with_marker", 1)
		}
		if strings.Contains(s, "\t") {
			r.Count("req_with_tab", 1)
		} else {
			r.Count("req_without_tab", 1)
		}
		if k >= 2 {
			r.Nontrivial("r\x00" + s)
			r.Count("req_nontrivial", 1)
			if r.Counter("req_nontrivial")%211 == 1 {
				r.Sample(map[string]any{"requirement": s, "library": l.dep, "packaging": want})
			}
		}
		if l.dep.Name != want.Name {
			report("C16:req:name", fmt.Sprintf("ParseDependency(%q).Name = %q, packaging: %q", s, l.dep.Name, want.Name), cs)
		}
		if !sameSet(libExtras(l.dep.Extras), want.Extras) {
			report("C16:req:extras", fmt.Sprintf("ParseDependency(%q).Extras = %q, packaging: %q", s, l.dep.Extras, want.Extras), cs)
		}
		next := b + 1
		var lm struct{ Str, Envs string }
		lmOK := false
		if l.dep.Environment != "" {
			lmOK = json.Unmarshal([]byte(ans[next]), &lm) == nil
			next++
		}
		var lcanon []string
		lcanonOK := true
		if stripAllWS(l.dep.Constraint) != "" {
			lcanonOK = json.Unmarshal([]byte(ans[next]), &lcanon) == nil
			next++
		}
		// Specifier: packaging keeps a set of clauses and regards clauses whose
		// versions differ only by trailing zeros as the same element. Every
		// clause packaging reports must literally be one of the library's
		// (whitespace removed), and the two clause sets must be equal under
		// packaging's own clause identity.
		lcl := setOf(libClauses(l.dep.Constraint))
		literal := true
		for _, c := range want.Spec {
			found := false
			for _, d := range lcl {
				if c == d {
					found = true
				}
			}
			literal = literal && found
		}
		if !literal || !lcanonOK || !sameSet(lcanon, want.Canon) {
			report("C16:req:specifier", fmt.Sprintf("ParseDependency(%q).Constraint = %q, packaging: %q", s, l.dep.Constraint, want.Spec), cs)
		} else if len(lcl) != len(want.Spec) {
			r.Count("req_specifier_equal_modulo_packaging_clause_identity", 1)
		}
		switch {
		case want.Marker == "" && l.dep.Environment == "":
		case want.Marker == "" || l.dep.Environment == "":
			report("C16:req:marker-text", fmt.Sprintf("ParseDependency(%q).Environment = %q, packaging: %q", s, l.dep.Environment, want.Marker), cs)
		case !lmOK:
			report("C16:req:marker-text", fmt.Sprintf("ParseDependency(%q).Environment = %q is not a marker for packaging, packaging's marker: %q", s, l.dep.Environment, want.Marker), cs)
		case lm.Str != want.Marker:
			report("C16:req:marker-text", fmt.Sprintf("ParseDependency(%q).Environment = %q (packaging normal form %q), packaging's marker: %q", s, l.dep.Environment, lm.Str, want.Marker), cs)
		case lm.Envs != want.Envs:
			report("C16:req:marker-truth", fmt.Sprintf("ParseDependency(%q).Environment = %q has truth %s over the probe environments, packaging's marker %s", s, l.dep.Environment, lm.Envs, want.Envs), cs)
		default:
			r.Count("req_marker_truth_vectors_compared", 1)
		}
	}
}

func libCanon(s string) (out string, panicked string) {
	defer func() {
		if p := recover(); p != nil {
			panicked = fmt.Sprint(p)
		}
	}()
	return pypi.CanonPackageName(s), ""
}

func checkNames(r *ev.Run, names []string, origin string, report reporter) {
	qs := make([]string, len(names))
	for i, n := range names {
		qs[i] = jq("name", n)
	}
	ans, err := ref.Py.Batch(qs)
	if err != nil {
		r.Inconclusive(err.Error())
		return
	}
	for i, n := range names {
		r.Eval(1)
		r.Count("names", 1)
		got, p := libCanon(n)
		cs := Case{Kind: "name", S: n, Lib: got, Ref: ans[i]}
		if p != "" {
			report("C16:name:panic", fmt.Sprintf("CanonPackageName(%q) panics: %s", n, p), cs)
			continue
		}
		if got != ans[i] {
			report("C16:name:canon", fmt.Sprintf("CanonPackageName(%q) = %q, canonicalize_name: %q", n, got, ans[i]), cs)
		}
		if again, _ := libCanon(got); again != got {
			report("C16:name:idempotent", fmt.Sprintf("CanonPackageName(%q) = %q but CanonPackageName of that = %q", n, got, again), cs)
		}
		if got != n {
			r.Count("names_changed_by_canon", 1)
		}
		if strings.Contains(n, "--") || strings.Contains(n, "_.") || strings.Contains(n, "._") || strings.Contains(n, "-_") || strings.Contains(n, "..") || strings.Contains(n, "__") {
			r.Count("names_with_runs", 1)
		}
	}
}

// defaultTarget is only used to complete the sixteenth probe environment of
// sub-monitor (a), which does not depend on the library's environment.
var defaultTarget = map[string]string{
	"os_name": "posix", "sys_platform": "linux", "platform_machine": "x86_64", "platform_python_implementation": "CPython",
	"platform_release": "6.9.10-1rodete5-amd64", "platform_system": "Linux",
	"platform_version": "#1 SMP PREEMPT_DYNAMIC Debian 6.9.10-1rodete5 (2024-09-04)", "python_version": "3.9",
	"python_full_version": "3.9.6", "implementation_name": "cpython", "implementation_version": "3.9.6",
}

func runRequirements(r *ev.Run, env map[string]string) {
	n := r.N(5000, 200000)
	chunk := r.N(400, 2500)
	shards := (n + chunk - 1) / chunk
	var wg sync.WaitGroup
	sem := make(chan struct{}, 14)
	for sh := 0; sh < shards; sh++ {
		wg.Add(1)
		sem <- struct{}{}
		go func(sh int) {
			defer wg.Done()
			defer func() { <-sem }()
			rng := r.Rand(fmt.Sprintf("reqs/%d", sh))
			g := &rgen{rng: rng, mg: newMgen(rng, defaultTarget, true)}
			var strs, names []string
			for i := 0; i < chunk && sh*chunk+i < n; i++ {
				strs = append(strs, g.req())
				if i%5 == 0 {
					names = append(names, g.ident(5))
				}
			}
			r.Count("req_generated", int64(len(strs)))
			checkReqs(r, strs, "generated", r.Violation)
			checkNames(r, names, "generated", r.Violation)
		}(sh)
	}
	wg.Wait()
	r.Gate("req_accepted", int64(n/2))
	r.Gate("req_nontrivial", int64(n/5))
	r.Gate("req_with_extras", int64(n/10))
	r.Gate("req_with_specifier", int64(n/10))
	r.Gate("req_with_parenthesised_specifier", int64(n/50))
	r.Gate("req_with_arbitrary_equality", int64(n/100))
	r.Gate("req_with_marker", int64(n/10))
	r.Gate("req_with_tab", int64(n/10))
	r.Gate("req_without_tab", int64(n/10))
	r.Gate("req_marker_truth_vectors_compared", int64(n/10))
	r.Gate("names", int64(n/10))
	r.Gate("names_with_runs", int64(n/100))
}
