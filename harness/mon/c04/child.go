package c04

import (
	"bufio"
	"encoding/json"
	"fmt"
	"hash/fnv"
	"io"
	"log"
	"math/rand"
	"os"
	"regexp"
	"runtime"
	"runtime/debug"
	"sort"
	"strconv"
	"strings"
	"time"
)

// exitMemCap is the exit status of a child that stopped itself because its
// resident set went over the hard cap.
const exitMemCap = 97

// memCapBytes is the hard memory cap of one child (resident set). Correct
// code needs a few MiB for inputs of at most 1 MiB.
const memCapBytes = 3 << 30

// Child is the entry of the child process.
//
//	batch <id> <seed> <driver> <sys> <kind> <n> <logfile>   kind = mix | long
//	one <casefile> <logfile>
func Child(args []string) {
	if len(args) > 0 && args[0] == "c04" {
		args = args[1:]
	}
	log.SetOutput(io.Discard) // the library logs duplicate headers etc.
	if len(args) == 0 {
		fmt.Fprintln(os.Stderr, "c04 child: no mode")
		os.Exit(2)
	}
	go memWatch()
	switch args[0] {
	case "batch":
		if len(args) != 8 {
			fmt.Fprintln(os.Stderr, "c04 child: batch wants 7 arguments")
			os.Exit(2)
		}
		seed, _ := strconv.ParseInt(args[2], 10, 64)
		n, _ := strconv.Atoi(args[6])
		x := newRunner(args[7])
		d := driverByName(args[3])
		if d == nil {
			fmt.Fprintln(os.Stderr, "c04 child: unknown driver", args[3])
			os.Exit(2)
		}
		x.batch(d, args[4], args[5], seed, n)
		x.finish()
	case "one":
		if len(args) != 3 {
			fmt.Fprintln(os.Stderr, "c04 child: one wants 2 arguments")
			os.Exit(2)
		}
		b, err := os.ReadFile(args[1])
		if err != nil {
			fmt.Fprintln(os.Stderr, "c04 child:", err)
			os.Exit(2)
		}
		var c Case
		if err := json.Unmarshal(b, &c); err != nil {
			fmt.Fprintln(os.Stderr, "c04 child: bad case:", err)
			os.Exit(2)
		}
		d := driverByName(c.Entry)
		if d == nil {
			fmt.Fprintln(os.Stderr, "c04 child: unknown driver", c.Entry)
			os.Exit(2)
		}
		enc, err := c.enc()
		if err != nil {
			fmt.Fprintln(os.Stderr, "c04 child: bad case input:", err)
			os.Exit(2)
		}
		x := newRunner(args[2])
		x.call(d, c.Sys, enc)
		x.finish()
	default:
		fmt.Fprintln(os.Stderr, "c04 child: unknown mode", args[0])
		os.Exit(2)
	}
}

// memWatch enforces the hard memory cap from inside (ulimit -v, set by the
// parent's sh wrapper, is the second line of defence).
func memWatch() {
	page := int64(os.Getpagesize())
	for {
		time.Sleep(40 * time.Millisecond)
		b, err := os.ReadFile("/proc/self/statm")
		if err != nil {
			return
		}
		f := strings.Fields(string(b))
		if len(f) < 2 {
			return
		}
		rss, _ := strconv.ParseInt(f[1], 10, 64)
		if rss*page > memCapBytes {
			fmt.Fprintf(os.Stderr, "C04-CHILD-MEMCAP rss=%d bytes > cap %d\n", rss*page, int64(memCapBytes))
			// The goroutine dump shows where the memory is being eaten.
			debug.SetTraceback("all")
			buf := make([]byte, 64<<10)
			n := runtime.Stack(buf, true)
			os.Stderr.Write(buf[:n])
			os.Exit(exitMemCap)
		}
	}
}

type runner struct {
	logf    *os.File
	lbuf    []byte
	sum     Summary
	seen    map[uint64]struct{}
	panics  map[string]*PanicRec
	nonterm map[string]*NontermRec
	curSys  string
	// retFamilies counts the distinct return classes per driver.
	retFamilies map[string]int
}

func newRunner(logPath string) *runner {
	f, err := os.OpenFile(logPath, os.O_APPEND|os.O_CREATE|os.O_WRONLY, 0o644)
	if err != nil {
		fmt.Fprintln(os.Stderr, "c04 child: cannot open log:", err)
		os.Exit(2)
	}
	return &runner{
		logf:    f,
		sum:     Summary{API: map[string]int64{}, Ret: map[string]int64{}, Features: map[string]int64{}},
		seen:    map[uint64]struct{}{},
		panics:  map[string]*PanicRec{},
		nonterm: map[string]*NontermRec{},

		retFamilies: map[string]int{},
	}
}

// hit counts one execution of an exported entry point for the current system.
func (x *runner) hit(api string) { x.sum.API[api+"|"+x.curSys]++ }

func (x *runner) feature(name string) { x.sum.Features[name]++ }

// call logs the input, then runs the driver on it under recover.
func (x *runner) call(d *driver, sys, enc string) {
	x.lbuf = x.lbuf[:0]
	x.lbuf = append(x.lbuf, d.name...)
	x.lbuf = append(x.lbuf, '\t')
	x.lbuf = append(x.lbuf, sys...)
	x.lbuf = append(x.lbuf, '\t')
	x.lbuf = append(x.lbuf, enc...)
	x.lbuf = append(x.lbuf, '\n')
	if _, err := x.logf.Write(x.lbuf); err != nil {
		fmt.Fprintln(os.Stderr, "c04 child: log write:", err)
		os.Exit(2)
	}
	in, err := bytesOf(d, sys, enc)
	if err != nil {
		fmt.Fprintln(os.Stderr, "c04 child: bad input encoding:", err)
		os.Exit(2)
	}
	x.sum.Calls++
	x.curSys = sys
	t0 := time.Now()
	ret := x.protected(d, sys, enc, in)
	// Reporting only: the slowest calls go to evidence; no verdict depends on it.
	if el := time.Since(t0); el > 20*time.Millisecond {
		x.slow(SlowRec{Entry: d.name, Sys: sys, Enc: clip(enc, 120), Bytes: len(in), Ms: el.Milliseconds(), Ret: ret})
	}
	key := d.name + "|" + ret
	if _, known := x.sum.Ret[key]; !known {
		// Error texts echo input; keep the evidence readable by lumping
		// whatever comes after the first 30 families of a driver.
		if x.retFamilies[d.name] >= 30 && strings.HasPrefix(ret, "err:") {
			key = d.name + "|err:(other families)"
		} else {
			x.retFamilies[d.name]++
		}
	}
	x.sum.Ret[key]++
	if nontrivial(ret) {
		h := fnv.New64a()
		h.Write([]byte(d.name))
		h.Write([]byte{0})
		h.Write([]byte(sys))
		h.Write([]byte{0})
		h.Write(in)
		x.seen[h.Sum64()] = struct{}{}
	}
}

func (x *runner) slow(r SlowRec) {
	x.sum.Slow = append(x.sum.Slow, r)
	sort.Slice(x.sum.Slow, func(i, j int) bool { return x.sum.Slow[i].Ms > x.sum.Slow[j].Ms })
	if len(x.sum.Slow) > 4 {
		x.sum.Slow = x.sum.Slow[:4]
	}
}

func (x *runner) protected(d *driver, sys, enc string, in []byte) (ret string) {
	defer func() {
		if e := recover(); e != nil {
			x.recordPanic(d, sys, enc, e, debug.Stack())
			ret = "panic"
		}
	}()
	return d.run(x, sys, in)
}

func (x *runner) finish() {
	x.sum.Done = true
	x.sum.Nontriv = int64(len(x.seen))
	for _, p := range x.panics {
		x.sum.Panics = append(x.sum.Panics, *p)
	}
	for _, p := range x.nonterm {
		x.sum.Nonterm = append(x.sum.Nonterm, *p)
	}
	w := bufio.NewWriter(os.Stdout)
	json.NewEncoder(w).Encode(&x.sum)
	w.Flush()
	x.logf.Close()
	os.Exit(0)
}

// batch generates and runs n inputs of one (driver, system).
func (x *runner) batch(d *driver, sys, kind string, seed int64, n int) {
	r := rand.New(rand.NewSource(seed))
	switch {
	case strings.HasPrefix(kind, "long"):
		// kind is long:<i>:<k>: chunk i of k of the long list of this
		// (driver, system); all chunks share the seed. n is the size cap of
		// the tier; below 10^6 the generic shapes are subsampled (a third,
		// chosen by the seed).
		ci, ck := 0, 1
		fmt.Sscanf(kind, "long:%d:%d", &ci, &ck)
		if ck < 1 {
			ck = 1
		}
		idx := 0
		for _, ls := range d.longList(sys) {
			if ls.N > n {
				continue
			}
			if _, specific := d.long[ls.Shape]; !specific && n < 1000000 && r.Intn(3) != 0 {
				continue
			}
			idx++
			if idx%ck != ci {
				continue
			}
			x.feature("source:long")
			x.call(d, sys, fmt.Sprintf("@long:%s:%d", ls.Shape, ls.N))
		}
	default:
		g := &genCtx{r: r}
		for i := 0; i < n; i++ {
			in, src := d.input(g, sys, i, n)
			x.feature("source:" + src)
			enc := b64(in)
			if i == n/2 && len(in) <= 300 {
				x.sum.Samples = append(x.sum.Samples, caseFromLog(d.name, sys, enc))
			}
			x.call(d, sys, enc)
		}
	}
}

// ---- classification of returns ------------------------------------------

var (
	reQuoted  = regexp.MustCompile("`[^`]*`|\"(?:[^\"\\\\]|\\\\.)*\"|'[^']*'")
	reDigits  = regexp.MustCompile(`[0-9]+`)
	reNonWord = regexp.MustCompile(`[^A-Za-z]+`)
)

// family maps an error to its text family: quoted material and numbers are
// dropped, the rest is cut to a few words, so that "invalid character 'x' in
// `1x`" and "invalid character 'y' in `2y`" are one family.
func family(err error) string {
	s := err.Error()
	if len(s) > 400 {
		s = s[:400]
	}
	s = strings.ToValidUTF8(s, "?")
	s = reQuoted.ReplaceAllString(s, "")
	s = reDigits.ReplaceAllString(s, "")
	// The first five words: what follows is mostly echoed input.
	w := strings.FieldsFunc(s, func(r rune) bool { return !(r >= 'a' && r <= 'z' || r >= 'A' && r <= 'Z') })
	if len(w) > 5 {
		w = w[:5]
	}
	s = strings.Join(w, "-")
	if len(s) > 40 {
		s = s[:40]
	}
	return strings.ToLower(s)
}

func retErr(err error) string {
	if err == nil {
		return "value"
	}
	return "err:" + family(err)
}

// shallow lists the error families that are produced by the very first
// validity check of an entry point (empty input, a character outside the
// alphabet, missing suffix, broken UTF-8, XML that does not start). A call is
// non-trivial when it returned a value or any other error.
var shallow = []string{
	"err:invalid-character", "err:empty", "err:invalid-text", "err:invalid-utf",
	"err:not-a-wheel-filename", "err:invalid-python-requirement-empty",
	"err:eof", "err:xml-syntax-error", "err:unsupported-sdist-format", "err:zip-not-a-valid-zip-file",
	"err:gzip-invalid-header", "err:unexpected-eof", "err:invalid-maven-package-name",
	"err:harness-input", "skip", "panic",
}

func nontrivial(ret string) bool {
	for _, p := range shallow {
		if strings.HasPrefix(ret, p) {
			return false
		}
	}
	return true
}

// ---- panic classification -----------------------------------------------

var reHex = regexp.MustCompile(`0x[0-9a-fA-F]+`)

// frames extracts the function names of a debug.Stack / crash dump, top first.
func frames(stack string) []string {
	var out []string
	for _, ln := range strings.Split(stack, "\n") {
		if ln == "" || ln[0] == '\t' || ln[0] == ' ' || strings.HasPrefix(ln, "goroutine ") {
			continue
		}
		if strings.HasPrefix(ln, "created by ") {
			continue
		}
		i := strings.LastIndex(ln, "(")
		if i <= 0 {
			continue
		}
		out = append(out, ln[:i])
	}
	return out
}

func shortFunc(f string) string {
	f = strings.TrimPrefix(f, "deps.dev/util/")
	f = strings.TrimPrefix(f, "deps.dev/")
	f = strings.ReplaceAll(f, "(*", "")
	f = strings.ReplaceAll(f, ")", "")
	f = strings.ReplaceAll(f, ":", "_")
	return f
}

// depsFrames returns the innermost deps.dev frame and the entry point: the
// innermost *exported* deps.dev function on the stack (falling back to the
// outermost deps.dev frame), so that one faulty internal function reached
// through Compare, Difference and Match alike is one class.
func depsFrames(stack string) (inner, entry string) {
	outer := ""
	for _, f := range frames(stack) {
		if !strings.HasPrefix(f, "deps.dev/") {
			if inner != "" && strings.HasPrefix(f, "verif/harness/") {
				break // below the driver there is only harness
			}
			continue
		}
		sf := shortFunc(f)
		if inner == "" {
			inner = sf
		}
		if entry == "" && exportedFunc(sf) {
			entry = sf
		}
		outer = sf
	}
	if entry == "" {
		entry = outer
	}
	return
}

// exportedFunc reports whether pkg.Type.Method / pkg.Func names an exported
// function (every component after the package path capitalised).
func exportedFunc(sf string) bool {
	i := strings.LastIndex(sf, "/")
	rest := sf[i+1:]
	parts := strings.Split(rest, ".")
	if len(parts) < 2 {
		return false
	}
	for _, p := range parts[1:] {
		if strings.HasPrefix(p, "func") && len(p) > 4 && p[4] >= '0' && p[4] <= '9' {
			return false // a closure inside: not the entry itself
		}
		if p == "" || !(p[0] >= 'A' && p[0] <= 'Z') {
			return false
		}
	}
	return true
}

// causeSlug makes a stable short name of a panic message.
func causeSlug(msg string) string {
	s := strings.ToValidUTF8(msg, "?")
	s = strings.TrimPrefix(s, "runtime error: ")
	switch {
	case strings.HasPrefix(s, "index out of range"):
		return "index-out-of-range"
	case strings.HasPrefix(s, "slice bounds out of range"):
		return "slice-bounds-out-of-range"
	case strings.HasPrefix(s, "invalid memory address or nil pointer"):
		return "nil-dereference"
	case strings.HasPrefix(s, "integer divide by zero"):
		return "divide-by-zero"
	case strings.Contains(s, "makeslice") || strings.Contains(s, "len out of range"):
		return "makeslice-out-of-range"
	}
	s = reQuoted.ReplaceAllString(s, "")
	s = reHex.ReplaceAllString(s, "")
	s = reDigits.ReplaceAllString(s, "")
	s = strings.Trim(reNonWord.ReplaceAllString(s, "-"), "-")
	if len(s) > 32 {
		s = s[:32]
	}
	return strings.ToLower(strings.Trim(s, "-"))
}

func (x *runner) recordPanic(d *driver, sys, enc string, e any, stack []byte) {
	msg := fmt.Sprint(e)
	inner, outer := depsFrames(string(stack))
	if inner == "" {
		// No frame of the code under test: the harness itself is at fault.
		if len(x.sum.Harness) < 5 {
			x.sum.Harness = append(x.sum.Harness, fmt.Sprintf("%s/%s input %s: %s\n%s", d.name, sys, clip(enc, 200), msg, clip(string(stack), 1500)))
		}
		return
	}
	// x.curSys is the system of the entry point that was executing (a set
	// operation may parse its second operand under another system).
	csys := x.curSys
	class := fmt.Sprintf("C04:panic:%s:%s:%s@%s", outer, csys, causeSlug(msg), inner)
	if p := x.panics[class]; p != nil {
		p.Count++
		// Prefer the shortest witness.
		if len(enc) < len(p.Enc) {
			p.Enc, p.Entry = enc, d.name
		}
		return
	}
	var top []string
	for _, ln := range strings.Split(string(stack), "\n") {
		if strings.Contains(ln, "deps.dev/") {
			top = append(top, strings.TrimSpace(ln))
			if len(top) >= 12 {
				break
			}
		}
	}
	x.panics[class] = &PanicRec{Class: class, Entry: d.name, Sys: sys, Enc: enc, Msg: clip(strings.ToValidUTF8(msg, "?"), 300), API: outer, Frame: inner, Stack: top, Count: 1}
}

func clip(s string, n int) string {
	if len(s) > n {
		return s[:n] + "..."
	}
	return s
}
