package main

import (
	"fmt"
	"math/rand"
	"sort"
	"strings"
	"sync"

	"deps.dev/util/resolve"
	"deps.dev/util/semver"
	"verif/harness/ev"
	"verif/harness/gen"
)

func init() { register("C01", c01) }

// c01 observes the comparison matrix of generated version pools and checks
// the order laws over all triples, plus build-metadata blindness, history
// independence and permutation-invariant sorting.
func c01(r *ev.Run, replay string) {
	r.MaxSamples = 9
	r.Rule = "per system: pool of N distinct generated version strings accepted by Parse; full NxN matrix via (*Version).Compare; all N^3 triples checked for reflexivity, antisymmetry, transitivity, congruence; matrix recomputed via System.Compare on strings, on fresh objects in shuffled order, and after a burst of constraint/match/canon calls on the same objects; build-metadata variants must have identical rows; 20 permutations sorted (sort.SliceStable, resolve.SortVersions) must give the same class sequence. Non-trivial = unordered triple of distinct pool strings spanning >=2 equivalence classes (distinct by construction: pool strings are distinct)."
	r.Assumptions = []string{"the Maven pool is restricted to the Maven-Central shape named in the property's quantifier"}
	if replay != "" {
		c01Replay(r, replay)
		return
	}
	var wit []c01case
	if err := readJSON(ev.Root+"/witnesses/C01.json", &wit); err != nil {
		r.Inconclusive("witnesses/C01.json: " + err.Error())
	}
	for _, w := range wit {
		if w.Sys == "Maven-dot-qualifier" {
			c01Pool(r, gen.SysGen{Name: w.Sys, Sys: semver.Maven, Gen: gen.MavenDotQualifier}, w.Pool, r.Rand("witness"))
			r.Count("witness_pools", 1)
		}
		for _, sg := range gen.OrderSystems() {
			if sg.Name == w.Sys {
				c01Pool(r, sg, w.Pool, r.Rand("witness"))
				r.Count("witness_pools", 1)
			}
		}
	}
	// Before anything runs concurrently: one integer-edge pool per system, one
	// system after the other, so that a system's first look at a string comes
	// before any other system has seen it (step (iv) of c01Pool then lets the
	// others see it and compares again). NuGet, whose reading of numbers is
	// the narrowest, goes first.
	{
		order := gen.OrderSystems()
		sort.SliceStable(order, func(i, j int) bool { return order[i].Name == "NuGet" && order[j].Name != "NuGet" })
		for _, sg := range order {
			sg := sg
			rng := r.Rand("isolated/" + sg.Name)
			pool := gen.ExtremeFamilies(rng, sg.Gen, 120, func(s string) bool {
				if sg.Sys == semver.Maven && !gen.MavenInDomain(s) {
					return false
				}
				_, err := sg.Sys.Parse(s)
				return err == nil
			})
			c01Pool(r, sg, pool, rng)
			r.Count("isolated_pools", 1)
		}
	}
	// Maven versions whose qualifier is attached with a dot (4.1.0.Final): a
	// Maven-Central shape of the property's domain where the library's flat
	// element model departs from Maven's nested lists (open finding). The pools
	// are kept apart, under a system name of their own, so that the finding
	// is identified by the shape and nothing else is attributed to it.
	for sh := 0; sh < r.N(2, 12); sh++ {
		sg := gen.SysGen{Name: "Maven-dot-qualifier", Sys: semver.Maven, Gen: gen.MavenDotQualifier}
		rng := r.Rand(fmt.Sprintf("maven-dot/%d", sh))
		pool := gen.Pool(rng, sg.Gen, 200, func(s string) bool {
			if !gen.MavenInDotDomain(s) {
				return false
			}
			_, err := sg.Sys.Parse(s)
			return err == nil
		})
		c01Pool(r, sg, pool, rng)
		r.Count("maven_dot_qualifier_pools", 1)
	}
	// A version, its shortened spellings and the wildcard patterns around it
	// (1, 1.x, 1.0, 1.2.x, x.2.3): whatever of these a system's Parse accepts is
	// a version of that system.
	for _, sg := range gen.OrderSystems() {
		for sh := 0; sh < r.N(1, 6); sh++ {
			rng := r.Rand(fmt.Sprintf("wild/%s/%d", sg.Name, sh))
			pool := gen.WildFamilies(rng, sg.Gen, 160, func(s string) bool {
				if sg.Sys == semver.Maven && !gen.MavenInDomain(s) {
					return false
				}
				_, err := sg.Sys.Parse(s)
				return err == nil
			})
			wild := 0
			for _, s := range pool {
				if strings.ContainsAny(s, "xX*") {
					wild++
				}
			}
			r.Count("wildcard_family_pools:"+sg.Name, 1)
			r.Count("wildcard_patterns_in_pools:"+sg.Name, int64(wild))
			if len(pool) >= 3 {
				c01Pool(r, sg, pool, rng)
			}
		}
	}
	n := r.N(300, 600)
	shards := r.N(6, 48)
	var wg sync.WaitGroup
	sem := make(chan struct{}, 16)
	for _, sg := range gen.OrderSystems() {
		// The regular pools, then a third as many again for the integer edges.
		for sh := 0; sh < shards+shards/3; sh++ {
			wg.Add(1)
			sem <- struct{}{}
			go func(sg gen.SysGen, sh int) {
				defer wg.Done()
				defer func() { <-sem }()
				defer func() {
					if p := recover(); p != nil {
						r.Violation("C01:"+sg.Name+":panic", fmt.Sprint("panic in order monitor: ", p), nil)
					}
				}()
				rng := r.Rand(fmt.Sprintf("%s/%d", sg.Name, sh))
				g := sg.Gen
				if sh >= shards && sh%2 == 1 {
					// Half of the extra pools are dominated by components at the
					// edges of the 32- and 64-bit integer ranges.
					g = gen.Extreme(g)
					r.Count("extreme_pools:"+sg.Name, 1)
				}
				accept := func(s string) bool {
					if sg.Sys == semver.Maven && !gen.MavenInDomain(s) {
						return false
					}
					_, err := sg.Sys.Parse(s)
					return err == nil
				}
				var pool []string
				if sh >= shards && sh%2 == 0 {
					// Families that differ in one component only, that
					// component running over 0, 1 and the integer edges.
					pool = gen.ExtremeFamilies(rng, sg.Gen, n, accept)
					r.Count("extreme_family_pools:"+sg.Name, 1)
				} else {
					pool = gen.PoolWithVariants(rng, sg.Sys, g, n, accept)
				}
				c01Pool(r, sg, pool, rng)
			}(sg, sh)
		}
	}
	wg.Wait()
	for _, sg := range gen.OrderSystems() {
		r.Gate("pool:"+sg.Name, int64(n*shards*3/4))
		r.Gate("nontrivial_triples:"+sg.Name, 20000)
	}
}

func c01Replay(r *ev.Run, path string) {
	var c struct {
		Case struct {
			Sys  string   `json:"sys"`
			Pool []string `json:"pool"`
		} `json:"case"`
	}
	if err := readJSON(path, &c); err != nil {
		r.Inconclusive("replay unreadable: " + err.Error())
		return
	}
	for _, sg := range gen.OrderSystems() {
		if sg.Name == c.Case.Sys {
			c01Pool(r, sg, c.Case.Pool, r.Rand("replay"))
		}
	}
}

type c01case struct {
	Sys  string   `json:"sys"`
	Pool []string `json:"pool"`
	Note string   `json:"note"`
}

func matrix(vs []*semver.Version) [][]int8 {
	n := len(vs)
	m := make([][]int8, n)
	for i := range m {
		m[i] = make([]int8, n)
		for j := range m[i] {
			m[i][j] = int8(vs[i].Compare(vs[j]))
		}
	}
	return m
}

func sgn8(x int8) int8 {
	switch {
	case x < 0:
		return -1
	case x > 0:
		return 1
	}
	return 0
}

func c01Pool(r *ev.Run, sg gen.SysGen, pool []string, rng *rand.Rand) {
	n := len(pool)
	r.Count("pool:"+sg.Name, int64(n))
	if n < 3 {
		return
	}
	viol := func(law, what string, strs ...string) {
		r.Violation("C01:"+sg.Name+":"+law, what, c01case{Sys: sg.Name, Pool: strs, Note: law})
	}
	vs := make([]*semver.Version, n)
	for i, s := range pool {
		v, err := sg.Sys.Parse(s)
		if err != nil {
			viol("parse-unstable", fmt.Sprintf("%q parsed once and then failed: %v", s, err), s)
			return
		}
		vs[i] = v
	}
	m := matrix(vs)
	r.Eval(int64(n) * int64(n))
	// Laws over all triples.
	bad := map[string]int{}
	for i := 0; i < n; i++ {
		if m[i][i] != 0 {
			if bad["reflexive"]++; bad["reflexive"] <= 2 {
				viol("reflexive", fmt.Sprintf("cmp(%q,%q)=%d", pool[i], pool[i], m[i][i]), pool[i])
			}
		}
		for j := 0; j < n; j++ {
			if m[i][j] < -1 || m[i][j] > 1 {
				if bad["range"]++; bad["range"] <= 2 {
					viol("range", fmt.Sprintf("cmp(%q,%q)=%d not in {-1,0,1}", pool[i], pool[j], m[i][j]), pool[i], pool[j])
				}
			}
			if sgn8(m[i][j]) != -sgn8(m[j][i]) {
				if bad["antisym"]++; bad["antisym"] <= 2 {
					viol("antisymmetric", fmt.Sprintf("cmp(%q,%q)=%d but cmp(%q,%q)=%d", pool[i], pool[j], m[i][j], pool[j], pool[i], m[j][i]), pool[i], pool[j])
				}
			}
		}
	}
	for i := 0; i < n; i++ {
		for j := 0; j < n; j++ {
			if m[i][j] > 0 {
				continue
			}
			for k := 0; k < n; k++ {
				if m[j][k] <= 0 && m[i][k] > 0 {
					if bad["trans"]++; bad["trans"] <= 2 {
						viol("transitive", fmt.Sprintf("%q <= %q <= %q but %q > %q", pool[i], pool[j], pool[k], pool[i], pool[k]), pool[i], pool[j], pool[k])
					}
				}
				if m[i][j] == 0 && sgn8(m[i][k]) != sgn8(m[j][k]) {
					if bad["cong"]++; bad["cong"] <= 2 {
						viol("congruent", fmt.Sprintf("%q == %q but against %q: %d vs %d", pool[i], pool[j], pool[k], m[i][k], m[j][k]), pool[i], pool[j], pool[k])
					}
				}
			}
		}
	}
	r.Eval(int64(n) * int64(n) * int64(n))
	// Classes (valid as classes only when the laws held, which is what we check).
	class := make([]int, n)
	nclass := 0
	for i := 0; i < n; i++ {
		class[i] = -1
		for j := 0; j < i; j++ {
			if m[i][j] == 0 {
				class[i] = class[j]
				break
			}
		}
		if class[i] < 0 {
			class[i] = nclass
			nclass++
		}
	}
	// Count unordered triples spanning >= 2 classes: all triples minus those within one class.
	sizes := make([]int64, nclass)
	for _, c := range class {
		sizes[c]++
	}
	N := int64(n)
	tri := N * (N - 1) * (N - 2) / 6
	for _, s := range sizes {
		tri -= s * (s - 1) * (s - 2) / 6
	}
	r.NontrivialAdd(tri)
	r.Count("nontrivial_triples:"+sg.Name, tri)
	r.Count("classes:"+sg.Name, int64(nclass))
	if r.Counter("sampled:"+sg.Name) == 0 {
		r.Count("sampled:"+sg.Name, 1)
		r.Sample(map[string]any{"sys": sg.Name, "triple": []string{pool[rng.Intn(n)], pool[rng.Intn(n)], pool[rng.Intn(n)]}})
	}

	same := func(name string, m2 [][]int8) {
		for i := 0; i < n; i++ {
			for j := 0; j < n; j++ {
				if sgn8(m[i][j]) != sgn8(m2[i][j]) {
					viol("history:"+name, fmt.Sprintf("cmp(%q,%q) was %d, %s gives %d", pool[i], pool[j], m[i][j], name, m2[i][j]), pool[i], pool[j])
					return
				}
			}
		}
	}
	// (i) System.Compare on strings.
	m2 := make([][]int8, n)
	for i := range m2 {
		m2[i] = make([]int8, n)
		for j := range m2[i] {
			m2[i][j] = int8(sg.Sys.Compare(pool[i], pool[j]))
		}
	}
	same("System.Compare", m2)
	// (ii) fresh objects, shuffled call order.
	fresh := make([]*semver.Version, n)
	for _, i := range rng.Perm(n) {
		fresh[i], _ = sg.Sys.Parse(pool[i])
	}
	m3 := make([][]int8, n)
	for i := range m3 {
		m3[i] = make([]int8, n)
	}
	for _, i := range rng.Perm(n) {
		for _, j := range rng.Perm(n) {
			m3[i][j] = int8(fresh[i].Compare(fresh[j]))
		}
	}
	same("fresh-shuffled", m3)
	// (iii) a burst of other operations on the same objects, then recompute.
	c01Burst(sg, vs, pool, rng)
	same("after-burst", matrix(vs))
	// (iv) the same strings go through every other system's parser and
	// comparison (what they make of them is their business), then this
	// system's matrix is recomputed on the same objects and on fresh ones:
	// an earlier call in another system is history too.
	for _, other := range gen.OrderSystems() {
		if other.Sys == sg.Sys {
			continue
		}
		var ov []*semver.Version
		for _, s := range pool {
			if v, err := other.Sys.Parse(s); err == nil {
				ov = append(ov, v)
			}
		}
		for i := range ov {
			ov[i].Compare(ov[(i+1)%len(ov)])
			ov[i].Compare(ov[(i*7+3)%len(ov)])
		}
		r.Count("foreign_history_versions:"+sg.Name, int64(len(ov)))
	}
	same("after-other-systems", matrix(vs))
	{
		fresh := make([]*semver.Version, n)
		ok := true
		for i, s := range pool {
			v, err := sg.Sys.Parse(s)
			if err != nil {
				viol("parse-unstable", fmt.Sprintf("%q parsed before and fails after the other systems parsed it: %v", s, err), s)
				ok = false
				break
			}
			fresh[i] = v
		}
		if ok {
			same("fresh-after-other-systems", matrix(fresh))
		}
	}
	r.Eval(3 * N * N)

	// Build metadata.
	switch sg.Sys {
	case semver.DefaultSystem, semver.Cargo, semver.Go, semver.NPM, semver.NuGet, semver.Composer:
		for i, s := range pool {
			var alt string
			if k := strings.IndexByte(s, '+'); k >= 0 {
				alt = s[:k]
			} else {
				alt = s + "+" + gen.Pick(rng, "build", "1", "001", "a.b", "zz.9")
			}
			av, err := sg.Sys.Parse(alt)
			if err != nil {
				r.Count("build-variant-rejected:"+sg.Name, 1)
				continue
			}
			r.Count("build-variants:"+sg.Name, 1)
			for j := 0; j < n; j++ {
				if c := int8(av.Compare(vs[j])); sgn8(c) != sgn8(m[i][j]) {
					viol("build", fmt.Sprintf("cmp(%q,%q)=%d but cmp(%q,%q)=%d", s, pool[j], m[i][j], alt, pool[j], c), s, alt, pool[j])
					break
				}
			}
			r.Eval(N)
		}
	}

	// Sorting.
	classSeq := func(idx []int) string {
		var b strings.Builder
		for _, i := range idx {
			fmt.Fprintf(&b, "%d,", class[i])
		}
		return b.String()
	}
	var want string
	perms := 20
	for p := 0; p < perms; p++ {
		idx := rng.Perm(n)
		sort.SliceStable(idx, func(a, b int) bool { return vs[idx[a]].Compare(vs[idx[b]]) < 0 })
		got := classSeq(idx)
		if p == 0 {
			want = got
		} else if got != want {
			viol("sort", "two permutations of one pool sort to different class sequences", pool...)
			break
		}
	}
	r.Eval(int64(perms))
	var rsys resolve.System
	switch sg.Sys {
	case semver.NPM:
		rsys = resolve.NPM
	case semver.Maven:
		rsys = resolve.Maven
	case semver.PyPI:
		rsys = resolve.PyPI
	default:
		return
	}
	index := map[string]int{}
	for i, s := range pool {
		index[s] = i
	}
	for p := 0; p < perms; p++ {
		idx := rng.Perm(n)
		rv := make([]resolve.Version, n)
		for a, i := range idx {
			rv[a] = resolve.Version{VersionKey: resolve.VersionKey{PackageKey: resolve.PackageKey{System: rsys, Name: "p"}, VersionType: resolve.Concrete, Version: pool[i]}}
		}
		resolve.SortVersions(rv)
		out := make([]int, n)
		for a := range rv {
			out[a] = index[rv[a].Version]
		}
		if got := classSeq(out); got != want {
			viol("SortVersions", "resolve.SortVersions orders a permutation of the pool into a different class sequence than sorting by Compare", pool...)
			break
		}
	}
	r.Eval(int64(perms))
}

// c01Burst exercises API that is handed *Version objects (and unrelated
// parsing) between two evaluations of the matrix.
func c01Burst(sg gen.SysGen, vs []*semver.Version, pool []string, rng *rand.Rand) {
	defer func() { recover() }() // Totality is C04's business, not this monitor's.
	n := len(vs)
	for k := 0; k < 200; k++ {
		i, j := rng.Intn(n), rng.Intn(n)
		vs[i].Canon(true)
		vs[i].Canon(false)
		_ = vs[i].String()
		vs[i].IsPrerelease()
		vs[i].Prerelease()
		func() {
			defer func() { recover() }()
			vs[i].Difference(vs[j])
			// MinVersion documents that it overwrites its argument: give it a throw-away.
			if t, err := sg.Sys.Parse(pool[i]); err == nil {
				sg.Sys.MinVersion(t)
			}
		}()
		func() {
			defer func() { recover() }()
			var cs string
			switch sg.Sys {
			case semver.Maven:
				cs = "[" + pool[i] + "," + pool[j] + "]"
			case semver.PyPI:
				cs = ">=" + pool[i] + ",<=" + pool[j]
			case semver.NuGet:
				cs = "[" + pool[i] + "," + pool[j] + "]"
			default:
				cs = ">=" + pool[i] + " <=" + pool[j]
			}
			c, err := sg.Sys.ParseConstraint(cs)
			if err != nil {
				c, err = sg.Sys.ParseConstraint(pool[i])
				if err != nil {
					return
				}
			}
			x := rng.Intn(n)
			c.MatchVersion(vs[x])
			c.MatchVersionPrerelease(vs[x])
			c.Set().MatchVersion(vs[x])
			_ = c.Set().String()
		}()
	}
}
