// Package uni holds what the resolver monitors share: a JSON-serialisable
// package universe, building LocalClients from it, a counting/tracing client
// wrapper with a logical step budget, and an order-independent graph encoding.
package uni

import (
	"context"
	"fmt"
	"math/rand"
	"sort"
	"strings"
	"sync"
	"sync/atomic"

	"deps.dev/util/resolve"
	"deps.dev/util/resolve/dep"
	"deps.dev/util/resolve/version"
)

// Req is one requirement of a version. Attribute fields map to dep.Type keys.
type Req struct {
	Name string `json:"name"`
	Req  string `json:"req"`

	Dev   bool   `json:"dev,omitempty"`
	Opt   bool   `json:"opt,omitempty"`
	Test  bool   `json:"test,omitempty"`
	Scope string `json:"scope,omitempty"` // npm: peer|bundle; maven: provided|runtime|system|import

	KnownAs     string `json:"known_as,omitempty"`    // npm alias
	Environment string `json:"environment,omitempty"` // PyPI marker
	Enabled     string `json:"enabled,omitempty"`     // PyPI extras requested (EnabledDependencies)
	Classifier  string `json:"classifier,omitempty"`  // Maven
	ArtType     string `json:"artifact_type,omitempty"`
	Origin      string `json:"origin,omitempty"`     // Maven: management|import|parent
	Exclusions  string `json:"exclusions,omitempty"` // Maven: g:a|g:*|...
}

func (q Req) Type() dep.Type {
	var t dep.Type
	if q.Dev {
		t.AddAttr(dep.Dev, "")
	}
	if q.Opt {
		t.AddAttr(dep.Opt, "")
	}
	if q.Test {
		t.AddAttr(dep.Test, "")
	}
	add := func(k dep.AttrKey, v string) {
		if v != "" {
			t.AddAttr(k, v)
		}
	}
	add(dep.Scope, q.Scope)
	add(dep.KnownAs, q.KnownAs)
	add(dep.Environment, q.Environment)
	add(dep.EnabledDependencies, q.Enabled)
	add(dep.MavenClassifier, q.Classifier)
	add(dep.MavenArtifactType, q.ArtType)
	add(dep.MavenDependencyOrigin, q.Origin)
	add(dep.MavenExclusions, q.Exclusions)
	return t
}

// Version is one concrete version of a package with its requirements.
type Version struct {
	Name        string `json:"name"`
	Version     string `json:"version"`
	Tags        string `json:"tags,omitempty"`
	Blocked     bool   `json:"blocked,omitempty"`
	DerivedFrom string `json:"derived_from,omitempty"`
	Registries  string `json:"registries,omitempty"` // Maven: "default:URL|dep:URL|URL" (version.Registries)
	Reqs        []Req  `json:"reqs,omitempty"`
}

type Universe struct {
	Sys      string    `json:"sys"` // NPM | Maven | PyPI
	Versions []Version `json:"versions"`
}

func (u *Universe) System() resolve.System {
	switch u.Sys {
	case "NPM":
		return resolve.NPM
	case "Maven":
		return resolve.Maven
	case "PyPI":
		return resolve.PyPI
	}
	return resolve.UnknownSystem
}

func (u *Universe) VK(name, v string, t resolve.VersionType) resolve.VersionKey {
	return resolve.VersionKey{PackageKey: resolve.PackageKey{System: u.System(), Name: name}, VersionType: t, Version: v}
}

// Roots lists every version as a possible root, in universe order.
func (u *Universe) Roots() []resolve.VersionKey {
	out := make([]resolve.VersionKey, len(u.Versions))
	for i, v := range u.Versions {
		out[i] = u.VK(v.Name, v.Version, resolve.Concrete)
	}
	return out
}

// Find returns the version record.
func (u *Universe) Find(name, v string) *Version {
	for i := range u.Versions {
		if u.Versions[i].Name == name && u.Versions[i].Version == v {
			return &u.Versions[i]
		}
	}
	return nil
}

// Of lists the versions of one package.
func (u *Universe) Of(name string) []*Version {
	var out []*Version
	for i := range u.Versions {
		if u.Versions[i].Name == name {
			out = append(out, &u.Versions[i])
		}
	}
	return out
}

func (u *Universe) Packages() []string {
	seen := map[string]bool{}
	var out []string
	for _, v := range u.Versions {
		if !seen[v.Name] {
			seen[v.Name] = true
			out = append(out, v.Name)
		}
	}
	return out
}

func (u *Universe) mkVersion(v Version) (resolve.Version, []resolve.RequirementVersion) {
	rv := resolve.Version{VersionKey: u.VK(v.Name, v.Version, resolve.Concrete)}
	if v.Tags != "" {
		rv.SetAttr(version.Tags, v.Tags)
	}
	if v.Blocked {
		rv.SetAttr(version.Blocked, "")
	}
	if v.DerivedFrom != "" {
		rv.SetAttr(version.DerivedFrom, v.DerivedFrom)
	}
	if v.Registries != "" {
		rv.SetAttr(version.Registries, v.Registries)
	}
	var rs []resolve.RequirementVersion
	for _, q := range v.Reqs {
		rs = append(rs, resolve.RequirementVersion{VersionKey: u.VK(q.Name, q.Req, resolve.Requirement), Type: q.Type()})
	}
	return rv, rs
}

// Client builds a LocalClient by AddVersion in universe order, or in the
// order given by perm (a permutation of indices into Versions). Requirement
// slices are fresh copies.
func (u *Universe) Client(perm []int) *resolve.LocalClient {
	c := resolve.NewLocalClient()
	if perm == nil {
		perm = make([]int, len(u.Versions))
		for i := range perm {
			perm[i] = i
		}
	}
	for _, i := range perm {
		v, rs := u.mkVersion(u.Versions[i])
		c.AddVersion(v, rs)
	}
	return c
}

// AddAllTo adds every version of the universe, in universe order, to an
// existing client (replacing whatever it holds under the same keys).
func (u *Universe) AddAllTo(c *resolve.LocalClient) {
	for _, v := range u.Versions {
		rv, rs := u.mkVersion(v)
		c.AddVersion(rv, rs)
	}
}

// Counting wraps a client: it counts calls, cancels the resolution's context
// once the logical step budget is exhausted (so that non-termination is
// decided by steps, not by wall clock), optionally yields at call boundaries
// and optionally records the calls.
type Counting struct {
	C      resolve.Client
	Budget int64
	Cancel context.CancelFunc
	// Yield, if set, is called at the start of every client call.
	Yield func()
	// Trace records "kind key" per call when non-nil.
	Trace *[]string

	calls atomic.Int64
	mu    sync.Mutex
}

func (c *Counting) Calls() int64    { return c.calls.Load() }
func (c *Counting) Exhausted() bool { return c.Budget > 0 && c.calls.Load() > c.Budget }

func (c *Counting) step(kind, key string) {
	n := c.calls.Add(1)
	if c.Budget > 0 && n > c.Budget && c.Cancel != nil {
		c.Cancel()
	}
	if c.Trace != nil {
		c.mu.Lock()
		*c.Trace = append(*c.Trace, kind+" "+key)
		c.mu.Unlock()
	}
	if c.Yield != nil {
		c.Yield()
	}
}

func (c *Counting) Version(ctx context.Context, vk resolve.VersionKey) (resolve.Version, error) {
	c.step("Version", vk.String())
	return c.C.Version(ctx, vk)
}

func (c *Counting) Versions(ctx context.Context, pk resolve.PackageKey) ([]resolve.Version, error) {
	c.step("Versions", pk.String())
	return c.C.Versions(ctx, pk)
}

func (c *Counting) Requirements(ctx context.Context, vk resolve.VersionKey) ([]resolve.RequirementVersion, error) {
	c.step("Requirements", vk.String())
	return c.C.Requirements(ctx, vk)
}

func (c *Counting) MatchingVersions(ctx context.Context, vk resolve.VersionKey) ([]resolve.Version, error) {
	c.step("MatchingVersions", vk.String())
	return c.C.MatchingVersions(ctx, vk)
}

// StepBudget is the logical bound on client calls per resolution: two orders
// of magnitude above what terminating resolutions of such universes use.
func (u *Universe) StepBudget() int64 { return 200 * int64(len(u.Versions)+10) }

// Resolve runs one resolution under the step budget. exhausted reports that
// the resolver was still asking the client after Budget calls.
func Resolve(mk func(resolve.Client) resolve.Resolver, c resolve.Client, budget int64, root resolve.VersionKey) (g *resolve.Graph, err error, exhausted bool, calls int64) {
	ctx, cancel := context.WithCancel(context.Background())
	defer cancel()
	cc := &Counting{C: c, Budget: budget, Cancel: cancel}
	g, err = mk(cc).Resolve(ctx, root)
	return g, err, cc.Exhausted(), cc.Calls()
}

// Encode gives an order- and numbering-independent text form of a resolution
// result, so that results can be compared without relying on Graph.Canon:
// the root, the sorted multiset of node descriptions (version, sorted errors,
// sorted out-edges by target version/requirement/type), the graph error.
// Two graphs that differ only in node numbering and edge/error order encode
// equally as long as equal-versioned nodes have distinguishable
// neighbourhoods; refinement runs to a fixed point (colour refinement).
func Encode(g *resolve.Graph, err error) string {
	if err != nil {
		return "ERROR: " + err.Error()
	}
	if g == nil {
		return "<nil graph>"
	}
	n := len(g.Nodes)
	col := make([]string, n)
	for i, nd := range g.Nodes {
		var es []string
		for _, e := range nd.Errors {
			es = append(es, e.Req.String()+"="+e.Error)
		}
		sort.Strings(es)
		col[i] = nd.Version.String() + " errs[" + strings.Join(es, ";") + "]"
		if i == 0 {
			col[i] = "ROOT " + col[i]
		}
	}
	out := make([][]resolve.Edge, n)
	in := make([][]resolve.Edge, n)
	for _, e := range g.Edges {
		if int(e.From) < n && int(e.To) < n {
			out[e.From] = append(out[e.From], e)
			in[e.To] = append(in[e.To], e)
		}
	}
	for round := 0; round < 4; round++ {
		next := make([]string, n)
		for i := range g.Nodes {
			var os, is []string
			for _, e := range out[i] {
				os = append(os, fmt.Sprintf("->%s|%s|%s", col[e.To], e.Requirement, e.Type.String()))
			}
			for _, e := range in[i] {
				is = append(is, fmt.Sprintf("<-%s|%s|%s", col[e.From], e.Requirement, e.Type.String()))
			}
			sort.Strings(os)
			sort.Strings(is)
			next[i] = hash(col[i] + "{" + strings.Join(os, ",") + "}{" + strings.Join(is, ",") + "}")
		}
		col = next
	}
	// Final description uses first-round readable form plus refined colours.
	var lines []string
	for i, nd := range g.Nodes {
		var os []string
		for _, e := range out[i] {
			os = append(os, fmt.Sprintf("%s %q %s -> %s", e.Type.String(), e.Requirement, col[e.To][:8], g.Nodes[e.To].Version.String()))
		}
		sort.Strings(os)
		var es []string
		for _, e := range nd.Errors {
			es = append(es, e.Req.String()+"="+e.Error)
		}
		sort.Strings(es)
		p := ""
		if i == 0 {
			p = "ROOT "
		}
		lines = append(lines, fmt.Sprintf("%s%s #%s errs%v\n    %s", p, nd.Version.String(), col[i][:8], es, strings.Join(os, "\n    ")))
	}
	if len(lines) == 0 {
		return "<no nodes>\nGRAPH-ERROR: " + g.Error
	}
	root := lines[0]
	rest := lines[1:]
	sort.Strings(rest)
	return root + "\n" + strings.Join(rest, "\n") + "\nGRAPH-ERROR: " + g.Error
}

func hash(s string) string {
	var h uint64 = 14695981039346656037
	for i := 0; i < len(s); i++ {
		h ^= uint64(s[i])
		h *= 1099511628211
	}
	return fmt.Sprintf("%016x", h)
}

// Pick is a small helper for generators.
func Pick(r *rand.Rand, xs ...string) string { return xs[r.Intn(len(xs))] }

// ForeignWarmup hands every requirement text of the universe to the matcher
// of the *other* packaging systems first (over a small fixed version list).
// It changes nothing a correct library can observe; it is there so that state
// that outlives a call and is keyed by the text alone (a process-wide cache of
// parsed requirements, say) is filled with the other systems' reading of the
// same text before the system under test asks.
func ForeignWarmup(u *Universe) {
	var versions = []string{"0.9.0", "1.0.0", "1.2.5", "1.5.0", "2.0.0", "3.1.0"}
	seen := map[string]bool{}
	for _, v := range u.Versions {
		for _, q := range v.Reqs {
			if seen[q.Req] {
				continue
			}
			seen[q.Req] = true
			for _, sys := range []resolve.System{resolve.NPM, resolve.Maven, resolve.PyPI} {
				if sys == u.System() {
					continue
				}
				func() {
					defer func() { recover() }() // totality is C04's subject
					vs := make([]resolve.Version, len(versions))
					for i, s := range versions {
						vs[i] = resolve.Version{VersionKey: resolve.VersionKey{PackageKey: resolve.PackageKey{System: sys, Name: "warm"}, VersionType: resolve.Concrete, Version: s}}
					}
					resolve.MatchRequirement(resolve.VersionKey{PackageKey: resolve.PackageKey{System: sys, Name: "warm"}, VersionType: resolve.Requirement, Version: q.Req}, vs)
				}()
			}
		}
	}
}

// PyPISaturation is a universe whose root carries more requirements with
// distinct (false) environment markers than the PyPI resolver's caches hold
// (10000 entries each): resolving its root on a resolver fills the marker
// cache beyond its capacity, so that whatever is looked up afterwards goes
// through the eviction path.
var PyPISaturation = sync.OnceValue(func() *Universe {
	u := &Universe{Sys: "PyPI"}
	root := Version{Name: "saturation-root", Version: "1.0"}
	for i := 0; i < 10100; i++ {
		root.Reqs = append(root.Reqs, Req{Name: "saturation-dep", Req: "", Environment: fmt.Sprintf(`sys_platform == "never-%d"`, i)})
	}
	u.Versions = []Version{root, {Name: "saturation-dep", Version: "1.0"}}
	return u
})

// SaturatePyPI resolves the saturation root through the given resolver, which
// must be reading from sw; sw is pointed at the saturation universe for the
// duration of the call.
func SaturatePyPI(res resolve.Resolver, point func(resolve.Client)) {
	u := PyPISaturation()
	point(saturationClient())
	res.Resolve(context.Background(), u.VK("saturation-root", "1.0", resolve.Concrete))
}

var saturationClient = sync.OnceValue(func() *resolve.LocalClient { return PyPISaturation().Client(nil) })
