#!/usr/bin/env python3
"""Writes /verif/seeded/README.md: one row per stored seeded change."""
import json, glob, os
rows = []
for d in sorted(glob.glob('/verif/seeded/*/meta.json')):
    m = json.load(open(d))
    what = m['what_and_what_it_needs_to_manifest'].strip().split('\n')
    first = ' '.join(what[:3])[:260].replace('|', '\\|')
    rows.append("| %s | %s | %s |" % (m['id'], first, m['checks_run'].replace('|', '\\|')))
open('/verif/seeded/README.md', 'w').write("""# Seeded changes

Each directory holds one change to google/deps.dev written by an independent
sub-agent that was given only the text of one property and a scratch worktree
(nothing from /verif): `patch.diff`, `demo/` (a test that fails with the change
and passes without it, with `RUN.txt`), `meta.json` (what it needs to manifest,
what was confirmed, which check reported it). Every change compiles and passes
the repository's own suite (`tools/try_mutant.sh`); none is ever committed to
/repo. To try one: `tools/try_mutant.sh <id> seeded/<id>/patch.diff quick <PROPERTY>`.

| id | change (first lines of the author's note) | outcome |
|---|---|---|
""" + '\n'.join(rows) + '\n')
print(len(rows), "rows")
