package c17

// Sub-monitor 1: the live descriptors of api/v3 against those of api/v3alpha,
// and resolve's System constants against the v3 System enum.

import (
	"fmt"
	"strings"

	v3 "deps.dev/api/v3"
	v3a "deps.dev/api/v3alpha"
	"deps.dev/util/resolve"
	"google.golang.org/genproto/googleapis/api/annotations"
	"google.golang.org/protobuf/proto"
	"google.golang.org/protobuf/reflect/protoreflect"
)

type walker struct {
	m          *mon
	pkgA, pkgB string
}

func (w *walker) bad(kind, path, what, want, got string) {
	w.m.violation("C17:walk:"+kind, path+": "+what, elemCase{Monitor: "walk", Path: path, Want: want, Got: got})
}

func runWalk(m *mon) {
	a, b := v3.File_api_proto, v3a.File_api_proto
	w := &walker{m: m, pkgA: string(a.Package()), pkgB: string(b.Package())}
	if w.pkgA == w.pkgB || w.pkgA == "" || w.pkgB == "" {
		m.r.Inconclusive(fmt.Sprintf("walk: unexpected packages %q and %q", w.pkgA, w.pkgB))
		return
	}
	// "up to the version prefix": the last package component is the version.
	verA := w.pkgA[strings.LastIndexByte(w.pkgA, '.')+1:]
	verB := w.pkgB[strings.LastIndexByte(w.pkgB, '.')+1:]

	for i := 0; i < a.Messages().Len(); i++ {
		ma := a.Messages().Get(i)
		w.message(ma, b.Messages().ByName(ma.Name()), string(ma.Name()))
	}
	for i := 0; i < a.Enums().Len(); i++ {
		ea := a.Enums().Get(i)
		w.enum(ea, b.Enums().ByName(ea.Name()), string(ea.Name()))
	}
	for i := 0; i < a.Services().Len(); i++ {
		sa := a.Services().Get(i)
		sb := b.Services().ByName(sa.Name())
		path := string(sa.Name())
		m.elem("walk", "service", path)
		if sb == nil {
			w.bad("service:missing", path, "service missing in v3alpha", "", "")
			continue
		}
		for j := 0; j < sa.Methods().Len(); j++ {
			ma := sa.Methods().Get(j)
			w.method(ma, sb.Methods().ByName(ma.Name()), path+"."+string(ma.Name()), verA, verB)
		}
	}
	w.systems(a)
}

func (w *walker) method(ma, mb protoreflect.MethodDescriptor, path, verA, verB string) {
	w.m.elem("walk", "rpc", path)
	if mb == nil {
		w.bad("rpc:missing", path, "rpc missing in v3alpha", "", "")
		return
	}
	sigA := fmt.Sprintf("(%s%s) returns (%s%s)", stream(ma.IsStreamingClient()), rel(string(ma.Input().FullName()), w.pkgA), stream(ma.IsStreamingServer()), rel(string(ma.Output().FullName()), w.pkgA))
	sigB := fmt.Sprintf("(%s%s) returns (%s%s)", stream(mb.IsStreamingClient()), rel(string(mb.Input().FullName()), w.pkgB), stream(mb.IsStreamingServer()), rel(string(mb.Output().FullName()), w.pkgB))
	if sigA != sigB {
		w.bad("rpc:signature", path, "rpc signature differs", sigA, sigB)
	}
	w.m.elem("walk", "http", path)
	ha, errA := httpOf(ma)
	hb, errB := httpOf(mb)
	if errA != nil || errB != nil {
		w.m.r.Inconclusive(fmt.Sprintf("walk: %s: google.api.http option unreadable: %v %v", path, errA, errB))
		return
	}
	switch {
	case ha == nil && hb == nil:
		w.m.r.Count("walk:rpc_without_http", 1)
	case ha == nil: // v3 promises no HTTP binding; nothing to keep
		w.m.r.Count("walk:rpc_without_http", 1)
	case hb == nil:
		w.bad("http:missing", path, "v3 has an HTTP binding, v3alpha has none", ha.String(), "")
	default:
		want := ha.withPrefix("/"+verA+"/", "/"+verB+"/")
		if want.String() != hb.String() {
			w.bad("http:differs", path, "HTTP binding differs beyond the version prefix", want.String(), hb.String())
		}
		w.m.r.Count("walk:http_additional_bindings", int64(len(ha.Additional)))
	}
}

func stream(b bool) string {
	if b {
		return "stream "
	}
	return ""
}

// httpRule is google.api.HttpRule as plain data.
type httpRule struct {
	Selector, Verb, Path, Body, ResponseBody string
	Additional                               []*httpRule
}

func (h *httpRule) String() string {
	if h == nil {
		return "<none>"
	}
	s := fmt.Sprintf("%s %q body=%q response_body=%q selector=%q", h.Verb, h.Path, h.Body, h.ResponseBody, h.Selector)
	for _, a := range h.Additional {
		s += " additional{" + a.String() + "}"
	}
	return s
}

func (h *httpRule) withPrefix(from, to string) *httpRule {
	c := *h
	if strings.HasPrefix(c.Path, from) {
		c.Path = to + c.Path[len(from):]
	}
	c.Additional = nil
	for _, a := range h.Additional {
		c.Additional = append(c.Additional, a.withPrefix(from, to))
	}
	return &c
}

func ruleOf(r *annotations.HttpRule) (*httpRule, error) {
	if len(r.ProtoReflect().GetUnknown()) > 0 {
		return nil, fmt.Errorf("HttpRule carries unknown fields")
	}
	h := &httpRule{Selector: r.GetSelector(), Body: r.GetBody(), ResponseBody: r.GetResponseBody()}
	switch p := r.GetPattern().(type) {
	case *annotations.HttpRule_Get:
		h.Verb, h.Path = "get", p.Get
	case *annotations.HttpRule_Put:
		h.Verb, h.Path = "put", p.Put
	case *annotations.HttpRule_Post:
		h.Verb, h.Path = "post", p.Post
	case *annotations.HttpRule_Delete:
		h.Verb, h.Path = "delete", p.Delete
	case *annotations.HttpRule_Patch:
		h.Verb, h.Path = "patch", p.Patch
	case *annotations.HttpRule_Custom:
		h.Verb, h.Path = "custom:"+p.Custom.GetKind(), p.Custom.GetPath()
	case nil:
		h.Verb = "none"
	default:
		return nil, fmt.Errorf("HttpRule pattern %T not understood", p)
	}
	for _, a := range r.GetAdditionalBindings() {
		ah, err := ruleOf(a)
		if err != nil {
			return nil, err
		}
		h.Additional = append(h.Additional, ah)
	}
	return h, nil
}

// httpOf reads the google.api.http option of a method (nil: not set).
func httpOf(md protoreflect.MethodDescriptor) (*httpRule, error) {
	opts := md.Options()
	if opts == nil || !opts.ProtoReflect().IsValid() {
		return nil, nil
	}
	if len(opts.ProtoReflect().GetUnknown()) > 0 {
		return nil, fmt.Errorf("method options carry unknown fields (extension not linked in)")
	}
	if !proto.HasExtension(opts, annotations.E_Http) {
		return nil, nil
	}
	r, ok := proto.GetExtension(opts, annotations.E_Http).(*annotations.HttpRule)
	if !ok || r == nil {
		return nil, fmt.Errorf("google.api.http is not an HttpRule")
	}
	return ruleOf(r)
}

func (w *walker) message(a, b protoreflect.MessageDescriptor, path string) {
	kind := "message"
	if a.Parent() != a.ParentFile() {
		kind = "nested-message"
	}
	w.m.elem("walk", kind, path)
	if b == nil {
		w.bad("message:missing", path, "message missing in v3alpha", "", "")
		return
	}
	if a.IsMapEntry() != b.IsMapEntry() {
		w.bad("message:map-entry", path, "map-entry status differs", fmt.Sprint(a.IsMapEntry()), fmt.Sprint(b.IsMapEntry()))
	}
	for i := 0; i < a.Oneofs().Len(); i++ {
		oa := a.Oneofs().Get(i)
		if oa.IsSynthetic() {
			continue // proto3 optional; compared as a property of the field
		}
		opath := path + "." + string(oa.Name())
		w.m.elem("walk", "oneof", opath)
		ob := b.Oneofs().ByName(oa.Name())
		if ob == nil || ob.IsSynthetic() {
			w.bad("oneof:missing", opath, "oneof missing in v3alpha", "", "")
		}
	}
	for i := 0; i < a.Fields().Len(); i++ {
		fa := a.Fields().Get(i)
		w.field(fa, b, path+"."+string(fa.Name()))
	}
	for i := 0; i < a.Messages().Len(); i++ {
		na := a.Messages().Get(i)
		w.message(na, b.Messages().ByName(na.Name()), path+"."+string(na.Name()))
	}
	for i := 0; i < a.Enums().Len(); i++ {
		ea := a.Enums().Get(i)
		w.enum(ea, b.Enums().ByName(ea.Name()), path+"."+string(ea.Name()))
	}
}

// fieldShape is everything the property fixes about a field, as text.
func fieldShape(f protoreflect.FieldDescriptor, pkg string) string {
	typ := func(f protoreflect.FieldDescriptor) string {
		switch f.Kind() {
		case protoreflect.MessageKind, protoreflect.GroupKind:
			return f.Kind().String() + " " + rel(string(f.Message().FullName()), pkg)
		case protoreflect.EnumKind:
			return "enum " + rel(string(f.Enum().FullName()), pkg)
		}
		return f.Kind().String()
	}
	var t string
	if f.IsMap() {
		t = "map<" + typ(f.MapKey()) + "," + typ(f.MapValue()) + ">"
	} else {
		t = typ(f)
	}
	oneof := "-"
	if o := f.ContainingOneof(); o != nil && !o.IsSynthetic() {
		oneof = string(o.Name())
	}
	return fmt.Sprintf("number=%d name=%s json=%s type=%s cardinality=%s optional-keyword=%v presence=%v oneof=%s",
		f.Number(), f.Name(), f.JSONName(), t, f.Cardinality(), f.HasOptionalKeyword(), f.HasPresence(), oneof)
}

func (w *walker) field(fa protoreflect.FieldDescriptor, b protoreflect.MessageDescriptor, path string) {
	w.m.elem("walk", "field", path)
	fb := b.Fields().ByName(fa.Name())
	if fb == nil {
		if byNum := b.Fields().ByNumber(fa.Number()); byNum != nil {
			w.bad("field:renamed", path, "field number exists in v3alpha under another name", fieldShape(fa, w.pkgA), fieldShape(byNum, w.pkgB))
			return
		}
		w.bad("field:missing", path, "field missing in v3alpha", fieldShape(fa, w.pkgA), "")
		return
	}
	sa, sb := fieldShape(fa, w.pkgA), fieldShape(fb, w.pkgB)
	if sa != sb {
		class := "field:differs"
		if fa.Number() != fb.Number() {
			class = "field:number"
		}
		w.bad(class, path, "field differs", sa, sb)
	}
	if fa.IsPacked() != fb.IsPacked() {
		w.m.r.Count("walk:packed_differs", 1)
	}
	if fa.Kind() == protoreflect.EnumKind {
		w.m.r.Count("walk:enum_typed_fields", 1)
	}
	if fa.Cardinality() == protoreflect.Repeated {
		w.m.r.Count("walk:repeated_fields", 1)
	}
}

func (w *walker) enum(a, b protoreflect.EnumDescriptor, path string) {
	w.m.elem("walk", "enum", path)
	if b == nil {
		w.bad("enum:missing", path, "enum missing in v3alpha", "", "")
		return
	}
	for i := 0; i < a.Values().Len(); i++ {
		va := a.Values().Get(i)
		vpath := path + "." + string(va.Name())
		w.m.elem("walk", "enum-value", vpath)
		vb := b.Values().ByName(va.Name())
		switch {
		case vb == nil:
			w.bad("enum-value:missing", vpath, "enum value missing in v3alpha", fmt.Sprint(va.Number()), "")
		case vb.Number() != va.Number():
			w.bad("enum-value:number", vpath, "enum value has another number in v3alpha", fmt.Sprint(va.Number()), fmt.Sprint(vb.Number()))
		}
	}
}

// systemConstants pairs each resolve constant with the enum value it is
// defined from.
var systemConstants = []struct {
	Go   string
	Sys  resolve.System
	Enum string
}{
	{"UnknownSystem", resolve.UnknownSystem, "SYSTEM_UNSPECIFIED"},
	{"NPM", resolve.NPM, "NPM"},
	{"Maven", resolve.Maven, "MAVEN"},
	{"PyPI", resolve.PyPI, "PYPI"},
}

// systemStringProblem says what is wrong with System.String() for one
// constant ("" if nothing): the stringer fallback form, or a spelling that does
// not fold to the enum value's name.
func systemStringProblem(goName string, s resolve.System, enumName string) string {
	got := s.String()
	if strings.HasPrefix(got, "System(") {
		return fmt.Sprintf("resolve.%s.String() = %q: the generated stringer table does not know the constant", goName, got)
	}
	if s != resolve.UnknownSystem && !strings.EqualFold(got, enumName) {
		return fmt.Sprintf("resolve.%s.String() = %q does not name enum value %s", goName, got, enumName)
	}
	return ""
}

func (w *walker) systems(a protoreflect.FileDescriptor) {
	ed := a.Enums().ByName("System")
	if ed == nil {
		w.m.r.Inconclusive("walk: v3 has no enum System")
		return
	}
	for _, c := range systemConstants {
		path := "resolve." + c.Go
		w.m.elem("walk", "system-constant", path)
		v := ed.Values().ByName(protoreflect.Name(c.Enum))
		if v == nil {
			w.bad("system:enum-value-missing", path, "v3 System has no value "+c.Enum, c.Enum, "")
			continue
		}
		if int32(c.Sys) != int32(v.Number()) {
			w.bad("system:number", path, "resolver constant differs from the API enum number", fmt.Sprintf("%s=%d", c.Enum, v.Number()), fmt.Sprint(int32(c.Sys)))
		}
		w.m.elem("walk", "system-string", path)
		if p := systemStringProblem(c.Go, c.Sys, c.Enum); p != "" {
			w.bad("system-string:"+c.Go, path, p, c.Go, c.Sys.String())
		}
	}
	// No System value may print as the name of an enum value with another number.
	for n := 0; n < 256; n++ {
		s := resolve.System(n).String()
		for i := 0; i < ed.Values().Len(); i++ {
			v := ed.Values().Get(i)
			if strings.EqualFold(s, string(v.Name())) && int32(v.Number()) != int32(n) {
				w.bad("system-string:crossed", fmt.Sprintf("resolve.System(%d)", n), "String() names an enum value with another number", fmt.Sprint(n), fmt.Sprintf("%s=%d", v.Name(), v.Number()))
			}
		}
	}
	w.m.r.Eval(256)
}

func checkSystemStringWitness(m *mon, name string) {
	for _, c := range systemConstants {
		if c.Go == name {
			m.r.Count("witness:system-string", 1)
			// The walk reports the same failure under the same class; the
			// witness only makes sure the constant is looked at by name.
			if p := systemStringProblem(c.Go, c.Sys, c.Enum); p != "" {
				m.r.Count("witness:system-string:failing", 1)
			}
			return
		}
	}
	m.r.Inconclusive("witnesses/C17.json: unknown system constant " + name)
}
