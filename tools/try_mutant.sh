#!/bin/bash
# tools/try_mutant.sh <id> <patch> <tier> <PROP> [PROP...]
# Applies a seeded change to a scratch worktree of /repo HEAD, checks that the
# repository's own suite still passes, and runs the named checks against it.
set -u
ID=$1; PATCH=$2; TIER=$3; shift 3
WT=/tmp/mv/$ID
mkdir -p /tmp/mv
# git worktree commands of parallel runs must not interleave.
flock /tmp/mv/.wtlock git -C /repo worktree remove --force "$WT" >/dev/null 2>&1
flock /tmp/mv/.wtlock git -C /repo worktree add -q "$WT" HEAD || exit 3
trap 'flock /tmp/mv/.wtlock git -C /repo worktree remove --force "$WT" >/dev/null 2>&1; rm -rf /verif/build/alt-_tmp_mv_'"$ID" EXIT
if ! git -C "$WT" apply "$PATCH"; then echo "MUTANT $ID: patch does not apply"; exit 3; fi
if /verif/tools/baseline.sh "$WT" >/tmp/mv/$ID.baseline 2>&1; then echo "MUTANT $ID: suite passes"; else echo "MUTANT $ID: SUITE FAILS (does not qualify)"; tail -5 /tmp/mv/$ID.baseline; exit 4; fi
for P in "$@"; do
  out=$(cd /verif && VERIF_REPO="$WT" timeout -s QUIT 3000 ./check "$P" "$TIER" 2>&1)
  rc=$?
  classes=$(echo "$out" | grep "violation class" | sed 's/^ *violation class //' | tr '\n' ';')
  echo "MUTANT $ID check $P $TIER: exit=$rc ${classes:-no violation classes} $(echo "$out" | grep -c '^KNOWN-FINDING') known-finding lines; $(echo "$out" | grep 'INCONCLUSIVE' | head -2 | tr '\n' ' ')"
done
