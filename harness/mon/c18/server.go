package c18

import (
	"context"
	"hash/fnv"
	"math/rand"
	"net"
	"runtime"
	"sync"
	"sync/atomic"
	"time"

	pb "deps.dev/api/v3"
	"google.golang.org/grpc"
	"google.golang.org/grpc/codes"
	"google.golang.org/grpc/credentials/insecure"
	"google.golang.org/grpc/status"
	"google.golang.org/grpc/test/bufconn"
)

// The fake Insights service: a real gRPC server on an in-memory listener that
// answers GetPackage, GetVersion and GetRequirements from a registry. Requests
// and responses are marshalled; handlers run on the server's own goroutines.

type index struct {
	reg  *Registry
	pkgs map[string]*Pkg
	vers map[[2]string]*Ver
	// order fixes, per version, the order in which the bundled package.json
	// files are listed (the service promises none): a permutation determined by
	// the case's order seed, so that the same request always gets the same
	// response (0: pre-order).
	order map[[2]string][]int
}

func newIndex(reg *Registry, orderSeed int64) *index {
	ix := &index{reg: reg, pkgs: map[string]*Pkg{}, vers: map[[2]string]*Ver{}, order: map[[2]string][]int{}}
	for pi := range reg.Pkgs {
		p := &reg.Pkgs[pi]
		ix.pkgs[p.Name] = p
		for vi := range p.Versions {
			v := &p.Versions[vi]
			k := [2]string{p.Name, v.Version}
			ix.vers[k] = v
			n := 0
			walkBundles(v.Bundled, nil, func(*Bundle, []string) { n++ })
			if orderSeed != 0 && n > 1 {
				h := fnv.New64a()
				h.Write([]byte(p.Name + "\x00" + v.Version))
				ix.order[k] = rand.New(rand.NewSource(orderSeed ^ int64(h.Sum64()))).Perm(n)
			}
		}
	}
	return ix
}

type service struct {
	pb.UnimplementedInsightsServer
	ix atomic.Pointer[index]

	mu     sync.Mutex
	rng    *rand.Rand
	jitter atomic.Bool // seeded yields/short sleeps per call; they only widen interleavings

	calls atomic.Int64
}

// pause yields or sleeps briefly as the seeded PRNG says. No verdict depends
// on it.
func (s *service) pause() {
	s.calls.Add(1)
	if !s.jitter.Load() {
		return
	}
	s.mu.Lock()
	k := s.rng.Intn(100)
	n := s.rng.Intn(4)
	s.mu.Unlock()
	switch {
	case k < 45:
	case k < 94:
		for i := 0; i <= n; i++ {
			runtime.Gosched()
		}
	default:
		time.Sleep(time.Duration(20+60*n) * time.Microsecond)
	}
}

func notFound(what string) error { return status.Error(codes.NotFound, what+" not found") }

func (s *service) GetPackage(_ context.Context, in *pb.GetPackageRequest) (*pb.Package, error) {
	s.pause()
	k := in.GetPackageKey()
	p := s.ix.Load().pkgs[k.GetName()]
	if p == nil || k.GetSystem() != pb.System_NPM {
		return nil, notFound("package")
	}
	out := &pb.Package{PackageKey: &pb.PackageKey{System: pb.System_NPM, Name: p.Name}}
	// The service lists the versions in its own order (here: the registry's
	// order reversed); the client's ordering must not depend on it.
	for i := len(p.Versions) - 1; i >= 0; i-- {
		v := p.Versions[i]
		out.Versions = append(out.Versions, &pb.Package_Version{
			VersionKey: &pb.VersionKey{System: pb.System_NPM, Name: p.Name, Version: v.Version},
			IsDefault:  v.Default,
		})
	}
	return out, nil
}

func (s *service) GetVersion(_ context.Context, in *pb.GetVersionRequest) (*pb.Version, error) {
	s.pause()
	k := in.GetVersionKey()
	v := s.ix.Load().vers[[2]string{k.GetName(), k.GetVersion()}]
	if v == nil || k.GetSystem() != pb.System_NPM {
		return nil, notFound("version")
	}
	return &pb.Version{VersionKey: &pb.VersionKey{System: pb.System_NPM, Name: k.GetName(), Version: v.Version}, IsDefault: v.Default, Registries: registriesFor(k.GetName(), v.Version)}, nil
}

// registriesFor is what the fake service reports as the registries of a
// version: a third of the versions (by a hash of name and version) come from
// a registry of their own, the others report none.
func registriesFor(name, version string) []string {
	h := uint32(2166136261)
	for _, c := range []byte(name + "@" + version) {
		h = (h ^ uint32(c)) * 16777619
	}
	switch h % 3 {
	case 0:
		return []string{"https://npm.corp.example/" + name}
	case 1:
		return nil
	}
	if h%2 == 0 {
		return []string{"https://registry.npmjs.org/", "https://mirror.example/" + version}
	}
	return nil
}

var absentDeps atomic.Int64

func pbDeps(d Deps) *pb.Requirements_NPM_Dependencies {
	cv := func(xs []Dep) (out []*pb.Requirements_NPM_Dependencies_Dependency) {
		for _, x := range xs {
			req := x.Req
			if x.Real != "" {
				req = "npm:" + x.Real + "@" + x.Req
			}
			out = append(out, &pb.Requirements_NPM_Dependencies_Dependency{Name: x.Name, Requirement: req})
		}
		return
	}
	if len(d.Reg)+len(d.Dev)+len(d.Opt)+len(d.Peer)+len(d.Bundle) == 0 {
		// Nothing declared: the message is absent (not an empty one), as a
		// proto3 producer naturally leaves it.
		absentDeps.Add(1)
		return nil
	}
	return &pb.Requirements_NPM_Dependencies{
		Dependencies:         cv(d.Reg),
		DevDependencies:      cv(d.Dev),
		OptionalDependencies: cv(d.Opt),
		PeerDependencies:     cv(d.Peer),
		BundleDependencies:   append([]string(nil), d.Bundle...),
	}
}

func (s *service) GetRequirements(_ context.Context, in *pb.GetRequirementsRequest) (*pb.Requirements, error) {
	s.pause()
	k := in.GetVersionKey()
	ix := s.ix.Load()
	key := [2]string{k.GetName(), k.GetVersion()}
	v := ix.vers[key]
	if v == nil || k.GetSystem() != pb.System_NPM {
		return nil, notFound("version")
	}
	npm := &pb.Requirements_NPM{Dependencies: pbDeps(v.Deps)}
	var all []*pb.Requirements_NPM_Bundle
	walkBundles(v.Bundled, nil, func(b *Bundle, path []string) {
		p := ""
		for i, d := range path {
			if i > 0 {
				p += "/"
			}
			p += "node_modules/" + d
		}
		all = append(all, &pb.Requirements_NPM_Bundle{Path: p, Name: b.Name, Version: b.Version, Dependencies: pbDeps(b.Deps)})
	})
	if perm := ix.order[key]; len(perm) == len(all) {
		for _, i := range perm {
			npm.Bundled = append(npm.Bundled, all[i])
		}
	} else {
		npm.Bundled = all
	}
	return &pb.Requirements{Npm: npm}, nil
}

// env is one server with one client connection.
type env struct {
	svc  *service
	lis  *bufconn.Listener
	srv  *grpc.Server
	conn *grpc.ClientConn
	cli  pb.InsightsClient
}

func newEnv(rng *rand.Rand) (*env, error) {
	e := &env{svc: &service{rng: rng}}
	e.lis = bufconn.Listen(1 << 20)
	e.srv = grpc.NewServer()
	pb.RegisterInsightsServer(e.srv, e.svc)
	go e.srv.Serve(e.lis)
	conn, err := grpc.NewClient("passthrough:///c18",
		grpc.WithContextDialer(func(ctx context.Context, _ string) (net.Conn, error) { return e.lis.DialContext(ctx) }),
		grpc.WithTransportCredentials(insecure.NewCredentials()))
	if err != nil {
		e.close()
		return nil, err
	}
	e.conn = conn
	e.cli = pb.NewInsightsClient(conn)
	return e, nil
}

// serve makes the service answer from reg.
func (e *env) serve(reg *Registry, orderSeed int64) { e.svc.ix.Store(newIndex(reg, orderSeed)) }

func (e *env) close() {
	if e.conn != nil {
		e.conn.Close()
	}
	e.srv.Stop()
	e.lis.Close()
}
