package c04

import (
	"bytes"
	"encoding/json"
	"errors"
	"fmt"
	"os"
	"os/exec"
	"path/filepath"
	"regexp"
	"runtime"
	"sort"
	"strings"
	"sync"
	"syscall"
	"time"

	"verif/harness/ev"
)

const (
	// watchdog is the only use of wall-clock time: most batches take well
	// under 2 s, the slowest (the resolver batches on hostile universes)
	// about 40 s on an idle machine and three times that with every core
	// busy. Its firing alone is never a violation.
	watchdog = 360 * time.Second
	// aloneBudget is the restated liveness bound for a single call on an input
	// of at most 1 MiB, run alone in a fresh child.
	aloneBudget = 120 * time.Second
	batchCalls  = 5000
	longChunks  = 4
	// vmCapKiB is the ulimit -v backstop behind the child's own resident-set cap.
	vmCapKiB = 8 << 20
)

type batch struct {
	id      int
	driver  string
	sys     string
	kind    string // mix | long | one
	n       int
	seed    int64
	c       *Case // kind one
	wit     int   // index of the witness (kind one), -1 otherwise
	retried bool
}

type outcome struct {
	b        *batch
	sum      *Summary
	exit     int
	signal   string
	timedOut bool
	stderr   string
	logPath  string
	wall     time.Duration
}

type parent struct {
	r    *ev.Run
	dir  string
	exe  string
	mu   sync.Mutex
	next int
	// stats
	batches, requeued int
	maxBatchWall      time.Duration
	maxSteps          int64
	maxRatio          float64
	watchdogFired     map[string]int
	wall              map[string]time.Duration
	nviolByWitness    map[int]bool
	slow              []SlowRec
	retSeen           map[string]bool
	retPerDriver      map[string]int
}

func Run(r *ev.Run, replay string) {
	r.Rule = "Batches of (entry point, system) are run in child processes; each child generates its inputs from (seed, batch): a quarter random bytes over a punctuation-heavy alphabet (NUL, 0xFF, the infinity sign, multi-byte and truncated runes), a quarter grammar sentences, half mutations of grammar sentences (byte edits, truncation, duplication, splices of other systems' grammars), plus a long stratum (10^3..10^6 bytes: one giant number, 10^5 dots or brackets, 10^4 alternatives, deep nesting, parent/import chains) and small package universes with hostile requirement strings, markers, exclusions, names, tags and aliases for the three resolvers (logical step budget). The child logs every input before the call and recovers panics; the parent judges recovered panics, child deaths, step-budget exhaustion and (after a solo re-run) hangs. A case is non-trivial when the call got past the entry point's first validity check (returned a value or a deeper error); distinct (entry, system, input) triples are counted with a hash set in each child and summed over children (distinct per child)."
	r.Assumptions = []string{
		"Inputs are at most about 1 MiB; the restated liveness bound is: a single call returns within 120 s when run alone in a fresh process, and a resolution makes at most 10x200x(versions+10) client calls.",
		"Memory: a child whose resident set exceeds 3 GiB is counted as dead (no compression bombs are generated: archives expand to at most a few MiB).",
		"Maven interpolation is driven with at most 8 distinct properties and at most 3 placeholders per property value (DESIGN section 8); larger tables produced by mutation skip Interpolate and are counted in maven:interpolate-skipped-large-table.",
		"A recovered panic whose stack has no deps.dev frame is harness trouble and makes the run inconclusive, never a violation.",
		"nil *Version / zero Set arguments are not text from outside and are not passed.",
		"Polynomial running time is not a refutation of termination: Maven version parsing (number of separators), PyPI/RubyGems constraint parsing (number of != clauses), pypi.SdistVersion (number of hyphens) and schema's tree-art prefix replacement are quadratic, so the long shapes that trigger them are sized to take seconds (slowest_calls in evidence), two orders below the 120 s solo bound, which is there to catch non-termination only.",
		"Class names: C04:panic|death|hang:<innermost exported deps.dev function on the stack>:<system>:<cause>@<innermost deps.dev frame>; C04:nontermination:<resolver>:<shape>, a named shape only when removing exactly that feature from the universe makes the resolution end.",
	}
	exe, err := os.Executable()
	if err != nil {
		r.Inconclusive("cannot find own executable: " + err.Error())
		return
	}
	p := &parent{r: r, exe: exe, watchdogFired: map[string]int{}, wall: map[string]time.Duration{}, nviolByWitness: map[int]bool{}, retSeen: map[string]bool{}, retPerDriver: map[string]int{}}
	p.dir = filepath.Join(ev.Root, "build", "c04", fmt.Sprintf("run-%d-%d", r.Seed, os.Getpid()))
	if err := os.MkdirAll(p.dir, 0o755); err != nil {
		r.Inconclusive("cannot create scratch dir: " + err.Error())
		return
	}
	defer func() {
		os.RemoveAll(p.dir)
		os.Remove(filepath.Join(ev.Root, "build", "c04")) // only if empty
	}()

	if replay != "" {
		var rep struct {
			Case Case `json:"case"`
		}
		if err := ev.ReadJSON(replay, &rep); err != nil {
			r.Inconclusive("cannot read replay file: " + err.Error())
			return
		}
		if rep.Case.Entry == "" {
			r.Inconclusive("replay file has no case.entry")
			return
		}
		p.runAll([]*batch{{kind: "one", c: &rep.Case, driver: rep.Case.Entry, sys: rep.Case.Sys, wit: -1}})
		return
	}

	// Witnesses first: every defect ever seen, at every seed.
	var wits []Case
	if err := ev.ReadJSON(filepath.Join(ev.Root, "witnesses", "C04.json"), &wits); err != nil {
		r.Inconclusive("witnesses/C04.json unreadable: " + err.Error())
	}
	var plan []*batch
	for i := range wits {
		plan = append(plan, &batch{kind: "one", c: &wits[i], driver: wits[i].Entry, sys: wits[i].Sys, wit: i})
	}
	r.Count("witnesses", int64(len(wits)))

	rng := r.Rand("plan")
	base := r.N(4000, 80000)
	longCap := r.N(100000, 1000000)
	var mix []*batch
	for _, d := range drivers {
		for _, s := range d.systems {
			n := base * d.weight
			for n > 0 {
				k := min(n, batchCalls)
				mix = append(mix, &batch{driver: d.name, sys: s, kind: "mix", n: k, seed: rng.Int63(), wit: -1})
				n -= k
			}
			if len(d.longList(s)) > 0 {
				// Four chunks per (driver, system), same seed: a chunk takes a
				// few seconds at most, far below the watchdog even on a loaded
				// machine.
				seed := rng.Int63()
				for i := 0; i < longChunks; i++ {
					plan = append(plan, &batch{driver: d.name, sys: s, kind: fmt.Sprintf("long:%d:%d", i, longChunks), n: longCap, seed: seed, wit: -1})
				}
			}
		}
	}
	// Long batches first (they are the slow ones), then the rest shuffled so
	// that the heavy drivers spread over the workers.
	rng.Shuffle(len(mix), func(i, j int) { mix[i], mix[j] = mix[j], mix[i] })
	plan = append(plan, mix...)
	p.runAll(plan)

	// Open findings: does the recorded witness still fail?
	for _, f := range r.OpenFindings() {
		still := false
		for i, w := range wits {
			if w.Finding == f.ID && p.nviolByWitness[i] {
				still = true
			}
		}
		r.KnownWitness(f.ID, still)
	}

	for _, k := range gateList() {
		r.Gate("calls:"+k, int64(r.N(1000, 10000)))
	}
	for _, s := range []string{"random", "grammar", "mutation", "splice", "structured"} {
		r.Gate("source:"+s, int64(r.N(1000, 10000)))
	}
	// The long stratum is a fixed list per (driver, system); quick runs a
	// third of the generic shapes and nothing above 10^5 units.
	r.Gate("source:long", int64(r.N(1500, 6000)))
	r.GateNontrivial(int64(r.N(400000, 4000000)))
	r.Set("batches", p.batches)
	r.Set("batches_requeued", p.requeued)
	r.Set("max_batch_wall_s", p.maxBatchWall.Seconds())
	r.Set("resolver_max_client_calls_terminating", p.maxSteps)
	r.Set("resolver_max_fraction_of_step_budget", p.maxRatio)
	r.Set("watchdog_fired", p.watchdogFired)
	r.Set("slowest_calls", p.slow)
	top := map[string]float64{}
	for k, v := range p.wall {
		top[k] = v.Seconds()
	}
	r.Set("child_wall_s_by_driver", top)
}

func (p *parent) runAll(plan []*batch) {
	workers := min(16, max(2, runtime.NumCPU()))
	queue := make(chan *batch, len(plan)*2+16)
	var pending sync.WaitGroup
	for i, b := range plan {
		b.id = i
		pending.Add(1)
		queue <- b
	}
	p.next = len(plan)
	requeue := func(b *batch) {
		pending.Add(1)
		queue <- b
	}
	var wg sync.WaitGroup
	for w := 0; w < workers; w++ {
		wg.Add(1)
		go func() {
			defer wg.Done()
			for b := range queue {
				p.handle(b, requeue)
				pending.Done()
			}
		}()
	}
	pending.Wait()
	close(queue)
	wg.Wait()
}

// ---- running one child ----------------------------------------------------

type capBuf struct {
	head, tail []byte
	total      int
}

func (c *capBuf) Write(b []byte) (int, error) {
	c.total += len(b)
	const lim = 48 << 10
	if len(c.head) < lim {
		k := min(lim-len(c.head), len(b))
		c.head = append(c.head, b[:k]...)
		b2 := b[k:]
		c.tail = append(c.tail, b2...)
	} else {
		c.tail = append(c.tail, b...)
	}
	if len(c.tail) > 2*lim {
		c.tail = append([]byte(nil), c.tail[len(c.tail)-lim:]...)
	}
	return len(b), nil
}

func (c *capBuf) String() string {
	const lim = 48 << 10
	t := c.tail
	if len(t) > lim {
		t = t[len(t)-lim:]
		return string(c.head) + "\n...[stderr cut]...\n" + string(t)
	}
	return string(c.head) + string(t)
}

func (p *parent) runChild(b *batch, budget time.Duration) *outcome {
	p.mu.Lock()
	p.next++
	tag := p.next
	p.mu.Unlock()
	logPath := filepath.Join(p.dir, fmt.Sprintf("b%d-%d.log", b.id, tag))
	var args []string
	switch b.kind {
	case "one":
		cf := filepath.Join(p.dir, fmt.Sprintf("b%d-%d.case.json", b.id, tag))
		cb, _ := json.Marshal(b.c)
		os.WriteFile(cf, cb, 0o644)
		defer os.Remove(cf)
		args = []string{"child", "c04", "one", cf, logPath}
	default:
		args = []string{"child", "c04", "batch", fmt.Sprint(b.id), fmt.Sprint(b.seed), b.driver, b.sys, b.kind, fmt.Sprint(b.n), logPath}
	}
	script := fmt.Sprintf(`ulimit -v %d 2>/dev/null; exec "$0" "$@"`, vmCapKiB)
	cmd := exec.Command("sh", append([]string{"-c", script, p.exe}, args...)...)
	cmd.Env = append(os.Environ(), "GOMAXPROCS=2", "GOTRACEBACK=all")
	var stdout bytes.Buffer
	stderr := &capBuf{}
	cmd.Stdout = &stdout
	cmd.Stderr = stderr
	cmd.SysProcAttr = &syscall.SysProcAttr{Setpgid: true}
	o := &outcome{b: b, logPath: logPath}
	start := time.Now()
	if err := cmd.Start(); err != nil {
		o.exit = -1
		o.stderr = "cannot start child: " + err.Error()
		return o
	}
	done := make(chan error, 1)
	go func() { done <- cmd.Wait() }()
	var werr error
	select {
	case werr = <-done:
	case <-time.After(budget):
		o.timedOut = true
		// SIGQUIT makes the Go runtime dump every goroutine and exit.
		syscall.Kill(-cmd.Process.Pid, syscall.SIGQUIT)
		select {
		case werr = <-done:
		case <-time.After(20 * time.Second):
			syscall.Kill(-cmd.Process.Pid, syscall.SIGKILL)
			werr = <-done
		}
	}
	o.wall = time.Since(start)
	o.stderr = stderr.String()
	if werr != nil {
		var ee *exec.ExitError
		if errors.As(werr, &ee) {
			o.exit = ee.ExitCode()
			if ws, ok := ee.Sys().(syscall.WaitStatus); ok && ws.Signaled() {
				o.signal = ws.Signal().String()
			}
		} else {
			o.exit = -1
			o.stderr += "\nwait: " + werr.Error()
		}
	}
	if o.exit == 0 && !o.timedOut {
		var s Summary
		if err := json.Unmarshal(stdout.Bytes(), &s); err == nil && s.Done {
			o.sum = &s
		} else {
			o.exit = -2
			o.stderr += "\nchild exited 0 without a summary"
		}
	}
	return o
}

// lastLogged reads the last complete line of a child's log.
func lastLogged(path string) (c Case, ok bool) {
	b, err := os.ReadFile(path)
	if err != nil {
		return c, false
	}
	lines := bytes.Split(bytes.TrimRight(b, "\n"), []byte{'\n'})
	for i := len(lines) - 1; i >= 0; i-- {
		f := strings.Split(string(lines[i]), "\t")
		if len(f) == 3 {
			return caseFromLog(f[0], f[1], f[2]), true
		}
	}
	return c, false
}

func loggedCount(path string) int {
	b, err := os.ReadFile(path)
	if err != nil {
		return 0
	}
	return bytes.Count(b, []byte{'\n'})
}

// ---- judging outcomes -------------------------------------------------------

func (p *parent) handle(b *batch, requeue func(*batch)) {
	budget := watchdog
	if b.kind == "one" {
		budget = aloneBudget
	}
	o := p.runChild(b, budget)
	defer os.Remove(o.logPath)
	p.mu.Lock()
	p.batches++
	if o.wall > p.maxBatchWall && !o.timedOut {
		p.maxBatchWall = o.wall
	}
	p.wall[b.driver] += o.wall
	p.mu.Unlock()

	if o.sum != nil {
		p.absorb(b, o.sum)
		return
	}
	if o.exit == 2 && strings.Contains(o.stderr, "c04 child:") && !o.timedOut {
		p.r.Inconclusive(fmt.Sprintf("child of batch %s/%s/%s reported a harness error: %s", b.driver, b.sys, b.kind, clip(o.stderr, 300)))
		return
	}
	last, ok := lastLogged(o.logPath)
	if b.kind == "one" {
		last, ok = *b.c, true
	}
	if !ok {
		p.r.Inconclusive(fmt.Sprintf("child of batch %s/%s died before logging an input (exit %d %s): %s", b.driver, b.sys, o.exit, o.signal, clip(o.stderr, 300)))
		return
	}
	// The calls that completed before the abnormal end still count.
	p.r.Eval(int64(max(loggedCount(o.logPath)-1, 0)))

	if b.kind == "one" {
		// Already alone: the outcome is the verdict.
		if o.timedOut {
			p.violationHang(b, last, o)
		} else {
			p.violationDeath(b, last, o)
		}
		return
	}

	// A batch ended abnormally: re-run the last logged input alone, in a
	// fresh child, before saying anything about it.
	solo := &batch{id: b.id, kind: "one", c: &last, driver: last.Entry, sys: last.Sys, wit: -1}
	so := p.runChild(solo, aloneBudget)
	defer os.Remove(so.logPath)
	if o.timedOut {
		p.mu.Lock()
		p.watchdogFired[b.driver+"/"+b.sys]++
		p.mu.Unlock()
	}
	switch {
	case so.sum != nil:
		// The input is fine on its own.
		p.absorb(solo, so.sum)
		if len(so.sum.Panics) > 0 || len(so.sum.Nonterm) > 0 {
			// (a recovered panic cannot have been the reason, but report it)
		}
		if b.retried {
			what := "died"
			if o.timedOut {
				what = "hit the watchdog"
			}
			p.r.Inconclusive(fmt.Sprintf("batch %s/%s/%s %s twice (exit %d %s) but its last logged input returns when run alone; no verdict on it. stderr: %s", b.driver, b.sys, b.kind, what, o.exit, o.signal, clip(o.stderr, 400)))
			return
		}
		p.mu.Lock()
		p.requeued++
		p.mu.Unlock()
		nb := *b
		nb.retried = true
		requeue(&nb)
	case so.timedOut:
		p.violationHang(b, last, so)
	default:
		p.violationDeath(b, last, so)
	}
}

func (p *parent) markWitness(b *batch) {
	if b.wit >= 0 {
		p.mu.Lock()
		p.nviolByWitness[b.wit] = true
		p.mu.Unlock()
	}
}

func (p *parent) absorb(b *batch, s *Summary) {
	r := p.r
	r.Eval(s.Calls)
	r.NontrivialAdd(s.Nontriv)
	for k, v := range s.API {
		r.Count("calls:"+k, v)
	}
	for k, v := range s.Ret {
		// At most 40 return classes per driver in the evidence; the rest is lumped.
		d, _, _ := strings.Cut(k, "|")
		p.mu.Lock()
		if !p.retSeen[k] {
			if p.retPerDriver[d] >= 40 && strings.Contains(k, "|err:") {
				k = d + "|err:(other families)"
			} else {
				p.retSeen[k] = true
				p.retPerDriver[d]++
			}
		}
		p.mu.Unlock()
		r.Count("ret:"+k, v)
	}
	for k, v := range s.Features {
		r.Count(k, v)
	}
	p.mu.Lock()
	p.slow = append(p.slow, s.Slow...)
	sort.Slice(p.slow, func(i, j int) bool { return p.slow[i].Ms > p.slow[j].Ms })
	if len(p.slow) > 25 {
		p.slow = p.slow[:25]
	}
	if s.MaxSteps > p.maxSteps {
		p.maxSteps = s.MaxSteps
	}
	if s.MaxRatio > p.maxRatio {
		p.maxRatio = s.MaxRatio
	}
	p.mu.Unlock()
	for _, h := range s.Harness {
		r.Inconclusive("panic without a deps.dev frame (harness trouble): " + h)
	}
	for _, pr := range s.Panics {
		c := caseFromLog(pr.Entry, pr.Sys, pr.Enc)
		c.Note = fmt.Sprintf("panic: %s; top deps.dev frames: %s", pr.Msg, strings.Join(pr.Stack[:min(len(pr.Stack), 6)], " | "))
		r.Violation(pr.Class, fmt.Sprintf("%s panics in %s (reached through %s): %s [%d inputs in this batch]", pr.API, pr.Frame, pr.Entry, pr.Msg, pr.Count), c)
		r.Count("panics-recovered", pr.Count)
		p.markWitness(b)
	}
	for _, nt := range s.Nonterm {
		c := caseFromLog(nt.Entry, nt.Sys, nt.Enc)
		c.Note = fmt.Sprintf("resolver still calling the client after %d calls (budget %d)", nt.Calls, nt.Budget)
		r.Violation(nt.Class, fmt.Sprintf("%s resolver does not terminate: more than %d client calls on a universe of this shape (%s) [%d universes in this batch]", nt.Sys, nt.Budget, nt.Shape, nt.Count), c)
		r.Count("resolutions-over-budget", nt.Count)
		p.markWitness(b)
	}
	if b.kind != "one" && len(s.Samples) > 0 {
		for _, c := range s.Samples {
			r.Sample(c)
		}
	}
}

var reFatal = regexp.MustCompile(`(?m)^fatal error: (.*)$`)
var reGoPanic = regexp.MustCompile(`(?m)^panic: (.*)$`)

func deathCause(o *outcome) string {
	s := o.stderr
	switch {
	case strings.Contains(s, "C04-CHILD-MEMCAP"):
		return "memory-cap"
	case strings.Contains(s, "goroutine stack exceeds") || strings.Contains(s, "fatal error: stack overflow"):
		return "stack-overflow"
	}
	if m := reFatal.FindStringSubmatch(s); m != nil {
		if strings.Contains(m[1], "out of memory") || strings.Contains(m[1], "cannot allocate memory") {
			return "out-of-memory"
		}
		return "fatal-" + causeSlug(m[1])
	}
	if m := reGoPanic.FindStringSubmatch(s); m != nil {
		return "unrecovered-panic-" + causeSlug(m[1])
	}
	if o.signal != "" {
		return "signal-" + strings.ReplaceAll(o.signal, " ", "-")
	}
	return fmt.Sprintf("exit-%d", o.exit)
}

func (p *parent) violationDeath(b *batch, c Case, o *outcome) {
	inner, outer := depsFrames(o.stderr)
	cause := deathCause(o)
	entry := outer
	if entry == "" {
		entry = c.Entry
		inner = "unknown"
	}
	if cause == "memory-cap" || cause == "out-of-memory" {
		// Where the allocation that crossed the cap happened is accidental.
		inner = "-"
	}
	class := fmt.Sprintf("C04:death:%s:%s:%s@%s", entry, c.Sys, cause, inner)
	c.Note = fmt.Sprintf("process died (%s, exit %d %s) while running this input alone; stderr head: %s", cause, o.exit, o.signal, clip(firstLines(o.stderr, 12), 900))
	p.r.Violation(class, fmt.Sprintf("%s kills the process (%s) on this input (reached through %s)", entry, cause, c.Entry), c)
	p.markWitness(b)
}

func (p *parent) violationHang(b *batch, c Case, o *outcome) {
	inner, outer := depsFrames(o.stderr)
	entry := outer
	if entry == "" {
		entry = c.Entry
		inner = "unknown"
	}
	class := fmt.Sprintf("C04:hang:%s:%s:%s", entry, c.Sys, inner)
	c.Note = fmt.Sprintf("did not return within %s when run alone in a fresh process; goroutine dump: %s", aloneBudget, clip(depsLines(o.stderr, 14), 1200))
	p.r.Violation(class, fmt.Sprintf("%s does not return within %s on this input (reached through %s; innermost frame at SIGQUIT: %s)", entry, aloneBudget, c.Entry, inner), c)
	p.markWitness(b)
}

func firstLines(s string, n int) string {
	l := strings.SplitN(s, "\n", n+1)
	if len(l) > n {
		l = l[:n]
	}
	return strings.Join(l, " / ")
}

func depsLines(s string, n int) string {
	var out []string
	for _, ln := range strings.Split(s, "\n") {
		if strings.HasPrefix(ln, "deps.dev/") {
			out = append(out, ln)
			if len(out) >= n {
				break
			}
		}
	}
	return strings.Join(out, " | ")
}
