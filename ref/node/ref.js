// node-semver reference adapter. TSV lines on stdin, one answer per line.
//   cmp a b   -> -1|0|1|E        valid a -> normalised|E
//   sat r v   -> 1|0|ER|EV       range r -> normalised range|E   (empty string = "matches nothing"? no: node prints "" for *; we print "<*>" then)
const path = process.env.NODE_SEMVER || '/root/.nvm/versions/node/v20.20.2/lib/node_modules/npm/node_modules/semver';
const semver = require(path);
const lines = require('fs').readFileSync(0, 'utf8').split('\n');
const out = [];
for (const line of lines) {
  if (line === '') continue;
  const p = line.split('\t');
  try {
    switch (p[0]) {
      case 'ver': out.push(require(path + '/package.json').version); break;
      case 'cmp':
        if (!semver.valid(p[1]) || !semver.valid(p[2])) out.push('E');
        else out.push(String(semver.compare(p[1], p[2])));
        break;
      case 'valid': out.push(semver.valid(p[1]) || 'E'); break;
      case 'sat': {
        const r = semver.validRange(p[1]);
        if (r === null) out.push('ER');
        else if (!semver.valid(p[2])) out.push('EV');
        else out.push(semver.satisfies(p[2], p[1]) ? '1' : '0');
        break;
      }
      case 'range': { const r = semver.validRange(p[1]); out.push(r === null ? 'E' : (r === '' ? '<*>' : r)); break; }
      default: out.push('?');
    }
  } catch (e) { out.push('E'); }
}
process.stdout.write(out.join('\n') + '\n');
