package main

import (
	"os"

	"verif/harness/ev"
	"verif/harness/mon/c05"
)

func main() {
	r := ev.New("C05")
	replay := ""
	for i := 1; i < len(os.Args); i++ {
		switch os.Args[i] {
		case "quick", "thorough":
			r.Tier = os.Args[i]
		case "--replay":
			replay = os.Args[i+1]
			i++
		}
	}
	c05.Run(r, replay)
	r.Finish()
}
