//go:build race

package c19

// raceEnabled reports whether this binary was built with -race.
const raceEnabled = true
