package c04

import (
	"sort"
)

// driver is one logged unit of work: it takes the input bytes, splits them
// into its arguments and calls one exported entry point (plus the methods of
// the value it returns). x.hit(api) counts every exported function actually
// executed; the coverage gate is over (api, system).
type driver struct {
	name    string
	systems []string // system names; {"-"} when the entry point has none
	apis    []string // exported entry points it executes (coverage gate)
	// valid returns the arguments as grammar sentences.
	valid func(g *genCtx, sys string) [][]byte
	// keep is the number of leading arguments that are prerequisites (a
	// constraint that has to parse before Match can be called): they stay
	// valid in most random/mutated inputs so that the method is reached.
	keep int
	// splice returns a sentence of a foreign grammar for argument k.
	splice func(g *genCtx, sys string, k int) []byte
	dict   []string
	run    func(x *runner, sys string, in []byte) string
	// simple returns plain valid arguments; the long stratum replaces one.
	simple    func(sys string) [][]byte
	longParts []int // arguments that receive the generic long shapes
	long      map[string]func(sys string, n int) []byte
	longNs    map[string][]int
	weight    int // relative share of calls (default 1)
	// structured drivers take a JSON-encoded structure whose text fields are
	// hostile; their inputs come from valid alone.
	structured bool
}

var drivers []*driver

func register(d *driver) {
	if d.weight == 0 {
		d.weight = 1
	}
	drivers = append(drivers, d)
}

func driverByName(name string) *driver {
	for _, d := range drivers {
		if d.name == name {
			return d
		}
	}
	return nil
}

// input draws input i of n of a mixed batch: the first quarter random bytes,
// then grammar sentences, then mutations of grammar sentences (byte edits and
// splices of foreign grammars).
func (d *driver) input(g *genCtx, sys string, i, n int) ([]byte, string) {
	r := g.r
	parts := d.valid(g, sys)
	if d.structured {
		return join(parts...), "structured"
	}
	src := "grammar"
	switch {
	case i*100 < n*25:
		src = "random"
		for k := range parts {
			if k < d.keep && r.Intn(3) > 0 {
				continue
			}
			parts[k] = hostile(r)
		}
	case i*100 < n*50:
	default:
		src = "mutation"
		k := r.Intn(len(parts))
		if k < d.keep && len(parts) > d.keep && r.Intn(3) > 0 {
			k = d.keep + r.Intn(len(parts)-d.keep)
		}
		if d.splice != nil && r.Intn(5) == 0 {
			src = "splice"
			parts[k] = d.splice(g, sys, k)
			if r.Intn(2) == 0 {
				parts[k] = mutate(r, parts[k], d.dict)
			}
		} else {
			parts[k] = mutate(r, parts[k], d.dict)
		}
		if len(parts) > 1 && r.Intn(6) == 0 {
			k2 := r.Intn(len(parts))
			parts[k2] = mutate(r, parts[k2], d.dict)
		}
	}
	return join(parts...), src
}

// longList enumerates the long-stratum inputs of the driver.
func (d *driver) longList(sys string) []LongSpec {
	var out []LongSpec
	for _, p := range d.longParts {
		for _, ls := range genericLong {
			for _, n := range ls.ns {
				out = append(out, LongSpec{Shape: itoa(p) + "/" + ls.name, N: n})
			}
		}
	}
	var names []string
	for name := range d.long {
		names = append(names, name)
	}
	sort.Strings(names)
	for _, name := range names {
		for _, n := range d.longNs[name] {
			out = append(out, LongSpec{Shape: name, N: n})
		}
	}
	return out
}

func itoa(i int) string { return string(rune('0' + i)) }

// gateList enumerates the (api, system) pairs the coverage gate demands.
func gateList() []string {
	seen := map[string]bool{}
	var out []string
	for _, d := range drivers {
		for _, s := range d.systems {
			for _, a := range d.apis {
				k := a + "|" + s
				if !seen[k] {
					seen[k] = true
					out = append(out, k)
				}
			}
		}
	}
	sort.Strings(out)
	return out
}
