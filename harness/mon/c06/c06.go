// Package c06 checks every graph the npm resolver returns, and the install
// tree behind it (hook H1, build tag verif), against the invariants of a
// loadable node_modules installation.
package c06

import (
	"fmt"
	"math/rand"
	"sort"
	"strings"
	"sync"

	"deps.dev/util/resolve"
	"deps.dev/util/resolve/dep"
	"deps.dev/util/resolve/npm"
	"deps.dev/util/semver"
	"verif/harness/ev"
	"verif/harness/ref"
	"verif/harness/uni"
)

type Case struct {
	Stratum  string        `json:"stratum"`
	Universe *uni.Universe `json:"universe"`
	Root     [2]string     `json:"root"` // name, version
	Clause   string        `json:"clause,omitempty"`
}

var (
	treeMu sync.Mutex
	trees  = map[*resolve.Graph]*npm.VerifNode{}
	fired  = map[*resolve.Graph]int{}
)

func init() {
	npm.SetVerifTreeHook(func(g *resolve.Graph, root *npm.VerifNode) {
		treeMu.Lock()
		trees[g] = root
		fired[g]++
		treeMu.Unlock()
	})
}

func takeTree(g *resolve.Graph) (*npm.VerifNode, int) {
	treeMu.Lock()
	defer treeMu.Unlock()
	t, n := trees[g], fired[g]
	delete(trees, g)
	delete(fired, g)
	return t, n
}

func Run(r *ev.Run, replay string) {
	r.MaxSamples = 4
	r.Rule = "generated npm universes (5-12 packages x 1-5 versions: prereleases, latest tags, deprecated versions, regular/optional/dev/peer/bundle-scoped requirements, every range operator, cycles, incompatible diamonds, aliases; strata: base, alias-collision, bundled packages), every version as root, each resolution through a step-budgeted counting client. Oracle per returned graph: requirement-to-edge matching, G1 edge target satisfies its requirement (node-semver satisfies / dist-tag / '*' reuse), G2 every non-dev non-peer requirement of every node has an edge or a node error, G3 reachability, G4 fresh install = latest-or-highest-non-deprecated pick; per install tree (hook H1): T1 one name per directory, T2 Node's walk-up lookup lands on the edge's target. Non-trivial = distinct (universe, root) whose tree has a nested install (depth >= 2) or an alias."
	r.Assumptions = []string{"node-semver adapter trusted after self-test (the library's matcher is the fallback for strings node rejects)", "T1/T2 only on universes without bundled packages; in the alias-collision stratum G1 does not demand the target's package to be the requirement's package (Node finds whatever sits under the looked-up name)", "a latest-tagged prerelease next to releases may or may not be picked (C12's repositioning rule)", "resolutions that exhaust the logical step budget are C04's business and are skipped here"}
	if _, err := ref.Node.SelfTest([][2]string{{ref.Q("sat", "^1.2.3", "1.9.0"), "1"}, {ref.Q("sat", "~1.2", "1.3.0"), "0"}}); err != nil {
		r.Inconclusive(err.Error())
		return
	}
	if replay != "" {
		var c struct {
			Case Case `json:"case"`
		}
		if err := ev.ReadJSON(replay, &c); err != nil || c.Case.Universe == nil {
			r.Inconclusive("replay unreadable")
			return
		}
		runCases(r, []Case{c.Case}, false)
		return
	}
	var wit []Case
	if err := ev.ReadJSON(ev.Root+"/witnesses/C06.json", &wit); err != nil {
		r.Inconclusive("witnesses/C06.json: " + err.Error())
	}
	runCases(r, wit, false)
	r.Count("witness_cases", int64(len(wit)))

	n := r.N(2000, 12000)
	shards := r.N(4, 16)
	var wg sync.WaitGroup
	for sh := 0; sh < shards; sh++ {
		wg.Add(1)
		go func(sh int) {
			defer wg.Done()
			rng := r.Rand(fmt.Sprint("u/", sh))
			var batch []Case
			flush := func() {
				runCases(r, batch, true)
				batch = batch[:0]
			}
			for i := 0; i < n/shards; i++ {
				stratum := Base
				switch k := rng.Intn(10); {
				case k < 2:
					stratum = Collision
				case k < 4:
					stratum = Bundle
				}
				u := GenerateStratum(rng, stratum)
				for _, v := range u.Versions {
					if v.DerivedFrom != "" {
						continue
					}
					batch = append(batch, Case{Stratum: stratum, Universe: u, Root: [2]string{v.Name, v.Version}})
				}
				if len(batch) > 400 {
					flush()
				}
			}
			flush()
		}(sh)
	}
	wg.Wait()
	r.Gate("resolutions:graph", int64(n*3))
	r.Gate("nontrivial", int64(n/2))
	r.Gate("feature:nested-install", int64(n/4))
	r.Gate("feature:alias-edge", int64(n/10))
	r.Gate("feature:reuse-walk-up", int64(n/4))
	r.Gate("feature:node-error", int64(n/10))
	r.Gate("feature:selector-edge-checked", int64(n))
	r.Gate("feature:bundled-node", int64(n/40))
	r.Gate("feature:latest-pick", int64(n/20))
	r.Gate("feature:blocked-skipped", int64(n/40))
	r.Gate("hook:tree-seen", int64(n*3))
}

// satTable answers "does version v satisfy range rg" for a batch, by
// node-semver where it accepts both strings, else by the library's matcher.
type satTable map[[2]string]bool

func buildSat(r *ev.Run, cases []Case) (satTable, bool) {
	type key = [2]string
	need := map[key]bool{}
	seenU := map[*uni.Universe]bool{}
	for _, c := range cases {
		if seenU[c.Universe] {
			continue
		}
		seenU[c.Universe] = true
		vs := map[string]bool{}
		rs := map[string]bool{}
		for _, v := range c.Universe.Versions {
			vs[v.Version] = true
			for _, q := range v.Reqs {
				rs[q.Req] = true
			}
		}
		for rg := range rs {
			for v := range vs {
				need[key{rg, v}] = true
			}
		}
	}
	keys := make([]key, 0, len(need))
	for k := range need {
		keys = append(keys, k)
	}
	sort.Slice(keys, func(i, j int) bool { return keys[i][0]+"\x00"+keys[i][1] < keys[j][0]+"\x00"+keys[j][1] })
	qs := make([]string, len(keys))
	for i, k := range keys {
		qs[i] = ref.Q("sat", k[0], k[1])
	}
	ans, err := ref.Node.Batch(qs)
	if err != nil {
		r.Inconclusive(err.Error())
		return nil, false
	}
	t := satTable{}
	for i, k := range keys {
		switch ans[i] {
		case "1":
			t[k] = true
		case "0":
			t[k] = false
		default:
			// Not a range (a dist-tag) or not a version for node: fall back.
			c, err := semver.NPM.ParseConstraint(k[0])
			t[k] = err == nil && c.Match(k[1])
			r.Count("sat:fallback-to-library", 1)
		}
	}
	return t, true
}

func runCases(r *ev.Run, cases []Case, shrink bool) {
	if len(cases) == 0 {
		return
	}
	sat, ok := buildSat(r, cases)
	if !ok {
		return
	}
	clients := map[*uni.Universe]*resolve.LocalClient{}
	for _, c := range cases {
		if clients[c.Universe] == nil {
			clients[c.Universe] = c.Universe.Client(nil)
			// The other systems' matchers read the same requirement texts
			// first (see uni.ForeignWarmup): nothing npm does may depend on it.
			uni.ForeignWarmup(c.Universe)
			r.Count("foreign_warmups", 1)
		}
		one(r, c, clients[c.Universe], sat, shrink)
	}
}

var sampleOnce, shrunk sync.Map

func one(r *ev.Run, c Case, client resolve.Client, sat satTable, shrink bool) {
	u := c.Universe
	root := u.VK(c.Root[0], c.Root[1], resolve.Concrete)
	defer func() {
		if p := recover(); p != nil {
			r.Violation("C06:panic", fmt.Sprintf("panic resolving %v: %v", root, p), c)
		}
	}()
	g, err, exhausted, _ := uni.Resolve(npm.NewResolver, client, u.StepBudget(), root)
	r.Eval(1)
	if exhausted {
		r.Count("resolutions:budget-exhausted", 1)
		return
	}
	if err != nil {
		r.Count("resolutions:error", 1)
		return
	}
	tree, nfired := takeTree(g)
	r.Count("resolutions:graph", 1)
	viol := check(r, c, g, tree, nfired, sat)
	if len(viol) == 0 {
		return
	}
	v := viol[0]
	cc := c
	cc.Clause = v.clause
	if _, seen := shrunk.LoadOrStore(c.Stratum+v.clause, true); shrink && !seen {
		cc = shrinkCase(cc, v.clause, sat)
	}
	r.Violation("C06:"+c.Stratum+":"+v.clause, fmt.Sprintf("root %s@%s (%s stratum): %s\n%s\ninstall tree:\n%s", c.Root[0], c.Root[1], c.Stratum, v.what, g.String(), dumpTree(tree, "")), cc)
}

type violation struct{ clause, what string }

func typeEqModSelector(a, b dep.Type) bool {
	x, y := a.Clone(), b.Clone()
	x.AddAttr(dep.Selector, "")
	y.AddAttr(dep.Selector, "")
	return x.Equal(y)
}

// filtered is the statement's requirement list of an installed version:
// non-dev, non-peer, optional overriding regular, bundle-scoped only when
// there is no plain regular declaration, bundle content excluded.
func filtered(u *uni.Universe, v *uni.Version) []uni.Req {
	opt := map[string]bool{}
	reg := map[string]bool{}
	for _, q := range v.Reqs {
		if q.Dev {
			continue
		}
		if q.Opt {
			opt[q.Name] = true
		}
		if q.Type().IsRegular() {
			reg[q.Name] = true
		}
	}
	var out []uni.Req
	for _, q := range v.Reqs {
		if q.Dev || q.Scope == "peer" {
			continue
		}
		if !q.Opt && opt[q.Name] {
			continue
		}
		if strings.Contains(q.Name, ">") { // mangled: direct bundle content
			continue
		}
		if q.Scope == "bundle" && reg[q.Name] {
			continue
		}
		out = append(out, q)
	}
	return out
}

func check(r *ev.Run, c Case, g *resolve.Graph, tree *npm.VerifNode, nfired int, sat satTable) (viol []violation) {
	u := c.Universe
	add := func(clause, f string, a ...any) { viol = append(viol, violation{clause, fmt.Sprintf(f, a...)}) }
	hasBundles := false
	for _, v := range u.Versions {
		if v.DerivedFrom != "" {
			hasBundles = true
			break
		}
	}
	adj := map[resolve.NodeID][]resolve.Edge{}
	for _, e := range g.Edges {
		adj[e.From] = append(adj[e.From], e)
	}
	// G3 reachability.
	seen := map[resolve.NodeID]bool{0: true}
	queue := []resolve.NodeID{0}
	for len(queue) > 0 {
		x := queue[0]
		queue = queue[1:]
		for _, e := range adj[x] {
			if !seen[e.To] {
				seen[e.To] = true
				queue = append(queue, e.To)
			}
		}
	}
	if len(seen) != len(g.Nodes) {
		add("G3-unreachable", "%d of %d nodes reachable from the root", len(seen), len(g.Nodes))
	}
	if len(g.Nodes) == 0 || g.Nodes[0].Version != u.VK(c.Root[0], c.Root[1], resolve.Concrete) {
		add("G3-root", "node 0 is not the requested root")
		return
	}

	satisfies := func(q uni.Req, y *uni.Version) bool {
		if sat[[2]string{q.Req, y.Version}] {
			return true
		}
		tags := y.Tags
		if y.DerivedFrom != "" {
			// A bundled copy is the registry's version of that name: its dist-tags count.
			if o := u.Find(y.DerivedFrom, y.Version); o != nil {
				tags = o.Tags
			}
		}
		for _, t := range strings.Split(tags, ",") {
			if t != "" && t == q.Req {
				return true
			}
		}
		return false
	}
	pkgOf := func(y *uni.Version) string {
		if y.DerivedFrom != "" {
			return y.DerivedFrom
		}
		return y.Name
	}

	type matched struct {
		q uni.Req
		e resolve.Edge
	}
	// The install tree, indexed: Node's lookup of a name from a graph node.
	treeByID := map[resolve.NodeID]*npm.VerifNode{}
	treeParent := map[*npm.VerifNode]*npm.VerifNode{}
	if tree != nil {
		var index func(n *npm.VerifNode, depth int)
		index = func(n *npm.VerifNode, depth int) {
			if n.ID != 0 || depth == 0 {
				treeByID[n.ID] = n
			}
			for _, ch := range n.Children {
				treeParent[ch] = n
				index(ch, depth+1)
			}
		}
		index(tree, 0)
	}
	lookup := func(from resolve.NodeID, name string) (resolve.NodeID, bool) {
		for d := treeByID[from]; d != nil; d = treeParent[d] {
			for _, ch := range d.Children {
				if ch.Name == name {
					return ch.ID, true
				}
			}
		}
		return 0, false
	}
	lookupName := func(q uni.Req) string {
		if q.KnownAs != "" {
			return q.KnownAs
		}
		return q.Name
	}
	var pairs []matched
	for id, nd := range g.Nodes {
		x := u.Find(nd.Version.Name, nd.Version.Version)
		if x == nil {
			add("G0-unknown-node", "node %v is not a version of the universe", nd.Version)
			continue
		}
		reqs := filtered(u, x)
		edges := adj[resolve.NodeID(id)]
		errs := append([]resolve.NodeError(nil), nd.Errors...)
		// Match requirements to edges / node errors (small lists: backtracking).
		usedE := make([]bool, len(edges))
		usedErr := make([]bool, len(errs))
		assign := make([]int, len(reqs)) // >=0 edge index, -1-k error index
		var solve func(i int) bool
		relaxed := false
		compatible := func(q uni.Req, e resolve.Edge) bool {
			if e.Requirement != q.Req || !typeEqModSelector(e.Type, q.Type()) {
				return false
			}
			if relaxed {
				return true
			}
			y := u.Find(g.Nodes[e.To].Version.Name, g.Nodes[e.To].Version.Version)
			return y != nil && pkgOf(y) == q.Name
		}
		demandLookup := false
		solve = func(i int) bool {
			if i == len(reqs) {
				if !demandLookup {
					return true
				}
				// Relaxed matching is ambiguous (two requirements with the same
				// range text): accept an assignment only if Node's lookup agrees
				// with it; if none does, the first assignment is reported below.
				for k, q := range reqs {
					if assign[k] < 0 {
						continue
					}
					e := edges[assign[k]]
					if id, ok := lookup(e.From, lookupName(q)); !ok || id != e.To {
						return false
					}
				}
				return true
			}
			q := reqs[i]
			// Edges to a version of the required package first, then (relaxed
			// mode only) edges to whatever sits under the looked-up name.
			for pass := 0; pass < 2; pass++ {
				for k, e := range edges {
					if usedE[k] || !compatible(q, e) {
						continue
					}
					y := u.Find(g.Nodes[e.To].Version.Name, g.Nodes[e.To].Version.Version)
					same := y != nil && pkgOf(y) == q.Name
					if (pass == 0) != same {
						continue
					}
					usedE[k] = true
					assign[i] = k
					if solve(i + 1) {
						return true
					}
					usedE[k] = false
				}
			}
			for k, ne := range errs {
				if !usedErr[k] && ne.Req == u.VK(q.Name, q.Req, resolve.Requirement) {
					usedErr[k] = true
					assign[i] = -1 - k
					if solve(i + 1) {
						return true
					}
					usedErr[k] = false
				}
			}
			return false
		}
		reset0 := func() {
			for k := range usedE {
				usedE[k] = false
			}
			for k := range usedErr {
				usedErr[k] = false
			}
		}
		ok := false
		if c.Stratum == Collision && tree != nil && !hasBundles {
			// Where aliases take package names, matching by package alone can
			// pair two requirements with each other's edges and still look
			// consistent (a installed under the name b and b under the name a,
			// required as a@* and b@*): an assignment Node's lookup agrees with
			// is looked for first.
			relaxed, demandLookup = true, true
			ok = solve(0)
			if !ok {
				relaxed, demandLookup = false, false
				reset0()
			}
		}
		if !ok {
			ok = solve(0)
		}
		if !ok && c.Stratum == Collision {
			// An alias equal to a package name: the target may sit under the
			// looked-up name without being a version of the required package.
			relaxed = true
			reset := func() {
				for k := range usedE {
					usedE[k] = false
				}
				for k := range usedErr {
					usedErr[k] = false
				}
			}
			reset()
			demandLookup = tree != nil && !hasBundles
			ok = solve(0)
			if !ok && demandLookup {
				demandLookup = false
				reset()
				ok = solve(0)
			}
		}
		if !ok {
			add("G2-missing", "node %s@%s: its requirements %v cannot be matched one-to-one to its %d out-edges and %d node errors", x.Name, x.Version, reqs, len(edges), len(errs))
			continue
		}
		for k := range edges {
			if !usedE[k] {
				add("G2-extra-edge", "node %s@%s has an out-edge %q (%s) that answers none of its requirements", x.Name, x.Version, edges[k].Requirement, edges[k].Type.String())
			}
		}
		for i, q := range reqs {
			if assign[i] >= 0 {
				pairs = append(pairs, matched{q, edges[assign[i]]})
			} else {
				r.Count("feature:node-error", 1)
			}
		}
	}

	// G1, G4 on matched pairs.
	for _, p := range pairs {
		y := u.Find(g.Nodes[p.e.To].Version.Name, g.Nodes[p.e.To].Version.Version)
		if y == nil {
			continue
		}
		_, sel := p.e.Type.GetAttr(dep.Selector)
		if y.DerivedFrom != "" {
			r.Count("feature:bundled-node", 1)
		}
		if p.q.KnownAs != "" {
			r.Count("feature:alias-edge", 1)
		}
		if !sel {
			r.Count("feature:reuse-walk-up", 1)
		}
		// '*' reuses whatever is installed; the first use of a pre-seeded bundled
		// copy is marked Selector although nothing is installed afresh.
		okSat := satisfies(p.q, y) || (p.q.Req == "*" && (!sel || y.DerivedFrom != ""))
		if !okSat {
			add("G1-unsatisfied", "edge %s -> %s@%s for requirement %s@%q: the target does not satisfy it (not by range, not by dist-tag, not a '*' reuse)", g.Nodes[p.e.From].Version.Name, y.Name, y.Version, p.q.Name, p.q.Req)
		}
		if sel && y.DerivedFrom == "" {
			// Fresh install: the reference pick.
			r.Count("feature:selector-edge-checked", 1)
			var cands []*uni.Version
			for _, w := range u.Of(p.q.Name) {
				if satisfies(p.q, w) {
					cands = append(cands, w)
				}
			}
			want, alt, skipped := pick(u, p.q.Name, cands)
			if want == nil {
				continue
			}
			if skipped {
				r.Count("feature:blocked-skipped", 1)
			}
			if strings.Contains(want.Tags, "latest") && len(cands) > 1 {
				r.Count("feature:latest-pick", 1)
			}
			if y.Name == p.q.Name && y.Version != want.Version && (alt == nil || y.Version != alt.Version) {
				add("G4-pick", "fresh install for %s@%q picked %s, the reference pick is %s (candidates %v)", p.q.Name, p.q.Req, y.Version, want.Version, names(cands))
			}
		}
	}
	if len(viol) > 0 {
		return
	}

	// Tree clauses.
	if nfired != 1 || tree == nil {
		r.Inconclusive(fmt.Sprintf("hook H1 fired %d times for one resolution", nfired))
		return
	}
	r.Count("hook:tree-seen", 1)
	byID := map[resolve.NodeID]*npm.VerifNode{}
	parent := map[*npm.VerifNode]*npm.VerifNode{}
	nested, aliased := false, false
	var walk func(n *npm.VerifNode, depth int)
	walk = func(n *npm.VerifNode, depth int) {
		if n.ID != 0 || depth == 0 {
			if _, dup := byID[n.ID]; dup && !hasBundles {
				add("T0-id-twice", "graph node %d sits at two places of the tree", n.ID)
			}
			byID[n.ID] = n
		}
		if depth >= 2 {
			nested = true
		}
		if n.IsAlias {
			aliased = true
		}
		seenName := map[string]bool{}
		for _, ch := range n.Children {
			if seenName[ch.Name] && !hasBundles {
				add("T1-dup-name", "directory of %s holds two packages named %q", n.Name, ch.Name)
			}
			seenName[ch.Name] = true
			parent[ch] = n
			walk(ch, depth+1)
		}
	}
	walk(tree, 0)
	if nested {
		r.Count("feature:nested-install", 1)
	}
	if nested || aliased {
		r.Nontrivial(fmt.Sprintf("%p|%s@%s", u, c.Root[0], c.Root[1]))
		r.Count("nontrivial", 1)
		if _, done := sampleOnce.LoadOrStore(c.Stratum, true); !done {
			r.Sample(map[string]any{"stratum": c.Stratum, "root": c.Root, "universe_versions": len(u.Versions), "graph": g.String()})
		}
	}
	if hasBundles {
		// Bundled sub-trees follow separate rules.
		return
	}
	for _, p := range pairs {
		from := byID[p.e.From]
		if from == nil {
			add("T0-from-not-in-tree", "graph node %d has no place in the tree", p.e.From)
			continue
		}
		name := p.q.Name
		if p.q.KnownAs != "" {
			name = p.q.KnownAs
		}
		var hit *npm.VerifNode
		for d := from; d != nil && hit == nil; d = parent[d] {
			for _, ch := range d.Children {
				if ch.Name == name {
					hit = ch
					break
				}
			}
		}
		if hit == nil || hit.ID != p.e.To {
			got := "nothing"
			if hit != nil {
				got = fmt.Sprintf("%s@%s (node %d)", hit.Package.Name, hit.Version.Version, hit.ID)
			}
			add("T2-lookup", "Node's lookup of %q from %s@%s finds %s, the edge points to node %d (%s)", name, g.Nodes[p.e.From].Version.Name, g.Nodes[p.e.From].Version.Version, got, p.e.To, g.Nodes[p.e.To].Version)
		}
	}
	for _, v := range viol {
		if v.clause == "G4-pick" {
			continue
		}
	}
	_ = r
	return
}

func names(vs []*uni.Version) []string {
	var out []string
	for _, v := range vs {
		out = append(out, v.Version)
	}
	return out
}

// pick is the reference pick among satisfying candidates: the version tagged
// latest if it satisfies, else the highest non-deprecated, else the highest.
// alt is a second admissible answer in the one ambiguous case (latest on a
// prerelease while the package has releases).
func pick(u *uni.Universe, pkg string, cands []*uni.Version) (want, alt *uni.Version, skippedBlocked bool) {
	if len(cands) == 0 {
		return nil, nil, false
	}
	sorted := append([]*uni.Version(nil), cands...)
	sort.Slice(sorted, func(i, j int) bool {
		a, _ := semver.NPM.Parse(sorted[i].Version)
		b, _ := semver.NPM.Parse(sorted[j].Version)
		if a != nil && b != nil {
			if c := a.Compare(b); c != 0 {
				return c < 0
			}
		}
		return sorted[i].Version < sorted[j].Version
	})
	highest := func() *uni.Version {
		for i := len(sorted) - 1; i >= 0; i-- {
			if !sorted[i].Blocked {
				return sorted[i]
			}
		}
		return sorted[len(sorted)-1]
	}
	for _, v := range cands {
		for _, t := range strings.Split(v.Tags, ",") {
			if t == "latest" {
				pv, _ := semver.NPM.Parse(v.Version)
				if pv != nil && pv.IsPrerelease() {
					// Ambiguous when the package also has releases.
					for _, w := range u.Of(pkg) {
						// Anything that is not a prerelease counts, a version
						// string that is not SemVer included (as in C12's order).
						if pw, _ := semver.NPM.Parse(w.Version); pw == nil || !pw.IsPrerelease() {
							return v, highest(), false
						}
					}
				}
				return v, nil, false
			}
		}
	}
	h := highest()
	return h, nil, h != sorted[len(sorted)-1]
}

// shrinkCase greedily drops versions and requirements while the same clause
// still fails (bounded number of resolutions).
func shrinkCase(c Case, clause string, sat satTable) Case {
	budget := 250
	fails := func(u *uni.Universe) bool {
		if budget <= 0 || u.Find(c.Root[0], c.Root[1]) == nil {
			return false
		}
		budget--
		cc := Case{Stratum: c.Stratum, Universe: u, Root: c.Root}
		sr := ev.New("C06-shrink") // A throw-away record; a sub-universe only uses strings the table already has.
		g, err, ex, _ := uni.Resolve(npm.NewResolver, u.Client(nil), u.StepBudget(), u.VK(c.Root[0], c.Root[1], resolve.Concrete))
		if err != nil || ex {
			return false
		}
		tree, n := takeTree(g)
		for _, v := range check(sr, cc, g, tree, n, sat) {
			if v.clause == clause {
				return true
			}
		}
		return false
	}
	cur := c.Universe
	for changed := true; changed && budget > 0; {
		changed = false
		for i := 0; i < len(cur.Versions) && budget > 0; i++ {
			nu := &uni.Universe{Sys: cur.Sys, Versions: append(append([]uni.Version(nil), cur.Versions[:i]...), cur.Versions[i+1:]...)}
			if fails(nu) {
				cur = nu
				changed = true
				i--
			}
		}
		for i := 0; i < len(cur.Versions) && budget > 0; i++ {
			for k := 0; k < len(cur.Versions[i].Reqs) && budget > 0; k++ {
				nu := &uni.Universe{Sys: cur.Sys, Versions: append([]uni.Version(nil), cur.Versions...)}
				v := nu.Versions[i]
				v.Reqs = append(append([]uni.Req(nil), v.Reqs[:k]...), v.Reqs[k+1:]...)
				nu.Versions[i] = v
				if fails(nu) {
					cur = nu
					changed = true
					k--
				}
			}
		}
	}
	c.Universe = cur
	return c
}

var _ = rand.Int

func dumpTree(n *npm.VerifNode, ind string) string {
	if n == nil {
		return "<no tree>"
	}
	a := ""
	if n.IsAlias {
		a = " (alias)"
	}
	s := fmt.Sprintf("%s%s%s = %s@%s [node %d]\n", ind, n.Name, a, n.Package.Name, n.Version.Version, n.ID)
	for _, c := range n.Children {
		s += dumpTree(c, ind+"  ")
	}
	return s
}
