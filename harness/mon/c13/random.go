package c13

import (
	"encoding/json"
	"fmt"
	"hash/fnv"
	"math/rand"
	"sync"

	"verif/harness/ev"
)

var (
	rndReqs  = []string{"*", "^1", "~2"}
	rndNames = []string{"a", "b", "c", "d", "e", "f"}
	rndVers  = []string{"1", "2"}
	rndErrs  = []NodeErr{
		{Name: "e", Ver: "^1", Msg: "not found"},
		{Name: "e", Ver: "^2", Msg: "not found"},
		{Name: "e", Ver: "^1", Msg: "bad"},
		{Name: "d", Ver: "*", Msg: "not found"},
		// The same package and text under the other VersionType.
		{Name: "e", Ver: "^1", Msg: "not found", Concrete: true},
		{Name: "d", Ver: "*", Msg: "not found", Concrete: true},
		// Names that are not valid UTF-8 and differ in one byte (lib\xfe, lib\xff),
		// and the replacement character itself.
		{Name: "hex:6c6962fe", Ver: "*", Msg: "not found"},
		{Name: "hex:6c6962ff", Ver: "*", Msg: "not found"},
		{Name: "lib\ufffd", Ver: "*", Msg: "not found"},
		// Messages for one requirement whose order by length, by case-folded
		// text and by bytes all differ.
		{Name: "e", Ver: "^1", Msg: "zz"},
		{Name: "e", Ver: "^1", Msg: "could not resolve: no matching version"},
		{Name: "e", Ver: "^1", Msg: "Not found"},
		{Name: "e", Ver: "^1", Msg: "not found: e"},
		{Name: "d", Ver: "*", Msg: ""},
	}
)

type rndFeatures struct {
	equalKeyed, equalNodes, parallel, selfLoop, unreachable, multiErr bool
}

// genGraph draws a rooted graph of 1..40 nodes. Two styles are mixed: an
// npm-like one (the children of one node have pairwise different versions, the
// same version recurs under different parents: Canon's breadth-first path can
// succeed) and an unconstrained one.
func genGraph(rng *rand.Rand) Graph {
	var n int
	switch x := rng.Intn(20); {
	case x == 0:
		n = 1
	case x < 10:
		n = 2 + rng.Intn(7) // 2..8
	case x < 16:
		n = 9 + rng.Intn(8) // 9..16
	default:
		n = 17 + rng.Intn(24) // 17..40
	}
	npmLike := rng.Intn(2) == 0
	names := rndNames[:1+rng.Intn(len(rndNames))]
	if n > 8 && len(names) < 3 && rng.Intn(3) > 0 {
		names = rndNames[:3+rng.Intn(4)]
	}
	errP := []int{0, 0, 6, 3}[rng.Intn(4)] // 0: no errors; else 1/errP of the nodes carry errors
	var g Graph
	g.Nodes = make([]Node, n)
	label := func(i int) {
		g.Nodes[i].Name = names[rng.Intn(len(names))]
		g.Nodes[i].Ver = rndVers[rng.Intn(len(rndVers))]
	}
	for i := range g.Nodes {
		label(i)
		if errP > 0 && rng.Intn(errP) == 0 {
			k := 1 + rng.Intn(3)
			for ; k > 0; k-- {
				g.Nodes[i].Errs = append(g.Nodes[i].Errs, rndErrs[rng.Intn(len(rndErrs))])
			}
		}
	}
	typ := func() string {
		if rng.Intn(3) > 0 {
			return "reg"
		}
		return typeNames[rng.Intn(len(typeNames))]
	}
	add := func(from, to int) {
		g.Edges = append(g.Edges, Edge{From: from, To: to, Req: rndReqs[rng.Intn(len(rndReqs))], Type: typ()})
	}
	same := func(a, b *Node) bool {
		if a.Name != b.Name || a.Ver != b.Ver || len(a.Errs) != len(b.Errs) {
			return false
		}
		return fmt.Sprint(a.Errs) == fmt.Sprint(b.Errs) // conservative: same list, same order
	}
	children := make([][]int, n)
	clash := func(parent, child int) bool {
		for _, c := range children[parent] {
			if c != child && same(&g.Nodes[c], &g.Nodes[child]) {
				return true
			}
		}
		return false
	}
	// Spanning structure.
	skipP := 0
	if rng.Intn(8) == 0 {
		skipP = 2 + rng.Intn(6) // some nodes stay unreachable
	}
	for i := 1; i < n; i++ {
		if skipP > 0 && rng.Intn(skipP) == 0 {
			continue
		}
		p := rng.Intn(i)
		if npmLike {
			for try := 0; try < 8 && clash(p, i); try++ {
				if try%2 == 0 {
					label(i)
				} else {
					p = rng.Intn(i)
				}
			}
		}
		children[p] = append(children[p], i)
		add(p, i)
	}
	// Extra edges: forward, backward (cycles), self loops.
	extra := rng.Intn(n + 2)
	if rng.Intn(3) == 0 {
		extra = rng.Intn(3)
	}
	for ; extra > 0; extra-- {
		from, to := rng.Intn(n), rng.Intn(n)
		if npmLike && from != to && clash(from, to) {
			continue
		}
		if from != to {
			children[from] = append(children[from], to)
		}
		add(from, to)
	}
	if rng.Intn(6) == 0 {
		v := rng.Intn(n)
		add(v, v)
	}
	// Parallel edges: a copy of an existing edge with another type and/or requirement (or an exact copy).
	if len(g.Edges) > 0 && rng.Intn(5) < 2 {
		for k := 1 + rng.Intn(2); k > 0; k-- {
			e := g.Edges[rng.Intn(len(g.Edges))]
			switch rng.Intn(5) {
			case 4:
				// Two more copies whose types differ in one attribute value.
				p := siblingTypes[rng.Intn(len(siblingTypes))]
				e.Type = p[0]
				g.Edges = append(g.Edges, e)
				e.Type = p[1]
			case 0:
				e.Type = typeNames[rng.Intn(len(typeNames))]
			case 1:
				e.Req = rndReqs[rng.Intn(len(rndReqs))]
			case 2:
				e.Type = typeNames[rng.Intn(len(typeNames))]
				e.Req = rndReqs[rng.Intn(len(rndReqs))]
			}
			g.Edges = append(g.Edges, e)
		}
	}
	rng.Shuffle(len(g.Edges), func(a, b int) { g.Edges[a], g.Edges[b] = g.Edges[b], g.Edges[a] })
	return g
}

func features(g *Graph) rndFeatures {
	var f rndFeatures
	n := len(g.Nodes)
	ck := newChecker()
	if n > len(ck.nhIn) {
		ck.nhIn = make([]uint64, n)
	}
	fpSpec(g, ck.nhIn) // node hashes: (version key, error multiset)
	keys := map[[2]string]bool{}
	nodes := map[uint64]bool{}
	for i := range g.Nodes {
		k := [2]string{g.Nodes[i].Name, g.Nodes[i].Ver}
		if keys[k] {
			f.equalKeyed = true
		}
		keys[k] = true
		if nodes[ck.nhIn[i]] {
			f.equalNodes = true
		}
		nodes[ck.nhIn[i]] = true
		if len(g.Nodes[i].Errs) > 1 {
			f.multiErr = true
		}
	}
	pair := map[[2]int]bool{}
	adj := make([][]int, n)
	for _, e := range g.Edges {
		k := [2]int{e.From, e.To}
		if pair[k] {
			f.parallel = true
		}
		pair[k] = true
		if e.From == e.To {
			f.selfLoop = true
		}
		adj[e.From] = append(adj[e.From], e.To)
	}
	seen := make([]bool, n)
	stack := []int{0}
	seen[0] = true
	cnt := 1
	for len(stack) > 0 {
		v := stack[len(stack)-1]
		stack = stack[:len(stack)-1]
		for _, w := range adj[v] {
			if !seen[w] {
				seen[w] = true
				cnt++
				stack = append(stack, w)
			}
		}
	}
	f.unreachable = cnt < n
	return f
}

func randomRelabel(rng *rand.Rand, g *Graph) Relabel {
	n := len(g.Nodes)
	rel := Relabel{Perm: make([]int, n), EdgeOrder: rng.Perm(len(g.Edges)), ErrOrder: make([][]int, n)}
	for i, p := range rng.Perm(n - 1) {
		rel.Perm[i+1] = p + 1
	}
	for i := range g.Nodes {
		rel.ErrOrder[i] = rng.Perm(len(g.Nodes[i].Errs))
	}
	return rel
}

// random evaluates total random graphs under nrel random relabelings each, in
// 16 shards with their own PRNG streams (the shard count is fixed so that a
// seed determines the cases whatever the machine).
func (m *monitor) random(r *ev.Run, total, nrel int) {
	const shards = 16
	var wg sync.WaitGroup
	sem := make(chan struct{}, m.workers)
	for sh := 0; sh < shards; sh++ {
		cnt := total / shards
		if sh < total%shards {
			cnt++
		}
		wg.Add(1)
		sem <- struct{}{}
		go func(sh, cnt int) {
			defer wg.Done()
			defer func() { <-sem }()
			rng := r.Rand(fmt.Sprintf("random/%d", sh))
			ck := newChecker()
			counts := map[string]int64{}
			var evals int64
			for it := 0; it < cnt; it++ {
				g := genGraph(rng)
				f := features(&g)
				counts["random:graphs"]++
				nontriv := f.equalKeyed || f.parallel
				if nontriv {
					counts["random:nontrivial_graphs"]++
					b, _ := json.Marshal(g)
					h := fnv.New64a()
					h.Write(b)
					r.NontrivialHash(h.Sum64())
				}
				if f.equalKeyed {
					counts["random:with_equal_keyed_nodes"]++
				}
				if f.parallel {
					counts["random:with_parallel_edge"]++
				}
				if f.selfLoop {
					counts["random:with_self_loop"]++
				}
				if f.unreachable {
					counts["random:with_unreachable"]++
				}
				if f.multiErr {
					counts["random:with_multi_error_node"]++
				}
				if len(g.Nodes) > 12 {
					counts["random:nodes>12"]++
				}
				if sh == 0 && it < 3 {
					r.Sample(Case{G: g, Rel: randomRelabel(rng, &g), Note: "random sample"})
				}
				evals++
				res, v := ck.base(&g)
				if v != nil {
					m.report(ck, v, Case{G: g, Rel: identityRel(&g)}, "random")
					continue
				}
				if res.err == nil {
					counts["random:canon_ok"]++
					if f.equalNodes {
						counts["random:canon_ok_with_equal_nodes"]++
					}
				} else {
					counts["random:canon_err"]++
				}
				for k := 0; k < nrel; k++ {
					rel := randomRelabel(rng, &g)
					evals++
					if v := ck.relabelled(&g, &res, &rel); v != nil {
						m.report(ck, v, Case{G: g, Rel: rel}, "random")
						break
					}
				}
			}
			r.Eval(evals)
			for k, v := range counts {
				r.Count(k, v)
			}
			m.mu.Lock()
			m.canonCalls += ck.calls
			m.graphs += counts["random:graphs"]
			m.nontrivial += counts["random:nontrivial_graphs"]
			m.mu.Unlock()
		}(sh, cnt)
	}
	wg.Wait()
}
