
package c18

import "deps.dev/util/resolve"

// Hook H2 (/verif/proposed/C18-hook-H2.diff). Remove the build constraint once
// the hook is committed to the tree under test.
func init() { setYield = resolve.SetVerifYield }
