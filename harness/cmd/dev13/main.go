package main

import (
	"os"

	"verif/harness/ev"
	"verif/harness/mon/c13"
)

var stopProf = func() {}

func main() {
	r := ev.New("C13")
	replay := ""
	for i := 1; i < len(os.Args); i++ {
		switch os.Args[i] {
		case "quick", "thorough":
			r.Tier = os.Args[i]
		case "--replay":
			if i+1 < len(os.Args) {
				replay = os.Args[i+1]
				i++
			}
		}
	}
	c13.Run(r, replay)
	stopProf()
	r.Finish()
}
