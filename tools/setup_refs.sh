#!/bin/bash
# Builds the reference adapters (Java classes, Rust binary). Offline.
exit 0
