package c19

import (
	"strings"

	"deps.dev/util/resolve/dep"
	"deps.dev/util/resolve/version"
)

// keyInfo describes one named attribute key of a kind.
type keyInfo struct {
	name  string // the constant's name (stringer form)
	lower string // the token used by the schema syntax
	flag  bool   // negative key: stored in the mask, "its value is ignored; its presence is the indicator"
	// textFlag: the schema text parsers (deptest/versiontest flagKeys) never read
	// a value token after this key, so the text form can only carry "".
	textFlag bool
}

// kind bundles everything that differs between dep.Type and version.AttrSet.
type kind struct {
	name       string
	keys       []keyInfo
	hasCompare bool // dep.Type has Compare; version.AttrSet only Equal
	hasEach    bool // version.AttrSet has ForEachAttr
	zero       func() value
	newOf      func(keys []int) value // dep.NewType(keys...) / zero value + SetAttr(k, "")
}

type kvPair struct {
	k int
	v string
}

// value is one real attribute set (dep.Type or version.AttrSet) behind a
// uniform face; key arguments are indices into kind.keys.
type value interface {
	Set(k int, v string)
	Get(k int) (string, bool)
	Has(k int) bool
	Clone() value
	Alias() value // plain Go assignment copy of the struct
	Empty() bool  // IsRegular / Empty
	Equal(o value) bool
	Compare(o value) int
	String() string
	Each() []kvPair
}

// All 14 dep keys, in the order of the constant block of dep/key.go (and of
// deptest.allKeys). Dev, Opt, Test are mask flags.
var depKeyConsts = []dep.AttrKey{
	dep.Dev, dep.Opt, dep.Test,
	dep.XTest, dep.Framework, dep.Scope,
	dep.MavenClassifier, dep.MavenArtifactType, dep.MavenDependencyOrigin, dep.MavenExclusions,
	dep.EnabledDependencies, dep.KnownAs, dep.Environment, dep.Selector,
}

// All 13 version keys (version/key.go, versiontest.allKeys).
var verKeyConsts = []version.AttrKey{
	version.Blocked, version.Deleted, version.Error,
	version.Redirect, version.Features, version.DerivedFrom, version.NativeLibrary,
	version.Registries, version.SupportedFrameworks, version.DependencyGroups,
	version.Ident, version.Created, version.Tags,
}

var depKind, verKind *kind

func init() {
	depKind = &kind{name: "dep", hasCompare: true}
	for _, k := range depKeyConsts {
		depKind.keys = append(depKind.keys, keyInfo{
			name: k.String(), lower: strings.ToLower(k.String()), flag: k < 0,
			textFlag: k < 0 || k == dep.Selector,
		})
	}
	depKind.zero = func() value { return &depVal{} }
	depKind.newOf = func(keys []int) value {
		ks := make([]dep.AttrKey, len(keys))
		for i, k := range keys {
			ks[i] = depKeyConsts[k]
		}
		return &depVal{t: dep.NewType(ks...)}
	}
	verKind = &kind{name: "ver", hasEach: true}
	for _, k := range verKeyConsts {
		verKind.keys = append(verKind.keys, keyInfo{
			name: k.String(), lower: strings.ToLower(k.String()), flag: k < 0, textFlag: k < 0,
		})
	}
	verKind.zero = func() value { return &verVal{} }
	verKind.newOf = func(keys []int) value {
		v := &verVal{}
		for _, k := range keys {
			v.s.SetAttr(verKeyConsts[k], "")
		}
		return v
	}
}

func kindByName(n string) *kind {
	switch n {
	case "dep":
		return depKind
	case "ver":
		return verKind
	}
	return nil
}

func (kd *kind) keyIndex(name string) int {
	for i, k := range kd.keys {
		if k.name == name {
			return i
		}
	}
	return -1
}

type depVal struct{ t dep.Type }

func (d *depVal) Set(k int, v string)      { d.t.AddAttr(depKeyConsts[k], v) }
func (d *depVal) Get(k int) (string, bool) { return d.t.GetAttr(depKeyConsts[k]) }
func (d *depVal) Has(k int) bool           { return d.t.HasAttr(depKeyConsts[k]) }
func (d *depVal) Clone() value             { return &depVal{t: d.t.Clone()} }
func (d *depVal) Alias() value             { t2 := d.t; return &depVal{t: t2} }
func (d *depVal) Empty() bool              { return d.t.IsRegular() }
func (d *depVal) Equal(o value) bool       { return d.t.Equal(o.(*depVal).t) }
func (d *depVal) Compare(o value) int      { return d.t.Compare(o.(*depVal).t) }
func (d *depVal) String() string           { return d.t.String() }
func (d *depVal) Each() []kvPair           { return nil }

type verVal struct{ s version.AttrSet }

func (d *verVal) Set(k int, v string)      { d.s.SetAttr(verKeyConsts[k], v) }
func (d *verVal) Get(k int) (string, bool) { return d.s.GetAttr(verKeyConsts[k]) }
func (d *verVal) Has(k int) bool           { return d.s.HasAttr(verKeyConsts[k]) }
func (d *verVal) Clone() value             { return &verVal{s: d.s.Clone()} }
func (d *verVal) Alias() value             { s2 := d.s; return &verVal{s: s2} }
func (d *verVal) Empty() bool              { return d.s.Empty() }
func (d *verVal) Equal(o value) bool       { return d.s.Equal(o.(*verVal).s) }
func (d *verVal) Compare(o value) int      { panic("version.AttrSet has no Compare") }
func (d *verVal) String() string           { return d.s.String() }
func (d *verVal) Each() []kvPair {
	var out []kvPair
	d.s.ForEachAttr(func(key version.AttrKey, v string) {
		idx := -1
		for i, c := range verKeyConsts {
			if c == key {
				idx = i
			}
		}
		out = append(out, kvPair{k: idx, v: v})
	})
	return out
}

// maxKeys bounds the key tables (model arrays are fixed size).
const maxKeys = 16

// model is the reference: which keys are present and, for valued keys, the
// value. A flag key's value is not part of the model ("its value is ignored").
type model struct {
	has [maxKeys]bool
	val [maxKeys]string
}

func (m *model) set(kd *kind, k int, v string) {
	m.has[k] = true
	if !kd.keys[k].flag {
		m.val[k] = v
	}
}

func (m *model) empty() bool {
	for _, h := range m.has {
		if h {
			return false
		}
	}
	return true
}

func (m *model) count() int {
	n := 0
	for _, h := range m.has {
		if h {
			n++
		}
	}
	return n
}

func (m *model) equal(o *model) bool { return *m == *o }

// canon is the canonical text of a model (used as the distinct-case key and in
// reports).
func (m *model) canon(kd *kind) string {
	var sb strings.Builder
	sb.WriteString(kd.name)
	sb.WriteByte('{')
	first := true
	for i, k := range kd.keys {
		if !m.has[i] {
			continue
		}
		if !first {
			sb.WriteByte(',')
		}
		first = false
		sb.WriteString(k.name)
		if !k.flag {
			sb.WriteByte('=')
			sb.WriteString(quote(m.val[i]))
		}
	}
	sb.WriteByte('}')
	return sb.String()
}
