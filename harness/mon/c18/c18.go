// Package c18 monitors property C18: the API-backed client (resolve.APIClient)
// maps bundled packages and aliased dependencies of npm requirements responses
// consistently across its four calls, resolves to the same graph as the
// in-memory client loaded with the same data, and does so when several
// goroutines share it.
package c18

import (
	"fmt"
	"math/rand"
	"os"
	"strings"
	"sync"
	"time"

	"deps.dev/util/resolve"
	"deps.dev/util/resolve/npm"
	"verif/harness/ev"
	"verif/harness/uni"
)

// Case is what replay files and witnesses hold.
type Case struct {
	Kind      string    `json:"kind"` // inv | diff | all | conc
	Registry  *Registry `json:"registry"`
	OrderSeed int64     `json:"order_seed,omitempty"` // order of the bundled package.json files in responses
	Root      [2]string `json:"root,omitempty"`       // diff: name, version
	Class     string    `json:"class,omitempty"`
	Conc      *ConcCase `json:"conc,omitempty"`
	Note      string    `json:"note,omitempty"`
}

const otherVersion = "0.0.0-c18.absent"

func Run(r *ev.Run, replay string) {
	// C06's init registers an install-tree observer that keeps every tree until
	// it is fetched; this process never fetches them.
	npm.SetVerifTreeHook(nil)
	if os.Getenv(raceEnv) != "" {
		childMain(r)
		return
	}
	r.MaxSamples = 6
	r.Rule = "generated npm registries (C06's base universe generator: 5-12 packages x 1-5 versions, scoped names, every requirement kind and range operator, aliases; plus aliases in all four sections with scoped keys and targets, names with an inner '@', bundleDependencies, and node_modules trees of bundled package.json files up to depth 3, some under alias directories, some of versions absent from the registry, now and then a requirement on a package the registry lacks) served by an in-process gRPC Insights service (bufconn). (a,b) invariants of the four APIClient calls per bundled package and per aliased entry; (c) every registry version resolved through APIClient and through a LocalClient loaded with the independently written encoding, graphs compared by an order-independent encoding; (d) G in {2,8,16} goroutines on one APIClient running seeded scripts of the four calls and whole resolutions, every client call recorded, value-checked against the sequential answer and history-checked (porcupine) per bundling version, in a -race child process. Non-trivial = distinct (registry, root) whose version carries bundles or whose graph has a bundled node."
	r.Assumptions = []string{
		"ranges contain no '@' (no valid npm range, version or dist-tag does), so 'npm:name@range' has exactly one reading even when the name has an '@' inside; ranges with '@' and 'npm:name' without a range are not generated",
		"Requirements are compared as multisets: the property does not promise an order (order that matters to the resolver shows up in the differential)",
		"a resolution still asking after the logical step budget (min(200*(versions+10), 3000) client calls) through both clients is skipped and counted (the npm non-termination shapes are C04's business; some long terminating resolutions are cut too); exhausting it through one client only is a violation; Resolve failing through both clients is agreement",
		"a bundled copy of one of the packages whose node_modules enclose it, and a bundleDependencies entry naming an alias directory, are generated rarely: they are the usual source of budget-exhausting resolutions",
		"history model = the documented contract of APIClient: a bundled name is found iff the bundling version's Requirements has taken effect on this client; nothing is fetched on demand",
		"per-call yields and sleeps in the fake service, at the client boundary and at the H2 sites only widen interleavings; no verdict reads a clock (outer watchdogs and the 30 s history-checker limit end in 'inconclusive')",
		"a race report counts when one of its stacks has a deps.dev/ frame; reports with harness frames only make the run inconclusive",
	}
	// The only use of time besides the checker limit: an outer watchdog.
	wd := time.AfterFunc(time.Duration(r.N(15, 60))*time.Minute, func() {
		r.Inconclusive("outer watchdog fired")
		r.Finish()
	})
	defer wd.Stop()

	if replay != "" {
		runReplay(r, replay)
		return
	}

	var wit []Case
	if err := ev.ReadJSON(ev.Root+"/witnesses/C18.json", &wit); err != nil {
		r.Inconclusive("witnesses/C18.json: " + err.Error())
	}
	if e, err := newEnv(r.Rand("witness-env")); err != nil {
		r.Inconclusive("cannot set up the in-process service: " + err.Error())
		return
	} else {
		for _, c := range wit {
			if c.Kind == "conc" && c.Conc != nil && c.Registry != nil {
				st := newConcStats()
				replayConc(c, 25, st)
				foldAs(r, st, "witness:")
			} else {
				runCase(r, e, c, false)
			}
			r.Count("witness_cases", 1)
		}
		e.close()
	}

	// The -race child runs beside the sequential part; without one the
	// concurrent workload runs in this process afterwards (its yield hook is
	// process-wide).
	concDone := make(chan string, 1)
	go func() { concDone <- runConcurrentPart(r) }()

	n := r.N(100, 3200)
	shards := r.N(6, 14)
	var wg sync.WaitGroup
	for sh := 0; sh < shards; sh++ {
		wg.Add(1)
		go func(sh int) {
			defer wg.Done()
			rng := r.Rand(fmt.Sprint("seq/", sh))
			e, err := newEnv(rand.New(rand.NewSource(rng.Int63())))
			if err != nil {
				r.Inconclusive("cannot set up the in-process service: " + err.Error())
				return
			}
			defer e.close()
			for i := sh; i < n; i += shards {
				reg := Generate(rng, 3)
				c := Case{Kind: "all", Registry: reg, OrderSeed: rng.Int63() | 1, Note: fmt.Sprintf("seq/%d/%d", sh, i)}
				runCase(r, e, c, true)
			}
			r.Count("service:calls", e.svc.calls.Load())
		}(sh)
	}
	wg.Wait()
	if why := <-concDone; why != "" {
		inProcess(r, why)
	}

	res := r.Counter("diff:resolutions")
	r.Gate("registries", int64(n))
	r.Gate("diff:resolutions", int64(n*8))
	r.Gate("feature:root-with-bundles", (res+3)/4)
	r.Gate("feature:graph-with-bundled-node", res/8)
	r.Gate("inv:bundles-checked", int64(n))
	r.Gate("feature:bundle-depth-2", int64(n/4))
	r.Gate("feature:bundle-depth-3", int64(n/10))
	r.Gate("feature:bundle-under-alias-dir", int64(n/20))
	r.Gate("feature:alias", int64(n))
	r.Gate("feature:alias:scoped", int64(n/4))
	r.Gate("feature:alias:at-inside-name", int64(n/20))
	r.GateNontrivial(int64(n * 2))
	for _, g := range []int{2, 8, 16} {
		r.Gate(fmt.Sprintf("conc:G=%d:distinct-interleavings", g), 50)
	}
	r.Gate("conc:histories-checked", 100)
	r.Gate("conc:history:reads-found", 100)
	r.Gate("conc:history:reads-notfound", 20)
	r.Gate("conc:resolutions", 50)
	if setYield != nil {
		r.Gate("hook:h2-yields", 100)
		r.Set("hook_h2", "present")
	} else {
		r.Set("hook_h2", "absent from this build (hook_h2.go is behind the c18hook tag until the hook is committed)")
	}
}

// stepBudget is the logical bound on client calls per resolution. Cutting a
// resolution that would have ended later is sound: a cut on both sides is a
// skip, and the two clients are asked the same questions as long as they give
// the same answers.
func stepBudget(u *uni.Universe) int64 {
	if b := u.StepBudget(); b < 3000 {
		return b
	}
	return 3000
}

// reportMu serialises "shrink, then report" so that the violations the run
// record keeps (the first three of a class) are the shrunk ones.
var reportMu sync.Mutex

var (
	shrunkMu sync.Mutex
	shrunkN  = map[string]int{}
)

// shrinkWorthwhile lets the first few violations of a class be shrunk (the run
// record keeps three per class).
func shrinkWorthwhile(class string) bool {
	shrunkMu.Lock()
	defer shrunkMu.Unlock()
	shrunkN[class]++
	return shrunkN[class] <= 3
}

var sampled sync.Map

var (
	maxMu      sync.Mutex
	maxCallsOK int64
)

// maxCalls keeps the largest number of client calls of a resolution that ended
// within the budget.
func maxCalls(r *ev.Run, n int64) {
	maxMu.Lock()
	if n > maxCallsOK {
		maxCallsOK = n
		r.Set("max_client_calls_of_a_terminating_resolution", n)
	}
	maxMu.Unlock()
}

// runCase executes one sequential case: invariants on a fresh client, then the
// differential for the case's root (kind diff) or for every version (kind all).
func runCase(r *ev.Run, e *env, c Case, shrink bool) {
	if os.Getenv("C18_NOSHRINK") != "" {
		shrink = false
	}
	if c.Registry == nil || len(c.Registry.Pkgs) == 0 {
		r.Inconclusive("case without registry: " + c.Note)
		return
	}
	reg := c.Registry
	e.serve(reg, c.OrderSeed)
	r.Count("registries", 1)
	if c.Kind != "diff" {
		order := reg.roots()
		rand.New(rand.NewSource(c.OrderSeed)).Shuffle(len(order), func(i, j int) { order[i], order[j] = order[j], order[i] })
		fs, st, panicked := safeInvariants(e, reg, order)
		r.Eval(int64(st.parents + 2*st.bundles))
		r.Count("inv:parents-checked", int64(st.parents))
		r.Count("inv:bundles-checked", int64(st.bundles))
		r.Count("feature:bundle-depth-2", int64(st.depth2))
		r.Count("feature:bundle-depth-3", int64(st.depth3))
		r.Count("feature:bundle-under-alias-dir", int64(st.aliasedDirs))
		r.Count("feature:alias", int64(st.aliases))
		r.Count("feature:alias:scoped", int64(st.scopedAliases))
		r.Count("feature:alias:at-inside-name", int64(st.atInName))
		r.Count("inv:bundled-name-not-found-before-holder-requirements", int64(st.notFoundBefore))
		r.Count("inv:plain-versions", int64(st.plainVersions))
		r.Count("inv:plain-versions-with-registries", int64(st.withRegistries))
		r.Count("inv:earlier-answers-reread", int64(st.heldRechecked))
		if panicked != "" {
			r.Violation("C18:inv:panic", "panic while checking the invariants: "+panicked, c)
		}
		seen := map[string]bool{}
		for _, f := range fs {
			if seen[f.class] {
				continue
			}
			seen[f.class] = true
			cc := c
			cc.Kind, cc.Class = "inv", f.class
			reportMu.Lock()
			if shrink && shrinkWorthwhile("inv:"+f.class) {
				cc.Registry = shrinkRegistry(reg, [2]string{}, 300, func(s *Registry) bool {
					e.serve(s, c.OrderSeed)
					fs2, _, _ := safeInvariants(e, s, s.roots())
					for _, g := range fs2 {
						if g.class == f.class {
							return true
						}
					}
					return false
				})
				e.serve(cc.Registry, c.OrderSeed)
				if fs2, _, _ := safeInvariants(e, cc.Registry, cc.Registry.roots()); len(fs2) > 0 {
					for _, g := range fs2 {
						if g.class == f.class {
							f.what = g.what
							break
						}
					}
				}
				e.serve(reg, c.OrderSeed)
			}
			r.Violation("C18:inv:"+f.class, f.what, cc)
			reportMu.Unlock()
		}
	}
	if c.Kind == "inv" {
		return
	}
	u := Encode(reg)
	budget := stepBudget(u)
	lc := u.Client(nil)
	ac := resolve.NewAPIClient(e.cli)
	roots := reg.roots()
	if c.Kind == "diff" {
		roots = [][2]string{c.Root}
	}
	for _, root := range roots {
		v := reg.ver(root[0], root[1])
		if v == nil {
			continue
		}
		d := differential(reg, ac, lc, budget, npmVK(root[0], root[1], resolve.Concrete))
		r.Eval(1)
		r.Count("diff:resolutions", 1)
		if d.skipped != "" {
			r.Count("diff:skipped:"+d.skipped, 1)
		}
		if len(v.Bundled) > 0 {
			r.Count("feature:root-with-bundles", 1)
			if bundleDepth(v.Bundled) >= 2 {
				r.Count("feature:root-with-nested-bundles", 1)
			}
		}
		if d.api.bundled > 0 {
			r.Count("feature:graph-with-bundled-node", 1)
		}
		if d.skipped == "" && d.class == "" {
			maxCalls(r, d.api.calls)
		}
		if len(v.Bundled) > 0 || d.api.bundled > 0 {
			r.Nontrivial(c.Note + "|" + root[0] + "@" + root[1])
			if _, done := sampled.LoadOrStore(bundleDepth(v.Bundled), true); !done && d.class == "" && d.skipped == "" {
				r.Sample(map[string]any{"root": root, "bundle_depth": bundleDepth(v.Bundled), "client_calls": d.api.calls, "registry_versions": len(u.Versions), "graph": d.api.enc})
			}
		}
		if d.class == "" {
			continue
		}
		cc := c
		cc.Kind, cc.Root, cc.Class = "diff", root, d.class
		what := d.what
		reportMu.Lock()
		if shrink && shrinkWorthwhile(d.class) {
			cc.Registry = shrinkRegistry(reg, root, 250, func(s *Registry) bool {
				e.serve(s, c.OrderSeed)
				su := Encode(s)
				return differential(s, resolve.NewAPIClient(e.cli), su.Client(nil), stepBudget(su), npmVK(root[0], root[1], resolve.Concrete)).class == d.class
			})
			e.serve(cc.Registry, c.OrderSeed)
			su := Encode(cc.Registry)
			if d2 := differential(cc.Registry, resolve.NewAPIClient(e.cli), su.Client(nil), stepBudget(su), npmVK(root[0], root[1], resolve.Concrete)); d2.class == d.class {
				what = d2.what
			}
			e.serve(reg, c.OrderSeed)
		}
		r.Violation("C18:"+d.class, fmt.Sprintf("root %s@%s: %s\nregistry:\n%s", root[0], root[1], what, clip(cc.Registry.describe(), 6000)), cc)
		reportMu.Unlock()
	}
}

func safeInvariants(e *env, reg *Registry, order [][2]string) (fs []finding, st invStats, panicked string) {
	defer func() {
		if p := recover(); p != nil {
			panicked = fmt.Sprint(p)
		}
	}()
	fs, st = checkInvariants(resolve.NewAPIClient(e.cli), reg, order)
	return
}

func runReplay(r *ev.Run, path string) {
	var f struct {
		Class string `json:"class"`
		Case  Case   `json:"case"`
	}
	if err := ev.ReadJSON(path, &f); err != nil {
		// a race report's case is text, not a Case
		var g struct {
			Class string `json:"class"`
		}
		if err2 := ev.ReadJSON(path, &g); err2 != nil || !strings.HasPrefix(g.Class, "C18:race") {
			r.Inconclusive("replay unreadable: " + err.Error())
			return
		}
		f.Class = g.Class
	}
	switch {
	case strings.HasPrefix(f.Class, "C18:race"):
		// A race report has no input to re-execute other than the workload itself.
		if why := runConcurrentPart(r); why != "" {
			inProcess(r, why)
		}
	case f.Case.Kind == "conc" && f.Case.Conc != nil && f.Case.Registry != nil:
		st := newConcStats()
		replayConc(f.Case, r.N(300, 3000), st)
		fold(r, st)
	case f.Case.Registry != nil:
		e, err := newEnv(r.Rand("replay-env"))
		if err != nil {
			r.Inconclusive("cannot set up the in-process service: " + err.Error())
			return
		}
		defer e.close()
		runCase(r, e, f.Case, false)
	default:
		r.Inconclusive("replay file has no case")
	}
}
